// A small chain simulator around the real staking contract: bank, token factory, IBC transfer with
// escrow / sequence / ack / timeout / refund, ibc-hooks delivery, sub-message + reply dispatch and
// all-or-nothing transactions.  It executes the messages the contract really returns (decoded with an
// independent protobuf wire reader, not with the bindings under test) and records, for every call it
// makes into the contract, the contract-level op line that replays it on the Coq model.
use crate::fmt::*;
use crate::run::*;
use cosmwasm_std::{BankMsg, Coin, CosmosMsg, ReplyOn, Response, Uint128};
use std::collections::BTreeMap;

pub const ESCROW: &str = "escrow";

#[derive(Clone, Debug, PartialEq)]
pub enum PState {
    Flight,
    Delivered,
    Refunded,
}
#[derive(Clone, Debug)]
pub struct ChainPacket {
    pub seq: u64,
    pub sender: String,
    pub receiver: String,
    pub denom: String,
    pub amount: u128,
    pub state: PState,
    pub refund_kind: String, // "", "err", "timeout"
    pub callback: bool,
    pub channel: String,
    /// tag of the transaction that emitted it: stake | stake_lst | rewards | recover
    pub origin: String,
    pub timeout_ns: u64,
    pub memo: String,
}

#[derive(Clone, Default)]
pub struct Chain {
    pub bank: BTreeMap<(String, String), u128>,
    pub supply: BTreeMap<String, u128>,
    pub denom_admin: BTreeMap<String, String>,
    pub next_seq: u64,
    pub packets: BTreeMap<u64, ChainPacket>,
    pub native: BTreeMap<(String, String), u128>,
    pub channel_up: bool,
    pub oracle_posts: Vec<(String, String)>, // (contract, json)
}

impl Chain {
    pub fn bal(&self, a: &str, d: &str) -> u128 {
        *self.bank.get(&(a.to_string(), d.to_string())).unwrap_or(&0)
    }
    pub fn nbal(&self, a: &str, d: &str) -> u128 {
        *self.native.get(&(a.to_string(), d.to_string())).unwrap_or(&0)
    }
    fn add(&mut self, a: &str, d: &str, x: u128) {
        *self.bank.entry((a.to_string(), d.to_string())).or_insert(0) += x;
    }
    fn sub(&mut self, a: &str, d: &str, x: u128) -> Result<(), String> {
        let b = self.bal(a, d);
        if b < x {
            return Err(format!("insufficient funds: {a} has {b} {d}, needs {x}"));
        }
        self.bank.insert((a.to_string(), d.to_string()), b - x);
        Ok(())
    }
    pub fn send(&mut self, from: &str, to: &str, d: &str, x: u128) -> Result<(), String> {
        if x == 0 {
            return Err("invalid coins: zero amount".to_string());
        }
        if d.is_empty() {
            return Err("invalid coins: empty denom".to_string());
        }
        self.sub(from, d, x)?;
        self.add(to, d, x);
        Ok(())
    }
}

// ---------- independent protobuf wire reader ----------
#[derive(Debug, Clone)]
pub enum WVal {
    Varint(u64),
    Bytes(Vec<u8>),
}
pub fn wire_parse(b: &[u8]) -> Option<Vec<(u64, WVal)>> {
    let mut i = 0usize;
    let mut out = vec![];
    fn varint(b: &[u8], i: &mut usize) -> Option<u64> {
        let mut v: u64 = 0;
        let mut shift = 0u32;
        loop {
            let x = *b.get(*i)?;
            *i += 1;
            if shift >= 64 {
                return None;
            }
            v |= ((x & 0x7f) as u64) << shift;
            if x & 0x80 == 0 {
                return Some(v);
            }
            shift += 7;
        }
    }
    while i < b.len() {
        let k = varint(b, &mut i)?;
        let (tag, wt) = (k >> 3, k & 7);
        match wt {
            0 => out.push((tag, WVal::Varint(varint(b, &mut i)?))),
            2 => {
                let l = varint(b, &mut i)? as usize;
                if i + l > b.len() {
                    return None;
                }
                out.push((tag, WVal::Bytes(b[i..i + l].to_vec())));
                i += l;
            }
            _ => return None,
        }
    }
    Some(out)
}
pub fn w_str(f: &[(u64, WVal)], tag: u64) -> String {
    for (t, v) in f.iter().rev() {
        if *t == tag {
            if let WVal::Bytes(b) = v {
                return String::from_utf8_lossy(b).into_owned();
            }
        }
    }
    String::new()
}
pub fn w_u64(f: &[(u64, WVal)], tag: u64) -> u64 {
    for (t, v) in f.iter().rev() {
        if *t == tag {
            if let WVal::Varint(x) = v {
                return *x;
            }
        }
    }
    0
}
pub fn w_msgs(f: &[(u64, WVal)], tag: u64) -> Vec<Vec<(u64, WVal)>> {
    f.iter()
        .filter(|(t, _)| *t == tag)
        .filter_map(|(_, v)| if let WVal::Bytes(b) = v { wire_parse(b) } else { None })
        .collect()
}
pub fn w_coin(f: &[(u64, WVal)]) -> Option<(String, u128)> {
    let d = w_str(f, 1);
    let a = w_str(f, 2).parse::<u128>().ok()?;
    Some((d, a))
}

/// What the chain saw the contract emit, decoded (for monitors).
#[derive(Clone, Debug)]
pub enum Seen {
    BankSend { to: String, denom: String, amount: u128 },
    Send { from: String, to: String, denom: String, amount: u128 },
    Mint { sender: String, denom: String, amount: u128, to: String, url: String },
    Burn { sender: String, denom: String, amount: u128, from: String, url: String },
    CreateDenom { sender: String, sub: String, url: String },
    Transfer { channel: String, receiver: String, denom: String, amount: u128, sender: String, timeout: u64, memo: String, seq: u64, sub_id: u64, reply: bool },
    Oracle { contract: String, json: String },
    Other(String),
}

pub struct World {
    pub sim: Sim,
    pub chain: Chain,
    pub now_ns: u64,
    pub ops: Vec<String>,     // contract-level op lines (replayable by `mwh run` and by the model)
    pub events: Vec<String>,  // world-level event lines
    pub seen: Vec<Seen>,      // messages of the last committed transaction
    pub last_tx_ok: bool,
    pub last_fail: String,
    pub tf_urls: (String, String),
    /// `extreme` only: the next successful sub-message is answered with a malformed reply ("nodata" | "baddata")
    pub bad_reply_next: Option<&'static str>,
}

impl World {
    pub fn new(backend: &str, me: &str, t0: u64) -> World {
        let mut chain = Chain::default();
        chain.next_seq = 1;
        chain.channel_up = true;
        World {
            sim: Sim::new(backend, me),
            chain,
            now_ns: t0,
            ops: vec![format!("cfg {} {}", backend, hs(me))],
            events: vec![],
            seen: vec![],
            last_tx_ok: false,
            last_fail: String::new(),
            tf_urls: (String::new(), String::new()),
            bad_reply_next: None,
        }
    }

    /// Dispatches the messages of a contract response; Err aborts the transaction.
    fn dispatch(&mut self, resp: &Response, origin: &str) -> Result<Vec<Seen>, String> {
        let me = self.sim.me.clone();
        let mut seen = vec![];
        let mut transfers_in_tx = 0;
        for sm in resp.messages.iter() {
            let snapshot = self.chain.clone();
            let r: Result<(Seen, Option<u64>), String> = match &sm.msg {
                CosmosMsg::Bank(BankMsg::Send { to_address, amount }) => {
                    let mut res = Ok(());
                    for c in amount {
                        if res.is_ok() {
                            res = self.chain.send(&me, to_address, &c.denom, c.amount.u128());
                        }
                    }
                    if amount.is_empty() {
                        res = Err("invalid coins: empty".to_string());
                    }
                    let (d, a) = amount.first().map(|c| (c.denom.clone(), c.amount.u128())).unwrap_or_default();
                    res.map(|_| (Seen::BankSend { to: to_address.clone(), denom: d, amount: a }, None))
                }
                CosmosMsg::Stargate { type_url, value } => self.stargate(&me, type_url, value.as_slice(), sm.id, sm.reply_on != ReplyOn::Never, origin, &mut transfers_in_tx),
                other => Err(format!("unsupported message {:?}", other)),
            };
            match (&r, &sm.reply_on) {
                (Ok((s, seq)), ReplyOn::Always) | (Ok((s, seq)), ReplyOn::Success) => {
                    seen.push(s.clone());
                    let seq = seq.unwrap_or(0);
                    if let Some(kind) = self.bad_reply_next.take() {
                        self.ops.push(format!("reply {} {}", sm.id, kind));
                        let c = self.sim.reply(sm.id, kind, 0);
                        if c != Class::Ok {
                            return Err(format!("malformed reply refused: {}", self.sim.last_err));
                        }
                    }
                    self.ops.push(format!("reply {} ok {}", sm.id, seq));
                    let c = self.sim.reply(sm.id, "ok", seq);
                    if c != Class::Ok {
                        return Err(format!("reply failed: {}", self.sim.last_err));
                    }
                }
                (Ok((s, _)), _) => seen.push(s.clone()),
                (Err(e), ReplyOn::Always) | (Err(e), ReplyOn::Error) => {
                    // the message's own effects are reverted, the contract is told
                    self.chain = snapshot;
                    self.ops.push(format!("reply {} err", sm.id));
                    let c = self.sim.reply(sm.id, "err", 0);
                    if c != Class::Ok {
                        return Err(format!("submessage failed ({e}) and reply failed: {}", self.sim.last_err));
                    }
                }
                (Err(e), _) => return Err(e.clone()),
            }
        }
        Ok(seen)
    }

    #[allow(clippy::too_many_arguments)]
    fn stargate(&mut self, me: &str, url: &str, value: &[u8], sub_id: u64, reply: bool, origin: &str, transfers_in_tx: &mut u32) -> Result<(Seen, Option<u64>), String> {
        let f = wire_parse(value).ok_or("undecodable protobuf")?;
        match url {
            "/cosmos.bank.v1beta1.MsgSend" => {
                let from = w_str(&f, 1);
                let to = w_str(&f, 2);
                if from != me {
                    return Err("MsgSend: signer is not the contract".into());
                }
                let coins = w_msgs(&f, 3);
                if coins.len() != 1 {
                    return Err("MsgSend: expected one coin".into());
                }
                let (d, a) = w_coin(&coins[0]).ok_or("bad coin")?;
                self.chain.send(me, &to, &d, a)?;
                Ok((Seen::Send { from, to, denom: d, amount: a }, None))
            }
            "/osmosis.tokenfactory.v1beta1.MsgCreateDenom" | "/miniwasm.tokenfactory.v1.MsgCreateDenom" => {
                let sender = w_str(&f, 1);
                let sub = w_str(&f, 2);
                if sender != me {
                    return Err("CreateDenom: signer is not the contract".into());
                }
                let denom = format!("factory/{}/{}", sender, sub);
                if self.chain.denom_admin.contains_key(&denom) {
                    return Err("denom exists".into());
                }
                self.chain.denom_admin.insert(denom, sender.clone());
                Ok((Seen::CreateDenom { sender, sub, url: url.to_string() }, None))
            }
            "/osmosis.tokenfactory.v1beta1.MsgMint" | "/miniwasm.tokenfactory.v1.MsgMint" => {
                let sender = w_str(&f, 1);
                let coin = w_msgs(&f, 2);
                let to = w_str(&f, 3);
                if sender != me || coin.len() != 1 {
                    return Err("MsgMint: bad signer or amount".into());
                }
                let (d, a) = w_coin(&coin[0]).ok_or("bad coin")?;
                if self.chain.denom_admin.get(&d) != Some(&sender) {
                    return Err("MsgMint: not the denom admin".into());
                }
                if a == 0 {
                    return Err("MsgMint: zero amount".into());
                }
                let to_eff = if to.is_empty() { sender.clone() } else { to.clone() };
                self.chain.add(&to_eff, &d, a);
                *self.chain.supply.entry(d.clone()).or_insert(0) += a;
                Ok((Seen::Mint { sender, denom: d, amount: a, to: to_eff, url: url.to_string() }, None))
            }
            "/osmosis.tokenfactory.v1beta1.MsgBurn" | "/miniwasm.tokenfactory.v1.MsgBurn" => {
                let sender = w_str(&f, 1);
                let coin = w_msgs(&f, 2);
                let from = w_str(&f, 3);
                if sender != me || coin.len() != 1 {
                    return Err("MsgBurn: bad signer or amount".into());
                }
                let (d, a) = w_coin(&coin[0]).ok_or("bad coin")?;
                if self.chain.denom_admin.get(&d) != Some(&sender) {
                    return Err("MsgBurn: not the denom admin".into());
                }
                if a == 0 {
                    return Err("MsgBurn: zero amount".into());
                }
                let from_eff = if from.is_empty() { sender.clone() } else { from.clone() };
                self.chain.sub(&from_eff, &d, a)?;
                let s = self.chain.supply.entry(d.clone()).or_insert(0);
                *s -= a;
                Ok((Seen::Burn { sender, denom: d, amount: a, from: from_eff, url: url.to_string() }, None))
            }
            "/cosmwasm.wasm.v1.MsgExecuteContract" => {
                let contract = w_str(&f, 2);
                let json = w_str(&f, 3);
                self.chain.oracle_posts.push((contract.clone(), json.clone()));
                Ok((Seen::Oracle { contract, json }, None))
            }
            "/ibc.applications.transfer.v1.MsgTransfer" => {
                let port = w_str(&f, 1);
                let channel = w_str(&f, 2);
                let coin = w_msgs(&f, 3);
                let sender = w_str(&f, 4);
                let receiver = w_str(&f, 5);
                let timeout = w_u64(&f, 7);
                let memo = w_str(&f, 8);
                if !self.chain.channel_up {
                    return Err("channel closed".into());
                }
                if port != "transfer" || sender != me || coin.len() != 1 {
                    return Err("MsgTransfer: malformed".into());
                }
                if timeout <= self.now_ns {
                    return Err("MsgTransfer: timeout in the past".into());
                }
                let (d, a) = w_coin(&coin[0]).ok_or("bad coin")?;
                self.chain.send(me, ESCROW, &d, a)?;
                let seq = self.chain.next_seq;
                self.chain.next_seq += 1;
                *transfers_in_tx += 1;
                let origin = if origin == "stake" && *transfers_in_tx > 1 { "stake_lst" } else { origin };
                self.chain.packets.insert(
                    seq,
                    ChainPacket {
                        seq,
                        sender: sender.clone(),
                        receiver: receiver.clone(),
                        denom: d.clone(),
                        amount: a,
                        state: PState::Flight,
                        refund_kind: String::new(),
                        callback: memo.contains("ibc_callback"),
                        channel: channel.clone(),
                        origin: origin.to_string(),
                        timeout_ns: timeout,
                        memo: memo.clone(),
                    },
                );
                Ok((Seen::Transfer { channel, receiver, denom: d, amount: a, sender, timeout, memo, seq, sub_id, reply }, Some(seq)))
            }
            other => Ok((Seen::Other(other.to_string()), None)),
        }
    }

    /// One transaction: [funds transfer] + contract call + message dispatch, all or nothing.
    /// `call` performs the contract call on self.sim and must push its op line first.
    fn tx(&mut self, origin: &str, funds_from: Option<(&str, &[Coin])>, call: impl FnOnce(&mut World) -> Class) -> bool {
        let snap_chain = self.chain.clone();
        let snap_store = clone_storage(&self.sim.deps.storage);
        let snap_inst = self.sim.inst;
        self.ops.push("tx_begin".to_string());
        self.seen.clear();
        let me = self.sim.me.clone();
        let mut fail: Option<String> = None;
        if let Some((from, coins)) = funds_from {
            for c in coins {
                if fail.is_none() {
                    if let Err(e) = self.chain.send(from, &me, &c.denom, c.amount.u128()) {
                        fail = Some(e);
                    }
                }
            }
        }
        if fail.is_none() {
            let c = call(self);
            if c != Class::Ok {
                fail = Some(format!("contract {}: {}", c.s(), self.sim.last_err));
            } else {
                let resp = self.sim.last_resp.clone().unwrap();
                match self.dispatch(&resp, origin) {
                    Ok(seen) => self.seen = seen,
                    Err(e) => fail = Some(e),
                }
            }
        }
        match fail {
            None => {
                self.ops.push("tx_commit".to_string());
                self.last_tx_ok = true;
                self.last_fail.clear();
                true
            }
            Some(e) => {
                self.chain = snap_chain;
                self.sim.deps.storage = snap_store;
                self.sim.inst = snap_inst;
                self.ops.push("tx_abort".to_string());
                self.last_tx_ok = false;
                self.last_fail = e;
                self.seen.clear();
                false
            }
        }
    }

    pub fn instantiate(&mut self, sender: &str, msg: staking::msg::InstantiateMsg, line: String) -> bool {
        let t = self.now_ns;
        let s = sender.to_string();
        self.events.push(format!("w_inst {}", line));
        self.tx("inst", None, move |w| {
            w.ops.push(format!("inst {} {} {}", t, hs(&s), line));
            w.sim.instantiate(t, &s, msg)
        })
    }

    /// A user / admin transaction on the protocol chain.
    pub fn exec(&mut self, txi: Option<u32>, sender: &str, funds: Vec<Coin>, variant: &str) -> bool {
        let t = self.now_ns;
        let s = sender.to_string();
        let toks: Vec<&str> = variant.split(' ').collect();
        let msg = parse_exec(&toks);
        let origin = match toks[0] {
            "stake" => "stake",
            "rewards" => "rewards",
            "recover" => "recover",
            x => x,
        }
        .to_string();
        let fstr = s_list(&funds, s_coin);
        let txs = s_opt(&txi, |x| x.to_string());
        self.events.push(format!("w_tx {} {} {} {} {}", t, txs, hs(&s), fstr, variant));
        let f2 = funds.clone();
        let v = variant.to_string();
        self.tx(&origin, Some((sender, &funds)), move |w| {
            w.ops.push(format!("exec {} {} {} {} {}", t, txs, hs(&s), fstr, v));
            w.sim.execute(t, txi, &s, f2, msg)
        })
    }

    /// ibc-hooks: a native-chain account sends `amount` of the staked asset with a wasm memo; the
    /// contract is executed by the derived intermediate account with the coin as funds.  On failure the
    /// coin is returned to the native sender.
    pub fn hook(&mut self, native_sender: &str, channel: &str, prefix: &str, native_denom_key: &str, denom: &str, amount: u128, variant: &str) -> bool {
        let nb = self.chain.nbal(native_sender, native_denom_key);
        if nb < amount || amount == 0 {
            self.last_tx_ok = false;
            self.last_fail = "native sender lacks funds".to_string();
            return false;
        }
        let hook = crate::gen::hook_account(channel, native_sender, prefix);
        self.events.push(format!("w_hook {} {} {} {}", self.now_ns, hs(native_sender), amount, variant));
        // the voucher is minted to the intermediate account, which then pays the contract
        self.chain.native.insert((native_sender.to_string(), native_denom_key.to_string()), nb - amount);
        self.chain.add(&hook, denom, amount);
        let t = self.now_ns;
        let toks: Vec<&str> = variant.split(' ').collect();
        let msg = parse_exec(&toks);
        let funds = vec![Coin { denom: denom.to_string(), amount: Uint128::new(amount) }];
        let fstr = s_list(&funds, s_coin);
        let origin = toks[0].to_string();
        let v = variant.to_string();
        let h2 = hook.clone();
        let f2 = funds.clone();
        let ok = self.tx(&origin, Some((&hook, &funds)), move |w| {
            w.ops.push(format!("exec {} - {} {} {}", t, hs(&h2), fstr, v));
            w.sim.execute(t, None, &h2, f2, msg)
        });
        if !ok {
            // refund to the native sender
            let _ = self.chain.sub(&hook, denom, amount);
            let nb = self.chain.nbal(native_sender, native_denom_key);
            self.chain.native.insert((native_sender.to_string(), native_denom_key.to_string()), nb + amount);
        }
        ok
    }

    /// Relayer outcome for an in-flight packet.
    pub fn relay(&mut self, seq: u64, outcome: &str) -> bool {
        let Some(p) = self.chain.packets.get(&seq).cloned() else { return false };
        if p.state != PState::Flight {
            return false;
        }
        self.events.push(format!("w_relay {} {} {}", self.now_ns, seq, outcome));
        let mut p2 = p.clone();
        match outcome {
            "ok" => {
                self.chain.sub(ESCROW, &p.denom, p.amount).expect("escrow holds the packet");
                let k = (p.receiver.clone(), p.denom.clone());
                *self.chain.native.entry(k).or_insert(0) += p.amount;
                p2.state = PState::Delivered;
            }
            _ => {
                self.chain.sub(ESCROW, &p.denom, p.amount).expect("escrow holds the packet");
                self.chain.add(&p.sender, &p.denom, p.amount);
                p2.state = PState::Refunded;
                p2.refund_kind = outcome.to_string();
            }
        }
        self.chain.packets.insert(seq, p2);
        if p.callback {
            // the callback runs in its own transaction; its failure does not undo the refund
            self.ops.push(format!("# relay {} {}", seq, outcome));
            self.ops.push("tx_begin".to_string());
            let c = if outcome == "timeout" {
                self.ops.push(format!("sudo timeout {} {}", hs(&p.channel), seq));
                self.sim.sudo_timeout(&p.channel, seq)
            } else {
                self.ops.push(format!("sudo ack {} {} {}", hs(&p.channel), seq, s_bool(outcome == "ok")));
                self.sim.sudo_ack(&p.channel, seq, outcome == "ok")
            };
            self.ops.push(if c == Class::Ok { "tx_commit" } else { "tx_abort" }.to_string());
        }
        true
    }

    /// A sudo callback that does not correspond to any packet event of this contract.
    pub fn stray(&mut self, channel: &str, seq: u64, kind: &str) {
        self.events.push(format!("w_stray {} {} {} {}", self.now_ns, hs(channel), seq, kind));
        self.ops.push("# stray".to_string());
        self.ops.push("tx_begin".to_string());
        let c = match kind {
            "timeout" => {
                self.ops.push(format!("sudo timeout {} {}", hs(channel), seq));
                self.sim.sudo_timeout(channel, seq)
            }
            k => {
                self.ops.push(format!("sudo ack {} {} {}", hs(channel), seq, s_bool(k == "ack_ok")));
                self.sim.sudo_ack(channel, seq, k == "ack_ok")
            }
        };
        self.ops.push(if c == Class::Ok { "tx_commit" } else { "tx_abort" }.to_string());
    }

    pub fn faucet(&mut self, addr: &str, denom: &str, amount: u128) {
        self.events.push(format!("w_faucet {} {} {}", hs(addr), hs(denom), amount));
        self.chain.add(addr, denom, amount);
    }
    pub fn native_faucet(&mut self, addr: &str, denom: &str, amount: u128) {
        self.events.push(format!("w_nfaucet {} {} {}", hs(addr), hs(denom), amount));
        *self.chain.native.entry((addr.to_string(), denom.to_string())).or_insert(0) += amount;
    }
    pub fn tick(&mut self, dt: u64) {
        self.events.push(format!("w_tick {}", dt));
        self.now_ns += dt;
    }
    pub fn set_channel(&mut self, up: bool) {
        self.events.push(format!("w_channel {}", s_bool(up)));
        self.chain.channel_up = up;
    }
}
