// Executes op lines against the real contracts (unmodified crates of /repo) and prints the
// canonical observations that the extracted Coq model prints for the same ops.
use crate::fmt::*;
use cosmwasm_std::testing::{mock_env, MockApi, MockQuerier, MockStorage};
use cosmwasm_std::{
    from_json, Addr, Api, BankMsg, Binary, BlockInfo, CanonicalAddr, Coin, ContractInfo, CosmosMsg,
    Env, MessageInfo, Order, OwnedDeps, RecoverPubkeyError, Reply, ReplyOn, Response, StdError,
    StdResult, Storage, SubMsgResponse, SubMsgResult, Timestamp, TransactionInfo, Uint128,
    VerificationError,
};
use std::marker::PhantomData;
use std::panic::{catch_unwind, AssertUnwindSafe};

#[derive(serde::Serialize, serde::Deserialize, Clone, Debug, PartialEq)]
#[serde(rename_all = "snake_case")]
pub enum LegStatus {
    Sent,
    AckSuccess,
    AckFailure,
    TimedOut,
}
#[derive(serde::Serialize, serde::Deserialize, Clone, Debug, PartialEq)]
pub struct LegTransfer {
    pub sequence: u64,
    pub amount: u128,
    pub status: LegStatus,
}
#[derive(serde::Serialize, serde::Deserialize, Clone, Debug, PartialEq)]
pub struct LegWaiting {
    pub amount: u128,
}
pub const LEG_INFLIGHT: cw_storage_plus::Map<u64, LegTransfer> = cw_storage_plus::Map::new("inflight");
pub const LEG_WAITING: cw_storage_plus::Map<u64, LegWaiting> = cw_storage_plus::Map::new("ibc_waiting_for_reply");

pub const CHAIN_PREFIX: &str = "osmo";

/// Api of the protocol chain: addr_validate accepts exactly the lower-case Bech32 strings under
/// the chain prefix (what wasmd's does); everything else is MockApi.
#[derive(Clone, Copy)]
pub struct ChainApi(pub MockApi);
impl Api for ChainApi {
    fn addr_validate(&self, human: &str) -> StdResult<Addr> {
        match bech32::decode(human) {
            Ok((hrp, _, bech32::Variant::Bech32))
                if hrp == CHAIN_PREFIX && human == human.to_lowercase() =>
            {
                Ok(Addr::unchecked(human))
            }
            _ => Err(StdError::generic_err("invalid address")),
        }
    }
    fn addr_canonicalize(&self, human: &str) -> StdResult<CanonicalAddr> {
        self.0.addr_canonicalize(human)
    }
    fn addr_humanize(&self, canonical: &CanonicalAddr) -> StdResult<Addr> {
        self.0.addr_humanize(canonical)
    }
    fn secp256k1_verify(&self, a: &[u8], b: &[u8], c: &[u8]) -> Result<bool, VerificationError> {
        self.0.secp256k1_verify(a, b, c)
    }
    fn secp256k1_recover_pubkey(&self, a: &[u8], b: &[u8], c: u8) -> Result<Vec<u8>, RecoverPubkeyError> {
        self.0.secp256k1_recover_pubkey(a, b, c)
    }
    fn ed25519_verify(&self, a: &[u8], b: &[u8], c: &[u8]) -> Result<bool, VerificationError> {
        self.0.ed25519_verify(a, b, c)
    }
    fn ed25519_batch_verify(&self, a: &[&[u8]], b: &[&[u8]], c: &[&[u8]]) -> Result<bool, VerificationError> {
        self.0.ed25519_batch_verify(a, b, c)
    }
    fn debug(&self, _m: &str) {}
}

pub type Deps = OwnedDeps<MockStorage, ChainApi, MockQuerier>;
pub fn new_deps() -> Deps {
    OwnedDeps {
        storage: MockStorage::default(),
        api: ChainApi(MockApi::default()),
        querier: MockQuerier::default(),
        custom_query_type: PhantomData,
    }
}
pub fn clone_storage(s: &MockStorage) -> MockStorage {
    let mut n = MockStorage::default();
    for (k, v) in s.range(None, None, Order::Ascending) {
        n.set(&k, &v);
    }
    n
}

pub fn mk_env(t_ns: u64, txi: Option<u32>, me: &str) -> Env {
    let mut e = mock_env();
    e.block = BlockInfo { height: 1, time: Timestamp::from_nanos(t_ns), chain_id: "sim".to_string() };
    e.transaction = txi.map(|index| TransactionInfo { index });
    e.contract = ContractInfo { address: Addr::unchecked(me) };
    e
}

#[derive(PartialEq, Clone, Copy, Debug)]
pub enum Class {
    Ok,
    Err,
    Panic,
}
impl Class {
    pub fn s(&self) -> &'static str {
        match self {
            Class::Ok => "ok",
            Class::Err => "err",
            Class::Panic => "panic",
        }
    }
}

pub struct Sim {
    pub backend: String,
    pub me: String,
    pub deps: Deps,
    pub tdeps: Deps,
    pub inst: bool,
    pub tinst: bool,
    pub step: u64,
    pub out: Vec<String>,
    /// last result of an entry point call
    pub last: Class,
    pub last_resp: Option<Response>,
    pub last_err: String,
    pub tx_snap: Option<(MockStorage, bool)>,
    pub ttx_snap: Option<(MockStorage, bool)>,
    /// migration stream: 1 = 0.4.18 layout, 2 = 0.4.20, 3 = 1.0.0, 4 = current
    pub mlayout: u8,
    pub msnap_layout: u8,
}

fn s_status(s: &milky_way::staking::BatchStatus) -> &'static str {
    s.as_str()
}
fn s_pstatus(s: &staking::state::ibc::PacketLifecycleStatus) -> &'static str {
    use staking::state::ibc::PacketLifecycleStatus::*;
    match s {
        Sent => "sent",
        AckSuccess => "ack_success",
        AckFailure => "ack_failure",
        TimedOut => "timed_out",
    }
}

pub fn p_native(t: &str) -> staking::types::UnsafeNativeChainConfig {
    let r = p_rec(t);
    staking::types::UnsafeNativeChainConfig {
        account_address_prefix: unhex(r[0]),
        validator_address_prefix: unhex(r[1]),
        token_denom: unhex(r[2]),
        validators: p_list(r[3], unhex),
        unbonding_period: p_u64(r[4]),
        staker_address: unhex(r[5]),
        reward_collector_address: unhex(r[6]),
    }
}
pub fn p_protocol(t: &str) -> staking::types::UnsafeProtocolChainConfig {
    let r = p_rec(t);
    staking::types::UnsafeProtocolChainConfig {
        account_address_prefix: unhex(r[0]),
        ibc_token_denom: unhex(r[1]),
        ibc_channel_id: unhex(r[2]),
        minimum_liquid_stake_amount: Uint128::new(p_u128(r[3])),
        oracle_address: p_opt(r[4], unhex),
    }
}
pub fn p_fee(t: &str) -> staking::types::UnsafeProtocolFeeConfig {
    let r = p_rec(t);
    staking::types::UnsafeProtocolFeeConfig {
        dao_treasury_fee: Uint128::new(p_u128(r[0])),
        treasury_address: p_opt(r[1], unhex),
    }
}
fn p_hop(t: &str) -> treasury::state::SwapRoute {
    let v: Vec<&str> = t.split('/').collect();
    treasury::state::SwapRoute {
        pool_id: p_u64(v[0]),
        token_in_denom: unhex(v[1]),
        token_out_denom: unhex(v[2]),
    }
}
fn p_route(t: &str) -> Vec<treasury::state::SwapRoute> {
    p_list(t, p_hop)
}
fn p_routes(t: &str) -> Vec<Vec<treasury::state::SwapRoute>> {
    assert!(t.starts_with('{') && t.ends_with('}'));
    let inner = &t[1..t.len() - 1];
    if inner.is_empty() {
        vec![]
    } else {
        inner.split(';').map(p_route).collect()
    }
}
fn s_hop(h: &treasury::state::SwapRoute) -> String {
    format!("{}/{}/{}", h.pool_id, hs(&h.token_in_denom), hs(&h.token_out_denom))
}
fn s_routes(r: &[Vec<treasury::state::SwapRoute>]) -> String {
    format!("{{{}}}", r.iter().map(|x| s_list(x, s_hop)).collect::<Vec<_>>().join(";"))
}

pub fn parse_exec(toks: &[&str]) -> staking::msg::ExecuteMsg {
    use staking::msg::ExecuteMsg as E;
    match toks[0] {
        "stake" => E::LiquidStake {
            mint_to: p_opt(toks[1], unhex),
            transfer_to_native_chain: p_opt(toks[2], |t| t == "1"),
            expected_mint_amount: p_opt(toks[3], |t| Uint128::new(p_u128(t))),
        },
        "unstake" => E::LiquidUnstake {},
        "submit" => E::SubmitBatch {},
        "withdraw" => E::Withdraw { batch_id: p_u64(toks[1]) },
        "addval" => E::AddValidator { new_validator: unhex(toks[1]) },
        "rmval" => E::RemoveValidator { validator: unhex(toks[1]) },
        "xfer_own" => E::TransferOwnership { new_owner: unhex(toks[1]) },
        "accept_own" => E::AcceptOwnership {},
        "revoke_own" => E::RevokeOwnershipTransfer {},
        "updcfg" => E::UpdateConfig {
            native_chain_config: p_opt(toks[1], p_native),
            protocol_chain_config: p_opt(toks[2], p_protocol),
            protocol_fee_config: p_opt(toks[3], p_fee),
            monitors: p_opt(toks[4], |t| p_list(t, unhex)),
            batch_period: p_opt(toks[5], p_u64),
        },
        "rewards" => E::ReceiveRewards {},
        "unstaked" => E::ReceiveUnstakedTokens { batch_id: p_u64(toks[1]) },
        "breaker" => E::CircuitBreaker {},
        "resume" => E::ResumeContract {
            total_native_token: Uint128::new(p_u128(toks[1])),
            total_liquid_stake_token: Uint128::new(p_u128(toks[2])),
            total_reward_amount: Uint128::new(p_u128(toks[3])),
        },
        "recover" => E::RecoverPendingIbcTransfers {
            paginated: p_opt(toks[1], |t| t == "1"),
            selected_packets: p_opt(toks[2], |t| p_list(t, p_u64)),
            receiver: p_opt(toks[3], unhex),
        },
        "feewd" => E::FeeWithdraw { amount: Uint128::new(p_u128(toks[1])) },
        x => panic!("bad exec variant {x}"),
    }
}

impl Sim {
    pub fn new(backend: &str, me: &str) -> Sim {
        Sim {
            backend: backend.to_string(),
            me: me.to_string(),
            deps: new_deps(),
            tdeps: new_deps(),
            inst: false,
            tinst: false,
            step: 0,
            out: vec![],
            last: Class::Err,
            last_resp: None,
            last_err: String::new(),
            tx_snap: None,
            ttx_snap: None,
            mlayout: 0,
            msnap_layout: 0,
        }
    }
    fn emit(&mut self, s: String) {
        self.out.push(format!("#{} {}", self.step, s));
    }

    /// Runs an entry point with the runtime's rollback rule: the storage is restored unless Ok.
    pub fn call<E: std::fmt::Display>(
        &mut self,
        treasury: bool,
        f: impl FnOnce(&mut Deps) -> Result<Response, E>,
    ) -> Class {
        let deps = if treasury { &mut self.tdeps } else { &mut self.deps };
        let snap = clone_storage(&deps.storage);
        let r = catch_unwind(AssertUnwindSafe(|| f(deps)));
        let (class, resp, err) = match r {
            Ok(Ok(resp)) => (Class::Ok, Some(resp), String::new()),
            Ok(Err(e)) => (Class::Err, None, e.to_string()),
            Err(p) => {
                let m = if let Some(s) = p.downcast_ref::<String>() {
                    s.clone()
                } else if let Some(s) = p.downcast_ref::<&str>() {
                    s.to_string()
                } else {
                    "panic".to_string()
                };
                (Class::Panic, None, m)
            }
        };
        if class != Class::Ok {
            deps.storage = snap;
        }
        self.last = class;
        self.last_resp = resp;
        self.last_err = err;
        class
    }

    fn emit_result(&mut self) {
        let c = self.last;
        self.emit(format!("res {}", c.s()));
        if let Some(resp) = self.last_resp.clone() {
            for (k, sm) in resp.messages.iter().enumerate() {
                let reply = sm.reply_on != ReplyOn::Never;
                let body = match &sm.msg {
                    CosmosMsg::Bank(BankMsg::Send { to_address, amount }) => format!(
                        "bank {} {}",
                        hs(to_address),
                        amount.iter().map(s_coin).collect::<Vec<_>>().join("+")
                    ),
                    CosmosMsg::Stargate { type_url, value } => {
                        format!("stargate {} {}", hs(type_url), hex(value.as_slice()))
                    }
                    other => format!("other {:?}", other),
                };
                self.emit(format!("msg {} {} {} {}", k, sm.id, s_bool(reply), body));
            }
        }
    }

    fn dump_config(&mut self, c: &staking::state::Config, pfx: &str) {
        let n = &c.native_chain_config;
        let p = &c.protocol_chain_config;
        let f = &c.protocol_fee_config;
        self.emit(format!(
            "{}cfg.native {} {} {} {} {} {} {}",
            pfx,
            hs(&n.account_address_prefix),
            hs(&n.validator_address_prefix),
            hs(&n.token_denom),
            s_list(&n.validators, |a| hs(a.as_str())),
            n.unbonding_period,
            hs(n.staker_address.as_str()),
            hs(n.reward_collector_address.as_str())
        ));
        self.emit(format!(
            "{}cfg.protocol {} {} {} {} {}",
            pfx,
            hs(&p.account_address_prefix),
            hs(&p.ibc_channel_id),
            hs(&p.ibc_token_denom),
            p.minimum_liquid_stake_amount.u128(),
            s_opt(&p.oracle_address, |a| hs(a.as_str()))
        ));
        self.emit(format!(
            "{}cfg.fee {} {}",
            pfx,
            f.dao_treasury_fee.u128(),
            s_opt(&f.treasury_address, |a| hs(a.as_str()))
        ));
        self.emit(format!(
            "{}cfg.misc {} {} {} {}",
            pfx,
            hs(&c.liquid_stake_token_denom),
            s_list(&c.monitors, |a| hs(a.as_str())),
            c.batch_period,
            s_bool(c.stopped)
        ));
    }

    pub fn dump_store(&mut self) {
        use staking::state::*;
        if !self.inst {
            self.emit("st.none".to_string());
            return;
        }
        let st: &dyn Storage = &self.deps.storage;
        let cfg = CONFIG.load(st).unwrap();
        let x = STATE.load(st).unwrap();
        let admin = ADMIN.get(self.deps.as_ref()).unwrap();
        let pending = PENDING_BATCH_ID.load(st).unwrap();
        let batches: Vec<_> = BATCHES.range(st, None, None, Order::Ascending).map(|r| r.unwrap().1).collect();
        let reqs: Vec<_> = unstake_requests().range(st, None, None, Order::Ascending).map(|r| r.unwrap().1).collect();
        let pkts: Vec<_> = INFLIGHT_PACKETS.range(st, None, None, Order::Ascending).map(|r| r.unwrap()).collect();
        let waits: Vec<_> = IBC_WAITING_FOR_REPLY.range(st, None, None, Order::Ascending).map(|r| r.unwrap()).collect();
        let ver = cw2::get_contract_version(st).unwrap();
        self.dump_config(&cfg, "st.");
        self.emit(format!(
            "st.state {} {} {} {} {} {}",
            x.total_native_token.u128(),
            x.total_liquid_stake_token.u128(),
            x.total_reward_amount.u128(),
            x.total_fees.u128(),
            s_opt(&x.pending_owner, |a| hs(a.as_str())),
            s_opt(&x.owner_transfer_min_time, |t| t.seconds().to_string())
        ));
        self.emit(format!("st.admin {}", s_opt(&admin, |a| hs(a.as_str()))));
        self.emit(format!("st.pending {}", pending));
        for b in batches {
            self.emit(format!(
                "st.batch {} {} {} {} {} {} {}",
                b.id,
                b.batch_total_liquid_stake.u128(),
                s_opt(&b.expected_native_unstaked, |v| v.u128().to_string()),
                s_opt(&b.received_native_unstaked, |v| v.u128().to_string()),
                s_opt(&b.unstake_requests_count, |v| v.to_string()),
                s_opt(&b.next_batch_action_time, |v| v.to_string()),
                s_status(&b.status)
            ));
        }
        let mut rs: Vec<(u64, Vec<u8>, u128)> =
            reqs.iter().map(|r| (r.batch_id, r.user.as_bytes().to_vec(), r.amount.u128())).collect();
        rs.sort();
        for (b, u, a) in rs {
            self.emit(format!("st.req {} {} {}", b, hex(&u), a));
        }
        for (_, p) in pkts {
            self.emit(format!(
                "st.pkt {} {} {} {}",
                p.sequence,
                s_coin(&p.amount),
                hs(&p.receiver),
                s_pstatus(&p.status)
            ));
        }
        for (k, w) in waits {
            self.emit(format!("st.wait {} {} {}", k, s_coin(&w.amount), hs(&w.receiver)));
        }
        self.emit(format!("st.ver {} {}", hs(&ver.contract), hs(&ver.version)));
    }

    // ---- the released 1.0.0 storage layout, pinned here (namespaces, field names, status spelling) rather than taken
    // from the crate's own `migrations::states::v1_0_0`: a slip in those definitions must not hide itself from the
    // migration check by being used on both sides
    fn p_lpkts(t: &str) -> Vec<(u64, u128, staking::state::ibc::PacketLifecycleStatus)> {
        use staking::state::ibc::PacketLifecycleStatus as P;
        p_list(t, |x| {
            let v: Vec<&str> = x.split('/').collect();
            (
                p_u64(v[0]),
                p_u128(v[1]),
                match v[2] {
                    "sent" => P::Sent,
                    "ack_success" => P::AckSuccess,
                    "ack_failure" => P::AckFailure,
                    _ => P::TimedOut,
                },
            )
        })
    }
    fn p_lwaits(t: &str) -> Vec<(u64, u128)> {
        p_list(t, |x| {
            let v: Vec<&str> = x.split('/').collect();
            (p_u64(v[0]), p_u128(v[1]))
        })
    }

    /// Builds a pre-upgrade store with the repository's own legacy record types.
    pub fn setup_legacy(&mut self, t: &[&str]) {
        use staking::migrations::states::{v0_4_18, v0_4_20, v1_0_0};
        self.deps = new_deps();
        let a = |x: &str| Addr::unchecked(unhex(x));
        let al = |x: &str| p_list(x, |y| Addr::unchecked(unhex(y)));
        let (pk, wt);
        match t[0] {
            "leg0418" => {
                let c = v0_4_18::Config {
                    native_token_denom: unhex(t[1]),
                    liquid_stake_token_denom: unhex(t[2]),
                    treasury_address: a(t[3]),
                    operators: p_opt(t[4], al),
                    monitors: p_opt(t[5], al),
                    validators: al(t[6]),
                    batch_period: p_u64(t[7]),
                    unbonding_period: p_u64(t[8]),
                    protocol_fee_config: v0_4_18::ProtocolFeeConfig { dao_treasury_fee: Uint128::new(p_u128(t[9])) },
                    multisig_address_config: v0_4_18::MultisigAddressConfig { staker_address: a(t[10]), reward_collector_address: a(t[11]) },
                    minimum_liquid_stake_amount: Uint128::new(p_u128(t[12])),
                    ibc_channel_id: unhex(t[13]),
                    stopped: t[14] == "1",
                    oracle_contract_address: p_opt(t[15], a),
                    oracle_contract_address_v2: p_opt(t[16], a),
                    oracle_address: p_opt(t[17], a),
                };
                v0_4_18::CONFIG.save(&mut self.deps.storage, &c).unwrap();
                pk = t[18];
                wt = t[19];
                self.mlayout = 1;
            }
            "leg0420" => {
                let c = v0_4_20::Config {
                    native_token_denom: unhex(t[1]),
                    liquid_stake_token_denom: unhex(t[2]),
                    treasury_address: a(t[3]),
                    monitors: p_opt(t[4], al),
                    validators: al(t[5]),
                    batch_period: p_u64(t[6]),
                    unbonding_period: p_u64(t[7]),
                    protocol_fee_config: v0_4_18::ProtocolFeeConfig { dao_treasury_fee: Uint128::new(p_u128(t[8])) },
                    multisig_address_config: v0_4_18::MultisigAddressConfig { staker_address: a(t[9]), reward_collector_address: a(t[10]) },
                    minimum_liquid_stake_amount: Uint128::new(p_u128(t[11])),
                    ibc_channel_id: unhex(t[12]),
                    stopped: t[13] == "1",
                    oracle_address: p_opt(t[14], a),
                    send_fees_to_treasury: t[15] == "1",
                };
                v0_4_20::CONFIG.save(&mut self.deps.storage, &c).unwrap();
                pk = t[16];
                wt = t[17];
                self.mlayout = 2;
            }
            _ => {
                let n = p_rec(t[1]);
                let p = p_rec(t[2]);
                let f = p_rec(t[3]);
                let c = staking::state::Config {
                    native_chain_config: staking::state::NativeChainConfig {
                        account_address_prefix: unhex(n[0]),
                        validator_address_prefix: unhex(n[1]),
                        token_denom: unhex(n[2]),
                        validators: al(n[3]),
                        unbonding_period: p_u64(n[4]),
                        staker_address: a(n[5]),
                        reward_collector_address: a(n[6]),
                    },
                    protocol_chain_config: staking::state::ProtocolChainConfig {
                        account_address_prefix: unhex(p[0]),
                        ibc_token_denom: unhex(p[1]),
                        ibc_channel_id: unhex(p[2]),
                        minimum_liquid_stake_amount: Uint128::new(p_u128(p[3])),
                        oracle_address: p_opt(p[4], a),
                    },
                    protocol_fee_config: staking::state::ProtocolFeeConfig {
                        dao_treasury_fee: Uint128::new(p_u128(f[0])),
                        treasury_address: p_opt(f[1], a),
                    },
                    liquid_stake_token_denom: unhex(t[4]),
                    monitors: al(t[5]),
                    batch_period: p_u64(t[6]),
                    stopped: t[7] == "1",
                };
                staking::state::CONFIG.save(&mut self.deps.storage, &c).unwrap();
                pk = t[8];
                wt = t[9];
                self.mlayout = 3;
            }
        }
        for (seq, amount, status) in Self::p_lpkts(pk) {
            use staking::state::ibc::PacketLifecycleStatus as P;
            let status = match status {
                P::Sent => LegStatus::Sent,
                P::AckSuccess => LegStatus::AckSuccess,
                P::AckFailure => LegStatus::AckFailure,
                P::TimedOut => LegStatus::TimedOut,
            };
            LEG_INFLIGHT.save(&mut self.deps.storage, seq, &LegTransfer { sequence: seq, amount, status }).unwrap();
        }
        for (id, amount) in Self::p_lwaits(wt) {
            LEG_WAITING.save(&mut self.deps.storage, id, &LegWaiting { amount }).unwrap();
        }
        // unrelated records that no migration may touch
        let st = staking::state::State {
            total_native_token: Uint128::new(777),
            total_liquid_stake_token: Uint128::new(555),
            pending_owner: None,
            owner_transfer_min_time: None,
            total_reward_amount: Uint128::new(11),
            rate: Uint128::new(1),
            total_fees: Uint128::new(3),
            ibc_id_counter: 0,
        };
        staking::state::STATE.save(&mut self.deps.storage, &st).unwrap();
        staking::state::PENDING_BATCH_ID.save(&mut self.deps.storage, &2).unwrap();
        staking::state::BATCHES.save(&mut self.deps.storage, 2, &milky_way::staking::Batch::new(2, Uint128::new(9), 1234)).unwrap();
        self.deps.storage.set(b"unrelated", b"data");
        cw2::set_contract_version(&mut self.deps.storage, "staking", "0.0.0").unwrap();
        self.inst = false;
    }

    pub fn dump_migrated(&mut self) {
        use staking::migrations::states::{v0_4_18, v0_4_20, v1_0_0};
        let ver = cw2::get_contract_version(&self.deps.storage).unwrap();
        self.emit(format!("mg.ver {} {}", hs(&ver.contract), hs(&ver.version)));
        let oa = |o: &Option<Addr>| s_opt(o, |a| hs(a.as_str()));
        let la = |l: &Vec<Addr>| s_list(l, |a| hs(a.as_str()));
        match self.mlayout {
            1 => {
                let c = v0_4_18::CONFIG.load(&self.deps.storage).unwrap();
                self.emit(format!(
                    "mg.cfg0418 {} {} {} {} {} {} {} {} {} {} {} {} {} {} {} {} {}",
                    hs(&c.native_token_denom), hs(&c.liquid_stake_token_denom), hs(c.treasury_address.as_str()),
                    s_opt(&c.operators, la), s_opt(&c.monitors, la), la(&c.validators), c.batch_period, c.unbonding_period,
                    c.protocol_fee_config.dao_treasury_fee.u128(), hs(c.multisig_address_config.staker_address.as_str()),
                    hs(c.multisig_address_config.reward_collector_address.as_str()), c.minimum_liquid_stake_amount.u128(),
                    hs(&c.ibc_channel_id), s_bool(c.stopped), oa(&c.oracle_contract_address), oa(&c.oracle_contract_address_v2), oa(&c.oracle_address)
                ));
            }
            2 => {
                let c = v0_4_20::CONFIG.load(&self.deps.storage).unwrap();
                self.emit(format!(
                    "mg.cfg0420 {} {} {} {} {} {} {} {} {} {} {} {} {} {} {}",
                    hs(&c.native_token_denom), hs(&c.liquid_stake_token_denom), hs(c.treasury_address.as_str()),
                    s_opt(&c.monitors, la), la(&c.validators), c.batch_period, c.unbonding_period,
                    c.protocol_fee_config.dao_treasury_fee.u128(), hs(c.multisig_address_config.staker_address.as_str()),
                    hs(c.multisig_address_config.reward_collector_address.as_str()), c.minimum_liquid_stake_amount.u128(),
                    hs(&c.ibc_channel_id), s_bool(c.stopped), oa(&c.oracle_address), s_bool(c.send_fees_to_treasury)
                ));
            }
            _ => {
                let c = staking::state::CONFIG.load(&self.deps.storage).unwrap();
                self.dump_config(&c, "mg.");
            }
        }
        if self.mlayout == 4 {
            // a record the new code cannot read (left behind in the old layout) is an observation, not a crash
            let pk: Vec<_> = staking::state::INFLIGHT_PACKETS.range(&self.deps.storage, None, None, Order::Ascending).collect();
            for r in pk {
                match r {
                    Ok((k, p)) => self.emit(format!("mg.pkt {} {} {} {} {}", k, p.sequence, s_coin(&p.amount), hs(&p.receiver), s_pstatus(&p.status))),
                    Err(_) => self.emit("mg.pkt UNREADABLE".to_string()),
                }
            }
            let wq: Vec<_> = staking::state::IBC_WAITING_FOR_REPLY.range(&self.deps.storage, None, None, Order::Ascending).collect();
            for r in wq {
                match r {
                    Ok((k, w)) => self.emit(format!("mg.wait {} {} {}", k, s_coin(&w.amount), hs(&w.receiver))),
                    Err(_) => self.emit("mg.wait UNREADABLE".to_string()),
                }
            }
        } else {
            let pk: Vec<_> = LEG_INFLIGHT.range(&self.deps.storage, None, None, Order::Ascending).map(|r| r.unwrap()).collect();
            for (k, p) in pk {
                let st = match p.status {
                    LegStatus::Sent => "sent",
                    LegStatus::AckSuccess => "ack_success",
                    LegStatus::AckFailure => "ack_failure",
                    LegStatus::TimedOut => "timed_out",
                };
                self.emit(format!("mg.lpkt {} {} {} {}", k, p.sequence, p.amount, st));
            }
            let wq: Vec<_> = LEG_WAITING.range(&self.deps.storage, None, None, Order::Ascending).map(|r| r.unwrap()).collect();
            for (k, w) in wq {
                self.emit(format!("mg.lwait {} {}", k, w.amount));
            }
        }
        // the unrelated records
        let st = staking::state::STATE.load(&self.deps.storage).unwrap();
        let pb = staking::state::PENDING_BATCH_ID.load(&self.deps.storage).unwrap();
        let un = self.deps.storage.get(b"unrelated").map(|v| hex(&v)).unwrap_or("-".to_string());
        self.emit(format!("mg.rest {} {} {} {} {}", st.total_native_token.u128(), st.total_liquid_stake_token.u128(), st.total_fees.u128(), pb, un));
    }

    pub fn dump_tstore(&mut self) {
        use treasury::state::*;
        if !self.tinst {
            self.emit("ts.none".to_string());
            return;
        }
        let st: &dyn Storage = &self.tdeps.storage;
        let cfg = CONFIG.load(st).unwrap();
        let x = STATE.load(st).unwrap();
        let admin = ADMIN.get(self.tdeps.as_ref()).unwrap();
        let ver = cw2::get_contract_version(st).unwrap();
        self.emit(format!(
            "ts.owner {} {} {}",
            s_opt(&admin, |a| hs(a.as_str())),
            s_opt(&x.pending_owner, |a| hs(a.as_str())),
            s_opt(&x.owner_transfer_min_time, |t| t.seconds().to_string())
        ));
        self.emit(format!("ts.cfg {} {}", hs(cfg.trader.as_str()), s_routes(&cfg.allowed_swap_routes)));
        self.emit(format!("ts.ver {} {}", hs(&ver.contract), hs(&ver.version)));
    }

    // ----- typed entry points (also used by the generators and the chain simulator) -----
    pub fn instantiate(&mut self, t_ns: u64, sender: &str, msg: staking::msg::InstantiateMsg) -> Class {
        let env = mk_env(t_ns, None, &self.me);
        let info = MessageInfo { sender: Addr::unchecked(sender), funds: vec![] };
        let c = self.call(false, |d| staking::contract::instantiate(d.as_mut(), env, info, msg));
        if c == Class::Ok {
            self.inst = true;
        }
        c
    }
    pub fn execute(
        &mut self,
        t_ns: u64,
        txi: Option<u32>,
        sender: &str,
        funds: Vec<Coin>,
        msg: staking::msg::ExecuteMsg,
    ) -> Class {
        let env = mk_env(t_ns, txi, &self.me);
        let info = MessageInfo { sender: Addr::unchecked(sender), funds };
        self.call(false, |d| staking::contract::execute(d.as_mut(), env, info, msg))
    }
    pub fn reply(&mut self, id: u64, kind: &str, seq: u64) -> Class {
        let env = mk_env(0, None, &self.me);
        let result = match kind {
            "ok" => {
                // ibc.applications.transfer.v1.MsgTransferResponse { sequence = 1: uint64 }, encoded here from the
                // definition rather than with the contract's own copy of the type
                let mut data: Vec<u8> = vec![];
                if seq != 0 {
                    data.push(0x08);
                    let mut v = seq;
                    while v >= 0x80 {
                        data.push((v as u8 & 0x7f) | 0x80);
                        v >>= 7;
                    }
                    data.push(v as u8);
                }
                SubMsgResult::Ok(SubMsgResponse { events: vec![], data: Some(Binary::from(data)) })
            }
            "nodata" => SubMsgResult::Ok(SubMsgResponse { events: vec![], data: None }),
            "baddata" => SubMsgResult::Ok(SubMsgResponse { events: vec![], data: Some(Binary::from(vec![0xffu8, 0xff, 0xff])) }),
            _ => SubMsgResult::Err("failed".to_string()),
        };
        let r = Reply { id, result };
        self.call(false, |d| staking::contract::reply(d.as_mut(), env, r))
    }
    pub fn sudo_ack(&mut self, channel: &str, seq: u64, success: bool) -> Class {
        use staking::msg::{IBCLifecycleComplete, SudoMsg};
        let env = mk_env(0, None, &self.me);
        let m = SudoMsg::IBCLifecycleComplete(IBCLifecycleComplete::IBCAck {
            channel: channel.to_string(),
            sequence: seq,
            ack: String::new(),
            success,
        });
        self.call(false, |d| staking::contract::sudo(d.as_mut(), env, m))
    }
    pub fn sudo_timeout(&mut self, channel: &str, seq: u64) -> Class {
        use staking::msg::{IBCLifecycleComplete, SudoMsg};
        let env = mk_env(0, None, &self.me);
        let m = SudoMsg::IBCLifecycleComplete(IBCLifecycleComplete::IBCTimeout {
            channel: channel.to_string(),
            sequence: seq,
        });
        self.call(false, |d| staking::contract::sudo(d.as_mut(), env, m))
    }
    pub fn query_raw(&mut self, q: staking::msg::QueryMsg) -> Result<Binary, Class> {
        let env = mk_env(0, None, &self.me);
        let deps = &self.deps;
        match catch_unwind(AssertUnwindSafe(|| staking::contract::query(deps.as_ref(), env, q))) {
            Ok(Ok(b)) => Ok(b),
            Ok(Err(_)) => Err(Class::Err),
            Err(_) => Err(Class::Panic),
        }
    }

    fn s_batch_resp(b: &staking::msg::BatchResponse) -> String {
        format!(
            "{} {} {} {} {} {} {}",
            b.id,
            b.batch_total_liquid_stake.u128(),
            b.expected_native_unstaked.u128(),
            b.received_native_unstaked.u128(),
            b.unstake_request_count,
            b.next_batch_action_time.nanos(),
            b.status
        )
    }

    fn run_query(&mut self, toks: &[&str]) {
        use staking::msg::*;
        let q = match toks[0] {
            "config" => QueryMsg::Config {},
            "state" => QueryMsg::State {},
            "batch" => QueryMsg::Batch { id: p_u64(toks[1]) },
            "batches" => QueryMsg::Batches {
                start_after: p_opt(toks[1], p_u64),
                limit: p_opt(toks[2], |t| t.parse::<u32>().unwrap()),
                status: p_opt(toks[3], |t| match t {
                    "pending" => milky_way::staking::BatchStatus::Pending,
                    "submitted" => milky_way::staking::BatchStatus::Submitted,
                    _ => milky_way::staking::BatchStatus::Received,
                }),
            },
            "byids" => QueryMsg::BatchesByIds { ids: p_list(toks[1], p_u64) },
            "pending" => QueryMsg::PendingBatch {},
            "requests" => QueryMsg::UnstakeRequests { user: Addr::unchecked(unhex(toks[1])) },
            "ibcq" => QueryMsg::IbcQueue {
                start_after: p_opt(toks[1], p_u64),
                limit: p_opt(toks[2], |t| t.parse::<u32>().unwrap()),
            },
            "replyq" => QueryMsg::IbcReplyQueue {
                start_after: p_opt(toks[1], p_u64),
                limit: p_opt(toks[2], |t| t.parse::<u32>().unwrap()),
            },
            "allreq" => QueryMsg::AllUnstakeRequests {
                start_after: p_opt(toks[1], p_u64),
                limit: p_opt(toks[2], |t| t.parse::<u32>().unwrap()),
            },
            "allreq2" => QueryMsg::AllUnstakeRequestsV2 {
                start_after: p_opt(toks[1], p_u64),
                limit: p_opt(toks[2], |t| t.parse::<u32>().unwrap()),
            },
            x => panic!("bad query {x}"),
        };
        let r = self.query_raw(q);
        match r {
            Err(c) => self.emit(format!("res {}", c.s())),
            Ok(b) => {
                self.emit("res ok".to_string());
                match toks[0] {
                    "config" => {
                        let c: ConfigResponse = from_json(&b).unwrap();
                        let cfg = staking::state::Config {
                            native_chain_config: c.native_chain_config,
                            protocol_chain_config: c.protocol_chain_config,
                            protocol_fee_config: c.protocol_fee_config,
                            liquid_stake_token_denom: c.liquid_stake_token_denom,
                            monitors: c.monitors,
                            batch_period: c.batch_period,
                            stopped: c.stopped,
                        };
                        self.dump_config(&cfg, "q.");
                    }
                    "state" => {
                        let s: StateResponse = from_json(&b).unwrap();
                        self.emit(format!(
                            "q.state {} {} {} {} {} {}",
                            s.total_native_token.u128(),
                            s.total_liquid_stake_token.u128(),
                            s.rate.atomics().u128(),
                            hs(&s.pending_owner),
                            s.total_reward_amount.u128(),
                            s.total_fees.u128()
                        ));
                    }
                    "batch" | "pending" => {
                        let r: BatchResponse = from_json(&b).unwrap();
                        self.emit(format!("q.batch {}", Self::s_batch_resp(&r)));
                    }
                    "batches" | "byids" => {
                        let r: BatchesResponse = from_json(&b).unwrap();
                        for x in r.batches.iter() {
                            self.emit(format!("q.batch {}", Self::s_batch_resp(x)));
                        }
                    }
                    "allreq2" => {
                        let r: Vec<(String, u64, Uint128)> = from_json(&b).unwrap();
                        for (user, batch_id, amount) in r {
                            self.emit(format!("q.req {} {} {}", batch_id, hs(&user), amount.u128()));
                        }
                    }
                    "requests" | "allreq" => {
                        let r: Vec<staking::state::UnstakeRequest> = from_json(&b).unwrap();
                        for x in r {
                            self.emit(format!("q.req {} {} {}", x.batch_id, hs(&x.user), x.amount.u128()));
                        }
                    }
                    "ibcq" => {
                        let r: IBCQueueResponse = from_json(&b).unwrap();
                        for p in r.ibc_queue {
                            self.emit(format!(
                                "q.pkt {} {} {} {}",
                                p.sequence,
                                s_coin(&p.amount),
                                hs(&p.receiver),
                                s_pstatus(&p.status)
                            ));
                        }
                    }
                    "replyq" => {
                        let r: IBCReplyQueueResponse = from_json(&b).unwrap();
                        for w in r.ibc_queue {
                            self.emit(format!("q.wait {} {}", s_coin(&w.amount), hs(&w.receiver)));
                        }
                    }
                    _ => {}
                }
            }
        }
    }

    fn run_fn(&mut self, toks: &[&str]) {
        use staking::helpers::*;
        let guarded = |f: &dyn Fn() -> String| -> String {
            match catch_unwind(AssertUnwindSafe(f)) {
                Ok(s) => s,
                Err(_) => "-".to_string(),
            }
        };
        let r = match toks[0] {
            "mint" => guarded(&|| {
                compute_mint_amount(Uint128::new(p_u128(toks[1])), Uint128::new(p_u128(toks[2])), Uint128::new(p_u128(toks[3])))
                    .u128()
                    .to_string()
            }),
            "unbond" => guarded(&|| {
                compute_unbond_amount(Uint128::new(p_u128(toks[1])), Uint128::new(p_u128(toks[2])), Uint128::new(p_u128(toks[3])))
                    .u128()
                    .to_string()
            }),
            "derive" => match derive_intermediate_sender(&unhex(toks[1]), &unhex(toks[2]), &unhex(toks[3])) {
                Ok(s) => hs(&s),
                Err(_) => "-".to_string(),
            },
            "vprefix" => match validate_address_prefix(&unhex(toks[1])) {
                Ok(s) => hs(&s),
                Err(_) => "-".to_string(),
            },
            "vaddr" => s_bool(validate_address(&unhex(toks[1]), &unhex(toks[2])).is_ok()).to_string(),
            "vdenom" => match validate_denom(unhex(toks[1])) {
                Ok(s) => hs(&s),
                Err(_) => "-".to_string(),
            },
            "vibc" => match validate_ibc_denom(unhex(toks[1])) {
                Ok(s) => hs(&s),
                Err(_) => "-".to_string(),
            },
            "vchan" => {
                // the channel check lives inside UnsafeProtocolChainConfig::validate
                let c = staking::types::UnsafeProtocolChainConfig {
                    account_address_prefix: "osmo".to_string(),
                    ibc_token_denom: format!("ibc/{}", "A".repeat(64)),
                    ibc_channel_id: unhex(toks[1]),
                    minimum_liquid_stake_amount: Uint128::zero(),
                    oracle_address: None,
                };
                s_bool(c.validate().is_ok()).to_string()
            }
            "apivalid" => s_bool(self.deps.api.addr_validate(&unhex(toks[1])).is_ok()).to_string(),
            "sha256" => {
                use sha2::{Digest, Sha256};
                let mut h = Sha256::default();
                h.update(unhex_bytes(toks[1]));
                hex(&h.finalize())
            }
            "b32dec" => match bech32::decode(&unhex(toks[1])) {
                Ok((h, d, v)) => format!(
                    "{} {} {}",
                    hs(&h),
                    s_list(&d, |x| x.to_u8().to_string()),
                    match v {
                        bech32::Variant::Bech32 => 1u32,
                        bech32::Variant::Bech32m => 0x2bc830a3u32,
                    }
                ),
                Err(_) => "-".to_string(),
            },
            x => panic!("bad fn {x}"),
        };
        self.emit(format!("fn {}", r));
    }

    pub fn run_line(&mut self, line: &str) {
        let toks: Vec<&str> = line.split(' ').filter(|t| !t.is_empty()).collect();
        if toks.is_empty() || toks[0].starts_with('#') {
            return;
        }
        match toks[0] {
            "cfg" => {}
            "tx_begin" => {
                self.tx_snap = Some((clone_storage(&self.deps.storage), self.inst));
                self.ttx_snap = Some((clone_storage(&self.tdeps.storage), self.tinst));
            }
            "tx_commit" => {
                self.tx_snap = None;
                self.ttx_snap = None;
            }
            "nocount" => {
                // the pending batch as releases without a request counter stored it (`unstake_requests_count: None`)
                self.step += 1;
                if let Ok(pid) = staking::state::PENDING_BATCH_ID.load(&self.deps.storage) {
                    if let Ok(mut b) = staking::state::BATCHES.load(&self.deps.storage, pid) {
                        b.unstake_requests_count = None;
                        staking::state::BATCHES.save(&mut self.deps.storage, pid, &b).unwrap();
                    }
                }
                self.emit("res ok".to_string());
                self.dump_store();
            }
            "tx_abort" => {
                if let Some((s, i)) = self.tx_snap.take() {
                    self.deps.storage = s;
                    self.inst = i;
                }
                if let Some((s, i)) = self.ttx_snap.take() {
                    self.tdeps.storage = s;
                    self.tinst = i;
                }
                self.emit("tx_abort".to_string());
            }
            "inst" => {
                let msg = staking::msg::InstantiateMsg {
                    native_chain_config: staking::types::UnsafeNativeChainConfig {
                        account_address_prefix: unhex(toks[3]),
                        validator_address_prefix: unhex(toks[4]),
                        token_denom: unhex(toks[5]),
                        validators: p_list(toks[6], unhex),
                        unbonding_period: p_u64(toks[7]),
                        staker_address: unhex(toks[8]),
                        reward_collector_address: unhex(toks[9]),
                    },
                    protocol_chain_config: staking::types::UnsafeProtocolChainConfig {
                        account_address_prefix: unhex(toks[10]),
                        ibc_token_denom: unhex(toks[11]),
                        ibc_channel_id: unhex(toks[12]),
                        minimum_liquid_stake_amount: Uint128::new(p_u128(toks[13])),
                        oracle_address: p_opt(toks[14], unhex),
                    },
                    protocol_fee_config: staking::types::UnsafeProtocolFeeConfig {
                        dao_treasury_fee: Uint128::new(p_u128(toks[15])),
                        treasury_address: p_opt(toks[16], unhex),
                    },
                    liquid_stake_token_denom: unhex(toks[17]),
                    batch_period: p_u64(toks[18]),
                    monitors: p_list(toks[19], unhex),
                };
                self.step += 1;
                self.instantiate(p_u64(toks[1]), &unhex(toks[2]), msg);
                self.emit_result();
                self.dump_store();
            }
            "exec" => {
                self.step += 1;
                let msg = parse_exec(&toks[5..]);
                self.execute(
                    p_u64(toks[1]),
                    p_opt(toks[2], |t| t.parse::<u32>().unwrap()),
                    &unhex(toks[3]),
                    p_list(toks[4], p_coin),
                    msg,
                );
                self.emit_result();
                self.dump_store();
            }
            "reply" => {
                self.step += 1;
                let seq = if toks.len() > 3 { p_u64(toks[3]) } else { 0 };
                self.reply(p_u64(toks[1]), toks[2], seq);
                self.emit_result();
                self.dump_store();
            }
            "sudo" => {
                self.step += 1;
                if toks[1] == "ack" {
                    self.sudo_ack(&unhex(toks[2]), p_u64(toks[3]), toks[4] == "1");
                } else {
                    self.sudo_timeout(&unhex(toks[2]), p_u64(toks[3]));
                }
                self.emit_result();
                self.dump_store();
            }
            "query" => {
                self.step += 1;
                self.run_query(&toks[1..]);
            }
            "fn" => {
                self.step += 1;
                // a helper that panics on its input is an observation, not a crash of the harness
                if catch_unwind(AssertUnwindSafe(|| self.run_fn(&toks[1..]))).is_err() {
                    self.emit("fn PANIC".to_string());
                }
            }
            "leg0418" | "leg0420" | "leg100" => {
                self.step += 1;
                self.setup_legacy(&toks);
                self.emit("res ok".to_string());
                self.dump_migrated();
            }
            "tx_begin_m" => {
                self.tx_snap = Some((clone_storage(&self.deps.storage), self.mlayout != 0 && self.mlayout % 2 == 0));
                self.msnap_layout = self.mlayout;
            }
            "tx_abort_m" => {
                if let Some((s, _)) = self.tx_snap.take() {
                    self.deps.storage = s;
                }
                self.mlayout = self.msnap_layout;
            }
            "setver" => {
                cw2::set_contract_version(&mut self.deps.storage, unhex(toks[1]), unhex(toks[2])).unwrap();
            }
            "mig" => {
                self.step += 1;
                use staking::msg::MigrateMsg as M;
                let msg = match toks[1] {
                    "v0418" => M::V0_4_18ToV0_4_20 { send_fees_to_treasury: toks[2] == "1" },
                    "v0420" => M::V0_4_20ToV1_0_0 {
                        native_account_address_prefix: unhex(toks[2]),
                        native_validator_address_prefix: unhex(toks[3]),
                        native_token_denom: unhex(toks[4]),
                        protocol_account_address_prefix: unhex(toks[5]),
                    },
                    _ => M::V1_0_0ToV1_1_0 {},
                };
                let before: Vec<(Vec<u8>, Vec<u8>)> = self.deps.storage.range(None, None, Order::Ascending).collect();
                let env = mk_env(0, None, &self.me);
                let c = self.call(false, |d| staking::contract::migrate(d.as_mut(), env, msg));
                if c == Class::Ok {
                    self.mlayout = match toks[1] {
                        "v0418" => 2,
                        "v0420" => 3,
                        _ => 4,
                    };
                }
                self.emit_result();
                // which raw storage records changed (by top-level name)
                let after: Vec<(Vec<u8>, Vec<u8>)> = self.deps.storage.range(None, None, Order::Ascending).collect();
                let mut names: Vec<String> = vec![];
                let name_of = |k: &Vec<u8>| -> String {
                    // cw-storage-plus: Item keys are the plain name; Map keys are 2-byte length + namespace + key
                    if k.len() > 2 {
                        let l = ((k[0] as usize) << 8) | k[1] as usize;
                        if l > 0 && k.len() >= 2 + l && k[2..2 + l].iter().all(|b| b.is_ascii_lowercase() || *b == b'_') {
                            return String::from_utf8_lossy(&k[2..2 + l]).into_owned();
                        }
                    }
                    String::from_utf8_lossy(k).into_owned()
                };
                let bm: std::collections::BTreeMap<_, _> = before.into_iter().collect();
                let am: std::collections::BTreeMap<_, _> = after.into_iter().collect();
                for (k, v) in am.iter() {
                    if bm.get(k) != Some(v) {
                        names.push(name_of(k));
                    }
                }
                for k in bm.keys() {
                    if !am.contains_key(k) {
                        names.push(name_of(k));
                    }
                }
                names.sort();
                names.dedup();
                self.emit(format!("mg.changed {}", s_list(&names, |n| hs(n))));
                self.dump_migrated();
            }
            "tinst" => {
                self.step += 1;
                let env = mk_env(p_u64(toks[1]), None, &self.me);
                let info = MessageInfo { sender: Addr::unchecked(unhex(toks[2])), funds: vec![] };
                let msg = treasury::msg::InstantiateMsg {
                    admin: p_opt(toks[3], unhex),
                    trader: p_opt(toks[4], unhex),
                    allowed_swap_routes: p_routes(toks[5]),
                };
                let c = self.call(true, |d| treasury::contract::instantiate(d.as_mut(), env, info, msg));
                if c == Class::Ok {
                    self.tinst = true;
                }
                self.emit_result();
                self.dump_tstore();
            }
            "texec" => {
                use treasury::msg::ExecuteMsg as T;
                self.step += 1;
                let env = mk_env(p_u64(toks[1]), None, &self.me);
                let info = MessageInfo { sender: Addr::unchecked(unhex(toks[2])), funds: vec![] };
                let msg = match toks[3] {
                    "xfer_own" => T::TransferOwnership { new_owner: unhex(toks[4]) },
                    "accept_own" => T::AcceptOwnership {},
                    "revoke_own" => T::RevokeOwnershipTransfer {},
                    "spend" => T::SpendFunds {
                        amount: p_coin(toks[4]),
                        receiver: unhex(toks[5]),
                        channel_id: p_opt(toks[6], unhex),
                    },
                    "swapin" => T::SwapExactAmountIn {
                        routes: p_route(toks[4]),
                        token_in: p_coin(toks[5]),
                        token_out_min_amount: p_u128(toks[6]),
                    },
                    "swapout" => T::SwapExactAmountOut {
                        routes: p_route(toks[4]),
                        token_out: p_coin(toks[5]),
                        token_in_max_amount: p_u128(toks[6]),
                    },
                    "updcfg" => T::UpdateConfig {
                        trader: p_opt(toks[4], unhex),
                        allowed_swap_routes: p_opt(toks[5], p_routes),
                    },
                    x => panic!("bad texec {x}"),
                };
                self.call(true, |d| treasury::contract::execute(d.as_mut(), env, info, msg));
                self.emit_result();
                self.dump_tstore();
            }
            "tquery" => {
                self.step += 1;
                let env = mk_env(0, None, &self.me);
                let deps = &self.tdeps;
                let r = catch_unwind(AssertUnwindSafe(|| {
                    treasury::contract::query(deps.as_ref(), env, treasury::msg::QueryMsg::Config {})
                }));
                match r {
                    Ok(Ok(b)) => {
                        let c: treasury::msg::ConfigResponse = from_json(&b).unwrap();
                        self.emit("res ok".to_string());
                        self.emit(format!(
                            "q.tcfg {} {} {}",
                            hs(c.admin.as_str()),
                            hs(c.trader.as_str()),
                            s_routes(&c.allowed_swap_routes)
                        ));
                    }
                    Ok(Err(_)) => self.emit("res err".to_string()),
                    Err(_) => self.emit("res panic".to_string()),
                }
            }
            "tmig" if !self.tinst => {
                self.step += 1;
                self.emit("res err".to_string());
                self.emit("ts.none".to_string());
            }
            "tmig" => {
                self.step += 1;
                cw2::set_contract_version(&mut self.tdeps.storage, unhex(toks[1]), unhex(toks[2])).unwrap();
                let env = mk_env(0, None, &self.me);
                self.call(true, |d| treasury::contract::migrate(d.as_mut(), env, treasury::msg::MigrateMsg {}));
                self.emit_result();
                self.dump_tstore();
            }
            x => panic!("unknown op {x}"),
        }
    }
}

/// Runs a whole op file (possibly many histories, each starting with a `cfg` line).
pub fn run_file(input: &str) -> String {
    let mut out = String::new();
    let mut sim: Option<Sim> = None;
    for line in input.lines() {
        if line.starts_with("cfg ") {
            if let Some(s) = sim.take() {
                for l in s.out {
                    out.push_str(&l);
                    out.push('\n');
                }
            }
            let toks: Vec<&str> = line.split(' ').collect();
            sim = Some(Sim::new(toks[1], &unhex(toks[2])));
            out.push_str(&format!("== {}\n", line));
            continue;
        }
        if let Some(s) = sim.as_mut() {
            s.run_line(line);
        }
    }
    if let Some(s) = sim.take() {
        for l in s.out {
            out.push_str(&l);
            out.push('\n');
        }
    }
    out
}
