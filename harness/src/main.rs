mod fmt;
mod gen;
#[cfg(feature = "miniwasm")]
mod proto;
#[cfg(feature = "miniwasm")]
mod proto_registry;
mod run;
mod world;

use std::fs;

fn arg_u64(a: &[String], i: usize) -> u64 {
    a[i].parse().expect("numeric argument")
}

fn main() {
    let args: Vec<String> = std::env::args().collect();
    if std::env::var("MWH_DEBUG").is_err() {
        std::panic::set_hook(Box::new(|_| {}));
    }
    match args.get(1).map(|s| s.as_str()) {
        // mwh run <ops> <obs>
        Some("run") => {
            let input = fs::read_to_string(&args[2]).expect("read ops");
            let out = run::run_file(&input);
            fs::write(&args[3], out).expect("write obs");
        }
        // mwh world <backend> <seed> <histories> <events> <out-prefix>
        //   writes <prefix>.ops (contract-level ops), <prefix>.events, <prefix>.impl (observations)
        Some("world") | Some("matrix") | Some("pages") | Some("extreme") => {
            let extreme = args[1] == "extreme";
            let matrix = args[1] == "matrix";
            let pages = args[1] == "pages";
            let backend = &args[2];
            let seed = arg_u64(&args, 3);
            let n = arg_u64(&args, 4);
            let len = arg_u64(&args, 5);
            let prefix = &args[6];
            let mut ops = String::new();
            let mut events = String::new();
            let mut wobs = String::new();
            for h in 0..n {
                let hseed = seed.wrapping_mul(1_000_003).wrapping_add(h);
                let mut g = if extreme { gen::WorldGen::new_extreme(hseed, backend, h) } else { gen::WorldGen::new(hseed, backend, h) };
                g.reroute = matrix;
                if pages && h % 2 == 1 {
                    // the first tracked transfer gets sequence 0 (cursors and maps must treat key 0 like any other)
                    g.w.chain.next_seq = 0;
                }
                events.push_str(&format!("== history {} seed {}\n", h, hseed));
                wobs.push_str(&format!("== history {} seed {}\n", h, hseed));
                if g.start() {
                    g.snapshot(&mut wobs);
                    if h == 0 && seed % 1000 == 0 && args[1] == "world" {
                        g.scripted_sweep();
                        g.snapshot(&mut wobs);
                    }
                    if pages && h == 1 && seed % 1000 == 0 {
                        g.scripted_bulk(300, 300);
                    }
                    if args[1] == "world" && h % 8 == 5 {
                        g.scripted_dust();
                        g.snapshot(&mut wobs);
                    }
                    if args[1] == "world" && h % 8 == 2 {
                        g.scripted_stray_then_recover();
                        g.snapshot(&mut wobs);
                    }
                    if args[1] == "world" && h % 8 == 1 {
                        g.scripted_slashed_dust();
                        g.snapshot(&mut wobs);
                    }
                    if args[1] == "world" && h % 8 == 6 {
                        g.scripted_backlog();
                        g.snapshot(&mut wobs);
                    }
                    if args[1] == "world" && h % 8 == 4 {
                        g.scripted_rebase_below_pending();
                        g.snapshot(&mut wobs);
                    }
                    if args[1] == "world" && h % 8 == 3 {
                        g.scripted_forced_duplicates();
                        g.snapshot(&mut wobs);
                    }
                    let k = len / 2 + g.r.below(len / 2 + 1);
                    for i in 0..k {
                        if extreme && i % 7 == 3 {
                            if g.r.chance(50) {
                                g.extreme_resume();
                            } else {
                                g.extreme_admin();
                            }
                            g.queries();
                        }
                        g.step();
                        g.snapshot(&mut wobs);
                        if i % 10 == 9 {
                            g.queries();
                        }
                        if matrix && i % 6 == 5 {
                            g.probes();
                        }
                        if args[1] == "world" && i % 12 == 7 {
                            g.edge_probes();
                        }
                        if pages && i % 15 == 14 {
                            g.page_queries();
                        }
                    }
                    g.queries();
                } else if extreme {
                    // a refused (or panicking) instantiation: the queries are still sent to the empty store
                    g.queries_blind();
                }
                for l in g.w.ops.iter() {
                    ops.push_str(l);
                    ops.push('\n');
                }
                for l in g.w.events.iter() {
                    events.push_str(l);
                    events.push('\n');
                }
            }
            fs::write(format!("{prefix}.ops"), &ops).expect("write ops");
            fs::write(format!("{prefix}.events"), &events).expect("write events");
            fs::write(format!("{prefix}.world"), &wobs).expect("write world obs");
            let out = run::run_file(&ops);
            fs::write(format!("{prefix}.impl"), out).expect("write obs");
        }
        // mwh proto <ops> <obs>: prost round trips of the initia-proto bindings (miniwasm build only)
        #[cfg(feature = "miniwasm")]
        Some("proto") => {
            let input = fs::read_to_string(&args[2]).expect("read ops");
            let out = proto::run_file(&input);
            fs::write(&args[3], out).expect("write obs");
        }
        _ => {
            eprintln!("usage: mwh run <ops> <obs> | mwh world <backend> <seed> <n> <len> <prefix>");
            std::process::exit(2);
        }
    }
}
