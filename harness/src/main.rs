mod fmt;
mod run;

fn main() {
    let args: Vec<String> = std::env::args().collect();
    std::panic::set_hook(Box::new(|_| {}));
    match args.get(1).map(|s| s.as_str()) {
        Some("run") => {
            let input = std::fs::read_to_string(&args[2]).expect("read ops");
            let out = run::run_file(&input);
            std::fs::write(&args[3], out).expect("write obs");
        }
        _ => {
            eprintln!("usage: mwh run <ops> <obs>");
            std::process::exit(2);
        }
    }
}
