// Seeded, state-aware generators.  Everything random derives from one splitmix64 state per history.
use crate::fmt::*;
use crate::run::*;
use crate::world::*;
use bech32::ToBase32;
use cosmwasm_std::{Coin, Uint128};
use sha2::{Digest, Sha256};

pub struct Rng(pub u64);
impl Rng {
    pub fn next(&mut self) -> u64 {
        self.0 = self.0.wrapping_add(0x9E3779B97F4A7C15);
        let mut z = self.0;
        z = (z ^ (z >> 30)).wrapping_mul(0xBF58476D1CE4E5B9);
        z = (z ^ (z >> 27)).wrapping_mul(0x94D049BB133111EB);
        z ^ (z >> 31)
    }
    pub fn below(&mut self, n: u64) -> u64 {
        if n == 0 {
            0
        } else {
            self.next() % n
        }
    }
    pub fn chance(&mut self, pct: u64) -> bool {
        self.below(100) < pct
    }
    pub fn pick<'a, T>(&mut self, l: &'a [T]) -> &'a T {
        &l[self.below(l.len() as u64) as usize]
    }
    pub fn u128_upto(&mut self, max: u128) -> u128 {
        let x = ((self.next() as u128) << 64) | self.next() as u128;
        if max == u128::MAX {
            x
        } else {
            x % (max + 1)
        }
    }
}

pub fn addr(hrp: &str, seed: &str, n: usize) -> String {
    let h = Sha256::digest(seed.as_bytes());
    bech32::encode(hrp, h[..n].to_vec().to_base32(), bech32::Variant::Bech32).unwrap()
}

/// The ibc-hooks intermediate account of (channel, sender) under `prefix`, computed here from the specification
/// (sha256(sha256("ibc-wasm-hook-intermediary") ++ "<channel>/<sender>"), bech32) and NOT with the contract's own helper:
/// the simulated chain must not inherit a slip in the code under test.
pub fn hook_account(channel: &str, sender: &str, prefix: &str) -> String {
    let th = Sha256::digest(b"ibc-wasm-hook-intermediary");
    let mut h = Sha256::new();
    h.update(th);
    h.update(format!("{channel}/{sender}").as_bytes());
    bech32::encode(prefix, h.finalize().to_vec().to_base32(), bech32::Variant::Bech32).unwrap_or_default()
}

pub const D: &str = "ibc/C3E53D20BC7A4CC993B17C7971F8ECD06A433C10B6A96F4C4C3714F0624C56DA";
pub const T0: u64 = 1_700_000_000_000_000_000;

#[derive(Clone)]
pub struct Setup {
    pub backend: String,
    pub me: String,
    pub admin: String,
    pub native_prefix: String,
    pub val_prefix: String,
    pub staker: String,
    pub collector: String,
    pub validators: Vec<String>,
    pub channel: String,
    pub oracle: Option<String>,
    pub treasury: Option<String>,
    pub fee: u128,
    pub min: u128,
    pub batch_period: u64,
    pub unbonding: u64,
    pub monitors: Vec<String>,
    pub sub: String,
    pub users: Vec<String>,
    pub native_users: Vec<String>,
}
impl Setup {
    pub fn lst(&self) -> String {
        format!("factory/{}/{}", self.me, self.sub)
    }
    pub fn hook(&self, native_sender: &str) -> String {
        hook_account(&self.channel, native_sender, CHAIN_PREFIX)
    }
    pub fn inst_line(&self) -> String {
        format!(
            "{} {} {} {} {} {} {} {} {} {} {} {} {} {} {} {} {}",
            hs(&self.native_prefix),
            hs(&self.val_prefix),
            hs("utia"),
            s_list(&self.validators, |v| hs(v)),
            self.unbonding,
            hs(&self.staker),
            hs(&self.collector),
            hs(CHAIN_PREFIX),
            hs(D),
            hs(&self.channel),
            self.min,
            s_opt(&self.oracle, |o| hs(o)),
            self.fee,
            s_opt(&self.treasury, |o| hs(o)),
            hs(&self.sub),
            self.batch_period,
            s_list(&self.monitors, |v| hs(v))
        )
    }
    pub fn inst_msg(&self) -> staking::msg::InstantiateMsg {
        staking::msg::InstantiateMsg {
            native_chain_config: staking::types::UnsafeNativeChainConfig {
                account_address_prefix: self.native_prefix.clone(),
                validator_address_prefix: self.val_prefix.clone(),
                token_denom: "utia".to_string(),
                validators: self.validators.clone(),
                unbonding_period: self.unbonding,
                staker_address: self.staker.clone(),
                reward_collector_address: self.collector.clone(),
            },
            protocol_chain_config: staking::types::UnsafeProtocolChainConfig {
                account_address_prefix: CHAIN_PREFIX.to_string(),
                ibc_token_denom: D.to_string(),
                ibc_channel_id: self.channel.clone(),
                minimum_liquid_stake_amount: Uint128::new(self.min),
                oracle_address: self.oracle.clone(),
            },
            protocol_fee_config: staking::types::UnsafeProtocolFeeConfig {
                dao_treasury_fee: Uint128::new(self.fee),
                treasury_address: self.treasury.clone(),
            },
            liquid_stake_token_denom: self.sub.clone(),
            batch_period: self.batch_period,
            monitors: self.monitors.clone(),
        }
    }
}

pub fn random_setup(r: &mut Rng, backend: &str, tag: u64) -> Setup {
    random_setup_x(r, backend, tag, false)
}

/// `extreme`: every configuration value validation accepts, at its limits (C16)
pub fn random_setup_x(r: &mut Rng, backend: &str, tag: u64, extreme: bool) -> Setup {
    let same_prefix = r.chance(15);
    let np = if same_prefix { CHAIN_PREFIX.to_string() } else { "celestia".to_string() };
    let vp = format!("{}valoper", np);
    let nusers = 2 + r.below(4) as usize;
    Setup {
        backend: backend.to_string(),
        me: addr(CHAIN_PREFIX, &format!("contract{tag}"), 32),
        admin: addr(CHAIN_PREFIX, "admin", 20),
        // now and then an operator address in the all-uppercase spelling (valid bech32, stored and hashed verbatim)
        staker: if r.chance(6) { addr(&np, "staker", 20).to_uppercase() } else { addr(&np, "staker", 20) },
        collector: if r.chance(6) { addr(&np, "collector", 20).to_uppercase() } else { addr(&np, "collector", 20) },
        validators: (0..1 + r.below(3)).map(|i| addr(&vp, &format!("val{i}"), 20)).collect(),
        native_prefix: np.clone(),
        val_prefix: vp,
        channel: if r.chance(15) { format!("channel-{:0>4}", r.below(500)) } else { format!("channel-{}", r.below(5000)) },
        oracle: if r.chance(70) { Some(addr(CHAIN_PREFIX, "oracle", 32)) } else { None },
        treasury: if r.chance(50) { Some(addr(CHAIN_PREFIX, "treasury", 32)) } else { None },
        fee: if extreme {
            *r.pick(&[0u128, 1, 99_999, 100_000, 100_001, 10u128.pow(17), 10u128.pow(30), u128::MAX])
        } else {
            *r.pick(&[0u128, 1, 1000, 10_000, 10_000, 33_333, 99_999, 100_000])
        },
        min: if extreme { *r.pick(&[0u128, 1, 1000, 10u128.pow(27)]) } else { *r.pick(&[1u128, 10, 100, 1000]) },
        batch_period: if extreme { extreme_period(r) } else { *r.pick(&[60u64, 3600, 86_400]) },
        unbonding: if extreme { extreme_period(r) } else { *r.pick(&[120u64, 7200, 1_814_400]) },
        monitors: monitor_set(r),
        sub: r.pick(&["stTIA", "milkTIA", "abcd", "milkTIAxxxxxxxxxxxxxxxxxxxxxxxxxxxxxxxxxxxxxxxxxxxxxxxxx"]).to_string(),
        // the last of four or more users has a contract-length address (the by-user index orders by length first,
        // and such a sender must name the recipient of a stake)
        users: (0..nusers).map(|i| addr(CHAIN_PREFIX, &format!("user{i}"), if nusers >= 4 && i + 1 == nusers { 32 } else { 20 })).collect(),
        native_users: (0..2).map(|i| addr(&np, &format!("nuser{i}"), 20)).collect(),
    }
}

/// 0–4 monitors in an arbitrary (not sorted) order.
pub fn monitor_set(r: &mut Rng) -> Vec<String> {
    let n = r.below(5);
    let off = r.below(4);
    (0..n).map(|i| addr(CHAIN_PREFIX, &format!("monitor{}", (i * 3 + off) % 5), 20)).collect()
}

pub struct Flags {
    pub routing_changed: bool,
    pub forced_recovery: bool,
    pub dishonest_operator: bool,
    pub resumed_nonzero: bool,
}

/// Read-only view of the contract used by the generator to pick meaningful arguments.
pub struct View {
    pub cfg: staking::state::Config,
    pub st: staking::state::State,
    pub pending: u64,
    pub batches: Vec<milky_way::staking::Batch>,
    pub reqs: Vec<staking::state::UnstakeRequest>,
    pub pkts: Vec<staking::state::ibc::IBCTransfer>,
    pub admin: Option<String>,
}
pub fn view(sim: &Sim) -> View {
    use cosmwasm_std::{Order, Storage};
    use staking::state::*;
    let st: &dyn Storage = &sim.deps.storage;
    View {
        cfg: CONFIG.load(st).unwrap(),
        st: STATE.load(st).unwrap(),
        pending: PENDING_BATCH_ID.load(st).unwrap(),
        batches: BATCHES.range(st, None, None, Order::Ascending).map(|r| r.unwrap().1).collect(),
        reqs: unstake_requests().range(st, None, None, Order::Ascending).map(|r| r.unwrap().1).collect(),
        pkts: INFLIGHT_PACKETS.range(st, None, None, Order::Ascending).map(|r| r.unwrap().1).collect(),
        admin: ADMIN.get(sim.deps.as_ref()).unwrap().map(|a| a.to_string()),
    }
}

pub fn extreme_period(r: &mut Rng) -> u64 {
    let now_s = T0 / 1_000_000_000;
    *r.pick(&[0u64, 1, 60, 3600, 1_000_000_000, 18_446_744_073 - now_s - 100, 18_446_744_073 - now_s + 100, 1_000_000_000_000, 1 << 63, u64::MAX - now_s - 50, u64::MAX - now_s + 50, u64::MAX])
}

const E27: u128 = 1_000_000_000_000_000_000_000_000_000;

fn amount_extreme(r: &mut Rng, min: u128) -> u128 {
    match r.below(8) {
        0 => E27,
        1 => E27 - r.u128_upto(1000),
        2 => r.u128_upto(E27),
        3 => E27 / 1000 + r.u128_upto(1000),
        4 => 1,
        5 => min,
        _ => min + r.u128_upto(1_000_000),
    }
}

fn amount_near(r: &mut Rng, min: u128) -> u128 {
    match r.below(10) {
        0 => min.saturating_sub(1),
        1 => min,
        2 => min + 1,
        3 => 1,
        4..=6 => min + r.u128_upto(5_000),
        7 => 1_000_000 + r.u128_upto(1_000_000_000),
        8 => r.u128_upto(1_000_000_000_000_000_000_000_000_000), // up to 10^27
        _ => min + r.u128_upto(100),
    }
}

pub struct WorldGen {
    pub w: World,
    pub s: Setup,
    pub r: Rng,
    pub flags: Flags,
    pub query_ops: bool,
    pub extreme: bool,
    /// the admin may re-route (new channel, new staker / collector), in one or in two sections of one message
    pub reroute: bool,
}

impl WorldGen {
    pub fn new(seed: u64, backend: &str, tag: u64) -> WorldGen {
        let mut r = Rng(seed);
        let s = random_setup(&mut r, backend, tag);
        let w = World::new(backend, &s.me, T0);
        WorldGen {
            w,
            s,
            r,
            flags: Flags { routing_changed: false, forced_recovery: false, dishonest_operator: false, resumed_nonzero: false },
            query_ops: true,
            extreme: false,
            reroute: false,
        }
    }

    pub fn new_extreme(seed: u64, backend: &str, tag: u64) -> WorldGen {
        let mut r = Rng(seed);
        let xs = r.chance(50);
        let s = random_setup_x(&mut r, backend, tag, xs);
        let w = World::new(backend, &s.me, T0);
        WorldGen {
            w,
            s,
            r,
            flags: Flags { routing_changed: false, forced_recovery: false, dishonest_operator: false, resumed_nonzero: false },
            query_ops: true,
            extreme: true,
            reroute: false,
        }
    }

    /// C16: totals at the limits of the stated domain (amounts up to 10^27, rates between 10^-3 and 10^3), set by the admin
    pub fn extreme_resume(&mut self) {
        let admin = self.s.admin.clone();
        let (n, l) = *self.r.pick(&[(E27, E27 / 1000), (E27 / 1000, E27), (E27, E27), (1000u128, 1u128), (1, 1000), (E27, E27 - 1), (0, 0), (E27 - 7, 999_999_999_999_999_999_999_999u128 + 13)]);
        let rw = *self.r.pick(&[0u128, 1, E27]);
        self.w.exec(None, &admin, vec![], "breaker");
        self.w.exec(Some(0), &admin, vec![], &format!("resume {} {} {}", n, l, rw));
    }

    /// C16: configuration sections at their limits
    pub fn extreme_admin(&mut self) {
        let admin = self.s.admin.clone();
        match self.r.below(4) {
            0 => {
                let bp = extreme_period(&mut self.r);
                self.w.exec(None, &admin, vec![], &format!("updcfg - - - - {}", bp));
            }
            1 => {
                let t = if self.r.chance(50) { hs(&addr(CHAIN_PREFIX, "treasury2", 32)) } else { "-".to_string() };
                let fee = *self.r.pick(&[0u128, 100_000, 100_001, 10u128.pow(17), 10u128.pow(30), u128::MAX]);
                self.w.exec(None, &admin, vec![], &format!("updcfg - - ({};{}) - -", fee, t));
            }
            2 => {
                let o = if self.r.chance(50) { hs(&addr(CHAIN_PREFIX, "oracle", 32)) } else { "-".to_string() };
                let min = *self.r.pick(&[0u128, 1, E27]);
                self.w.exec(None, &admin, vec![], &format!("updcfg - ({};{};{};{};{}) - - -", hs(CHAIN_PREFIX), hs(D), hs(&self.s.channel), min, o));
            }
            _ => {
                let v = view(&self.w.sim);
                let n = &v.cfg.native_chain_config;
                let ub = extreme_period(&mut self.r);
                self.w.exec(
                    None,
                    &admin,
                    vec![],
                    &format!(
                        "updcfg ({};{};{};{};{};{};{}) - - - -",
                        hs(&n.account_address_prefix),
                        hs(&n.validator_address_prefix),
                        hs(&n.token_denom),
                        s_list(&n.validators, |a| hs(a.as_str())),
                        ub,
                        hs(n.staker_address.as_str()),
                        hs(n.reward_collector_address.as_str())
                    ),
                );
            }
        }
    }

    pub fn start(&mut self) -> bool {
        let msg = self.s.inst_msg();
        let line = self.s.inst_line();
        let admin = self.s.admin.clone();
        if !self.w.instantiate(&admin, msg, line) {
            return false;
        }
        // the contract starts halted; the admin resumes it with zero totals
        self.w.tick(1_000_000_000);
        self.w.exec(Some(0), &admin, vec![], "resume 0 0 0")
    }

    fn user(&mut self) -> String {
        let us = self.s.users.clone();
        self.r.pick(&us).clone()
    }
    fn txi(&mut self) -> Option<u32> {
        if self.r.chance(85) {
            Some(self.r.below(50) as u32)
        } else {
            None
        }
    }

    pub fn step(&mut self) {
        let v = view(&self.w.sim);
        let admin = v.admin.clone().unwrap_or_default();
        let lst = self.s.lst();
        let k = self.r.below(100);
        // time always moves a little
        let dt = 1 + self.r.below(5_000_000_000);
        self.w.tick(dt);
        if self.extreme {
            // entry-point robustness: a malformed reply to the next sub-message, or a reply nobody is waiting for
            self.w.bad_reply_next = if self.r.chance(4) { Some(*self.r.pick(&["nodata", "baddata"])) } else { None };
            if self.r.chance(3) {
                let id = *self.r.pick(&[0u64, 1, 2, 3, u64::MAX]);
                let line = match self.r.below(3) {
                    0 => format!("reply {} ok {}", id, self.r.below(5)),
                    1 => format!("reply {} err", id),
                    _ => format!("reply {} nodata", id),
                };
                self.w.ops.push(line.clone());
                let toks: Vec<&str> = line.split(' ').collect();
                let seq = if toks.len() > 3 { p_u64(toks[3]) } else { 0 };
                self.w.sim.reply(p_u64(toks[1]), toks[2], seq);
            }
        }
        match k {
            0..=7 => {
                let u = self.user();
                let a = if self.extreme { amount_extreme(&mut self.r, 1000).max(1) } else { amount_near(&mut self.r, 1000).max(1) };
                self.w.faucet(&u, D, a);
            }
            8..=27 => {
                // stake
                let u = self.user();
                let bal = self.w.chain.bal(&u, D);
                let min = v.cfg.protocol_chain_config.minimum_liquid_stake_amount.u128();
                let mut a = amount_near(&mut self.r, min);
                if self.extreme && bal > 0 && self.r.chance(40) {
                    a = bal;
                }
                if bal == 0 {
                    let top = a.max(1);
                    self.w.faucet(&u, D, top);
                } else if a > bal && self.r.chance(90) {
                    a = 1 + self.r.u128_upto(bal - 1);
                }
                let mint_to = match self.r.below(10) {
                    0..=4 => "-".to_string(),
                    5 | 6 => hs(&self.user()),
                    7 => {
                        let nu = self.s.native_users.clone();
                        hs(self.r.pick::<String>(&nu).as_str())
                    }
                    8 => {
                        if self.r.chance(50) {
                            hs(&self.s.staker.clone())
                        } else {
                            let nu = self.s.native_users.clone();
                            hs(self.r.pick::<String>(&nu).as_str())
                        }
                    }
                    _ => hs("garbage"),
                };
                let flag = match self.r.below(4) {
                    0 => "1",
                    1 => "0",
                    _ => "-",
                };
                // expected mint amount: none / exact / one too many
                let n = v.st.total_native_token.u128();
                let l = v.st.total_liquid_stake_token.u128();
                let exact = if n == 0 || l == 0 { a } else { mul_div(l, a, n) };
                let exp = match self.r.below(6) {
                    0 => exact.to_string(),
                    1 => (exact + 1).to_string(),
                    2 => exact.saturating_sub(1).to_string(),
                    _ => "-".to_string(),
                };
                let txi = self.txi();
                let mut funds = vec![Coin::new(a, D)];
                let have_lst = self.w.chain.bal(&u, &lst);
                if have_lst > 0 && self.r.chance(6) {
                    // a second coin attached to the stake (the sender's own LST): the whole call must be refused
                    let extra = Coin::new(1 + self.r.u128_upto(have_lst.min(500)), lst.clone());
                    if self.r.chance(50) {
                        funds.push(extra);
                    } else {
                        funds.insert(0, extra);
                    }
                }
                self.w.exec(txi, &u, funds, &format!("stake {} {} {}", mint_to, flag, exp));
            }
            28..=37 => {
                // unstake
                let u = self.user();
                let bal = self.w.chain.bal(&u, &lst);
                let a = if bal == 0 || self.r.chance(5) {
                    1 + self.r.u128_upto(100)
                } else if self.r.chance(12) {
                    1 // a dust request: its share of a slashed batch may round to zero
                } else if self.r.chance(30) {
                    bal
                } else {
                    1 + self.r.u128_upto(bal - 1)
                };
                let txi = self.txi();
                self.w.exec(txi, &u, vec![Coin::new(a, lst.clone())], "unstake");
            }
            38..=45 => {
                // submit, often exactly around the deadline
                if let Some(b) = v.batches.iter().find(|b| b.id == v.pending) {
                    if let Some(t) = b.next_batch_action_time {
                        let now_s = self.w.now_ns / 1_000_000_000;
                        if self.r.chance(60) && t > now_s {
                            let target = match self.r.below(3) {
                                0 => t - 1,
                                1 => t,
                                _ => t.saturating_add(1),
                            };
                            if target > now_s && target - now_s < 400_000_000 {
                                let sub_ns = if self.r.chance(50) { 0 } else { self.r.below(1_000_000_000) };
                                let dt = (target - now_s) * 1_000_000_000 - (self.w.now_ns % 1_000_000_000) + sub_ns;
                                self.w.tick(dt);
                            }
                        }
                    }
                }
                let u = if self.r.chance(50) { self.user() } else { addr(CHAIN_PREFIX, "stranger", 20) };
                let txi = self.txi();
                self.w.exec(txi, &u, vec![], "submit");
            }
            46..=57 => {
                // relay an in-flight packet
                let flights: Vec<u64> = self.w.chain.packets.values().filter(|p| p.state == PState::Flight).map(|p| p.seq).collect();
                if !flights.is_empty() {
                    let seq = *self.r.pick(&flights);
                    let o = match self.r.below(10) {
                        0..=5 => "ok",
                        6 | 7 => "err",
                        _ => "timeout",
                    };
                    self.w.relay(seq, o);
                }
            }
            58..=63 => {
                // rewards from the collector
                let mut a = match self.r.below(6) {
                    0 => 1 + self.r.u128_upto(20),
                    1 => 100_000,
                    2 => 99_999 + self.r.u128_upto(3),
                    _ => 1 + self.r.u128_upto(1_000_000),
                };
                if self.extreme && self.r.chance(40) {
                    a = amount_extreme(&mut self.r, 1).max(1);
                }
                // the collector the admin configured (the stored one unless an update was lost)
                let col = self.s.collector.clone();
                self.w.native_faucet(&col, D, a);
                let ch = self.s.channel.clone();
                self.w.hook(&col, &ch, CHAIN_PREFIX, D, D, a, "rewards");
            }
            64..=71 => {
                // the operator returns unstaked tokens for a submitted batch
                let mut subs: Vec<_> = v.batches.iter().filter(|b| b.status == milky_way::staking::BatchStatus::Submitted).cloned().collect();
                if self.r.chance(20) {
                    // a duplicate or stray delivery: any batch, whatever its status
                    subs = v.batches.clone();
                }
                if !subs.is_empty() {
                    let b = self.r.pick(&subs).clone();
                    let t = b.next_batch_action_time.unwrap_or(0);
                    let now_s = self.w.now_ns / 1_000_000_000;
                    if self.r.chance(75) && t > now_s {
                        let target = match self.r.below(4) {
                            0 => t - 1,
                            1 => t,
                            _ => t.saturating_add(1 + self.r.below(100)),
                        };
                        if target > now_s && target - now_s < 400_000_000 {
                            self.w.tick((target - now_s) * 1_000_000_000);
                        }
                    }
                    let exp = b.expected_native_unstaked.map(|x| x.u128()).unwrap_or(0);
                    let a = match self.r.below(10) {
                        0 => {
                            self.flags.dishonest_operator = true;
                            exp.saturating_sub(1 + self.r.u128_upto(exp / 2))
                        }
                        1 => {
                            self.flags.dishonest_operator = true;
                            exp + 1 + self.r.u128_upto(1000)
                        }
                        _ => exp,
                    };
                    let staker = self.s.staker.clone();
                    let have = self.w.chain.nbal(&staker, D);
                    if have < a {
                        // the operator tops up from elsewhere (long delivery) -- not honest backing
                        self.flags.dishonest_operator = true;
                        self.w.native_faucet(&staker, D, a - have);
                    }
                    let id = if self.r.chance(5) { b.id + 7 } else { b.id };
                    let ch = self.s.channel.clone();
                    if a > 0 {
                        self.w.hook(&staker, &ch, CHAIN_PREFIX, D, D, a, &format!("unstaked {}", id));
                    }
                }
            }
            72..=81 => {
                // withdraw
                let u = if self.r.chance(85) && !v.reqs.is_empty() { self.r.pick(&v.reqs).user.clone() } else { self.user() };
                let id = if self.r.chance(85) && !v.reqs.is_empty() { self.r.pick(&v.reqs).batch_id } else { self.r.below(v.pending + 2) };
                let txi = self.txi();
                self.w.exec(txi, &u, vec![], &format!("withdraw {}", id));
            }
            82..=86 => {
                // recovery
                let refundable: Vec<_> = v.pkts.iter().filter(|p| p.status != staking::state::ibc::PacketLifecycleStatus::Sent).collect();
                let mode = self.r.below(10);
                let (who, args) = match mode {
                    0..=3 => (self.user(), format!("{} - -", self.r.pick(&["-", "0", "1"]))),
                    4..=6 => {
                        let rcv = if !refundable.is_empty() && self.r.chance(60) { self.r.pick(&refundable).receiver.clone() } else { self.s.native_users[(self.r.below(2)) as usize].clone() };
                        (self.user(), format!("{} - {}", self.r.pick(&["-", "0", "1"]), hs(&rcv)))
                    }
                    7 | 8 => {
                        // admin-forced, honest: a subset of refundable packets of one receiver
                        if !refundable.is_empty() {
                            let p0 = self.r.pick(&refundable).clone();
                            let mut ids: Vec<u64> = refundable.iter().filter(|p| p.receiver == p0.receiver && p.amount.denom == p0.amount.denom && self.r.0 % 3 != 5).map(|p| p.sequence).collect();
                            if self.r.chance(30) && ids.len() > 1 {
                                ids.truncate(1);
                            }
                            if self.r.chance(20) {
                                // a selection across receivers and denoms (must be refused as a whole)
                                ids = refundable.iter().map(|p| p.sequence).collect();
                                if self.r.chance(50) {
                                    ids.reverse();
                                }
                            }
                            if self.r.chance(35) {
                                // the same id twice: next to itself or with other ids in between, at either end
                                let d = ids[self.r.below(ids.len() as u64) as usize];
                                if self.r.chance(50) {
                                    ids.push(d);
                                } else {
                                    ids.insert(0, d);
                                }
                            }
                            (admin.clone(), format!("- {} {}", s_list(&ids, |x| x.to_string()), hs(&p0.receiver)))
                        } else {
                            if v.pkts.iter().any(|p| p.sequence == 1 && p.status == staking::state::ibc::PacketLifecycleStatus::Sent) {
                                self.flags.forced_recovery = true;
                            }
                            (admin.clone(), "- [1] -".to_string())
                        }
                    }
                    _ => {
                        // admin-forced on anything (may include in-flight packets)
                        if !v.pkts.is_empty() {
                            let p0 = self.r.pick(&v.pkts).clone();
                            if p0.status == staking::state::ibc::PacketLifecycleStatus::Sent {
                                self.flags.forced_recovery = true;
                            }
                            let who = if self.r.chance(80) { admin.clone() } else { self.user() };
                            (who, format!("- [{}] {}", p0.sequence, hs(&p0.receiver)))
                        } else {
                            (self.user(), "- [] -".to_string())
                        }
                    }
                };
                let txi = self.txi();
                self.w.exec(txi, &who, vec![], &format!("recover {}", args));
            }
            87 | 88 => {
                let ch = if self.r.chance(50) { self.s.channel.clone() } else { "channel-99999".to_string() };
                // mostly the sequence of a record the contract holds (a callback of ANOTHER channel that happens to carry it)
                let seq = if !v.pkts.is_empty() && self.r.chance(60) {
                    self.r.pick(&v.pkts).sequence
                } else if self.r.chance(50) {
                    self.r.below(self.w.chain.next_seq + 3)
                } else {
                    1_000_000 + self.r.below(10)
                };
                // a stray callback must not name a packet that is genuinely in flight on our channel
                let genuine = ch == self.s.channel && self.w.chain.packets.contains_key(&seq);
                if !genuine {
                    let kind = *self.r.pick(&["ack_ok", "ack_err", "timeout"]);
                    self.w.stray(&ch, seq, kind);
                }
            }
            89..=93 => self.admin_op(&v, &admin),
            94 => {
                let up = !self.w.chain.channel_up || self.r.chance(50);
                self.w.set_channel(up);
            }
            95 | 96 => {
                // long jump in time
                let dt = *self.r.pick(&[60u64, 3600, 86_400, 1_814_400]) * 1_000_000_000;
                self.w.tick(dt);
            }
            _ => {
                // fee withdraw
                let f = v.st.total_fees.u128();
                let a = match self.r.below(4) {
                    0 => f,
                    1 => f + 1,
                    2 => 0,
                    _ => self.r.u128_upto(f),
                };
                let who = if self.r.chance(85) { admin } else { self.user() };
                self.w.exec(Some(1), &who, vec![], &format!("feewd {}", a));
            }
        }
        if !self.w.chain.channel_up && self.r.chance(40) {
            self.w.set_channel(true);
        }
    }

    /// UpdateConfig that changes the routing: a new channel (protocol section), new staker and collector (native section),
    /// or both sections in one message. The generator follows what the admin configured: later hook deliveries come over
    /// the new channel from the new accounts.
    fn reroute_op(&mut self, v: &View, admin: &str) {
        let n = &v.cfg.native_chain_config;
        let k = self.r.below(1000);
        let new_staker = addr(&self.s.native_prefix, &format!("staker-{k}"), 20);
        let new_coll = addr(&self.s.native_prefix, &format!("collector-{k}"), 20);
        let new_ch = format!("channel-{}", 7000 + k);
        let native = format!(
            "({};{};{};{};{};{};{})",
            hs(&n.account_address_prefix),
            hs(&n.validator_address_prefix),
            hs(&n.token_denom),
            s_list(&n.validators, |a| hs(a.as_str())),
            n.unbonding_period,
            hs(&new_staker),
            hs(&new_coll)
        );
        let p = &v.cfg.protocol_chain_config;
        let protocol = format!(
            "({};{};{};{};{})",
            hs(CHAIN_PREFIX),
            hs(D),
            hs(&new_ch),
            p.minimum_liquid_stake_amount.u128(),
            s_opt(&p.oracle_address, |o| hs(o.as_str()))
        );
        let (ns, ps) = match self.r.below(3) {
            0 => (native.clone(), "-".to_string()),
            1 => ("-".to_string(), protocol.clone()),
            _ => (native.clone(), protocol.clone()),
        };
        if self.w.exec(None, admin, vec![], &format!("updcfg {} {} - - -", ns, ps)) {
            self.flags.routing_changed = true;
            if ns != "-" {
                self.s.staker = new_staker;
                self.s.collector = new_coll;
            }
            if ps != "-" {
                self.s.channel = new_ch;
            }
        }
    }

    fn admin_op(&mut self, v: &View, admin: &str) {
        if self.reroute && self.r.chance(12) {
            self.reroute_op(v, admin);
            return;
        }
        let who = if self.r.chance(85) { admin.to_string() } else { self.user() };
        match self.r.below(14) {
            12 | 13 => {
                // several sections in one UpdateConfig (each present with probability 1/2): every supplied one must apply
                let n = &v.cfg.native_chain_config;
                let nat = if self.r.chance(50) {
                    format!(
                        "({};{};{};{};{};{};{})",
                        hs(&n.account_address_prefix),
                        hs(&n.validator_address_prefix),
                        hs(&n.token_denom),
                        s_list(&n.validators, |a| hs(a.as_str())),
                        *self.r.pick(&[120u64, 7200, 9000]),
                        hs(n.staker_address.as_str()),
                        hs(n.reward_collector_address.as_str())
                    )
                } else {
                    "-".to_string()
                };
                let pro = if self.r.chance(50) {
                    let o = if self.r.chance(50) { hs(&addr(CHAIN_PREFIX, "oracle", 32)) } else { "-".to_string() };
                    format!("({};{};{};{};{})", hs(CHAIN_PREFIX), hs(D), hs(&self.s.channel), *self.r.pick(&[1u128, 10, 100]), o)
                } else {
                    "-".to_string()
                };
                let fee = if self.r.chance(50) {
                    let t = if self.r.chance(50) { hs(&addr(CHAIN_PREFIX, "treasury2", 32)) } else { "-".to_string() };
                    format!("({};{})", *self.r.pick(&[0u128, 5000, 10_000, 100_000]), t)
                } else {
                    "-".to_string()
                };
                let mon = if self.r.chance(60) { s_list(&monitor_set(&mut self.r), |m| hs(m)) } else { "-".to_string() };
                let bp = if self.r.chance(50) { self.r.pick(&[30u64, 60, 3600]).to_string() } else { "-".to_string() };
                self.w.exec(None, &who, vec![], &format!("updcfg {} {} {} {} {}", nat, pro, fee, mon, bp));
            }
            0 => {
                let who = if self.r.chance(50) && !v.cfg.monitors.is_empty() {
                    v.cfg.monitors[self.r.below(v.cfg.monitors.len() as u64) as usize].to_string()
                } else {
                    who
                };
                self.w.exec(None, &who, vec![], "breaker");
            }
            1 => {
                // resume with unchanged totals (plain restart), or -- kept -- re-based to a fraction of them (possibly below
                // what the pending batch holds): batches and requests are none of ResumeContract's business
                let k = if self.r.chance(30) { 1 + self.r.below(3) as u128 } else { 4 };
                // ... or to a slashed pool (less stake than LST outstanding: the rate below 1)
                let slash = if self.r.chance(15) { 2 + self.r.below(2) as u128 } else { 1 };
                let line = format!(
                    "resume {} {} {}",
                    v.st.total_native_token.u128() / 4 * k / slash,
                    v.st.total_liquid_stake_token.u128() / 4 * k,
                    v.st.total_reward_amount.u128()
                );
                self.w.exec(Some(2), &who, vec![], &line);
            }
            2 => {
                // fee / treasury change
                let t = if self.r.chance(50) { hs(&addr(CHAIN_PREFIX, "treasury2", 32)) } else { "-".to_string() };
                let fee = *self.r.pick(&[0u128, 5000, 10_000, 100_000, 100_001]);
                self.w.exec(None, &who, vec![], &format!("updcfg - - ({};{}) - -", fee, t));
            }
            3 => {
                // protocol section: toggle the oracle, change the minimum; routing unchanged
                let o = if self.r.chance(50) { hs(&addr(CHAIN_PREFIX, "oracle", 32)) } else { "-".to_string() };
                let min = *self.r.pick(&[1u128, 10, 100]);
                self.w.exec(None, &who, vec![], &format!("updcfg - ({};{};{};{};{}) - - -", hs(CHAIN_PREFIX), hs(D), hs(&self.s.channel), min, o));
            }
            4 => {
                let bp = *self.r.pick(&[30u64, 60, 3600]);
                self.w.exec(None, &who, vec![], &format!("updcfg - - - - {}", bp));
            }
            5 => {
                let ms: Vec<String> = monitor_set(&mut self.r);
                self.w.exec(None, &who, vec![], &format!("updcfg - - - {} -", s_list(&ms, |m| hs(m))));
            }
            6 => {
                let nv = addr(&self.s.val_prefix, &format!("val{}", self.r.below(6)), 20);
                self.w.exec(None, &who, vec![], &format!("addval {}", hs(&nv)));
            }
            7 => {
                let nv = addr(&self.s.val_prefix, &format!("val{}", self.r.below(6)), 20);
                self.w.exec(None, &who, vec![], &format!("rmval {}", hs(&nv)));
            }
            8 => {
                let o = self.user();
                self.w.exec(None, &who, vec![], &format!("xfer_own {}", hs(&o)));
            }
            9 => {
                if let (Some(p), Some(t)) = (&v.st.pending_owner, &v.st.owner_transfer_min_time) {
                    let now_s = self.w.now_ns / 1_000_000_000;
                    let target = match self.r.below(3) {
                        0 => t.seconds() - 1,
                        1 => t.seconds(),
                        _ => t.seconds() + 1,
                    };
                    if self.r.chance(70) && target > now_s {
                        self.w.tick((target - now_s) * 1_000_000_000);
                    }
                    let who = if self.r.chance(80) { p.to_string() } else { self.user() };
                    self.w.exec(None, &who, vec![], "accept_own");
                } else {
                    let u = self.user();
                    self.w.exec(None, &u, vec![], "accept_own");
                }
            }
            10 => {
                self.w.exec(None, &who, vec![], "revoke_own");
            }
            _ => {
                // native section unchanged in routing terms: same staker/collector, new unbonding period
                let n = &v.cfg.native_chain_config;
                let ub = *self.r.pick(&[120u64, 7200]);
                self.w.exec(
                    None,
                    &who,
                    vec![],
                    &format!(
                        "updcfg ({};{};{};{};{};{};{}) - - - -",
                        hs(&n.account_address_prefix),
                        hs(&n.validator_address_prefix),
                        hs(&n.token_denom),
                        s_list(&n.validators, |a| hs(a.as_str())),
                        ub,
                        hs(n.staker_address.as_str()),
                        hs(n.reward_collector_address.as_str())
                    ),
                );
            }
        }
    }

    /// Authorization / circuit-breaker probes: every message variant (with arguments that succeed for the
    /// entitled caller where the state allows) by every principal, each in a transaction that is rolled back.
    /// Value-moving calls that succeed are replayed behind a CircuitBreaker in the same rolled-back transaction.
    pub fn probes(&mut self) {
        let v = view(&self.w.sim);
        let admin = v.admin.clone().unwrap_or_default();
        let lst = self.s.lst();
        let ch = self.s.channel.clone();
        let staker = v.cfg.native_chain_config.staker_address.to_string();
        let collector = v.cfg.native_chain_config.reward_collector_address.to_string();
        let hook_s = hook_account(&ch, &staker, CHAIN_PREFIX);
        let hook_c = hook_account(&ch, &collector, CHAIN_PREFIX);
        let nominee = v.st.pending_owner.as_ref().map(|a| a.to_string()).unwrap_or_else(|| self.s.users[0].clone());
        let monitor = v.cfg.monitors.first().map(|a| a.to_string()).unwrap_or_else(|| addr(CHAIN_PREFIX, "monitor0", 20));
        let last_monitor = v.cfg.monitors.last().map(|a| a.to_string()).unwrap_or_else(|| addr(CHAIN_PREFIX, "monitor1", 20));
        let mut principals = vec![
            admin.clone(),
            self.s.admin.clone(), // the original admin: a former admin after a hand-over
            nominee,
            monitor,
            last_monitor,
            hook_s,
            hook_c,
            self.s.me.clone(),
            self.s.users[1 % self.s.users.len()].clone(),
            addr(CHAIN_PREFIX, "fresh", 20),
        ];
        principals.dedup();
        let min = v.cfg.protocol_chain_config.minimum_liquid_stake_amount.u128();
        let submitted = v.batches.iter().find(|b| b.status == milky_way::staking::BatchStatus::Submitted);
        let refundable: Vec<u64> = v
            .pkts
            .iter()
            .filter(|p| p.status != staking::state::ibc::PacketLifecycleStatus::Sent && p.receiver == staker)
            .map(|p| p.sequence)
            .collect();
        let newval = addr(&self.s.val_prefix, "val-probe", 20);
        let oldval = v.cfg.native_chain_config.validators.first().map(|a| a.to_string()).unwrap_or_default();
        let d = |a: u128| format!("[{}:{}]", hs(D), a);
        let mut variants: Vec<(String, String)> = vec![
            (d(min + 1000), "stake - - -".to_string()),
            // a stake is paid with exactly one coin, the staked asset: anything else attached is refused
            (format!("[{}:{},{}:{}]", hs(D), min + 1000, hs(&lst), 5), "stake - - -".to_string()),
            (format!("[{}:{},{}:{}]", hs("uosmo"), 5, hs(D), min + 1000), "stake - - -".to_string()),
            (format!("[{}:{}]", hs(&lst), min + 1000), "stake - - -".to_string()),
            (format!("[{}:{}]", hs(&lst), 10), "unstake".to_string()),
            ("[]".to_string(), "submit".to_string()),
            ("[]".to_string(), format!("addval {}", hs(&newval))),
            ("[]".to_string(), format!("rmval {}", hs(&oldval))),
            ("[]".to_string(), format!("xfer_own {}", hs(&self.s.users[0]))),
            ("[]".to_string(), "accept_own".to_string()),
            ("[]".to_string(), "revoke_own".to_string()),
            ("[]".to_string(), format!("updcfg - - ({};-) - -", 777)),
            ("[]".to_string(), "updcfg - - - [] 77".to_string()),
            (d(5000), "rewards".to_string()),
            // rewards whose funds carry other coins, or no staked-asset coin at all
            (format!("[{}:{},{}:{}]", hs("uosmo"), 5, hs(D), 7000), "rewards".to_string()),
            (format!("[{}:{},{}:{}]", hs(D), 7000, hs(&lst), 5), "rewards".to_string()),
            (format!("[{}:{}]", hs("uosmo"), 5), "rewards".to_string()),
            ("[]".to_string(), "rewards".to_string()),
            ("[]".to_string(), "breaker".to_string()),
            (
                "[]".to_string(),
                format!("resume {} {} {}", v.st.total_native_token.u128(), v.st.total_liquid_stake_token.u128(), v.st.total_reward_amount.u128()),
            ),
            ("[]".to_string(), "resume 5 7 9".to_string()),
            ("[]".to_string(), "recover - - -".to_string()),
            ("[]".to_string(), format!("recover - {} -", s_list(&refundable, |x| x.to_string()))),
            ("[]".to_string(), format!("feewd {}", v.st.total_fees.u128().min(3))),
        ];
        if let Some(b) = submitted {
            variants.push((d(b.expected_native_unstaked.map(|x| x.u128()).unwrap_or(1).max(1)), format!("unstaked {}", b.id)));
        } else {
            variants.push((d(5), format!("unstaked {}", v.pending)));
        }
        if let Some(b) = v.batches.iter().find(|b| b.status == milky_way::staking::BatchStatus::Received) {
            variants.push((d(7), format!("unstaked {}", b.id)));
        }
        if let Some(b) = submitted {
            // a payment that is not in the staked asset must not settle the batch
            variants.push((format!("[{}:{}]", hs("uosmo"), 5), format!("unstaked {}", b.id)));
            variants.push((format!("[{}:{}]", hs(&lst), 5), format!("unstaked {}", b.id)));
            variants.push((format!("[{}:{}]", hs("utia"), 5), format!("unstaked {}", b.id)));
            variants.push((format!("[{}:{},{}:{}]", hs("uosmo"), 5, hs(D), 9), format!("unstaked {}", b.id)));
        }
        // time far enough for every deadline
        let t = self.w.now_ns + 40 * 86_400 * 1_000_000_000;
        let mut withdraws: Vec<(String, String)> = vec![];
        for r in v.reqs.iter().take(3) {
            withdraws.push((r.user.clone(), format!("withdraw {}", r.batch_id)));
        }
        let value_moving = ["stake", "unstake", "submit", "withdraw", "rewards", "unstaked"];
        let mut run_probe = |g: &mut WorldGen, who: &str, funds: &str, variant: &str| {
            let snap = clone_storage(&g.w.sim.deps.storage);
            let toks: Vec<&str> = variant.split(' ').collect();
            let line = format!("exec {} 1 {} {} {}", t, hs(who), funds, variant);
            g.w.ops.push("tx_begin".to_string());
            g.w.ops.push(line.clone());
            let c = g.w.sim.execute(t, Some(1), who, p_list(funds, p_coin), parse_exec(&toks));
            g.w.ops.push("tx_abort".to_string());
            g.w.sim.deps.storage = clone_storage(&snap);
            if c == Class::Ok && value_moving.contains(&toks[0]) {
                // the same call behind the circuit breaker
                let adm = view(&g.w.sim).admin.unwrap_or_default();
                g.w.ops.push("tx_begin".to_string());
                g.w.ops.push(format!("exec {} 1 {} [] breaker", t, hs(&adm)));
                g.w.sim.execute(t, Some(1), &adm, vec![], parse_exec(&["breaker"]));
                g.w.ops.push(line);
                g.w.sim.execute(t, Some(1), who, p_list(funds, p_coin), parse_exec(&toks));
                g.w.ops.push("tx_abort".to_string());
                g.w.sim.deps.storage = snap;
            }
        };
        for who in principals.iter() {
            for (funds, variant) in variants.iter() {
                run_probe(self, who, funds, variant);
            }
            for (_, wv) in withdraws.iter() {
                run_probe(self, who, "[]", wv);
            }
        }
        for (u, wv) in withdraws.iter() {
            run_probe(self, u, "[]", wv);
        }
    }

    /// Calls in states the random walk seldom reaches, each sequence inside one rolled-back transaction:
    /// rewards (and a stake) right after the admin re-based the totals to "stake but no LST".
    pub fn edge_probes(&mut self) {
        let v = view(&self.w.sim);
        let admin = v.admin.clone().unwrap_or_default();
        let ch = self.s.channel.clone();
        let collector = v.cfg.native_chain_config.reward_collector_address.to_string();
        let hook_c = hook_account(&ch, &collector, CHAIN_PREFIX);
        let t = self.w.now_ns;
        let n = 1 + self.r.u128_upto(1_000_000);
        let a = 100_000 + self.r.u128_upto(1_000_000);
        let seqs: Vec<Vec<(String, String, String)>> = vec![
            vec![
                (admin.clone(), "[]".to_string(), "breaker".to_string()),
                (admin.clone(), "[]".to_string(), format!("resume {} 0 {}", n, v.st.total_reward_amount.u128())),
                (hook_c.clone(), format!("[{}:{}]", hs(D), a), "rewards".to_string()),
            ],
            vec![
                (admin.clone(), "[]".to_string(), "breaker".to_string()),
                (admin.clone(), "[]".to_string(), "resume 0 0 0".to_string()),
                (hook_c.clone(), format!("[{}:{}]", hs(D), a), "rewards".to_string()),
            ],
            // a reward so large that fee rate x reward needs more than 128 bits, into a pool of the same magnitude (the fee is
            // still the exact floor quotient)
            vec![
                (admin.clone(), "[]".to_string(), "breaker".to_string()),
                (admin.clone(), "[]".to_string(), format!("resume {} {} 0", 10u128.pow(35), 10u128.pow(35))),
                (hook_c.clone(), format!("[{}:{}]", hs(D), 34 * 10u128.pow(32) + self.r.u128_upto(10u128.pow(35))), "rewards".to_string()),
                (hook_c.clone(), format!("[{}:{}]", hs(D), 10u128.pow(34) * (1 + self.r.u128_upto(20))), "rewards".to_string()),
            ],
        ];
        for sq in seqs {
            let snap = clone_storage(&self.w.sim.deps.storage);
            self.w.ops.push("tx_begin".to_string());
            for (who, funds, variant) in sq.iter() {
                let toks: Vec<&str> = variant.split(' ').collect();
                self.w.ops.push(format!("exec {} 1 {} {} {}", t, hs(who), funds, variant));
                self.w.sim.execute(t, Some(1), who, p_list(funds, p_coin), parse_exec(&toks));
            }
            self.w.ops.push("tx_abort".to_string());
            self.w.sim.deps.storage = clone_storage(&snap);
            // the twin: the same calls with the oracle removed first (the oracle is optional: apart from the posts the
            // outcomes must be the same with and without it)
            if v.cfg.protocol_chain_config.oracle_address.is_some() {
                let p = &v.cfg.protocol_chain_config;
                let off = format!(
                    "updcfg - ({};{};{};{};-) - - -",
                    hs(&p.account_address_prefix),
                    hs(&p.ibc_token_denom),
                    hs(&p.ibc_channel_id),
                    p.minimum_liquid_stake_amount.u128()
                );
                self.w.ops.push("tx_begin".to_string());
                let toks: Vec<&str> = off.split(' ').collect();
                self.w.ops.push(format!("exec {} 1 {} [] {}", t, hs(&admin), off));
                self.w.sim.execute(t, Some(1), &admin, vec![], parse_exec(&toks));
                for (who, funds, variant) in sq.iter() {
                    let toks: Vec<&str> = variant.split(' ').collect();
                    self.w.ops.push(format!("exec {} 1 {} {} {}", t, hs(who), funds, variant));
                    self.w.sim.execute(t, Some(1), who, p_list(funds, p_coin), parse_exec(&toks));
                }
                self.w.ops.push("tx_abort".to_string());
            }
            self.w.sim.deps.storage = snap;
        }
    }

    /// A slashed batch with a dust request whose share rounds to zero: both requesters withdraw, the dust one twice.
    pub fn scripted_dust(&mut self) {
        let a = self.s.users[0].clone();
        let b = self.s.users[1 % self.s.users.len()].clone();
        let lst = self.s.lst();
        let min = self.s.min.max(1000);
        self.w.faucet(&a, D, 10_000_000 + min);
        self.w.faucet(&b, D, 10_000 + min);
        self.w.tick(1_000_000_000);
        self.w.exec(Some(1), &a, vec![Coin::new(1_000_000u128 + min, D)], "stake - - -");
        self.w.tick(1_000_000_000);
        self.w.exec(Some(2), &b, vec![Coin::new(1_000u128 + min, D)], "stake - - -");
        // settle the stake transfers so that the LST is with the users
        let flying: Vec<u64> = self.w.chain.packets.values().filter(|p| p.state == crate::world::PState::Flight).map(|p| p.seq).collect();
        for q in flying {
            self.w.relay(q, "ok");
        }
        let big = self.w.chain.bal(&a, &lst).min(900_000);
        if big == 0 || self.w.chain.bal(&b, &lst) == 0 {
            return;
        }
        self.w.tick(1_000_000_000);
        self.w.exec(Some(3), &a, vec![Coin::new(big, lst.clone())], "unstake");
        if self.r.chance(50) {
            // an upgraded deployment: the pending batch was stored by a release that kept no request counter
            self.w.ops.push("nocount".to_string());
            self.w.sim.run_line("nocount");
        }
        self.w.exec(Some(4), &b, vec![Coin::new(1u128, lst.clone())], "unstake");
        let v = view(&self.w.sim);
        let Some(pb) = v.batches.iter().find(|x| x.id == v.pending).cloned() else { return };
        let now_s = self.w.now_ns / 1_000_000_000;
        let due = pb.next_batch_action_time.unwrap_or(now_s);
        if due > now_s {
            self.w.tick((due - now_s + 1) * 1_000_000_000);
        }
        if !self.w.exec(Some(5), &a, vec![], "submit") {
            return;
        }
        let v = view(&self.w.sim);
        let Some(sb) = v.batches.iter().find(|x| x.id == pb.id).cloned() else { return };
        let now_s = self.w.now_ns / 1_000_000_000;
        let due = sb.next_batch_action_time.unwrap_or(now_s);
        if due > now_s {
            self.w.tick((due - now_s + 1) * 1_000_000_000);
        }
        // a slashed delivery: well below the batch's liquid total, so the share of the 1-unit request is zero
        let exp = sb.expected_native_unstaked.map(|x| x.u128()).unwrap_or(0);
        let short = (exp / 2).max(1).min(sb.batch_total_liquid_stake.u128().saturating_sub(1).max(1));
        self.flags.dishonest_operator = true;
        let staker = self.s.staker.clone();
        let have = self.w.chain.nbal(&staker, D);
        if have < short {
            self.w.native_faucet(&staker, D, short - have);
        }
        let ch = self.s.channel.clone();
        self.w.hook(&staker, &ch, CHAIN_PREFIX, D, D, short, &format!("unstaked {}", sb.id));
        self.w.tick(1_000_000_000);
        // while the contract holds the batch's funds (so that the bank would not stop a wrong re-send): a stake whose
        // transfer is in flight, a timeout and an error acknowledgement of ANOTHER channel carrying its sequence, a recovery
        // attempt, then the genuine acknowledgement
        let amt0 = 7_000u128.max(self.s.min) + self.r.u128_upto(5_000);
        let before: Vec<u64> = self.w.chain.packets.values().filter(|p| p.state == crate::world::PState::Flight).map(|p| p.seq).collect();
        self.w.exec(Some(13), &a, vec![Coin::new(amt0, D)], "stake - - -");
        let fresh: Vec<u64> = self.w.chain.packets.values().filter(|p| p.state == crate::world::PState::Flight && !before.contains(&p.seq)).map(|p| p.seq).collect();
        for q in fresh.iter() {
            self.w.tick(1_000_000_000);
            self.w.stray("channel-99999", *q, if self.r.chance(50) { "timeout" } else { "ack_err" });
        }
        self.w.tick(1_000_000_000);
        self.w.exec(Some(14), &b, vec![], "recover - - -");
        for q in fresh {
            self.w.tick(1_000_000_000);
            self.w.relay(q, "ok");
        }
        // a stake minted to the staker's own address (one transfer of the
        // staked asset and one of the LST, both to the staker), both refunded, then the recoveries that would have to fuse
        // two denoms -- with spare balance in the contract a wrongly fused re-send would go through
        let amt = 5_000u128.max(self.s.min) + self.r.u128_upto(5_000);
        self.w.exec(Some(10), &a, vec![Coin::new(amt, D)], &format!("stake {} - -", hs(&staker)));
        let flying: Vec<u64> = self.w.chain.packets.values().filter(|p| p.state == crate::world::PState::Flight).map(|p| p.seq).collect();
        for q in flying {
            let o = if self.r.chance(50) { "err" } else { "timeout" };
            self.w.tick(1_000_000_000);
            self.w.relay(q, o);
        }
        self.w.tick(1_000_000_000);
        self.w.exec(Some(11), &b, vec![], "recover - - -");
        self.w.exec(Some(12), &b, vec![], &format!("recover 1 - {}", hs(&staker)));
        self.w.tick(1_000_000_000);
        self.w.exec(Some(6), &b, vec![], &format!("withdraw {}", sb.id));
        self.w.exec(Some(7), &b, vec![], &format!("withdraw {}", sb.id));
        self.w.exec(Some(8), &a, vec![], &format!("withdraw {}", sb.id));
        self.w.exec(Some(9), &b, vec![], &format!("withdraw {}", sb.id));
    }

    /// A store with several hundred batches and tracked transfers (far more than any page size a test would use), then
    /// the list queries without a limit, with limits around the sizes, and a pager that walks the whole table.
    pub fn scripted_bulk(&mut self, n_batches: u64, n_packets: u64) {
        let admin = self.s.admin.clone();
        let u = self.s.users[0].clone();
        let lst = self.s.lst();
        self.w.tick(1_000_000_000);
        self.w.exec(None, &admin, vec![], "updcfg - - - - 30");
        self.w.faucet(&u, D, 10_000_000_000);
        self.w.tick(1_000_000_000);
        self.w.exec(Some(1), &u, vec![Coin::new(5_000_000_000u128, D)], "stake - - -");
        // many tracked transfers: small stakes whose packets are never relayed
        for k in 0..n_packets {
            self.w.tick(1_000_000);
            self.w.exec(Some((k % 40) as u32), &u, vec![Coin::new(1000u128 + k as u128, D)], "stake - - -");
        }
        // many batches: unstake a little, wait out the period, submit
        for _ in 0..n_batches {
            self.w.tick(1_000_000);
            self.w.exec(Some(2), &u, vec![Coin::new(7u128, lst.clone())], "unstake");
            self.w.tick(31_000_000_000);
            self.w.exec(Some(3), &u, vec![], "submit");
        }
        let v = view(&self.w.sim);
        let nb = v.pending;
        let ops = &mut self.w.ops;
        for st in ["-", "submitted", "pending"] {
            for lim in ["-".to_string(), "255".into(), "256".into(), "257".into(), (nb - 1).to_string(), nb.to_string(), (nb + 5).to_string()] {
                ops.push(format!("query batches - {} {}", lim, st));
                ops.push(format!("query batches 10 {} {}", lim, st));
            }
        }
        for lim in ["-".to_string(), "256".into(), "257".into(), "280".into(), "100000".into()] {
            ops.push(format!("query ibcq - {}", lim));
            ops.push(format!("query ibcq 7 {}", lim));
        }
        // a pager with a page size above the sizes a test would use
        let mut cur = "-".to_string();
        for page in 0..4u64 {
            ops.push(format!("query batches {} 280 -", cur));
            cur = (280 * (page + 1)).to_string();
        }
    }

    /// Exhaustive paging probes on the current store: every start cursor (none, each id, gaps, past the end)
    /// x limits {none, 0, 1, 2, n-1, n, n+1} x every status filter; id lists with duplicates and unknowns;
    /// every user's requests; the in-flight queue likewise.
    pub fn page_queries(&mut self) {
        let v = view(&self.w.sim);
        let n = v.pending;
        let mut cursors: Vec<String> = vec!["-".to_string()];
        for k in 0..=(n + 2) {
            cursors.push(k.to_string());
        }
        let lims: Vec<String> = vec!["-".to_string(), "0".into(), "1".into(), "2".into(), n.saturating_sub(1).to_string(), n.to_string(), (n + 1).to_string()];
        for c in cursors.iter() {
            for l in lims.iter() {
                for st in ["-", "pending", "submitted", "received"] {
                    self.w.ops.push(format!("query batches {} {} {}", c, l, st));
                }
            }
        }
        let seqs: Vec<u64> = v.pkts.iter().map(|p| p.sequence).collect();
        let mut pc: Vec<String> = vec!["-".to_string(), "0".to_string()];
        for sq in seqs.iter() {
            pc.push(sq.to_string());
            pc.push((sq + 1).to_string());
        }
        for c in pc.iter() {
            for l in ["-", "0", "1", "2", "3"] {
                self.w.ops.push(format!("query ibcq {} {}", c, l));
            }
        }
        for _ in 0..6 {
            let ids: Vec<String> = (0..self.r.below(7)).map(|_| self.r.below(n + 3).to_string()).collect();
            self.w.ops.push(format!("query byids [{}]", ids.join(",")));
        }
        let us = self.s.users.clone();
        for u in us.iter() {
            self.w.ops.push(format!("query requests {}", hs(u)));
        }
        self.w.ops.push(format!("query requests {}", hs(&addr(CHAIN_PREFIX, "nobody", 20))));
        for (c, l) in [("-", "-"), ("-", "0"), ("-", "1"), ("-", "3"), ("1", "-"), ("0", "2"), ("18446744073709551615", "4294967295")] {
            self.w.ops.push(format!("query allreq {} {}", c, l));
            self.w.ops.push(format!("query allreq2 {} {}", c, l));
        }
        self.w.ops.push("query replyq - -".to_string());
    }

    /// Scripted prelude reproducing the recorded finding F4 (C02): the admin re-bases to (staked > 0, LST = 0),
    /// the next stake sweeps the "ownerless" stake into the fee balance although the contract does not hold it.
    pub fn scripted_sweep(&mut self) {
        let admin = self.s.admin.clone();
        self.w.tick(1_000_000_000);
        self.w.exec(Some(0), &admin, vec![], "resume 12345 0 0");
        let u = self.s.users[0].clone();
        self.w.faucet(&u, D, 1_000_000);
        self.w.tick(1_000_000_000);
        self.w.exec(Some(1), &u, vec![Coin::new(5000u128, D)], "stake - - -");
    }

    /// A re-basing resume that leaves the liquid total below the pending batch while the staked total stays above it,
    /// then SubmitBatch once the batch is due: the code must refuse (InvalidUnstakeAmount) rather than set aside more
    /// than it deducts from the staked total (seeded change C01-7).
    pub fn scripted_rebase_below_pending(&mut self) {
        let admin = self.s.admin.clone();
        let u = self.s.users[0].clone();
        let lst = self.s.lst();
        let min = self.s.min.max(1000);
        self.w.faucet(&u, D, 1_000_000 + min);
        self.w.tick(1_000_000_000);
        self.w.exec(Some(1), &u, vec![Coin::new(100_000u128 + min, D)], "stake - - -");
        let flying: Vec<u64> = self.w.chain.packets.values().filter(|p| p.state == crate::world::PState::Flight).map(|p| p.seq).collect();
        for q in flying {
            self.w.relay(q, "ok");
        }
        let have = self.w.chain.bal(&u, &lst);
        if have < 10 {
            return;
        }
        self.w.tick(1_000_000_000);
        if !self.w.exec(Some(2), &u, vec![Coin::new(have * 3 / 5, lst.clone())], "unstake") {
            return;
        }
        let v = view(&self.w.sim);
        let Some(pb) = v.batches.iter().find(|x| x.id == v.pending).cloned() else { return };
        let bt = pb.batch_total_liquid_stake.u128();
        let n = v.st.total_native_token.u128();
        if bt < 2 || n < bt {
            return;
        }
        let l = if self.r.chance(50) { bt - 1 } else { bt / 2 };
        self.w.tick(1_000_000_000);
        self.w.exec(None, &admin, vec![], "breaker");
        self.w.exec(Some(0), &admin, vec![], &format!("resume {} {} {}", n, l, v.st.total_reward_amount.u128()));
        let now_s = self.w.now_ns / 1_000_000_000;
        let due = pb.next_batch_action_time.unwrap_or(now_s);
        if due > now_s {
            self.w.tick((due - now_s + 1) * 1_000_000_000);
        }
        self.w.exec(Some(3), &u, vec![], "submit");
    }

    /// Several refunded transfers toward one receiver, then admin-forced recoveries naming one of them twice with
    /// another in between, at the end, and next to itself; then an honest forced recovery of what is left.
    pub fn scripted_forced_duplicates(&mut self) {
        let admin = self.s.admin.clone();
        let u = self.s.users[0].clone();
        let n = 3 + self.r.below(2);
        for k in 0..n {
            self.w.faucet(&u, D, 1_000_000);
            self.w.tick(1_000_000_000);
            let a = 1000u128.max(self.s.min) + self.r.u128_upto(50_000);
            self.w.exec(Some(k as u32), &u, vec![Coin::new(a, D)], "stake - - -");
        }
        let flying: Vec<u64> = self.w.chain.packets.values().filter(|p| p.state == crate::world::PState::Flight).map(|p| p.seq).collect();
        for q in flying {
            let o = if self.r.chance(50) { "err" } else { "timeout" };
            self.w.tick(1_000_000_000);
            self.w.relay(q, o);
        }
        let v = view(&self.w.sim);
        let staker = self.s.staker.clone();
        let ids: Vec<u64> = v
            .pkts
            .iter()
            .filter(|p| p.receiver == staker && p.amount.denom == D && p.status != staking::state::ibc::PacketLifecycleStatus::Sent)
            .map(|p| p.sequence)
            .collect();
        if ids.len() >= 2 {
            let shapes: Vec<Vec<u64>> = vec![
                vec![ids[0], ids[1], ids[0]],
                vec![ids[1], ids[0], ids[1], ids[0]],
                vec![ids[0], ids[0], ids[1]],
                ids[..2].to_vec(),
            ];
            for sh in shapes {
                self.w.tick(1_000_000_000);
                self.w.exec(None, &admin, vec![], &format!("recover - {} {}", s_list(&sh, |x| x.to_string()), hs(&staker)));
            }
        }
        // the same with refunded LST deliveries to a native-chain recipient, while the contract holds LST of a pending
        // batch (so that a double-counted re-send would not be stopped by the bank)
        let lst = self.s.lst();
        let nu = self.s.native_users[0].clone();
        let flying: Vec<u64> = self.w.chain.packets.values().filter(|p| p.state == crate::world::PState::Flight).map(|p| p.seq).collect();
        for q in flying {
            self.w.relay(q, "ok");
        }
        let have = self.w.chain.bal(&u, &lst);
        if have > 10 {
            self.w.tick(1_000_000_000);
            self.w.exec(None, &u, vec![Coin::new(have / 2, lst.clone())], "unstake");
        }
        for k in 0..2u32 {
            self.w.faucet(&u, D, 1_000_000);
            self.w.tick(1_000_000_000);
            let a = 1000u128.max(self.s.min) + self.r.u128_upto(20_000);
            self.w.exec(Some(20 + k), &u, vec![Coin::new(a, D)], &format!("stake {} - -", hs(&nu)));
        }
        let flying: Vec<(u64, String)> = self.w.chain.packets.values().filter(|p| p.state == crate::world::PState::Flight).map(|p| (p.seq, p.denom.clone())).collect();
        for (q, dn) in flying {
            self.w.tick(1_000_000_000);
            self.w.relay(q, if dn == lst { "err" } else { "ok" });
        }
        let v = view(&self.w.sim);
        let ids: Vec<u64> = v
            .pkts
            .iter()
            .filter(|p| p.receiver == nu && p.amount.denom == lst && p.status != staking::state::ibc::PacketLifecycleStatus::Sent)
            .map(|p| p.sequence)
            .collect();
        if ids.len() >= 2 {
            for sh in [vec![ids[0], ids[1], ids[0]], ids[..2].to_vec()] {
                self.w.tick(1_000_000_000);
                self.w.exec(None, &admin, vec![], &format!("recover - {} {}", s_list(&sh, |x| x.to_string()), hs(&nu)));
            }
        }
    }

    /// Callbacks of another channel that happen to carry the sequence of a transfer in flight, then a recovery attempt,
    /// then the genuine acknowledgement: the strays change nothing, so there is nothing to recover and nothing is sent twice.
    pub fn scripted_stray_then_recover(&mut self) {
        let u = self.s.users[0].clone();
        let min = self.s.min.max(1000);
        self.w.faucet(&u, D, 1_000_000 + 2 * min);
        for k in 0..2u32 {
            self.w.tick(1_000_000_000);
            let a = 10_000u128.max(min) + self.r.u128_upto(50_000);
            self.w.exec(Some(k), &u, vec![Coin::new(a, D)], "stake - - -");
        }
        let flying: Vec<u64> = self.w.chain.packets.values().filter(|p| p.state == crate::world::PState::Flight).map(|p| p.seq).collect();
        for (i, q) in flying.iter().enumerate() {
            self.w.tick(1_000_000_000);
            self.w.stray("channel-99999", *q, if i % 2 == 0 { "timeout" } else { "ack_err" });
        }
        self.w.tick(1_000_000_000);
        self.w.exec(None, &u, vec![], "recover - - -");
        self.w.exec(None, &u, vec![], "recover 1 - -");
        for q in flying {
            self.w.tick(1_000_000_000);
            self.w.relay(q, "ok");
        }
    }

    /// A slashed pool (the admin re-bases to half the stake for the same LST) and a pending batch that holds only dust, so
    /// that the amount set aside at submission rounds down to zero: the batch is still non-empty and, once due, submitted.
    pub fn scripted_slashed_dust(&mut self) {
        let admin = self.s.admin.clone();
        let a = self.s.users[0].clone();
        let lst = self.s.lst();
        let min = self.s.min.max(1000);
        self.w.faucet(&a, D, 1_000_000 + min);
        self.w.tick(1_000_000_000);
        self.w.exec(Some(1), &a, vec![Coin::new(100_000u128 + min, D)], "stake - - -");
        let flying: Vec<u64> = self.w.chain.packets.values().filter(|p| p.state == crate::world::PState::Flight).map(|p| p.seq).collect();
        for q in flying {
            self.w.relay(q, "ok");
        }
        if self.w.chain.bal(&a, &lst) == 0 {
            return;
        }
        let v = view(&self.w.sim);
        self.w.tick(1_000_000_000);
        self.w.exec(None, &admin, vec![], "breaker");
        self.w.exec(
            None,
            &admin,
            vec![],
            &format!("resume {} {} {}", v.st.total_native_token.u128() / 3, v.st.total_liquid_stake_token.u128(), v.st.total_reward_amount.u128()),
        );
        self.w.tick(1_000_000_000);
        self.w.exec(Some(2), &a, vec![Coin::new(1u128 + self.r.u128_upto(1), lst.clone())], "unstake");
        let v = view(&self.w.sim);
        let Some(pb) = v.batches.iter().find(|x| x.id == v.pending).cloned() else { return };
        let now_s = self.w.now_ns / 1_000_000_000;
        let due = pb.next_batch_action_time.unwrap_or(now_s);
        if due > now_s + 1 {
            // one second early: refused
            self.w.tick((due - now_s - 1) * 1_000_000_000);
            self.w.exec(Some(3), &a, vec![], "submit");
            self.w.tick(1_000_000_000);
        }
        self.w.exec(Some(4), &a, vec![], "submit");
    }

    /// More refunded transfers toward the staker than one recovery page (10): the default, the paginated and the
    /// unpaginated recovery in rolled-back transactions, then one page and the rest for real.
    pub fn scripted_backlog(&mut self) {
        let u = self.s.users[0].clone();
        let n = 11 + self.r.below(4);
        for k in 0..n {
            self.w.faucet(&u, D, 1_000_000);
            self.w.tick(1_000_000_000);
            let a = 1000u128.max(self.s.min) + self.r.u128_upto(50_000);
            self.w.exec(Some(k as u32), &u, vec![Coin::new(a, D)], "stake - - -");
        }
        let flying: Vec<u64> = self.w.chain.packets.values().filter(|p| p.state == crate::world::PState::Flight).map(|p| p.seq).collect();
        for q in flying {
            let o = if self.r.chance(50) { "err" } else { "timeout" };
            self.w.tick(1_000_000_000);
            self.w.relay(q, o);
        }
        let staker = self.s.staker.clone();
        let t = self.w.now_ns;
        for variant in ["recover - - -".to_string(), "recover 1 - -".to_string(), "recover 0 - -".to_string(), format!("recover - - {}", hs(&staker)), format!("recover 1 - {}", hs(&staker))] {
            let snap = clone_storage(&self.w.sim.deps.storage);
            let toks: Vec<&str> = variant.split(' ').collect();
            self.w.ops.push("tx_begin".to_string());
            self.w.ops.push(format!("exec {} 1 {} [] {}", t, hs(&u), variant));
            self.w.sim.execute(t, Some(1), &u, vec![], parse_exec(&toks));
            self.w.ops.push("tx_abort".to_string());
            self.w.sim.deps.storage = snap;
        }
        self.w.tick(1_000_000_000);
        self.w.exec(None, &u, vec![], "recover 1 - -");
        self.w.tick(1_000_000_000);
        self.w.exec(None, &u, vec![], "recover - - -");
    }

    /// World-level observation after an event: the simulator's own ledgers, for the world monitors.
    pub fn snapshot(&mut self, out: &mut String) {
        let nsteps = self.w.ops.iter().filter(|l| !(l.starts_with("tx_") || l.starts_with("cfg ") || l.starts_with('#'))).count();
        let lst = self.s.lst();
        let me = self.s.me.clone();
        out.push_str(&format!(
            "snap {} {} {} {} {} {}\n",
            nsteps,
            self.w.now_ns,
            s_bool(self.flags.routing_changed),
            s_bool(self.flags.forced_recovery),
            s_bool(self.flags.dishonest_operator),
            s_bool(self.w.last_tx_ok)
        ));
        out.push_str(&format!("cbal {} {}\n", self.w.chain.bal(&me, D), self.w.chain.bal(&me, &lst)));
        out.push_str(&format!("sup {}\n", self.w.chain.supply.get(&lst).copied().unwrap_or(0)));
        out.push_str(&format!("esc {} {}\n", self.w.chain.bal(ESCROW, D), self.w.chain.bal(ESCROW, &lst)));
        out.push_str(&format!("nat {} {}\n", self.w.chain.nbal(&self.s.staker, D), self.w.chain.nbal(&self.s.collector, D)));
        for p in self.w.chain.packets.values() {
            out.push_str(&format!(
                "pkt {} {} {} {} {} {}\n",
                p.seq,
                match p.state {
                    PState::Flight => "flight",
                    PState::Delivered => "delivered",
                    PState::Refunded => "refunded",
                },
                hs(&p.denom),
                p.amount,
                hs(&p.receiver),
                p.origin
            ));
        }
    }

    /// Read-only probes appended to the contract-level op stream.
    /// queries sent to a store that was never instantiated: the ones that read the configuration, the state or a
    /// batch record (the list queries answer an empty list there, which the model, having no store at all, does not express)
    pub fn queries_blind(&mut self) {
        let ops = &mut self.w.ops;
        for q in ["query state", "query config", "query pending", "query batch 0", "query batch 1"] {
            ops.push(q.to_string());
        }
    }

    pub fn queries(&mut self) {
        let v = view(&self.w.sim);
        let ops = &mut self.w.ops;
        ops.push("query state".to_string());
        ops.push("query config".to_string());
        ops.push("query pending".to_string());
        let n = v.pending;
        let sa = match self.r.below(4) {
            0 => "-".to_string(),
            _ => self.r.below(n + 2).to_string(),
        };
        let lim = match self.r.below(5) {
            0 => "-".to_string(),
            1 => "0".to_string(),
            2 => "1".to_string(),
            3 => (n + 1).to_string(),
            _ => self.r.below(n + 1).to_string(),
        };
        let stt = *self.r.pick(&["-", "pending", "submitted", "received"]);
        ops.push(format!("query batches {} {} {}", sa, lim, stt));
        let ids: Vec<String> = (0..self.r.below(5)).map(|_| self.r.below(n + 3).to_string()).collect();
        ops.push(format!("query byids [{}]", ids.join(",")));
        ops.push(format!("query batch {}", self.r.below(n + 2)));
        let us = self.s.users.clone();
        ops.push(format!("query requests {}", hs(self.r.pick::<String>(&us).as_str())));
        ops.push(format!("query ibcq {} {}", sa, lim));
        ops.push(format!("query allreq {} {}", sa, lim));
        ops.push(format!("query allreq2 {} {}", sa, lim));
        ops.push(format!("query replyq - -"));
    }
}

pub fn mul_div(a: u128, b: u128, c: u128) -> u128 {
    // floor(a*b/c), saturating (used only to guess a plausible expected_mint_amount)
    use cosmwasm_std::Uint256;
    if c == 0 {
        return u128::MAX;
    }
    let x = Uint256::from(a) * Uint256::from(b) / Uint256::from(c);
    Uint128::try_from(x).map(|v| v.u128()).unwrap_or(u128::MAX)
}
