// Correspondence of the bindings' prost codec with the Coq wire model: decode the given bytes as the named message type
// and encode the value again; pack into / unpack from Any.
use initia_proto::traits::{MessageExt, TypeUrl};
use prost::Message;
use std::panic::{catch_unwind, AssertUnwindSafe};

use crate::fmt::{hex, unhex_bytes as unhex};
use crate::proto_registry::{any_roundtrip, roundtrip};

pub fn rt<T: Message + Default>(b: &[u8]) -> Result<Vec<u8>, String> {
    T::decode(b).map(|m| m.encode_to_vec()).map_err(|e| e.to_string())
}

pub fn any<T: Message + Default + TypeUrl>(b: &[u8]) -> String {
    let m = match T::decode(b) {
        Ok(m) => m,
        Err(_) => return "err".to_string(),
    };
    let a = match m.to_any() {
        Ok(a) => a,
        Err(_) => return "err".to_string(),
    };
    let back = match T::from_any(&a).map(|x| x.to_bytes()) {
        Ok(Ok(v)) => format!("ok {}", hex(&v)),
        _ => "err".to_string(),
    };
    let mut w1 = a.clone();
    w1.type_url.push('x');
    let mut w2 = a.clone();
    w2.type_url = a.type_url.trim_start_matches('/').to_string();
    let wrong = if T::from_any(&w1).is_err() && T::from_any(&w2).is_err() { "rejected" } else { "accepted" };
    format!("url={} value={} back={} wrong={}", hex(a.type_url.as_bytes()), hex(&a.value), back, wrong)
}

pub fn run_file(input: &str) -> String {
    let mut out = String::new();
    let mut step = 0u64;
    for line in input.lines() {
        let t: Vec<&str> = line.split(' ').collect();
        match t[0] {
            "cfg" => {
                step = 0;
                out.push_str(&format!("== {}\n", line));
            }
            "prt" | "prtx" => {
                step += 1;
                let b = unhex(t[2]);
                let r = catch_unwind(AssertUnwindSafe(|| roundtrip(t[1], &b)));
                let s = match r {
                    Ok(Some(Ok(v))) => format!("ok {}", hex(&v)),
                    Ok(Some(Err(_))) => "err".to_string(),
                    Ok(None) => "unknown-type".to_string(),
                    Err(_) => "panic".to_string(),
                };
                out.push_str(&format!("#{} {} {}\n", step, t[0], s));
            }
            "pany" => {
                step += 1;
                let b = unhex(t[3]);
                let r = catch_unwind(AssertUnwindSafe(|| any_roundtrip(t[1], &b)));
                let s = match r {
                    Ok(Some(s)) => s,
                    Ok(None) => "unknown-type".to_string(),
                    Err(_) => "panic".to_string(),
                };
                out.push_str(&format!("#{} pany {}\n", step, s));
            }
            _ => {}
        }
    }
    out
}
