// Token-level parsing and printing of the op / observation format (DESIGN.md, appendix A).
use cosmwasm_std::{Coin, Uint128};

pub fn hex(s: &[u8]) -> String {
    let mut o = String::with_capacity(1 + 2 * s.len());
    o.push('x');
    for b in s {
        o.push_str(&format!("{:02x}", b));
    }
    o
}
pub fn hs(s: &str) -> String {
    hex(s.as_bytes())
}
pub fn unhex_bytes(t: &str) -> Vec<u8> {
    assert!(t.starts_with('x'), "bad hex token {t}");
    let t = &t[1..];
    (0..t.len() / 2)
        .map(|i| u8::from_str_radix(&t[2 * i..2 * i + 2], 16).unwrap())
        .collect()
}
/// strings on the op files are bytes; the Rust API needs `String`, so invalid UTF-8 is replaced
/// (generators only emit valid UTF-8).
pub fn unhex(t: &str) -> String {
    String::from_utf8_lossy(&unhex_bytes(t)).into_owned()
}
pub fn p_opt<T>(t: &str, f: impl Fn(&str) -> T) -> Option<T> {
    if t == "-" {
        None
    } else {
        Some(f(t))
    }
}
pub fn p_u128(t: &str) -> u128 {
    t.parse::<u128>().unwrap_or_else(|_| panic!("bad u128 {t}"))
}
pub fn p_u64(t: &str) -> u64 {
    t.parse::<u64>().unwrap_or_else(|_| panic!("bad u64 {t}"))
}
pub fn p_list<T>(t: &str, f: impl Fn(&str) -> T) -> Vec<T> {
    assert!(t.starts_with('[') && t.ends_with(']'), "bad list {t}");
    let inner = &t[1..t.len() - 1];
    if inner.is_empty() {
        vec![]
    } else {
        inner.split(',').map(f).collect()
    }
}
pub fn p_coin(t: &str) -> Coin {
    let (d, a) = t.split_once(':').expect("bad coin");
    Coin { denom: unhex(d), amount: Uint128::new(p_u128(a)) }
}
pub fn p_rec(t: &str) -> Vec<&str> {
    assert!(t.starts_with('(') && t.ends_with(')'), "bad record {t}");
    t[1..t.len() - 1].split(';').collect()
}

pub fn s_opt<T>(o: &Option<T>, f: impl Fn(&T) -> String) -> String {
    match o {
        None => "-".to_string(),
        Some(x) => f(x),
    }
}
pub fn s_list<T>(l: &[T], f: impl Fn(&T) -> String) -> String {
    format!("[{}]", l.iter().map(f).collect::<Vec<_>>().join(","))
}
pub fn s_coin(c: &Coin) -> String {
    format!("{}:{}", hs(&c.denom), c.amount.u128())
}
pub fn s_bool(b: bool) -> &'static str {
    if b {
        "1"
    } else {
        "0"
    }
}
