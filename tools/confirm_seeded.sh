#!/bin/bash
# Confirms every seeded change in a scratch worktree: the demo passes on the clean tree, fails with the change,
# and the pre-existing suite still passes with the change. Writes seeded/<id>/confirmed.json.
set -u
WT=/tmp/confirm_wt
export CARGO_NET_OFFLINE=true CARGO_TARGET_DIR=$WT/target
git -C /repo worktree remove --force $WT 2>/dev/null
git -C /repo worktree add -q --detach $WT HEAD
for d in /verif/seeded/*/; do
  id=$(basename $d)
  [ -n "${1:-}" ] && [[ ! " $* " =~ " $id " ]] && continue
  cd $WT && git checkout -q -- . && git clean -qfd -e target
  feat=""; grep -q miniwasm $d/meta.json && feat="--features miniwasm"
  pkg="-p staking"; grep -q "contracts/treasury" $d/demo.diff && pkg="-p treasury"
  grep -q "packages/initia-proto/tests" $d/demo.diff && { pkg="-p initia-proto --test seeded_demo"; feat=""; }
  r_apply_demo=$(git apply $d/demo.diff 2>&1 && echo ok)
  clean=$(cargo test $pkg $feat --offline seeded 2>&1 | grep -E "^test result" | head -1)
  r_apply_patch=$(git apply $d/patch.diff 2>&1 && echo ok)
  mutated=$(cargo test $pkg $feat --offline seeded 2>&1 | grep -E "^test result" | head -1)
  suite=$(cargo test --workspace --offline --no-fail-fast -- --skip seeded 2>&1 | grep -E "^test result: .* [1-9][0-9]* passed" | tr '\n' ';')
  python3 - "$d" "$r_apply_demo" "$clean" "$r_apply_patch" "$mutated" "$suite" <<'PY'
import json,sys,re
d,ad,clean,ap,mut,suite=sys.argv[1:7]
def cnt(s,k):
    m=re.search(r"(\d+) "+k,s); return int(m.group(1)) if m else -1
ok = ad.endswith("ok") and ap.endswith("ok") and cnt(clean,"failed")==0 and cnt(clean,"passed")>0 and cnt(mut,"failed")>0 and sum(int(x) for x in re.findall(r"(\d+) passed",suite))==107 and all(int(x)==0 for x in re.findall(r"(\d+) failed",suite))
json.dump({"confirmed":ok,"apply_demo":ad[-60:],"demo_on_clean":clean,"apply_patch":ap[-60:],"demo_with_patch":mut,"suite_with_patch":suite},open(d+"/confirmed.json","w"),indent=1)
print(d, "CONFIRMED" if ok else "NOT CONFIRMED", clean, "|", mut, "|", suite)
PY
done
cd / && git -C /repo worktree remove --force $WT
