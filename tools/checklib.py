# The check pipeline: build, prove, generate, run both sides, compare projections, run monitors, verdict.
import concurrent.futures as cf
import json, os, re, shutil, sys, time
from common import *
import build, obs, streams

# ---------------------------------------------------------------- streams
TIERS = {
    # stream -> (quick params, thorough params)
    "fn_c04": ({"n": 6000}, {"n": 120000}),
    "pages": ({"shards": 8, "histories": 6, "length": 60}, {"shards": 16, "histories": 60, "length": 90}),
    "treasury": ({"n": 40}, {"n": 1500}),
    "config": ({"n": 60}, {"n": 3000}),
    "hook": ({"n": 600}, {"n": 20000}),
    "migrate": ({"n": 120}, {"n": 5000}),
    "proto": ({"n": 2}, {"n": 24}),
    "own": ({"n": 120}, {"n": 4000}),
    "matrix": ({"shards": 8, "histories": 4, "length": 40}, {"shards": 16, "histories": 40, "length": 60}),
    "extreme": ({"shards": 16, "histories": 25, "length": 60}, {"shards": 16, "histories": 300, "length": 80}),
    "world": ({"shards": 16, "histories": 30, "length": 60}, {"shards": 16, "histories": 500, "length": 80}),
    "world_mini": ({"shards": 8, "histories": 30, "length": 60}, {"shards": 16, "histories": 250, "length": 80}),
}


class Built:
    def __init__(self):
        self.exe = {}
        self.model = os.path.join(OCAML, "mwm")
        self.errors = []


def ensure_tools(variants=("default",)):
    b = Built()
    ok, out = build.ocaml_build()
    if not ok:
        b.errors.append("ocaml build failed: " + out[-1500:])
    for v in variants:
        ok, out, exe = build.harness_build(v)
        if not ok:
            b.errors.append("harness build (%s) failed against the current tree:\n%s" % (v, out[-3000:]))
        b.exe[v] = exe
    return b


def shard_world(args):
    exe, mode, backend, seed, histories, length, prefix, model = args
    t = streams.gen_world(exe, mode, backend, seed, histories, length, prefix)
    rc, out, t2 = run([model, prefix + ".ops", prefix + ".model"], timeout=3000)
    if rc != 0:
        raise RuntimeError("model run failed on %s: %s" % (prefix, out[-2000:]))
    return prefix, t, t2


def get_stream(name, seed, tier, b, fp):
    """returns list of shard prefixes (each with .ops .impl .model [.events]); cached per (name, seed, tier, sources)"""
    params = TIERS[name][0 if tier == "quick" else 1]
    key = sha(json.dumps([name, seed, tier, params, fp]))[:20]
    d = os.path.join(WORK, "cache", key)
    done = os.path.join(d, "DONE")
    with Lock("stream-" + key):
        if os.path.exists(done):
            try:
                os.utime(d)                       # a stream in use counts as recent for prune_cache
            except OSError:
                pass
            return json.load(open(done))
        shutil.rmtree(d, ignore_errors=True)
        os.makedirs(d)
        meta = {"name": name, "dir": d, "prefixes": [], "params": params, "gen_s": 0.0, "model_s": 0.0}
        if name.startswith("world") or name in ("matrix", "pages", "extreme"):
            variant = "miniwasm" if name == "world_mini" else "default"
            backend = "miniwasm" if name == "world_mini" else "osmosis"
            mode = name if name in ("matrix", "pages", "extreme") else "world"
            jobs = [(b.exe[variant], mode, backend, seed * 1000 + k, params["histories"], params["length"],
                     os.path.join(d, "s%d" % k), b.model) for k in range(params["shards"])]
            with cf.ThreadPoolExecutor(max_workers=16) as ex:
                for prefix, t, t2 in ex.map(shard_world, jobs):
                    meta["prefixes"].append(prefix); meta["gen_s"] += t; meta["model_s"] += t2
        elif name == "proto":
            # samples and expected results are evaluated inside Coq on the regenerated tables; the harness decodes and
            # re-encodes the same bytes with the bindings' prost code
            rc, out, _ = build.coq_make("Proto/Cases.vo Gen/ProtoTables.vo")
            if rc != 0:
                raise RuntimeError("Proto/Cases.vo does not build: " + out[-1500:])
            text, model_text, info = streams.gen_proto(seed, **params)
            prefix = os.path.join(d, "s0")
            open(prefix + ".ops", "w").write(text)
            open(prefix + ".model", "w").write(model_text)
            rc, out, t = run([b.exe["miniwasm"], "proto", prefix + ".ops", prefix + ".impl"], timeout=3000)
            if rc != 0:
                raise RuntimeError("harness proto run failed: " + out[-2000:])
            meta["prefixes"].append(prefix); meta["gen_s"] = t; meta["model_s"] = info["coq_s"]; meta["info"] = info
        else:
            gen = getattr(streams, "gen_" + name)
            text, info = gen(seed, **params)
            prefix = os.path.join(d, "s0")
            open(prefix + ".ops", "w").write(text)
            rc, out, t = run([b.exe["default"], "run", prefix + ".ops", prefix + ".impl"], timeout=3000)
            if rc != 0:
                raise RuntimeError("harness run failed: " + out[-2000:])
            rc, out, t2 = run([b.model, prefix + ".ops", prefix + ".model"], timeout=3000)
            if rc != 0:
                raise RuntimeError("model run failed: " + out[-2000:])
            meta["prefixes"].append(prefix); meta["gen_s"] = t; meta["model_s"] = t2; meta["info"] = info
        json.dump(meta, open(done, "w"))
        prune_cache(keep=key)
        return meta


def prune_cache(keep=None, max_dirs=24, max_bytes=12 << 30):
    """stream caches are keyed by the fingerprints of /repo and /verif: every edit (and every seeded change) makes new
    ones; only the most recent are kept (at most `max_dirs`, and at most `max_bytes` in total -- thorough-tier streams are
    large) so that the disk does not fill up"""
    root = os.path.join(WORK, "cache")
    try:
        ds = sorted((d for d in os.listdir(root) if os.path.isdir(os.path.join(root, d))), key=lambda d: os.path.getmtime(os.path.join(root, d)), reverse=True)
    except OSError:
        return
    total = 0
    for i, d in enumerate(ds):
        p = os.path.join(root, d)
        size = 0
        try:
            size = sum(os.path.getsize(os.path.join(p, f)) for f in os.listdir(p) if os.path.isfile(os.path.join(p, f)))
        except OSError:
            pass
        total += size
        try:
            fresh = time.time() - os.path.getmtime(p) < 1800      # possibly still being read by a running check
        except OSError:
            fresh = False
        if d != keep and (i >= max_dirs or total > max_bytes) and (not fresh or total > 3 * max_bytes):
            total -= size
            shutil.rmtree(p, ignore_errors=True)


# ---------------------------------------------------------------- the two builds against each other (C19)
def tf_normal(line):
    """a token-factory message line reduced to what both builds must agree on"""
    sp = line.split(" ")
    m = obs.decode_msg(sp[1:])
    return "%s %s tf %s sender=%s denom=%s amount=%s sub=%s" % (sp[0], " ".join(sp[1:5]), m["facet"], m.get("sender"), m.get("denom"), m.get("amount"), m.get("sub"))


def cross_lines(b, ops_lines, tag):
    """one history on both builds -> (normalised default lines, normalised miniwasm lines)"""
    d = os.path.join(WORK, "replay"); os.makedirs(d, exist_ok=True)
    p = os.path.join(d, "%s-x-%d" % (tag, os.getpid()))
    open(p + ".ops", "w").write("\n".join(ops_lines) + "\n")
    res = []
    for v in ("default", "miniwasm"):
        rc, out, _ = run([b.exe[v], "run", p + ".ops", p + "." + v], timeout=600)
        if rc != 0:
            raise RuntimeError("harness run failed: " + out[-1000:])
        lines = open(p + "." + v).read().splitlines()[1:]
        res.append([tf_normal(l) if obs.facet(l) in ("msg:create", "msg:mint", "msg:burn") else l for l in lines])
    return res[0], res[1]


def cross_build(meta, b):
    """runs the default build's op files through the miniwasm build; -> (histories, lines compared, disagreements)"""
    dis = []; nh = 0; nl = 0
    for prefix in meta["prefixes"]:
        rc, out, _ = run([b.exe["miniwasm"], "run", prefix + ".ops", prefix + ".impl_mini"], timeout=3000)
        if rc != 0:
            raise RuntimeError("miniwasm harness run failed: " + out[-1500:])
        ops = obs.split_histories(open(prefix + ".ops").read())
        a = obs.split_histories(open(prefix + ".impl").read())
        c = obs.split_histories(open(prefix + ".impl_mini").read())
        for h, (o, x, y) in enumerate(zip(ops, a, c)):
            nh += 1
            def norm(lines):
                return [tf_normal(l) if obs.facet(l) in ("msg:create", "msg:mint", "msg:burn") else l for l in lines[1:]]
            nx, ny = norm(x), norm(y); nl += len(nx)
            if nx != ny:
                k = next((k for k, (p, q) in enumerate(zip(nx, ny)) if p != q), min(len(nx), len(ny)))
                dis.append({"prefix": prefix, "history": h, "ops": o, "stream": meta["name"],
                            "impl_line": nx[k] if k < len(nx) else "<missing>", "model_line": ny[k] if k < len(ny) else "<missing>",
                            "why": "the two builds differ outside the token-factory encoding"})
    return nh, nl, dis


# ---------------------------------------------------------------- comparison
def project(lines, facets):
    return [l for l in lines if obs.facet(l) in facets]


def compare_stream(meta, facets):
    """-> (n_histories, n_steps, disagreements[list of dict])"""
    dis = []; nh = 0; nsteps = 0
    for prefix in meta["prefixes"]:
        ops = obs.split_histories(open(prefix + ".ops").read())
        impl = obs.split_histories(open(prefix + ".impl").read())
        model = obs.split_histories(open(prefix + ".model").read())
        if not (len(ops) == len(impl) == len(model)):
            dis.append({"prefix": prefix, "history": -1, "why": "history counts differ: ops %d impl %d model %d" % (len(ops), len(impl), len(model))})
            continue
        for h, (o, i, m) in enumerate(zip(ops, impl, model)):
            nh += 1
            pi = project(i[1:], facets); pm = project(m[1:], facets)
            nsteps += len(pi)
            if pi != pm:
                k = next((k for k, (a, c) in enumerate(zip(pi, pm)) if a != c), min(len(pi), len(pm)))
                dis.append({"prefix": prefix, "history": h, "ops": o,
                            "impl_line": pi[k] if k < len(pi) else "<missing>",
                            "model_line": pm[k] if k < len(pm) else "<missing>"})
    return nh, nsteps, dis


def load_histories(meta, side="impl"):
    """-> list of (prefix, h, cfg tokens, steps, op_lines)"""
    out = []
    for prefix in meta["prefixes"]:
        ops = obs.split_histories(open(prefix + ".ops").read())
        ob = obs.split_histories(open(prefix + "." + side).read())
        for h, (o, i) in enumerate(zip(ops, ob)):
            cfg, steps = obs.parse_history(o, i)
            out.append((prefix, h, cfg, steps, o))
    return out


def run_ops(b, ops_lines, tag, variant="default"):
    """runs one history on both sides; returns (impl_lines, model_lines)"""
    d = os.path.join(WORK, "replay"); os.makedirs(d, exist_ok=True)
    p = os.path.join(d, "%s-%d" % (tag, os.getpid()))
    open(p + ".ops", "w").write("\n".join(ops_lines) + "\n")
    if ops_lines and ops_lines[0].startswith("cfg proto"):
        rc, out, _ = run([b.exe["miniwasm"], "proto", p + ".ops", p + ".impl"], timeout=600)
        if rc != 0:
            raise RuntimeError("harness proto run failed: " + out[-2000:])
        return open(p + ".impl").read().splitlines(), streams.proto_eval(ops_lines)
    rc, out, _ = run([b.exe[variant], "run", p + ".ops", p + ".impl"], timeout=600)
    if rc != 0:
        raise RuntimeError("harness run failed: " + out[-2000:])
    rc, out, _ = run([b.model, p + ".ops", p + ".model"], timeout=600)
    if rc != 0:
        raise RuntimeError("model run failed: " + out[-2000:])
    return open(p + ".impl").read().splitlines(), open(p + ".model").read().splitlines()


def tx_blocks(ops_lines):
    """split a history into [header lines], [blocks]; a block is one transaction or one stand-alone op.
    The header keeps the cfg line and the instantiation (never removed by shrinking)."""
    head = []; blocks = []; cur = None; notes = []
    for l in ops_lines:
        if l.startswith("cfg "):
            head.append(l); continue
        if l.startswith("# ") and cur is None:
            notes.append(l); continue          # a note belongs to the block that follows it
        if l == "tx_begin":
            cur = notes + [l]; notes = []; continue
        if cur is not None:
            cur.append(l)
            if l in ("tx_commit", "tx_abort"):
                blocks.append(cur); cur = None
            continue
        blocks.append(notes + [l]); notes = []
    if cur:
        blocks.append(cur)
    for k, bk in enumerate(blocks):
        if any(l.startswith(("inst ", "tinst ")) for l in bk):
            head += [l for b2 in blocks[:k + 1] for l in b2]
            blocks = blocks[k + 1:]
            break
    return head, blocks


def first_diff(pi, pm):
    k = next((k for k, (a, c) in enumerate(zip(pi, pm)) if a != c), min(len(pi), len(pm)))
    a = pi[k] if k < len(pi) else "<missing>"
    c = pm[k] if k < len(pm) else "<missing>"
    return a, c


def diff_key(a, c):
    """what kind of line differs (used to keep a shrunk replay on the same disagreement)"""
    def key(l):
        sp = l.split(" ")
        if len(sp) < 2:
            return l
        return obs.facet(l)
    return key(a), key(c)


def ddmin(blocks, test):
    """classic delta debugging over blocks; test(list of blocks) -> True when the failure persists"""
    n = 2
    while len(blocks) >= 2:
        chunk = max(1, len(blocks) // n)
        reduced = False
        for i in range(0, len(blocks), chunk):
            cand = blocks[:i] + blocks[i + chunk:]
            if cand and test(cand):
                blocks = cand; n = max(n - 1, 2); reduced = True
                break
        if not reduced:
            if chunk == 1:
                break
            n = min(len(blocks), n * 2)
    return blocks


# ---------------------------------------------------------------- known findings
def load_known():
    p = os.path.join(VERIF, "known_findings.json")
    if not os.path.exists(p):
        return {"findings": [], "fixed": []}
    return json.load(open(p))


def matches_known(pid, failure, known):
    for k in known.get("findings", []):
        if k["property"] == pid and re.search(k["signature"], failure.get("what", "")):
            return k
    return None


def signature(what):
    """a failure's kind: its text with numbers, addresses and quoted data removed"""
    w = re.sub(r"'[^']*'|\"[^\"]*\"|\{.*\}|\[.*\]|\(.*\)", "#", what)
    w = re.sub(r"[a-z0-9/]{20,}", "#", w)
    w = re.sub(r"[0-9]+", "#", w)
    return w[:70]
