#!/usr/bin/env python3
# Regenerates /verif/MANIFEST.json from tools/props.py (claimed checks) and properties.jsonl.
import json, os, sys
sys.path.insert(0, os.path.dirname(os.path.abspath(__file__)))
import props
V = os.path.dirname(os.path.dirname(os.path.abspath(__file__)))
ids = [json.loads(l)["id"] for l in open(os.path.join(V, "properties.jsonl"))]
checks = []
na = []
for pid in ids:
    p = props.PROPS.get(pid)
    if not p or not p.get("claimed", True):
        na.append({"property_id": pid, "reason": (p or {}).get("na_reason", "check not built yet; the property is in scope of the Coq development (see DESIGN.md section 6) and will be claimed once its theorems and correspondence stream exist")})
        continue
    checks.append({
        "property_id": pid,
        "quick_cmd": "bin/check %s quick" % pid,
        "thorough_cmd": "bin/check %s thorough" % pid,
        "evidence_file": "/verif/evidence/%s.json" % pid,
        "replay_cmd_template": "bin/check %s quick --replay {path}" % pid,
        "engine": "coq-model+correspondence",
        "level_claimed": {"category": "proof", "text": p["level_text"], "design_ref": "DESIGN.md section 6, %s" % pid},
        "level_note": p["level_note"],
        "technique": p.get("technique", "machine-checked proof in Coq 8.16 about an executable model; model tied to the code by a translator (constants/schemas) and a differential correspondence check"),
    })
m = {
    "version": 1,
    "setup_cmd": "bin/setup",
    "hooks": {
        "guard": "--cfg milkyway_verif",
        "enable": "RUSTFLAGS=\"--cfg milkyway_verif\" (set by tools/build.py for the harness build; no hook is currently needed in /repo, every entry point and state item is pub)",
        "baseline_off_cmd": "cd /repo && cargo test --workspace --no-fail-fast --offline",
        "source_commits": [],
        "add_only": True,
    },
    "engines": [{"name": "coq-model+correspondence", "path": "/verif/bin/check", "serves_properties": [c["property_id"] for c in checks],
                 "kind_free_text": "Coq 8.16 theorems about an executable Gallina model (coq/), OCaml extraction (ocaml/), Rust differential harness against /repo's crates (harness/), python translator/comparator/monitors (tools/)"}],
    "checks": checks,
    "not_applicable": na,
    "notes": "All checks rebuild from /repo's working tree: the translator regenerates coq/Gen/*.v, cargo rebuilds the harness against the path dependencies, then model and implementation run on the same seeded op files. Known findings: known_findings.json.",
}
json.dump(m, open(os.path.join(V, "MANIFEST.json"), "w"), indent=1)
print("claimed:", [c["property_id"] for c in checks], "not claimed:", [x["property_id"] for x in na])
