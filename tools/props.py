# Per-property configuration: streams, projection facets, monitors, what counts as non-trivial.
ST_ALL = {"st.cfg", "st.state", "st.admin", "st.pending", "st.batch", "st.req", "st.pkt", "st.wait", "st.ver"}
MSG_ALL = {"msg:bank", "msg:send", "msg:transfer", "msg:mint", "msg:burn", "msg:create", "msg:oracle", "msg:swap", "msg:other"}

PROPS = {
    "C04": {
        "title": "Exchange-rate fairness",
        "streams": ["fn_c04", "world"],
        "facets": {"res", "fn", "msg:mint", "st.state", "st.batch"},
        "nontrivial": ("stake", "submit", "fn"),
        "variants": ("default",),
        "level_text": "Theorems over all of N (no bound on totals or amounts): compute_mint/compute_unbond are the floor quotients (and defined whenever the quotient fits 128 bits); a successful LiquidStake mints exactly that, never zero, at least expected_mint_amount, only at or above the minimum; SubmitBatch sets aside the floor; stake and submit never lower staked-per-LST (cross-multiplied); stake-then-unstake returns at most what was paid. The handler theorems quantify over every store, env, sender and message.",
        "level_note": "Model = coq/Staking.v (hand-written); tied to helpers.rs/execute.rs by differential runs: 6000 boundary-biased 128-bit triples through the real compute_* functions and ~240 generated chain histories through the real entry points (quick). History-level monotonicity is proved per transition, not yet as one induction.",
    },
    "C15": {
        "claimed": False,
        "title": "Oracle rates are post-transaction rates; oracle optional",
        "streams": ["world"],
        "facets": {"res", "msg:oracle", "q", "st.state"},
        "nontrivial": ("stake", "submit", "rewards", "resume"),
        "variants": ("default",),
    },
    "C03": {
        "claimed": False,
        "title": "LST supply integrity and exact delivery",
        "streams": ["world", "world_mini"],
        "facets": {"res", "msg:mint", "msg:burn", "msg:send", "msg:transfer", "st.state", "st.batch", "st.pkt", "st.wait"},
        "nontrivial": ("stake", "submit"),
        "variants": ("default", "miniwasm"),
    },
    "C08": {
        "title": "Authorization matrix of the staking contract",
        "streams": ["matrix", "world"],
        "facets": {"res"} | ST_ALL,
        "nontrivial": ("addval", "rmval", "updcfg", "xfer_own", "revoke_own", "resume", "feewd", "breaker", "accept_own", "rewards", "unstaked", "recover", "withdraw"),
        "variants": ("default",),
        "level_text": "Theorem C08_authz: for every store (no reachability assumption), env, sender, funds and message, execute = Ok implies the sender is entitled by the table of the property (C08_table spells the table out); C08_withdraw_own_only gives the exact effect of Withdraw. An Err persists nothing (runtime rollback), so this is the property for all states and principals.",
        "level_note": "Model coq/Staking.v tied to contract.rs/execute.rs by the matrix stream: at states sampled along generated histories every message variant (arguments chosen to succeed for the entitled caller) is executed by 9 principals (admin, former admin, nominee, monitor, both hook accounts, the contract, a user, a fresh address) inside rolled-back transactions; result class and the full store are compared. deps.api.addr_validate and the hook derivation are parameters of the theorem (instantiated by Crypto.v for running).",
    },
    "C10": {
        "title": "Circuit breaker halts all value-moving user operations",
        "streams": ["matrix", "world"],
        "facets": {"res"} | ST_ALL | {"msg:oracle"},
        "nontrivial": ("breaker", "resume", "stake", "unstake", "submit", "withdraw", "rewards", "unstaked"),
        "variants": ("default",),
        "level_text": "Theorems for all stores and inputs: instantiate yields a halted store; while halted each of the six value-moving messages returns a typed error (not Ok, not a panic); CircuitBreaker succeeds only for admin/monitor and yields exactly the old store with the flag set and no messages; ResumeContract succeeds only for the admin and yields exactly the old store with the three totals replaced and the flag cleared, emitting only the oracle post.",
        "level_note": "Tied to the code by the matrix stream: every value-moving call that succeeds on a running state is replayed behind a CircuitBreaker in the same rolled-back transaction (so a lost check_stopped cannot hide behind another error); resume arguments both equal to and different from the current totals.",
    },
}
