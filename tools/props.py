# Per-property configuration: streams, projection facets, monitors, what counts as non-trivial.
ST_ALL = {"st.cfg", "st.state", "st.admin", "st.pending", "st.batch", "st.req", "st.pkt", "st.wait", "st.ver"}
MSG_ALL = {"msg:bank", "msg:send", "msg:transfer", "msg:mint", "msg:burn", "msg:create", "msg:oracle", "msg:swap", "msg:other"}

PROPS = {
    "C04": {
        "title": "Exchange-rate fairness",
        "streams": ["fn_c04", "world"],
        "facets": {"res", "fn", "msg:mint", "st.state", "st.batch"},
        "nontrivial": ("stake", "submit", "fn"),
        "variants": ("default",),
        "level_text": "Theorems over all of N (no bound on totals or amounts): compute_mint/compute_unbond are the floor quotients (and defined whenever the quotient fits 128 bits); a successful LiquidStake mints exactly that, never zero, at least expected_mint_amount, only at or above the minimum; SubmitBatch sets aside the floor; stake and submit never lower staked-per-LST (cross-multiplied); stake-then-unstake returns at most what was paid. The handler theorems quantify over every store, env, sender and message.",
        "level_note": "Model = coq/Staking.v (hand-written); tied to helpers.rs/execute.rs by differential runs: 6000 boundary-biased 128-bit triples through the real compute_* functions and ~240 generated chain histories through the real entry points (quick). History-level monotonicity is proved per transition, not yet as one induction.",
    },
    "C15": {
        "level_text": "Theorems for all stores and inputs: get_rates is (floor(N*10^18/L), floor(L*10^18/N)) and (0,0) when L = 0; every successful LiquidStake, SubmitBatch, ReceiveRewards and ResumeContract emits exactly the oracle posts expected for the store it returns (one MsgExecuteContract to the configured oracle with the LST denom and the post-transaction rates; none when no oracle is configured); the State query reports the same purchase rate; without an oracle the posting step cannot fail.",
        "level_note": "The converse half of 'oracle optional' (success with an oracle implies success without) is not one theorem yet (C15_oracle_optional_partial in the file); it is covered by the correspondence: 30% of generated histories run without an oracle and the monitor flags any panic there. Rates are compared as the exact JSON bytes of the emitted message.",
        "title": "Oracle rates are post-transaction rates; oracle optional",
        "streams": ["world"],
        "facets": {"res", "msg:oracle", "q", "st.state"},
        "nontrivial": ("stake", "submit", "rewards", "resume"),
        "variants": ("default",),
    },
    "C03": {
        "level_text": "Contract-level theorems for all stores, rates, recipients and flags: a successful LiquidStake emits one mint of m to the contract and exactly one delivery of exactly m LST (bank send to a protocol-chain recipient, IBC transfer to a native-chain one; classification theorem), grows the LST total by m; SubmitBatch burns exactly the batch total from the contract and lowers the total by it. The supply / contract-balance equations over whole histories are proved over the World model (Properties/C03w.v) once that file exists.",
        "level_note": "Both cargo feature builds are run (world and world_mini streams); message bytes are compared exactly. History-level equations currently rest on the simulator monitors only.",
        "title": "LST supply integrity and exact delivery",
        "streams": ["world", "world_mini"],
        "facets": {"res", "msg:mint", "msg:burn", "msg:send", "msg:transfer", "st.state", "st.batch", "st.pkt", "st.wait"},
        "nontrivial": ("stake", "submit"),
        "variants": ("default", "miniwasm"),
    },
    "C08": {
        "title": "Authorization matrix of the staking contract",
        "streams": ["matrix", "world", "own"],
        "facets": {"res"} | ST_ALL,
        "nontrivial": ("addval", "rmval", "updcfg", "xfer_own", "revoke_own", "resume", "feewd", "breaker", "accept_own", "rewards", "unstaked", "recover", "withdraw"),
        "variants": ("default",),
        "level_text": "Theorem C08_authz: for every store (no reachability assumption), env, sender, funds and message, execute = Ok implies the sender is entitled by the table of the property (C08_table spells the table out); C08_withdraw_own_only gives the exact effect of Withdraw. An Err persists nothing (runtime rollback), so this is the property for all states and principals.",
        "level_note": "Model coq/Staking.v tied to contract.rs/execute.rs by the matrix stream: at states sampled along generated histories every message variant (arguments chosen to succeed for the entitled caller) is executed by 9 principals (admin, former admin, nominee, monitor, both hook accounts, the contract, a user, a fresh address) inside rolled-back transactions; result class and the full store are compared. deps.api.addr_validate and the hook derivation are parameters of the theorem (instantiated by Crypto.v for running).",
    },
    "C10": {
        "title": "Circuit breaker halts all value-moving user operations",
        "streams": ["matrix", "world"],
        "facets": {"res"} | ST_ALL | {"msg:oracle"},
        "nontrivial": ("breaker", "resume", "stake", "unstake", "submit", "withdraw", "rewards", "unstaked"),
        "variants": ("default",),
        "level_text": "Theorems for all stores and inputs: instantiate yields a halted store; while halted each of the six value-moving messages returns a typed error (not Ok, not a panic); CircuitBreaker succeeds only for admin/monitor and yields exactly the old store with the flag set and no messages; ResumeContract succeeds only for the admin and yields exactly the old store with the three totals replaced and the flag cleared, emitting only the oracle post.",
        "level_note": "Tied to the code by the matrix stream: every value-moving call that succeeds on a running state is replayed behind a CircuitBreaker in the same rolled-back transaction (so a lost check_stopped cannot hide behind another error); resume arguments both equal to and different from the current totals.",
    },
    "C11": {
        "title": "Protocol fee accounting on rewards",
        "streams": ["world", "matrix"],
        "facets": {"res", "msg:bank", "msg:send", "msg:transfer", "st.state"},
        "nontrivial": ("rewards", "feewd"),
        "variants": ("default",),
        "level_text": "Theorems for all stores, amounts and rates: a successful ReceiveRewards has fee = floor(rate*reward/100000) (denominator pinned to the source by the translator) <= reward, restakes reward - fee, fee + restaked = reward, grows the reward counter by the full reward, sends the fee to the treasury in the same response when one is configured and otherwise accrues it; it is refused while no LST exists and whenever the fee would exceed the reward (rates above 100000); FeeWithdraw succeeds only for the admin, with a treasury, for at most the accrued amount, sends exactly that to the current treasury and lowers the balance by it.",
        "level_note": "Tied to execute.rs by the world and matrix streams (fee rates 0, 1, 1000, 10000, 33333, 99999, 100000, 100001; treasury toggled between events). The history-level identity total_fees = accrued + swept - withdrawn is part of the World invariant (C02).",
    },
    "C12": {
        "title": "Two-step, seven-day time-locked admin handover (both contracts)",
        "streams": ["own", "world"],
        "facets": {"res", "st.admin", "st.state", "ts.owner"},
        "nontrivial": ("xfer_own", "accept_own", "revoke_own", "texec"),
        "variants": ("default",),
        "level_text": "An abstract hand-over machine (admin, nominee, earliest acceptance time) is proved correct over every history of nominate/revoke/accept/other events by any principals at any times: the admin changes only by an Accept of the account of the most recent un-cancelled nomination, at least 604800 s after it; acceptance consumes the nomination. Both contract models are proved to refine the machine step for step (all 16 staking messages and reply/sudo; all 7 treasury messages), the delay constants are regenerated from both execute.rs files and pinned to 604800, and the former admin is proved to lose every admin-only message.",
        "level_note": "Tied to the two Rust copies by the ownership stream on both contracts (block times at nomination + 604799 / 604800 / 604801 s, admin-only probe by every principal after each step) and by the world stream for the staking contract.",
    },
}
