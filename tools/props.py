# Per-property configuration: streams, projection facets, monitors, what counts as non-trivial.
ST_ALL = {"st.cfg", "st.state", "st.admin", "st.pending", "st.batch", "st.req", "st.pkt", "st.wait", "st.ver"}
MSG_ALL = {"msg:bank", "msg:send", "msg:transfer", "msg:mint", "msg:burn", "msg:create", "msg:oracle", "msg:swap", "msg:other"}

PROPS = {
    "C04": {
        "title": "Exchange-rate fairness",
        "streams": ["fn_c04", "world"],
        "facets": {"res", "fn", "msg:mint", "st.state", "st.batch"},
        "nontrivial": ("stake", "submit", "fn"),
        "variants": ("default",),
        "level_text": "Theorems over all of N (no bound on totals or amounts): compute_mint/compute_unbond are the floor quotients (and defined whenever the quotient fits 128 bits); a successful LiquidStake mints exactly that, never zero, at least expected_mint_amount, only at or above the minimum; SubmitBatch sets aside the floor; stake and submit never lower staked-per-LST (cross-multiplied); stake-then-unstake returns at most what was paid. The handler theorems quantify over every store, env, sender and message.",
        "level_note": "Model = coq/Staking.v (hand-written); tied to helpers.rs/execute.rs by differential runs: 6000 boundary-biased 128-bit triples through the real compute_* functions and ~240 generated chain histories through the real entry points (quick). History-level monotonicity is proved per transition, not yet as one induction.",
    },
    "C15": {
        "claimed": False,
        "title": "Oracle rates are post-transaction rates; oracle optional",
        "streams": ["world"],
        "facets": {"res", "msg:oracle", "q", "st.state"},
        "nontrivial": ("stake", "submit", "rewards", "resume"),
        "variants": ("default",),
    },
    "C03": {
        "claimed": False,
        "title": "LST supply integrity and exact delivery",
        "streams": ["world", "world_mini"],
        "facets": {"res", "msg:mint", "msg:burn", "msg:send", "msg:transfer", "st.state", "st.batch", "st.pkt", "st.wait"},
        "nontrivial": ("stake", "submit"),
        "variants": ("default", "miniwasm"),
    },
}
