# World-level monitors: the equations of C01 / C02 / C03 evaluated on the chain simulator's own ledgers
# (bank, supply, escrow, native ledger, packet table) joined with the contract's own state after each event.
from common import *


def parse_world(text):
    """-> list (per history) of snapshots: dict(step, now, flags..., cbal, sup, esc, nat, pkts)"""
    hs = []; cur = None; snap = None
    for line in text.splitlines():
        t = line.split(" ")
        if line.startswith("== history"):
            cur = []; hs.append(cur); continue
        if t[0] == "snap":
            snap = dict(step=int(t[1]), now=int(t[2]), routing=t[3] == "1", forced=t[4] == "1", dishonest=t[5] == "1", txok=t[6] == "1", pkts={})
            cur.append(snap)
        elif t[0] == "cbal":
            snap["cD"], snap["cL"] = int(t[1]), int(t[2])
        elif t[0] == "sup":
            snap["sup"] = int(t[1])
        elif t[0] == "esc":
            snap["eD"], snap["eL"] = int(t[1]), int(t[2])
        elif t[0] == "nat":
            snap["nstaker"], snap["ncoll"] = int(t[1]), int(t[2])
        elif t[0] == "pkt":
            snap["pkts"][int(t[1])] = dict(seq=int(t[1]), state=t[2], denom=unhex(t[3]).decode(), amount=int(t[4]), receiver=unhex(t[5]).decode(), origin=t[6])
    return hs


def ghosts(steps):
    """ghost counters derived from the contract's own observable behaviour, per committed step index"""
    g = dict(adjN=0, adjL=0, swept=0, aside=0, paid={}, sweep_steps=[])
    out = {}
    for s in steps:
        t = s.optoks
        if t[0] == "exec" and s.res == "ok" and not s.aborted and s.pre is not None and s.st is not None:
            k = t[5]; pre = s.pre; st = s.st
            if k == "resume":
                g["adjN"] += st["N"] - pre["N"]; g["adjL"] += st["L"] - pre["L"]
            if k == "stake" and pre["L"] == 0 and pre["N"] != 0:
                g["swept"] += pre["N"]; g["sweep_steps"].append(s.idx)
            if k == "submit":
                b = st["batches"].get(pre["pending"])
                if b and b["expected"] is not None:
                    g["aside"] += b["expected"]
            if k == "withdraw":
                bid = int(t[6])
                for m in s.msgs:
                    if m["facet"] in ("msg:send", "msg:bank"):
                        g["paid"][bid] = g["paid"].get(bid, 0) + (m.get("amount") or 0)
        out[s.idx] = dict(adjN=g["adjN"], adjL=g["adjL"], swept=g["swept"], aside=g["aside"], paid=dict(g["paid"]), sweep_steps=list(g["sweep_steps"]))
    return out


def at_step(steps, gh, n):
    """contract state and ghosts after the first n steps (committed view)"""
    if n == 0:
        return None, None
    s = steps[n - 1]
    return (s.after if s.after is not None else s.post), gh.get(s.idx)


def wmon_c03(cfg, steps, snaps):
    out = []; gh = ghosts(steps)
    for sn in snaps:
        st, g = at_step(steps, gh, min(sn["step"], len(steps)))
        if st is None:
            continue
        lst = st["lst"]
        if sn["sup"] != st["L"] - g["adjL"]:
            out.append({"step": sn["step"], "what": "LST supply on the chain is %d but the State query reports %d (resume adjustments %d)" % (sn["sup"], st["L"], g["adjL"])})
        pend = st["batches"].get(st["pending"], {}).get("total", 0)
        refl = sum(p["amount"] for p in st["pkts"].values() if p["denom"] == lst and p["status"] in ("ack_failure", "timed_out"))
        if not sn["forced"] and sn["cL"] != pend + refl:
            out.append({"step": sn["step"], "what": "the contract holds %d LST; pending batch %d + refunded LST transfers awaiting re-send %d" % (sn["cL"], pend, refl)})
    return out


def wmon_c02(cfg, steps, snaps):
    out = []; gh = ghosts(steps)
    for sn in snaps:
        st, g = at_step(steps, gh, min(sn["step"], len(steps)))
        if st is None:
            continue
        D = st["protocol"]["denom"]
        owed = sum((b["received"] or 0) - g["paid"].get(k, 0) for k, b in st["batches"].items() if b["status"] == "received")
        refd = sum(p["amount"] for p in st["pkts"].values() if p["denom"] == D and p["status"] in ("ack_failure", "timed_out"))
        want = owed + st["fees"] + refd
        if sn["forced"] or sn["routing"]:
            continue
        if sn["cD"] != want:
            if g["swept"] and sn["cD"] + g["swept"] == want:
                out.append({"step": sn["step"], "what": "SWEEP: ownerless stake %d was added to the fee balance although the contract does not hold it (balance %d, owed %d)" % (g["swept"], sn["cD"], want), "sweep": True})
            else:
                out.append({"step": sn["step"], "what": "the contract holds %d of the staked asset; unwithdrawn received batches %d + retained fees %d + refunded transfers awaiting re-send %d = %d" % (sn["cD"], owed, st["fees"], refd, want)})
    return out


def wmon_c01(cfg, steps, snaps):
    out = []; gh = ghosts(steps)
    for sn in snaps:
        st, g = at_step(steps, gh, min(sn["step"], len(steps)))
        if st is None:
            continue
        D = st["protocol"]["denom"]; staker = st["native"]["staker"]
        pk = [p for p in sn["pkts"].values() if p["denom"] == D]
        fwd = sum(p["amount"] for p in pk if p["origin"] in ("stake", "rewards"))
        if st["N"] + g["aside"] + g["swept"] != fwd + g["adjN"]:
            out.append({"step": sn["step"], "what": "staked total %d + set aside %d + swept %d != forwarded %d + resume adjustments %d" % (st["N"], g["aside"], g["swept"], fwd, g["adjN"])})
        if sn["routing"] or sn["forced"]:
            continue
        recorded = set(st["pkts"])
        located = sum(p["amount"] for p in pk if p["receiver"] == staker and p["state"] in ("flight", "delivered")) \
            + sum(p["amount"] for p in pk if p["receiver"] == staker and p["state"] == "refunded" and p["seq"] in recorded)
        if located != fwd:
            out.append({"step": sn["step"], "what": "forwarded %d but delivered + in flight + refunded-awaiting-resend toward the staker is %d" % (fwd, located)})
        if not sn["dishonest"] and g["adjN"] == 0 and g["swept"] == 0:
            flight = sum(p["amount"] for p in pk if p["receiver"] == staker and p["state"] == "flight")
            awaiting = sum(p["amount"] for p in pk if p["receiver"] == staker and p["state"] == "refunded" and p["seq"] in recorded)
            outstanding = sum(b["expected"] or 0 for b in st["batches"].values() if b["status"] == "submitted")
            if sn["nstaker"] + flight + awaiting != st["N"] + outstanding:
                out.append({"step": sn["step"], "what": "honest operator: staker holds %d + in flight %d + awaiting re-send %d, but staked total %d + outstanding batches %d" % (sn["nstaker"], flight, awaiting, st["N"], outstanding)})
    return out


WORLD_MONITORS = {"C01": wmon_c01, "C02": wmon_c02, "C03": wmon_c03}
