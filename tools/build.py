# Building everything a check needs from /repo's current working tree and /verif's sources.
import os, re, shutil, time
from common import *

COQ_TIMEOUT = 1500


def translate():
    """source -> coq/Gen/*.v (regenerated on every run; unchanged content keeps its .vo)"""
    import translate as T
    import translate_proto as TP
    res = T.run()
    # part 2: prost attributes, type URLs, module tree -> Gen/Schema.v, Gen/RefSchema.v, Gen/ProtoTables.v and the
    # harness's type registry. A source the translator cannot read is reported to the properties that use the tables.
    try:
        model = TP.run()
        res["proto"] = TP.generate(model, os.path.join(COQ, "Gen"))
        res["proto_model"] = model
    except Exception as e:
        res["proto_error"] = "%s: %s" % (type(e).__name__, e)
    return res


def coq_make(target="all"):
    with Lock("coq"):
        mk = os.path.join(COQ, "Makefile"); cp = os.path.join(COQ, "_CoqProject")
        if not os.path.exists(mk) or os.path.getmtime(mk) < os.path.getmtime(cp):
            run("coq_makefile -f _CoqProject -o Makefile", cwd=COQ, check=True)
        rc, out, dt = run("timeout %d make -j16 %s" % (COQ_TIMEOUT, target), cwd=COQ)
        return rc, out, dt


def coq_property(pid):
    """(re)compiles Properties/<pid>.v and returns (ok, log, theorems, assumptions)"""
    # only what this property depends on (plus the extracted model): a broken obligation of another property's
    # file is that property's alarm, not this one's
    rc, out, dt = coq_make("Extract.vo Properties/%s.vo" % pid)
    vfile = os.path.join(COQ, "Properties", pid + ".v")
    src = open(vfile).read()
    theorems = re.findall(r"^(?:Theorem|Example)\s+(\w+)", src, re.M)
    if rc != 0:
        return False, out, theorems, {}
    # force the property file itself so that its Print Assumptions output is produced by this run
    with Lock("coq"):
        rc2, out2, _ = run("timeout %d coqc -q -Q . MW Properties/%s.v" % (COQ_TIMEOUT, pid), cwd=COQ)
    assumptions = {}
    # output: after each `Print Assumptions X.` either "Closed under the global context" or "Axioms:\n ..."
    printed = re.findall(r"^Print Assumptions\s+(\w+)\.", src, re.M)
    blocks = re.split(r"(?=Closed under the global context|Axioms:)", out2)
    blocks = [b for b in blocks if b.startswith("Closed") or b.startswith("Axioms:")]
    for name, b in zip(printed, blocks):
        assumptions[name] = "closed" if b.startswith("Closed") else b.strip()
    ok = rc2 == 0 and len(blocks) == len(printed)
    return ok, out + out2, theorems, assumptions


FORBIDDEN = re.compile(r"\b(Admitted|admit|Axiom|Parameter|Conjecture|Hypothesis|Variable|Unset Guard|bypass_check|Admit Obligations|type-in-type|impredicative-set)\b")


def scan_forbidden():
    """Admitted / axioms / guard switches anywhere in the development (Variables only inside Sections)"""
    bad = []
    for dp, dn, fn in os.walk(COQ):
        for f in fn:
            if not f.endswith(".v"):
                continue
            depth = 0
            for n, line in enumerate(open(os.path.join(dp, f)), 1):
                code = re.sub(r"\(\*.*?\*\)", "", line)
                if re.match(r"\s*Section\b", code):
                    depth += 1
                if re.match(r"\s*End\b", code) and depth > 0:
                    depth -= 1
                for m in FORBIDDEN.finditer(code):
                    w = m.group(1)
                    if w in ("Variable", "Hypothesis") and depth > 0:
                        continue
                    bad.append("%s:%d: %s" % (os.path.relpath(os.path.join(dp, f), COQ), n, w))
    return bad


def ocaml_build():
    with Lock("ocaml"):
        src_ml = os.path.join(COQ, "mwm.ml")
        if not os.path.exists(src_ml):
            return False, "no extracted mwm.ml"
        exe = os.path.join(OCAML, "mwm")
        stamp = sha(open(src_ml, "rb").read() + open(os.path.join(OCAML, "driver.ml"), "rb").read())
        sfile = os.path.join(OCAML, ".stamp")
        if os.path.exists(exe) and os.path.exists(sfile) and open(sfile).read() == stamp:
            return True, ""
        shutil.copy(src_ml, os.path.join(OCAML, "mwm.ml"))
        shutil.copy(os.path.join(COQ, "mwm.mli"), os.path.join(OCAML, "mwm.mli"))
        rc, out, _ = run("ocamlfind ocamlopt -O2 -package zarith -linkpkg -w -a mwm.mli mwm.ml driver.ml -o mwm", cwd=OCAML)
        if rc == 0:
            open(sfile, "w").write(stamp)
        return rc == 0, out


def harness_build(variant="default"):
    """cargo build of the harness against /repo's working tree; variant default | miniwasm"""
    with Lock("cargo-" + variant):
        lock = os.path.join(HARNESS, "Cargo.lock")
        if not os.path.exists(lock):
            shutil.copy(os.path.join(REPO, "Cargo.lock"), lock)
        tdir = os.path.join(HARNESS, "target", variant)
        feat = "--features miniwasm" if variant == "miniwasm" else ""
        env = dict(ENV, RUSTFLAGS="--cfg milkyway_verif", CARGO_TARGET_DIR=tdir)
        rc, out, dt = run("cargo build --offline --quiet %s 2>&1" % feat, cwd=HARNESS, env=env, timeout=3000)
        exe = os.path.join(tdir, "debug", "mwh")
        return rc == 0 and os.path.exists(exe), out, exe
