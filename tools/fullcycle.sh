#!/bin/bash
cd /verif
for p in C01 C02 C03 C04 C05 C06 C07 C08 C09 C10 C11 C12 C13 C14 C15 C16 C17 C18 C19 C20; do
  bin/check $p quick > /tmp/fc_$p.out 2> /tmp/fc_$p.err; echo "$p exit=$? $(grep -c VIOLATION /tmp/fc_$p.out)"
done
du -sh work/cache
python3 tools/run_seeded.py > /tmp/seeded_all.log 2>&1
python3 tools/seeded_table.py | tail -3
du -sh work/cache; df -h / | tail -1
git -C /repo status --short | head -3
