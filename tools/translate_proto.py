# Translator, part 2: prost-generated Rust -> protobuf schema tables.
#   packages/initia-proto/src/proto/*.rs, lib.rs, type_urls.rs  -> schema, module tree, type URLs
#   osmosis-std (cargo registry, version from Cargo.lock)          -> reference schema keyed by proto_message type_url
# Every `pub` field of every prost Message / Oneof / Enumeration item must be consumed by exactly one understood
# attribute shape; anything else raises TranslateError (the run is then "proof broken").
import glob, json, os, re, sys
sys.path.insert(0, os.path.dirname(os.path.abspath(__file__)))
from common import REPO, COQ, VERIF

PROTO_DIR = os.path.join(REPO, "packages/initia-proto/src/proto")


class TranslateError(Exception):
    pass


SCALARS = {"string", "bytes", "bool", "int32", "int64", "uint32", "uint64"}
VARINT = {"bool", "int32", "int64", "uint32", "uint64", "enum"}


def snake(name):
    # prost's to_snake_case for message names -> module names
    s = re.sub(r"([a-z0-9])([A-Z])", r"\1_\2", name)
    s = re.sub(r"([A-Z]+)([A-Z][a-z])", r"\1_\2", s)
    return s.lower()


def strip_comments(src):
    return re.sub(r"(?m)^\s*//.*$", "", src)


def parse_attr(attr):
    """#[prost(...)] body -> dict(kind, label, tag/tags, enum, oneof, map)"""
    body = attr.strip()
    d = {"label": "singular"}
    m = re.search(r'tags?\s*=\s*"([0-9, ]+)"', body)
    if not m:
        raise TranslateError("prost attribute without tag: " + attr)
    tags = [int(x) for x in m.group(1).replace(" ", "").split(",")]
    rest = re.sub(r',?\s*tags?\s*=\s*"[0-9, ]+"', "", body).strip().strip(",").strip()
    parts = [p.strip() for p in re.split(r",(?![^\"]*\"(?:[^\"]*\"[^\"]*\")*[^\"]*$)", rest)] if rest else []
    # simpler split honouring quoted strings
    parts = re.findall(r'[a-z_0-9]+\s*=\s*"[^"]*"|[a-z_0-9]+', rest)
    for p in parts:
        p = p.strip()
        if p in SCALARS and p != "bytes":
            d["kind"] = p
        elif p == "bytes" or p.startswith("bytes"):
            d["kind"] = "bytes"
        elif p == "message":
            d["kind"] = "message"
        elif p in ("optional", "repeated"):
            d["label"] = p
        elif p.startswith("enumeration"):
            d["kind"] = "enum"; d["enum"] = re.search(r'"([^"]+)"', p).group(1)
        elif p.startswith("oneof"):
            d["kind"] = "oneof"; d["oneof"] = re.search(r'"([^"]+)"', p).group(1)
        elif p.startswith("map"):
            d["kind"] = "map"; k, v = [x.strip() for x in re.search(r'"([^"]+)"', p).group(1).split(",")]
            d["map"] = (k, v)
        elif p.startswith("packed"):
            d["packed"] = re.search(r'"([^"]+)"', p).group(1) == "true"
        elif p.startswith("default"):
            # an explicit default: prost omits the field when it holds this value and assumes it when absent (proto3
            # fields have no explicit defaults: the bindings must not carry one)
            d["default"] = re.search(r'"([^"]*)"', p).group(1)
        else:
            raise TranslateError("unknown prost attribute part %r in %r" % (p, attr))
    if "kind" not in d:
        raise TranslateError("prost attribute without kind: " + attr)
    if d["kind"] == "oneof":
        d["tags"] = tags
    else:
        if len(tags) != 1:
            raise TranslateError("several tags on a plain field: " + attr)
        d["tag"] = tags[0]
    return d


def scan_items(src):
    """-> list of (mod_path list, kind 'Message'|'Oneof'|'Enumeration', name, body text)"""
    src = strip_comments(src).replace("pub mod r#", "pub mod ").replace("::r#", "::")
    items = []
    i = 0; n = len(src); mods = []; depth_stack = []
    pending_derive = None
    tok = re.compile(r'pub mod (\w+)\s*\{|#\[derive\(([^)]*)\)\]|pub (struct|enum) (\w+)\s*(\{|;)|\{|\}')
    depth = 0
    pos = 0
    while True:
        m = tok.search(src, pos)
        if not m:
            break
        pos = m.end()
        t = m.group(0)
        if m.group(1):
            mods.append(m.group(1)); depth += 1; depth_stack.append(depth)
        elif m.group(2) is not None:
            pending_derive = m.group(2)
        elif m.group(3):
            name = m.group(4)
            if m.group(5) == ";":
                kind = derive_kind(pending_derive)
                if kind:
                    items.append((list(mods), kind, name, ""))
                pending_derive = None
                continue
            # find matching brace
            j = pos; d = 1
            while d:
                c = src[j]
                if c == "{":
                    d += 1
                elif c == "}":
                    d -= 1
                j += 1
            body = src[pos:j - 1]
            kind = derive_kind(pending_derive)
            if kind:
                items.append((list(mods), kind, name, body))
            pending_derive = None
            pos = j
        elif t == "{":
            depth += 1
        elif t == "}":
            if depth_stack and depth_stack[-1] == depth:
                depth_stack.pop(); mods.pop()
            depth -= 1
    return items


def derive_kind(derive):
    if not derive:
        return None
    if "::prost::Message" in derive:
        return "Message"
    if "::prost::Oneof" in derive:
        return "Oneof"
    if "::prost::Enumeration" in derive:
        return "Enumeration"
    return None


FIELD_RE = re.compile(r'#\[prost\(((?:[^()\]]|\([^()]*\))*)\)\]\s*(?:#\[[^\]]*\]\s*)*(?:pub\s+)?(\w+)\s*(?::\s*([^,]+(?:<[^;]*?>)?)|\(([^)]*)\))?\s*,', re.S)


def parse_fields(body):
    """struct/enum body -> list of (attr dict, name, rust type)"""
    out = []
    # split on #[prost( occurrences
    for m in re.finditer(r'#\[prost\(', body):
        start = m.end()
        # attribute ends at the matching ")]"
        d = 1; j = start
        while d:
            if body[j] == "(":
                d += 1
            elif body[j] == ")":
                d -= 1
            j += 1
        attr = body[start:j - 1]
        rest = body[j:]
        rest = rest.lstrip().lstrip("]").lstrip()
        # skip other attributes
        while rest.startswith("#["):
            rest = rest[rest.index("]") + 1:].lstrip()
        fm = re.match(r'(?:pub\s+)?((?:r#)?\w+)\s*(?::\s*|\()', rest)
        if not fm:
            raise TranslateError("cannot parse field after attribute %r: %r" % (attr, rest[:80]))
        name = fm.group(1).replace("r#", "")
        after = rest[fm.end():]
        # type runs until the top-level comma or closing paren
        depth = 0; k = 0
        while k < len(after):
            c = after[k]
            if c in "<(":
                depth += 1
            elif c in ">)":
                if depth == 0:
                    break
                depth -= 1
            elif c == "," and depth == 0:
                break
            k += 1
        ty = re.sub(r"\s+", "", after[:k]).replace(",>", ">")
        out.append((parse_attr(attr), name, ty))
    npub = len(re.findall(r'(?m)^\s*pub (?:r#)?\w+\s*:', body))
    return out, npub


EXTERNAL = {
    "::prost_types::Any": "google.protobuf.Any", "::prost_types::Timestamp": "google.protobuf.Timestamp",
    "::prost_types::Duration": "google.protobuf.Duration",
}


def resolve(ty, modpath, known_rust):
    """rust type path of a message/enum field -> rust absolute path list"""
    t = ty
    for w in ("::core::option::Option<", "::prost::alloc::vec::Vec<", "::prost::alloc::boxed::Box<", "Option<", "Vec<", "Box<"):
        while t.startswith(w):
            t = t[len(w):-1]
    t = t.strip()
    if t.startswith("::"):
        return t
    parts = t.split("::")
    if parts[0] in ("tendermint_proto", "prost_types"):
        return "::" + t
    base = list(modpath)
    while parts and parts[0] == "super":
        base = base[:-1]; parts = parts[1:]
    if parts and parts[0] == "crate":
        base = []; parts = parts[1:]
    return "::".join(base + parts)


def translate_package(files, file_to_mod, proto_name_of_mod=None):
    """files: list of (path, rust module path list) -> messages, enums, stats.
    The proto package of an item is the one named by its FILE (prost writes one file per package); the Rust
    module path is where lib.rs mounts it (the two are compared by the module-tree check)."""
    raw = []       # (rust_path_list, kind, name, body)
    pkg_of_mod = {}
    for path, modpath in files:
        pkg_of_mod[tuple(modpath)] = os.path.basename(path)[:-3]
        src = open(path).read()
        for mods, kind, name, body in scan_items(src):
            if any(m in ("query_client", "query_server", "msg_client", "msg_server", "service_client", "service_server") or m.endswith("_client") or m.endswith("_server") for m in mods):
                if "#[prost(" in body:
                    raise TranslateError("prost attribute inside a grpc module in " + path)
                continue
            raw.append((modpath, mods, kind, name, body, path))
    # rust path -> proto fq name: package = modpath joined by '.', nested mods map to parent message names
    by_scope = {}
    for modpath, mods, kind, name, body, path in raw:
        by_scope.setdefault(tuple(modpath + mods), []).append(name)
    def proto_scope(modpath, mods):
        segs = []
        cur = list(modpath)
        for m in mods:
            names = by_scope.get(tuple(cur), [])
            parent = [x for x in names if snake(x) == m]
            if len(parent) != 1:
                raise TranslateError("cannot map module %s to a parent message in %s" % (m, "::".join(cur)))
            segs.append(parent[0]); cur.append(m)
        return segs
    rust2fq = {}; items = []
    for modpath, mods, kind, name, body, path in raw:
        pkg = pkg_of_mod[tuple(modpath)]
        fq = ".".join([pkg] + proto_scope(modpath, mods) + [name])
        rp = "::".join(modpath + mods + [name])
        rust2fq[rp] = (fq, kind)
        items.append((rp, fq, kind, modpath + mods, body, path))
    messages = {}; enums = {}; oneofs = {}
    nfields = 0
    explicit_defaults = []
    for rp, fq, kind, scope, body, path in items:
        if kind == "Enumeration":
            vals = re.findall(r'(\w+)\s*=\s*(-?\d+)\s*,', body)
            enums[fq] = [(n, int(v)) for n, v in vals]
            continue
        fields, npub = parse_fields(body)
        if kind == "Message" and npub != len(fields):
            raise TranslateError("%s: %d pub fields but %d prost attributes" % (fq, npub, len(fields)))
        fl = []
        for attr, name, ty in fields:
            f = {"name": name, "kind": attr["kind"], "label": attr["label"]}
            if "default" in attr:
                explicit_defaults.append({"message": fq, "field": name, "tag": attr.get("tag"), "kind": attr["kind"], "default": attr["default"]})
            if attr["kind"] == "oneof":
                f["tags"] = attr["tags"]; f["oneof_rust"] = resolve_rel(attr["oneof"], scope)
            else:
                f["tag"] = attr["tag"]
            if attr["kind"] in ("message",):
                f["ref_rust"] = resolve(ty, scope, rust2fq)
            if attr["kind"] == "enum":
                f["ref_rust"] = resolve_rel(attr["enum"], scope)
            if attr["kind"] == "map":
                f["map"] = attr["map"]
                if attr["map"][1] == "message":
                    inner = re.search(r'HashMap<[^,]+,(.*)>$', ty) or re.search(r'BTreeMap<[^,]+,(.*)>$', ty)
                    f["ref_rust"] = resolve(inner.group(1), scope, rust2fq) if inner else None
            if attr["kind"] in VARINT and attr["label"] == "repeated":
                f["packed"] = attr.get("packed", True)
            fl.append(f); nfields += 1
        if kind == "Message":
            messages[fq] = {"rust": rp, "fields": fl}
        else:
            oneofs[rp] = {"fq": fq, "fields": fl}
    # resolve references rust path -> fq; inline oneofs
    def ref_fq(rp):
        if rp is None:
            return None
        if rp in EXTERNAL:
            return EXTERNAL[rp]
        if rp.startswith("::tendermint_proto::"):
            return "ext:" + rp[2:]
        if rp.startswith("::"):
            return "ext:" + rp[2:]
        if rp in rust2fq:
            return rust2fq[rp][0]
        raise TranslateError("unresolved type path " + rp)
    anomalies = []
    for fq, m in messages.items():
        out = []
        for f in m["fields"]:
            if f["kind"] == "oneof":
                o = oneofs.get(f["oneof_rust"])
                if o is None:
                    raise TranslateError("%s: oneof %s not found" % (fq, f["oneof_rust"]))
                alts = []
                for g in o["fields"]:
                    gg = dict(g); gg["label"] = "oneof"
                    if "ref_rust" in gg:
                        gg["ref"] = ref_fq(gg.pop("ref_rust"))
                    alts.append(gg)
                if sorted(a["tag"] for a in alts) != sorted(f["tags"]):
                    # prost dispatches a tag to the oneof only when the struct's `tags` list names it, and encodes only the
                    # enum's variants: an alternative outside the intersection is dropped when decoding (or never written).
                    # The schema keeps the alternatives that work in both directions; the lost ones are recorded, and
                    # show up as fields the pinned baseline has and the bindings no longer decode.
                    anomalies.append({"message": fq, "oneof": f["name"], "tags": sorted(f["tags"]),
                                      "variant_tags": sorted(a["tag"] for a in alts)})
                    alts = [a for a in alts if a["tag"] in f["tags"]]
                out.append({"name": f["name"], "kind": "oneof", "alts": alts})
            else:
                g = dict(f)
                if "ref_rust" in g:
                    g["ref"] = ref_fq(g.pop("ref_rust"))
                out.append(g)
        m["fields"] = out
    return messages, enums, {"messages": len(messages), "enums": len(enums), "oneofs": len(oneofs), "fields": nfields, "oneof_anomalies": anomalies, "explicit_defaults": explicit_defaults}


def resolve_rel(path, scope):
    parts = path.split("::"); base = list(scope)
    while parts and parts[0] == "super":
        base = base[:-1]; parts = parts[1:]
    return "::".join(base + parts)


def initia_files():
    """module tree of lib.rs: include!("proto/x.rs") at module path"""
    src = strip_comments(open(os.path.join(REPO, "packages/initia-proto/src/lib.rs")).read()).replace("pub mod r#", "pub mod ")
    files = []; mods = []; stack = []; depth = 0
    for m in re.finditer(r'pub mod (\w+)\s*\{|include!\("proto/([^"]+)"\)|\{|\}', src):
        if m.group(1):
            depth += 1; mods.append(m.group(1)); stack.append(depth)
        elif m.group(2):
            files.append((os.path.join(PROTO_DIR, m.group(2)), list(mods), m.group(2)))
        elif m.group(0) == "{":
            depth += 1
        else:
            if stack and stack[-1] == depth:
                stack.pop(); mods.pop()
            depth -= 1
    return files


def type_urls():
    src = strip_comments(open(os.path.join(REPO, "packages/initia-proto/src/type_urls.rs")).read())
    src = src.replace("r#", "")
    out = re.findall(r'impl\s+TypeUrl\s+for\s+([\w:]+)\s*\{\s*const\s+TYPE_URL\s*:\s*&\'static\s+str\s*=\s*"([^"]*)"\s*;\s*\}', src)
    n = len(re.findall(r'impl\s+TypeUrl\s+for', src))
    if n != len(out):
        raise TranslateError("type_urls.rs: %d impls but %d parsed" % (n, len(out)))
    return out


def osmosis_std_dir():
    lock = open(os.path.join(REPO, "Cargo.lock")).read()
    m = re.search(r'name = "osmosis-std"\s*version = "([^"]+)"', lock)
    ver = m.group(1)
    cands = glob.glob(os.path.expanduser("~/.cargo/registry/src/*/osmosis-std-%s" % ver))
    if not cands:
        raise TranslateError("osmosis-std %s not found in the cargo registry" % ver)
    return cands[0], ver


def reference_schema():
    """osmosis-std: messages keyed by the fq name of their proto_message(type_url)"""
    d, ver = osmosis_std_dir()
    out = {}
    for path in sorted(glob.glob(os.path.join(d, "src/types/**/*.rs"), recursive=True)):
        src = strip_comments(open(path).read())
        for m in re.finditer(r'#\[proto_message\(type_url\s*=\s*"/([^"]+)"\)\]\s*(?:#\[[^\]]*\]\s*)*pub struct (\w+)\s*\{', src):
            fq = m.group(1)
            j = m.end(); dep = 1
            while dep:
                c = src[j]
                if c == "{":
                    dep += 1
                elif c == "}":
                    dep -= 1
                j += 1
            body = src[m.end():j - 1]
            fields, _ = parse_fields(body)
            fl = []
            for attr, name, ty in fields:
                if attr["kind"] == "oneof":
                    fl.append({"name": name, "kind": "oneof", "tags": attr["tags"]})
                else:
                    f = {"name": name, "tag": attr["tag"], "kind": attr["kind"], "label": attr["label"]}
                    if attr["kind"] in VARINT and attr["label"] == "repeated":
                        f["packed"] = attr.get("packed", True)
                    if attr["kind"] in ("message", "enum"):
                        f["ref_last"] = re.sub(r".*::", "", re.sub(r"[<>]", "", ty if attr["kind"] == "message" else attr.get("enum", ""))).strip()
                    fl.append(f)
            out[fq] = fl
    return out, ver


def run():
    files = initia_files()
    msgs, enums, stats = translate_package([(p, m) for p, m, _ in files], None)
    listed = {os.path.basename(p) for p, _, _ in files}
    present = {f for f in os.listdir(PROTO_DIR) if f.endswith(".rs")}
    tu = type_urls()
    ref, refver = reference_schema()
    model = {
        "messages": msgs, "enums": enums, "stats": stats,
        "modtree": [{"file": f, "mod": m} for _, m, f in files],
        "files_not_included": sorted(present - listed), "files_missing": sorted(listed - present),
        "type_urls": [{"rust": r, "url": u} for r, u in tu],
        "reference": ref, "reference_version": refver,
    }
    return model


if __name__ == "__main__":
    m = run()
    print(json.dumps(m["stats"]), len(m["reference"]), len(m["type_urls"]), m["files_not_included"][:5])
    json.dump(m, open(os.path.join(VERIF, "work", "proto_model.json"), "w"))


# ---------------- Coq generation ----------------
KIND = {"string": "KString", "bytes": "KBytes", "bool": "KBool", "int32": "KInt32", "int64": "KInt64", "uint32": "KUint32",
        "uint64": "KUint64", "enum": "KEnum", "message": "KMsg"}


def cq(s):
    return '"' + s.replace('"', '""') + '"'


def fdescs(fields, resolve_refs=True):
    out = []
    group = 0
    for f in fields:
        if f["kind"] == "oneof":
            group += 1
            for a in f.get("alts", []):
                out.append((a["tag"], KIND[a["kind"]], "(LOneof %d)" % group, (a.get("ref") or "") if resolve_refs else "", a["name"]))
            continue
        if f["kind"] == "map":
            k = "KMapMsg" if f["map"][1] == "message" else "KMapU64"
            out.append((f["tag"], k, "LRepeated", (f.get("ref") or "") if resolve_refs else "", f["name"]))
            continue
        lab = {"singular": "LSingular", "optional": "LOptional", "repeated": "LRepeated"}[f["label"]]
        if f["label"] == "repeated" and f["kind"] in VARINT and f.get("packed", True):
            lab = "LPacked"
        out.append((f["tag"], KIND[f["kind"]], lab, (f.get("ref") or "") if resolve_refs and f["kind"] in ("message", "enum") else "", f["name"]))
    return sorted(out)


def coq_schema(name, table):
    lines = ["Definition %s : schema := [" % name]
    rows = []
    for fq in sorted(table):
        fs = "; ".join("{| fd_tag := %d; fd_name := %s; fd_kind := %s; fd_label := %s; fd_ref := %s |}" % (t, cq(n), k, l, cq(r)) for t, k, l, r, n in table[fq])
        rows.append("  (%s, [%s])" % (cq(fq), fs))
    lines.append(";\n".join(rows))
    lines.append("]%string.")
    return "\n".join(lines)


RUST_KW = {"as", "break", "const", "continue", "crate", "else", "enum", "extern", "false", "fn", "for", "if", "impl", "in", "let",
           "loop", "match", "mod", "move", "mut", "pub", "ref", "return", "static", "struct", "trait", "true", "type",
           "unsafe", "use", "where", "while", "async", "await", "dyn", "abstract", "become", "box", "do", "final", "macro",
           "override", "priv", "typeof", "unsized", "virtual", "yield", "try"}


def rust_path(rp):
    return "::".join(("r#" + seg) if seg in RUST_KW else seg for seg in rp.split("::"))


def rust_registry(model):
    """a decode/encode entry per message type and an Any entry per TypeUrl impl (compiled into the harness)"""
    out = ["// GENERATED by tools/translate_proto.py from /repo's current source on every run. Do not edit.",
           "use crate::proto::{any, rt};", "",
           "pub fn roundtrip(name: &str, b: &[u8]) -> Option<Result<Vec<u8>, String>> {", "    Some(match name {"]
    for fq in sorted(model["messages"]):
        out.append('        "%s" => rt::<initia_proto::%s>(b),' % (fq, rust_path(model["messages"][fq]["rust"])))
    out += ["        _ => return None,", "    })", "}", "",
            "pub fn any_roundtrip(rust: &str, b: &[u8]) -> Option<String> {", "    Some(match rust {"]
    for e in model["type_urls"]:
        out.append('        "%s" => any::<initia_proto::%s>(b),' % (e["rust"], rust_path(e["rust"])))
    out += ["        _ => return None,", "    })", "}", ""]
    return "\n".join(out)


def generate(model, outdir):
    from translate import write_if_changed
    gen = {fq: fdescs(m["fields"]) for fq, m in model["messages"].items()}
    ref = {fq: fdescs(fl, resolve_refs=False) for fq, fl in model["reference"].items()}
    rust2fq = {m["rust"]: fq for fq, m in model["messages"].items()}
    hdr = "(* GENERATED by tools/translate_proto.py from /repo's current source on every run. Do not edit. *)\nFrom MW.Proto Require Import Codec.\nOpen Scope N_scope.\n\n"
    changed = write_if_changed(os.path.join(outdir, "Schema.v"), hdr + coq_schema("gen_schema", gen) + "\n")
    changed |= write_if_changed(os.path.join(outdir, "RefSchema.v"), hdr + "(* reference: osmosis-std %s *)\n" % model["reference_version"] + coq_schema("ref_schema", ref) + "\n")
    tu = []
    for e in model["type_urls"]:
        fq = rust2fq.get(e["rust"], "")
        tu.append("  (%s, %s, %s)" % (cq(e["rust"]), cq(fq), cq(e["url"])))
    mt = ["  (%s, %s)" % (cq(".".join(e["mod"])), cq(e["file"][:-3] if e["file"].endswith(".rs") else e["file"])) for e in model["modtree"]]
    # prost takes the FIRST declared variant of an enumeration as the field default (omitted on the wire, assumed when
    # absent); protobuf's default is the value 0
    en = ["  (%s, %d)" % (cq(fq), (vals[0][1] if vals and vals[0][1] >= 0 else 4294967295)) for fq, vals in sorted(model["enums"].items())]
    tables = hdr + "From Coq Require Import String List.\nImport ListNotations.\n" \
        + "Definition gen_type_urls : list (string * string * string) := [\n" + ";\n".join(tu) + "\n]%string.\n\n" \
        + "Definition gen_modtree : list (string * string) := [\n" + ";\n".join(mt) + "\n]%string.\n\n" \
        + "Definition gen_enum_first : list (string * N) := [\n" + ";\n".join(en) + "\n]%string.\n\n" \
        + "Definition gen_explicit_defaults : list (string * string * string) := [\n" \
        + ";\n".join("  (%s, %s, %s)" % (cq(x["message"]), cq(x["field"]), cq(x["default"])) for x in model["stats"].get("explicit_defaults", [])) + "\n]%string.\n"
    changed |= write_if_changed(os.path.join(outdir, "ProtoTables.v"), tables)
    changed |= write_if_changed(os.path.join(VERIF, "harness", "src", "proto_registry.rs"), rust_registry(model))
    return {"changed": changed, "messages": len(gen), "reference": len(ref), "shared": len(set(gen) & set(ref)), "type_urls": len(tu), "modtree": len(mt)}


if __name__ == "__main__" and "--coq" in sys.argv:
    print(generate(run(), os.path.join(COQ, "Gen")))


if __name__ == "__main__" and "--baseline" in sys.argv:
    # pins the schema of the tree as it is now (run once, by hand, at the pinned commit; the result is committed)
    model = run()
    gen = {fq: fdescs(m["fields"]) for fq, m in model["messages"].items()}
    os.makedirs(os.path.join(COQ, "Baseline"), exist_ok=True)
    hdr = "(* PINNED baseline of the initia-proto schema (written once by tools/translate_proto.py --baseline at the pinned commit;\n   committed, never regenerated by a check). *)\nFrom MW.Proto Require Import Codec.\nOpen Scope N_scope.\n\n"
    open(os.path.join(COQ, "Baseline", "BaselineSchema.v"), "w").write(hdr + coq_schema("baseline_schema", gen) + "\n")
    os.makedirs(os.path.join(VERIF, "baseline"), exist_ok=True)
    json.dump({fq: [list(x) for x in v] for fq, v in sorted(gen.items())}, open(os.path.join(VERIF, "baseline", "proto_schema.json"), "w"), indent=0)
    print("baseline written:", len(gen), "messages")
