# bech32 helpers for generators and independent monitors (BIP-173 reference implementation)
import hashlib
CHARSET = "qpzry9x8gf2tvdw0s3jn54khce6mua7l"
def polymod(values):
    GEN = [0x3b6a57b2, 0x26508e6d, 0x1ea119fa, 0x3d4233dd, 0x2a1462b3]
    chk = 1
    for v in values:
        b = chk >> 25
        chk = (chk & 0x1ffffff) << 5 ^ v
        for i in range(5):
            chk ^= GEN[i] if ((b >> i) & 1) else 0
    return chk
def hrp_expand(s):
    return [ord(x) >> 5 for x in s] + [0] + [ord(x) & 31 for x in s]
def create_checksum(hrp, data, const=1):
    pm = polymod(hrp_expand(hrp) + data + [0]*6) ^ const
    return [(pm >> 5 * (5 - i)) & 31 for i in range(6)]
def convertbits(data, frombits, tobits, pad=True):
    acc = 0; bits = 0; ret = []; maxv = (1 << tobits) - 1
    for v in data:
        acc = (acc << frombits) | v; bits += frombits
        while bits >= tobits:
            bits -= tobits; ret.append((acc >> bits) & maxv)
    if pad and bits: ret.append((acc << (tobits - bits)) & maxv)
    return ret
def encode(hrp, payload: bytes, const=1):
    d = convertbits(list(payload), 8, 5)
    return hrp + "1" + "".join(CHARSET[x] for x in d + create_checksum(hrp, d, const))
def addr(hrp, seed, n=20, const=1):
    return encode(hrp, hashlib.sha256(str(seed).encode()).digest()[:n], const)
def hook_sender(channel, sender, prefix):
    th = hashlib.sha256(b"ibc-wasm-hook-intermediary").digest()
    h = hashlib.sha256(th + (channel + "/" + sender).encode()).digest()
    return encode(prefix, h)
def hx(s):
    if isinstance(s, str): s = s.encode()
    return "x" + s.hex()
