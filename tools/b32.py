# bech32 helpers for generators and independent monitors (BIP-173 reference implementation)
import hashlib
CHARSET = "qpzry9x8gf2tvdw0s3jn54khce6mua7l"
def polymod(values):
    GEN = [0x3b6a57b2, 0x26508e6d, 0x1ea119fa, 0x3d4233dd, 0x2a1462b3]
    chk = 1
    for v in values:
        b = chk >> 25
        chk = (chk & 0x1ffffff) << 5 ^ v
        for i in range(5):
            chk ^= GEN[i] if ((b >> i) & 1) else 0
    return chk
def hrp_expand(s):
    return [ord(x) >> 5 for x in s] + [0] + [ord(x) & 31 for x in s]
def create_checksum(hrp, data, const=1):
    pm = polymod(hrp_expand(hrp) + data + [0]*6) ^ const
    return [(pm >> 5 * (5 - i)) & 31 for i in range(6)]
def convertbits(data, frombits, tobits, pad=True):
    acc = 0; bits = 0; ret = []; maxv = (1 << tobits) - 1
    for v in data:
        acc = (acc << frombits) | v; bits += frombits
        while bits >= tobits:
            bits -= tobits; ret.append((acc >> bits) & maxv)
    if pad and bits: ret.append((acc << (tobits - bits)) & maxv)
    return ret
def encode(hrp, payload: bytes, const=1):
    d = convertbits(list(payload), 8, 5)
    return hrp + "1" + "".join(CHARSET[x] for x in d + create_checksum(hrp, d, const))
def addr(hrp, seed, n=20, const=1):
    return encode(hrp, hashlib.sha256(str(seed).encode()).digest()[:n], const)
def hook_sender(channel, sender, prefix):
    th = hashlib.sha256(b"ibc-wasm-hook-intermediary").digest()
    h = hashlib.sha256(th + (channel + "/" + sender).encode()).digest()
    return encode(prefix, h)
def hx(s):
    if isinstance(s, str): s = s.encode()
    return "x" + s.hex()


def decode(s):
    """bech32 0.9.1 `decode`: (hrp_lower, data5 without checksum, const) or None"""
    pos = s.rfind("1")
    if pos < 0:
        return None
    hrp, data = s[:pos], s[pos + 1:]
    if not (1 <= len(hrp) <= 83) or any(not (33 <= ord(c) <= 126) for c in hrp):
        return None
    lo = any("a" <= c <= "z" for c in hrp); up = any("A" <= c <= "Z" for c in hrp)
    if lo and up:
        return None
    case = "U" if up else ("L" if lo else None)
    vals = []
    for c in data:
        if ord(c) >= 128:
            return None
        if "a" <= c <= "z":
            if case == "U":
                return None
            case = "L"
        elif "A" <= c <= "Z":
            if case == "L":
                return None
            case = "U"
        i = CHARSET.find(c.lower())
        if i < 0:
            return None
        vals.append(i)
    if len(vals) < 6:
        return None
    h = hrp.lower()
    pm = polymod(hrp_expand(h) + vals)
    if pm not in (1, 0x2bc830a3):
        return None
    return h, vals[:-6], pm


def valid_addr(a, prefix):
    d = decode(a)
    return d is not None and d[0] == prefix
