# Stream generators: each returns op-file text (python generators) or runs the Rust world generator.
# Every random choice derives from the seed through random.Random(seed) (python) / splitmix64 (Rust).
import os, random, sys
sys.path.insert(0, os.path.dirname(os.path.abspath(__file__)))
from common import *
import b32

U128 = 2 ** 128 - 1
U64 = 2 ** 64 - 1
ME = b32.addr("osmo", "contract", 32)


def header(backend="osmosis", me=ME):
    return "cfg %s %s" % (backend, hx(me))


# ---------------- C04: compute_mint / compute_unbond triples ----------------
def triple(rnd):
    """boundary-biased 128-bit triples (tn, tl, a)"""
    k = rnd.randrange(12)
    def big(bits):
        return rnd.getrandbits(rnd.randrange(1, bits + 1))
    if k == 0:
        return 0, big(100), big(100)
    if k == 1:
        tn = big(90) + 1; tl = big(90) + 1
        q = big(40); a = (q * tn + tl - 1) // tl          # a*tl just above a multiple of tn
        return tn, tl, a
    if k == 2:
        tn = big(90) + 1; tl = big(90) + 1
        q = big(40); a = (q * tn) // tl                    # just below
        return tn, tl, a
    if k == 3:
        tn = big(64) + 1; g = big(30) + 1
        return tn, tn * g % (U128 + 1) or 1, big(60)       # exact divisions
    if k == 4:
        x = big(127) + 1
        return x, x, big(100)                              # rate exactly 1
    if k == 5:
        return big(128), big(128), big(128)                # overflow region
    if k == 6:
        tn = big(20) + 1
        return tn, U128, rnd.randrange(0, 3 * tn)          # quotient around 2^128
    if k == 7:
        return 1, big(128), 1
    if k == 8:
        lim = 10 ** 27
        tn = rnd.randrange(1, lim); tl = rnd.randrange(max(1, tn // 1000), min(lim, tn * 1000) + 1)
        return tn, tl, rnd.randrange(1, lim)               # the property's envelope
    if k == 9:
        return big(10) + 1, big(10) + 1, big(10)           # tiny, rounding to zero
    if k == 10:
        tn = big(100) + 1
        return tn, big(100), tn                            # a = tn
    return big(64) + 1, big(64), big(64)


def gen_fn_c04(seed, n):
    rnd = random.Random(seed)
    lines = [header()]
    kinds = {}
    for i in range(n):
        tn, tl, a = triple(rnd)
        tn &= U128; tl &= U128; a &= U128
        f = "mint" if i % 2 == 0 else "unbond"
        lines.append("fn %s %d %d %d" % (f, tn, tl, a))
    return "\n".join(lines) + "\n", {"cases": n}


# ---------------- world (Rust generator with feedback from the live contract) ----------------
def gen_world(exe, mode, backend, seed, histories, length, prefix):
    rc, out, dt = run([exe, mode, backend, str(seed), str(histories), str(length), prefix], timeout=3000)
    if rc != 0:
        raise RuntimeError("world generator failed: " + out[-2000:])
    return dt
