# Stream generators: each returns op-file text (python generators) or runs the Rust world generator.
# Every random choice derives from the seed through random.Random(seed) (python) / splitmix64 (Rust).
import os, random, sys
sys.path.insert(0, os.path.dirname(os.path.abspath(__file__)))
from common import *
import b32

U128 = 2 ** 128 - 1
U64 = 2 ** 64 - 1
ME = b32.addr("osmo", "contract", 32)


def header(backend="osmosis", me=ME):
    return "cfg %s %s" % (backend, hx(me))


# ---------------- C04: compute_mint / compute_unbond triples ----------------
def triple(rnd):
    """boundary-biased 128-bit triples (tn, tl, a)"""
    k = rnd.randrange(12)
    def big(bits):
        return rnd.getrandbits(rnd.randrange(1, bits + 1))
    if k == 0:
        return 0, big(100), big(100)
    if k == 1:
        tn = big(90) + 1; tl = big(90) + 1
        q = big(40); a = (q * tn + tl - 1) // tl          # a*tl just above a multiple of tn
        return tn, tl, a
    if k == 2:
        tn = big(90) + 1; tl = big(90) + 1
        q = big(40); a = (q * tn) // tl                    # just below
        return tn, tl, a
    if k == 3:
        tn = big(64) + 1; g = big(30) + 1
        return tn, tn * g % (U128 + 1) or 1, big(60)       # exact divisions
    if k == 4:
        x = big(127) + 1
        return x, x, big(100)                              # rate exactly 1
    if k == 5:
        return big(128), big(128), big(128)                # overflow region
    if k == 6:
        tn = big(20) + 1
        return tn, U128, rnd.randrange(0, 3 * tn)          # quotient around 2^128
    if k == 7:
        return 1, big(128), 1
    if k == 8:
        lim = 10 ** 27
        tn = rnd.randrange(1, lim); tl = rnd.randrange(max(1, tn // 1000), min(lim, tn * 1000) + 1)
        return tn, tl, rnd.randrange(1, lim)               # the property's envelope
    if k == 9:
        return big(10) + 1, big(10) + 1, big(10)           # tiny, rounding to zero
    if k == 10:
        tn = big(100) + 1
        return tn, big(100), tn                            # a = tn
    return big(64) + 1, big(64), big(64)


def gen_fn_c04(seed, n):
    rnd = random.Random(seed)
    lines = [header()]
    kinds = {}
    for i in range(n):
        tn, tl, a = triple(rnd)
        tn &= U128; tl &= U128; a &= U128
        f = "mint" if i % 2 == 0 else "unbond"
        lines.append("fn %s %d %d %d" % (f, tn, tl, a))
    return "\n".join(lines) + "\n", {"cases": n}


# ---------------- world (Rust generator with feedback from the live contract) ----------------
def gen_world(exe, mode, backend, seed, histories, length, prefix):
    rc, out, dt = run([exe, mode, backend, str(seed), str(histories), str(length), prefix], timeout=3000)
    if rc != 0:
        raise RuntimeError("world generator failed: " + out[-2000:])
    return dt


# ---------------- shared: a valid staking instantiation ----------------
D = "ibc/C3E53D20BC7A4CC993B17C7971F8ECD06A433C10B6A96F4C4C3714F0624C56DA"
T0 = 1_700_000_000_000_000_000


class Cfg:
    def __init__(self, rnd=None, tag=0):
        rnd = rnd or random.Random(0)
        self.me = b32.addr("osmo", "contract%d" % tag, 32)
        self.admin = b32.addr("osmo", "admin")
        self.np = "celestia"; self.vp = "celestiavaloper"
        self.staker = b32.addr(self.np, "staker"); self.collector = b32.addr(self.np, "collector")
        self.validators = [b32.addr(self.vp, "val%d" % i) for i in range(2)]
        self.channel = "channel-%d" % rnd.randrange(5000)
        self.oracle = b32.addr("osmo", "oracle", 32) if rnd.random() < 0.7 else None
        self.treasury = b32.addr("osmo", "treasury", 32) if rnd.random() < 0.5 else None
        self.fee = rnd.choice([0, 1000, 10000]); self.min = 100; self.bp = 3600; self.unbonding = 7200
        self.monitors = [b32.addr("osmo", "monitor0")]
        self.sub = "stTIA"
        self.users = [b32.addr("osmo", "user%d" % i) for i in range(4)]

    def native(self):
        return "(%s;%s;%s;[%s];%d;%s;%s)" % (hx(self.np), hx(self.vp), hx("utia"), ",".join(hx(v) for v in self.validators), self.unbonding, hx(self.staker), hx(self.collector))

    def inst(self, t=T0):
        o = hx(self.oracle) if self.oracle else "-"
        tr = hx(self.treasury) if self.treasury else "-"
        return "inst %d %s %s %s %s [%s] %d %s %s %s %s %s %d %s %d %s %s %d [%s]" % (
            t, hx(self.admin), hx(self.np), hx(self.vp), hx("utia"), ",".join(hx(v) for v in self.validators), self.unbonding,
            hx(self.staker), hx(self.collector), hx("osmo"), hx(D), hx(self.channel), self.min, o, self.fee, tr, hx(self.sub), self.bp,
            ",".join(hx(m) for m in self.monitors))


# ---------------- C12: ownership hand-over on both contracts ----------------
def gen_own(seed, n):
    """nominate / revoke / accept by 4 principals with block times at 7 days -1 s / exactly / +1 s after each
    nomination; after every step an admin-only probe by every principal in a rolled-back transaction"""
    rnd = random.Random(seed)
    lines = []
    week = 604800
    for h in range(n):
        c = Cfg(rnd, h)
        treasury = h % 2 == 1
        lines.append(header("osmosis", c.me))
        sec = T0 // 10 ** 9
        ppl = [c.admin] + c.users[:3]
        if treasury:
            lines.append("tinst %d %s - - {}" % (sec * 10 ** 9, hx(c.admin)))
        else:
            lines.append(c.inst(sec * 10 ** 9))
        admin = c.admin; pending = None; mint = None        # generator's own guess of the state (heuristic only)
        for k in range(rnd.randrange(6, 25)):
            if mint is not None and rnd.random() < 0.6:
                target = mint + rnd.choice([-1, 0, 1, -1, 0, week])
                sec = max(sec, target)
            else:
                sec += rnd.randrange(1, 3 * 86400)
            ns = sec * 10 ** 9 + rnd.randrange(10 ** 9)
            op = rnd.choice(["xfer", "xfer", "accept", "accept", "accept", "revoke"])
            if op == "xfer":
                who = admin if rnd.random() < 0.75 else rnd.choice(ppl)
                tgt = rnd.choice(ppl + ["not-an-address"])
                v = "xfer_own %s" % hx(tgt)
                if who == admin and tgt != "not-an-address":
                    pending = tgt; mint = sec + week
            elif op == "accept":
                who = pending if (pending and rnd.random() < 0.75) else rnd.choice(ppl)
                v = "accept_own"
                if who == pending and (mint is None or sec >= mint):
                    admin = pending; pending = None
            else:
                who = admin if rnd.random() < 0.7 else rnd.choice(ppl)
                v = "revoke_own"
                if who == admin:
                    pending = None; mint = None
            if treasury:
                lines.append("texec %d %s %s" % (ns, hx(who), v))
            else:
                lines.append("exec %d - %s [] %s" % (ns, hx(who), v))
            for p in ppl:
                lines.append("tx_begin")
                if treasury:
                    lines.append("texec %d %s updcfg %s -" % (ns, hx(p), hx(c.users[3])))
                else:
                    lines.append("exec %d - %s [] updcfg - - - - %d" % (ns, hx(p), 100 + k))
                lines.append("tx_abort")
            if treasury:
                lines.append("tquery")
    return "\n".join(lines) + "\n", {"histories": n}
