# Stream generators: each returns op-file text (python generators) or runs the Rust world generator.
# Every random choice derives from the seed through random.Random(seed) (python) / splitmix64 (Rust).
import os, random, sys
sys.path.insert(0, os.path.dirname(os.path.abspath(__file__)))
from common import *
import b32

U128 = 2 ** 128 - 1
U64 = 2 ** 64 - 1
ME = b32.addr("osmo", "contract", 32)


def header(backend="osmosis", me=ME):
    return "cfg %s %s" % (backend, hx(me))


# ---------------- C04: compute_mint / compute_unbond triples ----------------
def triple(rnd):
    """boundary-biased 128-bit triples (tn, tl, a)"""
    k = rnd.randrange(12)
    def big(bits):
        return rnd.getrandbits(rnd.randrange(1, bits + 1))
    if k == 0:
        return 0, big(100), big(100)
    if k == 1:
        tn = big(90) + 1; tl = big(90) + 1
        q = big(40); a = (q * tn + tl - 1) // tl          # a*tl just above a multiple of tn
        return tn, tl, a
    if k == 2:
        tn = big(90) + 1; tl = big(90) + 1
        q = big(40); a = (q * tn) // tl                    # just below
        return tn, tl, a
    if k == 3:
        tn = big(64) + 1; g = big(30) + 1
        return tn, tn * g % (U128 + 1) or 1, big(60)       # exact divisions
    if k == 4:
        x = big(127) + 1
        return x, x, big(100)                              # rate exactly 1
    if k == 5:
        return big(128), big(128), big(128)                # overflow region
    if k == 6:
        tn = big(20) + 1
        return tn, U128, rnd.randrange(0, 3 * tn)          # quotient around 2^128
    if k == 7:
        return 1, big(128), 1
    if k == 8:
        lim = 10 ** 27
        tn = rnd.randrange(1, lim); tl = rnd.randrange(max(1, tn // 1000), min(lim, tn * 1000) + 1)
        return tn, tl, rnd.randrange(1, lim)               # the property's envelope
    if k == 9:
        return big(10) + 1, big(10) + 1, big(10)           # tiny, rounding to zero
    if k == 10:
        tn = big(100) + 1
        return tn, big(100), tn                            # a = tn
    return big(64) + 1, big(64), big(64)


def gen_fn_c04(seed, n):
    rnd = random.Random(seed)
    lines = [header()]
    kinds = {}
    for i in range(n):
        tn, tl, a = triple(rnd)
        tn &= U128; tl &= U128; a &= U128
        f = "mint" if i % 2 == 0 else "unbond"
        lines.append("fn %s %d %d %d" % (f, tn, tl, a))
    return "\n".join(lines) + "\n", {"cases": n}


# ---------------- world (Rust generator with feedback from the live contract) ----------------
def gen_world(exe, mode, backend, seed, histories, length, prefix):
    rc, out, dt = run([exe, mode, backend, str(seed), str(histories), str(length), prefix], timeout=3000)
    if rc != 0:
        raise RuntimeError("world generator failed: " + out[-2000:])
    return dt


# ---------------- shared: a valid staking instantiation ----------------
D = "ibc/C3E53D20BC7A4CC993B17C7971F8ECD06A433C10B6A96F4C4C3714F0624C56DA"
T0 = 1_700_000_000_000_000_000


class Cfg:
    def __init__(self, rnd=None, tag=0):
        rnd = rnd or random.Random(0)
        self.me = b32.addr("osmo", "contract%d" % tag, 32)
        self.admin = b32.addr("osmo", "admin")
        self.np = "celestia"; self.vp = "celestiavaloper"
        self.staker = b32.addr(self.np, "staker"); self.collector = b32.addr(self.np, "collector")
        self.validators = [b32.addr(self.vp, "val%d" % i) for i in range(2)]
        self.channel = "channel-%d" % rnd.randrange(5000)
        self.oracle = b32.addr("osmo", "oracle", 32) if rnd.random() < 0.7 else None
        self.treasury = b32.addr("osmo", "treasury", 32) if rnd.random() < 0.5 else None
        self.fee = rnd.choice([0, 1000, 10000]); self.min = 100; self.bp = 3600; self.unbonding = 7200
        self.monitors = [b32.addr("osmo", "monitor0")]
        self.sub = "stTIA"
        self.users = [b32.addr("osmo", "user%d" % i) for i in range(4)]

    def native(self):
        return "(%s;%s;%s;[%s];%d;%s;%s)" % (hx(self.np), hx(self.vp), hx("utia"), ",".join(hx(v) for v in self.validators), self.unbonding, hx(self.staker), hx(self.collector))

    def inst(self, t=T0):
        o = hx(self.oracle) if self.oracle else "-"
        tr = hx(self.treasury) if self.treasury else "-"
        return "inst %d %s %s %s %s [%s] %d %s %s %s %s %s %d %s %d %s %s %d [%s]" % (
            t, hx(self.admin), hx(self.np), hx(self.vp), hx("utia"), ",".join(hx(v) for v in self.validators), self.unbonding,
            hx(self.staker), hx(self.collector), hx("osmo"), hx(D), hx(self.channel), self.min, o, self.fee, tr, hx(self.sub), self.bp,
            ",".join(hx(m) for m in self.monitors))


# ---------------- C12: ownership hand-over on both contracts ----------------
def gen_own(seed, n):
    """nominate / revoke / accept by 4 principals with block times at 7 days -1 s / exactly / +1 s after each
    nomination; after every step an admin-only probe by every principal in a rolled-back transaction"""
    rnd = random.Random(seed)
    lines = []
    week = 604800
    for h in range(n):
        c = Cfg(rnd, h)
        treasury = h % 2 == 1
        lines.append(header("osmosis", c.me))
        sec = T0 // 10 ** 9
        ppl = [c.admin] + c.users[:3]
        if treasury:
            # the trader is the creator (default) or a separate account: being the trader gives no say in the hand-over
            lines.append("tinst %d %s - %s {}" % (sec * 10 ** 9, hx(c.admin), rnd.choice(["-", hx(c.users[1]), hx(c.users[0])])))
        else:
            lines.append(c.inst(sec * 10 ** 9))
        admin = c.admin; pending = None; mint = None        # generator's own guess of the state (heuristic only)
        old_mint = None; after_other = False
        for k in range(rnd.randrange(6, 25)):
            if after_other and pending and rnd.random() < 0.5:
                # right after an unrelated admin call the nominee tries again, still before the deadline
                after_other = False
                sec += rnd.randrange(1, 3600)
                ns = sec * 10 ** 9 + rnd.randrange(10 ** 9)
                if treasury:
                    lines.append("texec %d %s accept_own" % (ns, hx(pending)))
                else:
                    lines.append("exec %d - %s [] accept_own" % (ns, hx(pending)))
                if mint is None or sec >= mint:
                    admin = pending; pending = None
                continue
            after_other = False
            if old_mint is not None:
                # the nominee of a RE-nomination tries at the deadline of the earlier nomination: the clock restarted
                sec = max(sec, old_mint + rnd.choice([0, 0, 1, 3600])); old_mint = None
                ns = sec * 10 ** 9 + rnd.randrange(10 ** 9)
                if pending:
                    if treasury:
                        lines.append("texec %d %s accept_own" % (ns, hx(pending)))
                    else:
                        lines.append("exec %d - %s [] accept_own" % (ns, hx(pending)))
                    if mint is None or sec >= mint:
                        admin = pending; pending = None
                continue
            if pending and mint is not None and rnd.random() < 0.12:
                # the admin nominates the SAME pending account again some days later
                sec += rnd.randrange(86400, 5 * 86400)
                ns = sec * 10 ** 9 + rnd.randrange(10 ** 9)
                if treasury:
                    lines.append("texec %d %s xfer_own %s" % (ns, hx(admin), hx(pending)))
                else:
                    lines.append("exec %d - %s [] xfer_own %s" % (ns, hx(admin), hx(pending)))
                old_mint = mint; mint = sec + week
                continue
            if mint is not None and rnd.random() < 0.6:
                target = mint + rnd.choice([-1, 0, 1, -1, 0, week])
                sec = max(sec, target)
            else:
                sec += rnd.randrange(1, 3 * 86400)
            ns = sec * 10 ** 9 + rnd.randrange(10 ** 9)
            op = rnd.choice(["xfer", "xfer", "accept", "accept", "accept", "revoke", "other", "other"])
            if op == "other":
                # an unrelated call by the admin, kept: it must leave the nomination and its deadline alone
                who = admin; after_other = True
                if treasury:
                    v = rnd.choice(["updcfg %s -" % hx(c.users[3]), "updcfg - {}"])
                else:
                    v = rnd.choice(["breaker", "resume 0 0 0", "resume 5 5 1", "updcfg - - - - %d" % (200 + k), "updcfg - - - [%s] -" % hx(c.users[2]),
                                    "addval %s" % hx(b32.addr(c.vp, "own%d" % k))])
            elif op == "xfer":
                who = admin if rnd.random() < 0.75 else rnd.choice(ppl)
                tgt = rnd.choice(ppl + ["not-an-address"])
                v = "xfer_own %s" % hx(tgt)
                if who == admin and tgt != "not-an-address":
                    pending = tgt; mint = sec + week
            elif op == "accept":
                who = pending if (pending and rnd.random() < 0.75) else rnd.choice(ppl)
                v = "accept_own"
                if who == pending and (mint is None or sec >= mint):
                    admin = pending; pending = None
            else:
                who = admin if rnd.random() < 0.7 else rnd.choice(ppl)
                v = "revoke_own"
                if who == admin:
                    pending = None; mint = None
            if treasury:
                lines.append("texec %d %s %s" % (ns, hx(who), v))
            else:
                lines.append("exec %d - %s [] %s" % (ns, hx(who), v))
            for p in ppl:
                lines.append("tx_begin")
                if treasury:
                    lines.append("texec %d %s updcfg %s -" % (ns, hx(p), hx(c.users[3])))
                else:
                    lines.append("exec %d - %s [] updcfg - - - - %d" % (ns, hx(p), 100 + k))
                lines.append("tx_abort")
            if treasury:
                lines.append("tquery")
    return "\n".join(lines) + "\n", {"histories": n}


# ---------------- C13: treasury ----------------
def hop_s(h):
    return "%d/%s/%s" % (h[0], hx(h[1]), hx(h[2]))


def route_s(r):
    return "[" + ",".join(hop_s(h) for h in r) + "]"


def routes_s(rs):
    return "{" + ";".join(route_s(r) for r in rs) + "}"


def route_variants(rnd, allowed):
    """candidate routes derived from the allow-list by the listed edit operations"""
    out = [[]]
    for r in allowed:
        out.append(list(r))
        for k in range(1, len(r)):
            out.append(r[:k]); out.append(r[k:])
        out.append(list(reversed(r)))
        if r:
            h = r[0]
            out.append([(h[0] + 1, h[1], h[2])] + r[1:]); out.append([(h[0], h[1] + "x", h[2])] + r[1:])
            out.append(r[:-1] + [(r[-1][0], r[-1][1], r[-1][2] + "x")])
            out.append(r + [(99, r[-1][2], "uextra")])
    for a in allowed:
        for b in allowed:
            out.append(a + b)
    return out


def gen_treasury(seed, n):
    rnd = random.Random(seed)
    lines = []
    denoms = ["utia", "uosmo", "uusdc", "uatom", D]
    for h in range(n):
        c = Cfg(rnd, h)
        lines.append(header("osmosis", c.me))
        trader = c.users[0]; admin = c.admin
        nroutes = rnd.randrange(0, 5)
        allowed = []
        for _ in range(nroutes):
            k = rnd.randrange(1, 4); ds = [rnd.choice(denoms) for _ in range(k + 1)]
            allowed.append([(rnd.randrange(1, 6), ds[i], ds[i + 1]) for i in range(k)])
        if rnd.random() < 0.3:
            allowed.insert(rnd.randrange(len(allowed) + 1), [])        # routes are not validated: an empty one is accepted
        t = T0 + rnd.randrange(10 ** 12)
        who = rnd.choice([admin, admin, c.users[1]])
        if h % 4 == 3:
            # the defaults: an omitted trader is the instantiating account, an omitted admin likewise -- also when the other
            # one is given
            who = c.users[1]
            lines.append("tinst %d %s %s %s %s" % (t, hx(who), rnd.choice([hx(admin), "-"]), "-", routes_s(allowed)))
        else:
            lines.append("tinst %d %s %s %s %s" % (t, hx(who), rnd.choice([hx(admin), "-"]), rnd.choice([hx(trader)] * 6 + ["-"] * 3 + [hx("bad address")]), routes_s(allowed)))
        lines.append("tquery")
        ppl = [admin, trader, c.users[1], c.users[2], who]
        cands = route_variants(rnd, allowed)
        for r in cands:
            for snd in ([trader] if rnd.random() < 0.7 else ppl):
                if r:
                    din = rnd.choice([r[0][1], r[0][1], r[-1][2], "uother"]); dout = rnd.choice([r[-1][2], r[-1][2], r[0][1], "uother"])
                else:
                    din = dout = "utia"
                amt = rnd.choice([0, 1, 10 ** 6, 2 ** 128 - 1]); lim = rnd.choice([0, 1, 12345, 2 ** 128 - 1])
                lines.append("texec %d %s swapin %s %s:%d %d" % (t, hx(snd), route_s(r), hx(din), amt, lim))
                lines.append("texec %d %s swapout %s %s:%d %d" % (t, hx(snd), route_s(r), hx(dout), amt, lim))
        recv = [b32.addr("osmo", "r1"), b32.addr("celestia", "r2"), b32.addr("osmo", "r3", 32), b32.addr("cosmos", "r4"),
                b32.addr("osmo", "r1").upper(), b32.addr("osmo", "r1")[:-1] + "q", "garbage", b32.addr("celestia", "r2", 20, 0x2bc830a3),
                # checksum-valid addresses whose prefix extends or truncates the expected one
                b32.addr("osmovaloper", "r5"), b32.addr("osmosis", "r6"), b32.addr("celestiavaloper", "r7"), b32.addr("celestiax", "r8"),
                b32.addr("osm", "r9"), b32.addr("celesti", "r10"), b32.addr("o", "r11")]
        for rc in recv:
            for ch in ["-", hx("channel-2"), hx("")]:
                for snd in [admin, trader, who]:
                    lines.append("texec %d %s spend %s:%d %s %s" % (t + 5, hx(snd), hx(rnd.choice(denoms)), rnd.choice([0, 5, 10 ** 30]), hx(rc), ch))
        lines.append("texec %d %s spend %s:%d %s %s" % (2 ** 64 - 5, hx(admin), hx("utia"), 5, hx(recv[1]), hx("channel-2")))
        for snd in ppl:
            lines.append("tx_begin")
            lines.append("texec %d %s updcfg %s %s" % (t + 9, hx(snd), rnd.choice(["-", hx(c.users[2]), hx("nope")]), rnd.choice(["-", routes_s(allowed[:1]), "{}"])))
            lines.append("tquery")
            lines.append("tx_abort")
        lines.append("texec %d %s updcfg %s %s" % (t + 9, hx(admin), hx(c.users[2]), routes_s(allowed[1:])))
        lines.append("tquery")
        if allowed and allowed[0]:
            lines.append("texec %d %s swapin %s %s:%d %d" % (t + 10, hx(c.users[2]), route_s(allowed[0]), hx(allowed[0][0][1]), 7, 1))
            lines.append("texec %d %s swapin %s %s:%d %d" % (t + 10, hx(trader), route_s(allowed[0]), hx(allowed[0][0][1]), 7, 1))
        # trader rotation with the allow-list re-stated unchanged, then a swap by the replaced and by the new trader
        cur = allowed[1:]
        for adm in [admin, who]:
            lines.append("texec %d %s updcfg %s %s" % (t + 11, hx(adm), hx(c.users[1]), routes_s(cur)))
            lines.append("tquery")
        for r in ([cur[0]] if cur and cur[0] else []) + ([allowed[0]] if allowed and allowed[0] else []):
            for snd in [c.users[2], c.users[1], trader]:
                lines.append("texec %d %s swapin %s %s:%d %d" % (t + 12, hx(snd), route_s(r), hx(r[0][1]), 7, 1))
        # routes only (trader untouched), trader only (routes untouched)
        lines.append("texec %d %s updcfg - %s" % (t + 13, hx(admin), routes_s(allowed)))
        lines.append("tquery")
        lines.append("texec %d %s updcfg %s -" % (t + 14, hx(admin), hx(trader)))
        lines.append("tquery")
        if allowed and allowed[0]:
            for snd in [c.users[1], trader]:
                lines.append("texec %d %s swapout %s %s:%d %d" % (t + 15, hx(snd), route_s(allowed[0]), hx(allowed[0][-1][2]), 7, 100))
        # versions with build metadata: the same release with metadata and a newer one (both must be refused; semver orders
        # build metadata, so neither is "strictly older")
        for name, ver in [("treasury", "0.4.19"), ("treasury", "0.4.20"), ("treasury", "0.4.21"), ("staking", "0.1.0"), ("treasury", "0.4"), ("treasury", "abc"), ("treasury", "0.3.99"),
                          ("treasury", "0.4.20+hotfix.1"), ("treasury", "0.4.21+b1"),
                          # other contracts whose name merely contains, extends or abbreviates this one's, at an older version
                          ("crates.io:treasury", "0.4.19"), ("xtreasury", "0.4.18"), ("treasury2", "0.4.19"), ("Treasury", "0.4.19"), ("treasur", "0.4.19"),
                          ("", "0.4.19"), ("treasury ", "0.4.19")]:
            lines.append("tmig %s %s" % (hx(name), hx(ver)))
    return "\n".join(lines) + "\n", {"histories": n}


# ---------------- C14: validation ----------------
def corrupt_addr(rnd, a, hrp):
    """field-level corruption operators on a bech32 address"""
    k = rnd.randrange(16)
    if k == 12:
        return straddle(rnd, a)
    if k == 13:
        return b32.addr(hrp + rnd.choice(["x", "1", "pub", "s"]), a)   # checksum-valid, the prefix extended
    if k == 14:
        return b32.addr(hrp[:-1] or "x", a)                          # ... or truncated
    if k == 15:
        return b32.addr(hrp, a, 32)                                  # another length
    if k == 0:
        return a.upper()
    if k == 1:
        return a[:5] + a[5].upper() + a[6:]                       # mixed case
    if k == 2:
        return a[:-1]                                             # truncated
    if k == 3:
        c = b32.CHARSET[(b32.CHARSET.index(a[-1]) + 1) % 32]
        return a[:-1] + c                                         # checksum damage
    if k == 4:
        return b32.addr(hrp, "m" + a, 20, 0x2bc830a3)              # Bech32m re-encoding
    if k == 5:
        return b32.addr("cosmos", a)                               # other prefix
    if k == 6:
        return b32.addr(hrp + "valoper", a)
    if k == 7:
        return ""
    if k == 8:
        return a + " "
    if k == 9:
        return a.replace("1", "l", 1)
    if k == 10:
        return hrp + "1"
    return a


def straddle(rnd, s):
    """the same byte length, with a multi-byte character across a small byte offset (or the last one): string code that
    slices by byte index must not split it"""
    b = s.encode()
    ch = rnd.choice(["é", "é", "€", "😀"]).encode()
    if len(b) < len(ch):
        return ch.decode()
    k = rnd.choice(list(range(0, min(len(b) - len(ch), 7) + 1)) + [len(b) - len(ch)])
    out = b[:k] + ch + b[k + len(ch):]
    try:
        return out.decode()
    except UnicodeDecodeError:
        return s


def corrupt_prefix(rnd, p):
    if rnd.random() < 0.12:
        return straddle(rnd, p)
    return rnd.choice([p.upper(), p.capitalize(), "", p + " ", "x" * 84, "x" * 83, p + "\x7f", p + "1", "a1b", "~", p[:-1], p + "é"])


def corrupt_channel(rnd):
    if rnd.random() < 0.12:
        return straddle(rnd, "channel-%d" % rnd.randrange(1000))
    if rnd.random() < 0.1:
        return rnd.choice(["channel-channel-5", "channel-5channel-5", "channel-5-5", "channel-5/channel-6", "channel-5\n", "\tchannel-5", "channel-5\x00"])
    return rnd.choice(["channel-+5", "channel-", "channel--1", "channel-007", "channel-18446744073709551615", "channel-18446744073709551616",
                       "channel-1 ", " channel-1", "Channel-1", "channel-1a", "channel-０", "channel", "chan-1", "channel-0x1", "channel-+", "channel-1e3"])


def corrupt_ibc(rnd):
    if rnd.random() < 0.3:
        return straddle(rnd, D)                        # 68 bytes, not ASCII
    if rnd.random() < 0.2:
        # the prefix repeated, or a body that itself looks like prefixed denoms
        return rnd.choice(["ibc/ibc/" + D[4:], "ibc/ibc/ibc/" + D[4:], "ibc/" * 17, "ibc/" * 16, "ibc/ibc/" + "A" * 60, "ibc//" + "A" * 63, "/ibc/" + D[4:]])
    return rnd.choice(["ibc/" + "A" * 63, "ibc/" + "A" * 65, "IBC/" + "A" * 64, "ibc" + "A" * 65, "ibc/", "utia", "ibc/" + "é" * 32, "ibc/" + "a" * 64])


def corrupt_denom(rnd):
    if rnd.random() < 0.12:
        return straddle(rnd, rnd.choice(["stTIA", "abcd", "milkTIA"]))
    return rnd.choice(SUB_DENOMS)


SUB_DENOMS = ["abc", "ab", "", "abcd1", "ab-cd", "stTIA ", " stTIA", "\tstTIA", "stTIA\n", "st TIA", "ABCD", "abcdé", "a" * 200, "utia"]


def gen_config(seed, n):
    rnd = random.Random(seed)
    lines = []
    for h in range(n):
        c = Cfg(rnd, h)
        lines.append(header("osmosis", c.me))
        t = T0
        # --- instantiate: valid, or with one corrupted field ---
        f = dict(np=c.np, vp=c.vp, nd="utia", vals=list(c.validators), ub=c.unbonding, staker=c.staker, coll=c.collector,
                 pp="osmo", pd=D, ch=c.channel, mn=c.min, orc=c.oracle, fee=c.fee, tr=c.treasury, sub=c.sub, bp=c.bp, mons=list(c.monitors))
        def mutate(f):
            g = dict(f); g["vals"] = list(f["vals"]); g["mons"] = list(f["mons"])
            k = rnd.randrange(22)
            if k == 0: g["np"] = corrupt_prefix(rnd, f["np"])
            elif k == 1: g["vp"] = corrupt_prefix(rnd, f["vp"])
            elif k == 2: g["nd"] = corrupt_denom(rnd)
            elif k == 3:
                # the same validator twice: next to itself or with others in between
                d = rnd.choice(f["vals"]); g["vals"] = list(f["vals"]); g["vals"].insert(rnd.randrange(len(f["vals"]) + 1), d)
            elif k == 4: g["vals"] = [corrupt_addr(rnd, f["vals"][0], f["vp"])] + f["vals"][1:]
            elif k == 5: g["staker"] = corrupt_addr(rnd, f["staker"], f["np"])
            elif k == 6: g["coll"] = corrupt_addr(rnd, f["coll"], f["np"])
            elif k == 7: g["pp"] = corrupt_prefix(rnd, f["pp"])
            elif k == 8: g["pd"] = corrupt_ibc(rnd)
            elif k == 9: g["ch"] = corrupt_channel(rnd)
            elif k == 10: g["orc"] = corrupt_addr(rnd, f["orc"] or b32.addr("osmo", "o"), "osmo")
            elif k == 11: g["tr"] = corrupt_addr(rnd, f["tr"] or b32.addr("osmo", "t"), "osmo")
            elif k == 12: g["sub"] = corrupt_denom(rnd)
            elif k == 13:
                # the same monitor twice: next to itself or with another in between
                extra = b32.addr("osmo", "monitor-extra")
                g["mons"] = rnd.choice([f["mons"] + [f["mons"][0]], [f["mons"][0], extra, f["mons"][0]], [extra, f["mons"][0], extra]])
            elif k == 14: g["mons"] = [corrupt_addr(rnd, f["mons"][0], "osmo")]
            elif k == 15: g["vals"] = []
            elif k == 16: g["vals"] = f["vals"] + [f["vals"][0].upper()]          # case-variant duplicate
            elif k == 17: g["np"] = f["np"].upper(); g["vp"] = f["vp"].upper()
            elif k == 18: g["mons"] = []
            elif k == 19: g["staker"] = b32.addr(f["pp"], "x")                   # protocol address as staker
            return g
        def native_s(g):
            return "(%s;%s;%s;[%s];%d;%s;%s)" % (hx(g["np"]), hx(g["vp"]), hx(g["nd"]), ",".join(hx(v) for v in g["vals"]), g["ub"], hx(g["staker"]), hx(g["coll"]))
        def protocol_s(g):
            return "(%s;%s;%s;%d;%s)" % (hx(g["pp"]), hx(g["pd"]), hx(g["ch"]), g["mn"], hx(g["orc"]) if g["orc"] is not None else "-")
        def fee_s(g):
            return "(%d;%s)" % (g["fee"], hx(g["tr"]) if g["tr"] is not None else "-")
        def inst_s(g, t):
            return "inst %d %s %s %s %s [%s] %d %s %s %s %s %s %d %s %d %s %s %d [%s]" % (
                t, hx(c.admin), hx(g["np"]), hx(g["vp"]), hx(g["nd"]), ",".join(hx(v) for v in g["vals"]), g["ub"], hx(g["staker"]), hx(g["coll"]),
                hx(g["pp"]), hx(g["pd"]), hx(g["ch"]), g["mn"], hx(g["orc"]) if g["orc"] is not None else "-", g["fee"],
                hx(g["tr"]) if g["tr"] is not None else "-", hx(g["sub"]), g["bp"], ",".join(hx(m) for m in g["mons"]))
        def straddled(f):
            # one validated string with a multi-byte character across a small byte offset, same byte length
            g = dict(f); g["vals"] = list(f["vals"]); g["mons"] = list(f["mons"])
            key = rnd.choice(["np", "vp", "nd", "pp", "pd", "pd", "pd", "ch", "sub", "staker", "coll", "orc", "tr", "vals", "mons"])
            if key in ("vals", "mons"):
                if g[key]:
                    g[key][0] = straddle(rnd, g[key][0])
            elif g[key] is not None:
                g[key] = straddle(rnd, g[key])
            return g
        for _ in range(3):
            lines.append(inst_s(straddled(f), t)); lines.append("query config")
        # the sub-denom only enters at instantiation: sweep its corruption table across the histories
        g = dict(f); g["sub"] = SUB_DENOMS[h % len(SUB_DENOMS)]
        lines.append(inst_s(g, t)); lines.append("query config")
        # surrounding whitespace on one validated string
        g = dict(f); g["vals"] = list(f["vals"]); g["mons"] = list(f["mons"])
        key = rnd.choice(["np", "vp", "nd", "pp", "pd", "ch", "sub", "staker", "coll"])
        g[key] = rnd.choice([" ", "\t", "\n", ""]) + g[key] + rnd.choice([" ", "\n", ""])
        lines.append(inst_s(g, t)); lines.append("query config")
        if h % 3 == 0:
            lines.append(inst_s(mutate(f), t)); lines.append("query config")
            # then a valid one so that updates have something to work on
        lines.append(inst_s(f, t)); lines.append("query config")
        # --- UpdateConfig on every subset of sections, each section valid or corrupted ---
        for mask in range(32):
            g = mutate(f) if rnd.random() < 0.6 else dict(f)
            if rnd.random() < 0.15:
                g = straddled(f)
            if rnd.random() < 0.3:
                g2 = dict(g); g2["pp"] = "celestia"; g = g2        # prefix change together with other sections
            nat = native_s(g) if mask & 1 else "-"
            pro = protocol_s(g) if mask & 2 else "-"
            fee = fee_s(g) if mask & 4 else "-"
            mon = "[%s]" % ",".join(hx(m) for m in g["mons"]) if mask & 8 else "-"
            bp = str(rnd.choice([0, 1, 3600])) if mask & 16 else "-"
            who = c.admin if rnd.random() < 0.9 else c.users[0]
            keep = rnd.random() < 0.3
            if not keep:
                lines.append("tx_begin")
            lines.append("exec %d - %s [] updcfg %s %s %s %s %s" % (t + mask, hx(who), nat, pro, fee, mon, bp))
            lines.append("query config")
            if not keep:
                lines.append("tx_abort")
        # --- validators ---
        for k in range(8):
            v = rnd.choice(c.validators + [b32.addr(c.vp, "new%d" % k), corrupt_addr(rnd, c.validators[0], c.vp), b32.addr(c.np, "acct")])
            who = c.admin if rnd.random() < 0.85 else c.users[0]
            lines.append("exec %d - %s [] %s %s" % (t + 100 + k, hx(who), rnd.choice(["addval", "rmval"]), hx(v)))
        # --- the helper functions themselves ---
        for k in range(12):
            lines.append("fn vprefix %s" % hx(rnd.choice([c.np, "osmo", corrupt_prefix(rnd, c.np), corrupt_prefix(rnd, "osmo")])))
            a = rnd.choice([c.staker, c.admin, c.validators[0]])
            lines.append("fn vaddr %s %s" % (hx(rnd.choice([a, corrupt_addr(rnd, a, c.np)])), hx(rnd.choice([c.np, "osmo", c.vp, c.np.upper()]))))
            lines.append("fn vchan %s" % hx(rnd.choice([c.channel, corrupt_channel(rnd), "channel-%d" % rnd.getrandbits(rnd.randrange(1, 70))])))
            lines.append("fn vibc %s" % hx(rnd.choice([D, corrupt_ibc(rnd)])))
            lines.append("fn vdenom %s" % hx(rnd.choice(["stTIA", corrupt_denom(rnd)])))
    return "\n".join(lines) + "\n", {"histories": n}


# ---------------- C09: hook-sender derivation, SHA-256, bech32 ----------------
def gen_hook(seed, n):
    rnd = random.Random(seed)
    lines = [header()]
    # every message length across the SHA-256 padding boundaries
    for l in range(0, 131):
        lines.append("fn sha256 %s" % hx(bytes(rnd.getrandbits(8) for _ in range(l))))
    prefixes = ["osmo", "celestia", "init", "a", "x" * 83, "OSMO", "o/s", "cosmos1", "", "Osmo", "x" * 84, "os mo", "~!"]
    for k in range(n):
        ch = rnd.choice(["channel-%d" % rnd.randrange(10 ** rnd.randrange(1, 19)), "channel-0", "channel-007", "channel-", "channel/1", ""])
        snd = rnd.choice([b32.addr("celestia", "s%d" % k), b32.addr("celestia", "s%d" % k).upper(), "", "a/b", "x" * rnd.randrange(1, 120),
                          b32.addr("osmo", "c%d" % k, 32)])
        pf = rnd.choice(prefixes if rnd.random() < 0.4 else ["osmo"])
        lines.append("fn derive %s %s %s" % (hx(ch), hx(snd), hx(pf)))
    # the derivation is injective on accepted pairs only because an accepted channel id is exactly channel-<n> (no '/' or
    # second part in it): the channel check is part of this property
    for k in range(n // 3):
        lines.append("fn vchan %s" % hx(rnd.choice([corrupt_channel(rnd), corrupt_channel(rnd), "channel-%d" % rnd.randrange(10 ** 6),
                                                      "channel-1/x-7", "channel-x-5", "channel-1-2", "channel-1/celestia1abc-3", "channel-/7", "channel-7/"])))
    for k in range(n // 4):
        a = b32.addr(rnd.choice(["osmo", "celestia", "x" * 20]), "d%d" % k, rnd.choice([20, 32, 1, 0, 50]), rnd.choice([1, 1, 0x2bc830a3]))
        lines.append("fn b32dec %s" % hx(rnd.choice([a, a.upper(), corrupt_addr(rnd, a, "osmo"), a[:4] + a[4:].upper()])))
    return "\n".join(lines) + "\n", {"cases": len(lines)}


# ---------------- C18: migrations ----------------
def gen_migrate(seed, n):
    rnd = random.Random(seed)
    lines = []
    STAT = ["sent", "ack_failure", "timed_out", "ack_failure", "sent", "ack_success"]
    for h in range(n):
        c = Cfg(rnd, h)
        lines.append(header("osmosis", c.me))
        npk = rnd.choice([0, 0, 1, 2, 5, 12]); nwt = rnd.choice([0, 0, 1, 2])
        seqs = sorted(rnd.sample(range(1, 200), npk)); ids = sorted(rnd.sample(range(10 ** 18, 10 ** 18 + 500), nwt))
        pk = "[" + ",".join("%d/%d/%s" % (q, rnd.choice([1, 1000, 10 ** 27, 2 ** 128 - 1, rnd.randrange(1, 10 ** 12)]), rnd.choice(STAT)) for q in seqs) + "]"
        wt = "[" + ",".join("%d/%d" % (q, rnd.randrange(1, 10 ** 15)) for q in ids) + "]"
        mons = rnd.choice(["-", "[]", "[%s]" % hx(c.monitors[0])])
        vals = "[" + ",".join(hx(v) for v in c.validators) + "]"
        orc = hx(c.oracle) if c.oracle else "-"
        layout = rnd.choice(["0418", "0420", "100"])
        stopped = rnd.choice(["0", "1"])
        if layout == "0418":
            ops_ = rnd.choice(["-", "[%s]" % hx(c.users[0])])
            lines.append("leg0418 %s %s %s %s %s %s %d %d %d %s %s %d %s %s %s %s %s %s %s" % (
                hx(D), hx("factory/%s/stTIA" % c.me), hx(c.treasury or b32.addr("osmo", "t", 32)), ops_, mons, vals, c.bp, c.unbonding, c.fee,
                hx(c.staker), hx(c.collector), c.min, hx(c.channel), stopped, rnd.choice(["-", orc]), rnd.choice(["-", orc]), orc, pk, wt))
        elif layout == "0420":
            # the stored 0.4.20 configuration: valid, or with exactly one address the migration has to refuse
            tre = c.treasury or b32.addr("osmo", "t", 32); stk = c.staker; col = c.collector
            bad = rnd.randrange(8)
            if bad == 0: tre = rnd.choice([b32.addr("cosmos", "t", 32), "bad"])
            elif bad == 1: stk = rnd.choice([b32.addr("osmo", "s"), b32.addr("celestiavaloper", "s"), c.staker.upper()])
            elif bad == 2: col = rnd.choice([b32.addr("osmo", "c"), b32.addr("celestiavaloper", "c"), c.collector[:-1]])
            elif bad == 3: vals = "[" + ",".join(hx(v) for v in [c.validators[0], b32.addr("celestia", "notaval")]) + "]"
            elif bad == 4: orc = hx(rnd.choice([b32.addr("cosmos", "o", 32), b32.addr("osmovaloper", "o", 32), "oracle"]))
            lines.append("leg0420 %s %s %s %s %s %d %d %d %s %s %d %s %s %s %s %s %s" % (
                hx(D), hx("factory/%s/stTIA" % c.me), hx(tre), mons, vals, c.bp, c.unbonding, c.fee,
                hx(stk), hx(col), c.min, hx(c.channel), stopped, orc, rnd.choice(["0", "1"]), pk, wt))
        else:
            o = hx(c.oracle) if c.oracle else "-"; tr = hx(c.treasury) if c.treasury else "-"
            lines.append("leg100 %s (%s;%s;%s;%d;%s) (%d;%s) %s [%s] %d %s %s %s" % (
                c.native(), hx("osmo"), hx(D), hx(c.channel), c.min, o, c.fee, tr, hx("factory/%s/stTIA" % c.me),
                ",".join(hx(m) for m in c.monitors), c.bp, stopped, pk, wt))
        right = {"0418": "0.4.18", "0420": "0.4.20", "100": "1.0.0"}[layout]
        vers = [right, right, right, "0.4.18", "0.4.20", "1.0.0", "1.1.0", "1.1.1", "2.0.0", "0.4.19", "1.0", "abc", "", "1.0.0-rc1", "01.0.0", "1.0.0 ",
                "0.4.17", "0.1.0", "0.0.0", "0.4.18-rc.1", "0.4.20-beta", "0.9.9"]
        names = ["staking", "staking", "staking", "staking", "treasury", "Staking", "", "crates.io:staking", "xstaking", "staking2", "stakin", "staking "]
        paths = {"0418": "v0418 %s" % rnd.choice(["0", "1"]),
                 "0420": None,
                 "100": "v100"}
        def v0420_args(valid):
            a = ["celestia", "celestiavaloper", "utia", "osmo"]
            if not valid:
                i = rnd.randrange(4)
                a[i] = rnd.choice([["CELESTIA", "cel estia", "osmo", ""], ["", "celestia", "CELESTIAVALOPER"], ["ut", "uti4", "", "UTIA"], ["OSMO", "cosmos", "", "celestia"]][i])
            return "v0420 %s %s %s %s" % tuple(hx(x) for x in a)
        paths["0420"] = v0420_args(True)
        for k in range(6):
            args_ok = True
            if k:
                args_ok = rnd.random() < 0.4
                paths["0420"] = v0420_args(args_ok)
            # an invalid argument is mostly tried with the right stored name and version, so that it is the argument check
            # that decides
            keep_right = (not k) or (layout == "0420" and not args_ok and rnd.random() < 0.7)
            ver = right if keep_right else rnd.choice(vers)
            name = "staking" if keep_right else rnd.choice(names)
            path = paths[layout] if (k == 0 or rnd.random() < 0.6) else paths[rnd.choice(["0418", "0420", "100"])]
            lines.append("setver %s %s" % (hx(name), hx(ver)))
            # refused migrations change nothing; successful ones are rolled back too so that every attempt starts from the same store
            lines.append("tx_begin_m")
            lines.append("mig " + path)
            lines.append("tx_abort_m")
        # finally the right one, kept, followed by a second attempt (now at the new version: refused)
        paths["0420"] = v0420_args(True)
        lines.append("setver %s %s" % (hx("staking"), hx(right)))
        lines.append("mig " + paths[layout])
        lines.append("mig " + paths[layout])
    return "\n".join(lines) + "\n", {"histories": n}


# ---------------- C20: prost bindings vs the wire model (evaluated inside Coq on the regenerated tables) ----------------
def coq_eval(body, tag):
    """runs one cases file through coqc (vm_compute) and returns the text of the single string it prints"""
    d = os.path.join(WORK, "cases"); os.makedirs(d, exist_ok=True)
    p = os.path.join(d, "cases_%s_%d.v" % (tag, os.getpid()))
    open(p, "w").write("From MW.Proto Require Import Codec Sample Cases.\nFrom MW.Gen Require Import Schema ProtoTables.\nOpen Scope N_scope.\n" + body + "\n")
    rc, out, dt = run("ulimit -s unlimited; timeout 1500 coqc -q -noglob -Q %s MW %s" % (COQ, p), cwd=d)
    for ext in (".v", ".vo", ".vok", ".vos", ".glob"):
        try:
            os.remove(p[:-2] + ext)
        except OSError:
            pass
    if rc != 0 or '"' not in out:
        raise RuntimeError("coqc evaluation of proto cases failed: " + out[-1500:])
    return out[out.index('"') + 1:out.rindex('"')].replace('""', '"'), dt


def proto_cases(seed):
    text, dt = coq_eval("Eval vm_compute in proto_lines gen_schema gen_type_urls %d." % seed, "s%d" % seed)
    ops = ["cfg proto %d" % seed]; exp = ["== cfg proto %d" % seed]; k = 0
    for l in text.splitlines():
        if not l.strip():
            continue
        a, b = l.split(" => "); k += 1
        ops.append(a); exp.append("#%d %s %s" % (k, a.split(" ")[0], b))
    return ops, exp, dt


def proto_eval(op_lines):
    """model observations for given proto op lines (replay / shrinking)"""
    items = []; exp = []
    def q(s):
        return '"' + s.replace('"', '""') + '"'
    for l in op_lines:
        t = l.split(" ")
        if t[0] in ("prt", "prtx"):
            items.append("(%s, %s, %s, %s)" % (q(t[0]), q(t[1]), q(""), q(t[2][1:])))
        elif t[0] == "pany":
            items.append("(%s, %s, %s, %s)" % (q("pany"), q(t[1]), q(t[2]), q(t[3][1:])))
    text, dt = coq_eval("Eval vm_compute in eval_ops gen_schema gen_type_urls [%s]%%string." % "; ".join(items), "ev")
    res = [l for l in text.splitlines() if l.strip()]
    out = []; k = 0
    for l in op_lines:
        if l.startswith("cfg "):
            out.append("== " + l)
        elif l.split(" ")[0] in ("prt", "prtx", "pany"):
            out.append("#%d %s" % (k + 1, res[k])); k += 1
    return out


def gen_proto(seed, n):
    import concurrent.futures as cf
    ops = []; exp = []; t = 0.0
    with cf.ThreadPoolExecutor(max_workers=8) as ex:
        for o, e, dt in ex.map(proto_cases, [seed * 100 + k for k in range(n)]):
            ops += o; exp += e; t += dt
    return "\n".join(ops) + "\n", "\n".join(exp) + "\n", {"seeds": n, "coq_s": round(t, 1)}
