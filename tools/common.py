# Shared helpers for bin/check: paths, subprocess, locking, fingerprints, protobuf wire reader.
import fcntl, hashlib, json, os, subprocess, sys, time

VERIF = os.path.dirname(os.path.dirname(os.path.abspath(__file__)))
REPO = os.environ.get("MW_REPO", "/repo")
WORK = os.path.join(VERIF, "work")
COQ = os.path.join(VERIF, "coq")
OCAML = os.path.join(VERIF, "ocaml")
HARNESS = os.path.join(VERIF, "harness")
EVIDENCE = os.path.join(VERIF, "evidence")
REPLAYS = os.path.join(VERIF, "replays")
for d in (WORK, EVIDENCE, REPLAYS):
    os.makedirs(d, exist_ok=True)

ENV = dict(os.environ, CARGO_NET_OFFLINE="true", PIP_NO_INDEX="1", GOPROXY="off")


def run(cmd, cwd=None, timeout=3600, env=None, check=False, stdin=None):
    t = time.time()
    p = subprocess.run(cmd, cwd=cwd, env=env or ENV, stdout=subprocess.PIPE, stderr=subprocess.STDOUT,
                       timeout=timeout, text=True, shell=isinstance(cmd, str), input=stdin)
    if check and p.returncode != 0:
        sys.stderr.write(p.stdout[-4000:])
        raise RuntimeError("command failed: %s" % (cmd,))
    return p.returncode, p.stdout, time.time() - t


class Lock:
    def __init__(self, name="build"):
        self.path = os.path.join(WORK, "." + name + ".lock")

    def __enter__(self):
        self.f = open(self.path, "w")
        fcntl.flock(self.f, fcntl.LOCK_EX)
        return self

    def __exit__(self, *a):
        fcntl.flock(self.f, fcntl.LOCK_UN)
        self.f.close()


def sha(s):
    if isinstance(s, str):
        s = s.encode()
    return hashlib.sha256(s).hexdigest()


def repo_fingerprint():
    """hash of the working tree content of the source directories the checks depend on"""
    h = hashlib.sha256()
    for root in ("contracts", "packages", "Cargo.toml", "Cargo.lock"):
        p = os.path.join(REPO, root)
        if os.path.isfile(p):
            h.update(p.encode()); h.update(open(p, "rb").read()); continue
        for dp, dn, fn in sorted(os.walk(p)):
            dn[:] = sorted(d for d in dn if d not in ("target", ".git"))
            for f in sorted(fn):
                if f.endswith((".rs", ".toml", ".json", ".lock")):
                    fp = os.path.join(dp, f)
                    h.update(fp.encode()); h.update(open(fp, "rb").read())
    return h.hexdigest()[:16]


def verif_fingerprint():
    h = hashlib.sha256()
    for sub in ("coq", "ocaml", "harness/src", "tools", "bin", "harness/Cargo.toml"):
        p = os.path.join(VERIF, sub)
        if os.path.isfile(p):
            h.update(open(p, "rb").read()); continue
        for dp, dn, fn in sorted(os.walk(p)):
            dn[:] = sorted(d for d in dn if d not in ("target", "__pycache__"))
            for f in sorted(fn):
                if f.endswith((".v", ".ml", ".rs", ".py", ".toml")) or dp.endswith("bin"):
                    h.update(f.encode()); h.update(open(os.path.join(dp, f), "rb").read())
    return h.hexdigest()[:16]


def unhex(t):
    assert t.startswith("x"), t
    return bytes.fromhex(t[1:])


def hx(s):
    if isinstance(s, str):
        s = s.encode()
    return "x" + s.hex()


# ---------- independent protobuf wire reader ----------
def pb_parse(b):
    i = 0; out = []
    def varint():
        nonlocal i
        v = 0; sh = 0
        while True:
            x = b[i]; i += 1
            v |= (x & 0x7f) << sh
            if not x & 0x80:
                return v
            sh += 7
    while i < len(b):
        k = varint(); tag, wt = k >> 3, k & 7
        if wt == 0:
            out.append((tag, varint()))
        elif wt == 2:
            l = varint(); out.append((tag, b[i:i + l])); i += l
        else:
            raise ValueError("wire type %d" % wt)
    return out


def pb_get(fields, tag, default=b""):
    for t, v in reversed(fields):
        if t == tag:
            return v
    return default


def pb_all(fields, tag):
    return [v for t, v in fields if t == tag]


def pb_coin(b):
    f = pb_parse(b)
    return pb_get(f, 1).decode(), int(pb_get(f, 2).decode() or "0")


def write_json(path, obj):
    tmp = path + ".tmp"
    with open(tmp, "w") as f:
        json.dump(obj, f, indent=1, sort_keys=True)
    os.replace(tmp, path)
