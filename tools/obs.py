# Parsing of op files and observation files; facets (what a property's projection subscribes to).
from common import unhex, pb_parse, pb_get, pb_all, pb_coin

NON_STEP = ("cfg", "tx_begin", "tx_commit", "tx_abort", "#", "setver", "tx_begin_m", "tx_abort_m")


def split_histories(text):
    """-> list of lists of lines, one per history (a history starts at a `cfg` / `== cfg` line)"""
    hs = []; cur = None
    for line in text.splitlines():
        if line.startswith("cfg ") or line.startswith("== cfg "):
            cur = [line]; hs.append(cur)
        elif cur is not None:
            cur.append(line)
    return hs


URL_FACET = {
    "/cosmwasm.wasm.v1.MsgExecuteContract": "msg:oracle",
    "/cosmos.bank.v1beta1.MsgSend": "msg:send",
    "/ibc.applications.transfer.v1.MsgTransfer": "msg:transfer",
    "/osmosis.poolmanager.v1beta1.MsgSwapExactAmountIn": "msg:swap",
    "/osmosis.poolmanager.v1beta1.MsgSwapExactAmountOut": "msg:swap",
}


def msg_facet(toks):
    # toks: ["msg", k, id, reply, "bank"|"stargate", ...]
    if toks[4] == "bank":
        return "msg:bank"
    if toks[4] == "stargate":
        url = unhex(toks[5]).decode("latin1")
        if url in URL_FACET:
            return URL_FACET[url]
        if url.endswith(".MsgMint"):
            return "msg:mint"
        if url.endswith(".MsgBurn"):
            return "msg:burn"
        if url.endswith(".MsgCreateDenom"):
            return "msg:create"
    return "msg:other"


def facet(line):
    """facet of one observation line `#<step> key ...`"""
    sp = line.split(" ")
    if len(sp) < 2 or not sp[0].startswith("#"):
        return "marker"
    k = sp[1]
    if k == "msg":
        return msg_facet(sp[1:])
    if k.startswith("st.cfg"):
        return "st.cfg"
    if k.startswith("q."):
        return "q"
    if k.startswith("mg.cfg."):
        return k
    return k


def decode_msg(toks):
    """toks after the step token: msg k id reply kind ... -> dict"""
    m = {"k": int(toks[1]), "id": int(toks[2]), "reply": toks[3] == "1", "kind": toks[4]}
    if toks[4] == "bank":
        m["facet"] = "msg:bank"; m["to"] = unhex(toks[5]).decode()
        d, a = toks[6].split("+")[0].split(":")
        m["denom"] = unhex(d).decode(); m["amount"] = int(a)
        return m
    if toks[4] != "stargate":
        m["facet"] = "msg:other"; return m
    url = unhex(toks[5]).decode("latin1"); val = unhex(toks[6])
    m["url"] = url; m["value"] = val; m["facet"] = msg_facet(toks)
    try:
        f = pb_parse(val)
    except Exception:
        m["undecodable"] = True; return m
    try:
        decode_fields(m, f)
    except Exception:
        # the bytes parse as protobuf but not as the message this URL names (e.g. a coin whose amount is not a number)
        m["undecodable"] = True
    return m


def decode_fields(m, f):
    fc = m["facet"]
    if fc == "msg:send":
        m["from"] = pb_get(f, 1).decode(); m["to"] = pb_get(f, 2).decode()
        cs = pb_all(f, 3); m["ncoins"] = len(cs)
        if cs:
            m["denom"], m["amount"] = pb_coin(cs[0])
    elif fc in ("msg:mint", "msg:burn"):
        m["sender"] = pb_get(f, 1).decode()
        cs = pb_all(f, 2)
        if cs:
            m["denom"], m["amount"] = pb_coin(cs[0])
        m["addr"] = pb_get(f, 3).decode()
    elif fc == "msg:create":
        m["sender"] = pb_get(f, 1).decode(); m["sub"] = pb_get(f, 2).decode()
    elif fc == "msg:transfer":
        m["port"] = pb_get(f, 1).decode(); m["channel"] = pb_get(f, 2).decode()
        cs = pb_all(f, 3)
        if cs:
            m["denom"], m["amount"] = pb_coin(cs[0])
        m["sender"] = pb_get(f, 4).decode(); m["receiver"] = pb_get(f, 5).decode()
        m["timeout"] = pb_get(f, 7, 0); m["memo"] = pb_get(f, 8).decode()
    elif fc == "msg:oracle":
        m["sender"] = pb_get(f, 1).decode(); m["contract"] = pb_get(f, 2).decode()
        m["json"] = pb_get(f, 3).decode(); m["nfunds"] = len(pb_all(f, 5))
    return m


def opt(t, f=lambda x: x):
    return None if t == "-" else f(t)


def ustr(t):
    return unhex(t).decode("utf-8", "replace")


def parse_list(t, f=lambda x: x):
    inner = t[1:-1]
    return [f(x) for x in inner.split(",")] if inner else []


class Step:
    __slots__ = ("idx", "op", "optoks", "intx", "aborted", "res", "msgs", "st", "q", "fn", "lines", "pre", "post", "note", "tx", "after")

    def __init__(self):
        self.idx = 0; self.op = ""; self.optoks = []; self.intx = False; self.aborted = False
        self.res = None; self.msgs = []; self.st = None; self.q = []; self.fn = None; self.lines = []
        self.pre = None; self.post = None; self.note = None; self.tx = 0; self.after = None


def parse_state(lines):
    """lines: list of token lists with keys st.* -> dict"""
    st = {"batches": {}, "reqs": [], "pkts": {}, "waits": {}}
    for t in lines:
        k = t[0]
        if k == "st.none":
            return None
        if k == "st.cfg.native":
            st["native"] = dict(prefix=ustr(t[1]), valprefix=ustr(t[2]), denom=ustr(t[3]), validators=parse_list(t[4], ustr),
                                unbonding=int(t[5]), staker=ustr(t[6]), collector=ustr(t[7]))
        elif k == "st.cfg.protocol":
            st["protocol"] = dict(prefix=ustr(t[1]), channel=ustr(t[2]), denom=ustr(t[3]), min=int(t[4]), oracle=opt(t[5], ustr))
        elif k == "st.cfg.fee":
            st["fee"] = dict(rate=int(t[1]), treasury=opt(t[2], ustr))
        elif k == "st.cfg.misc":
            st["lst"] = ustr(t[1]); st["monitors"] = parse_list(t[2], ustr); st["batch_period"] = int(t[3]); st["stopped"] = t[4] == "1"
        elif k == "st.state":
            st["N"] = int(t[1]); st["L"] = int(t[2]); st["reward"] = int(t[3]); st["fees"] = int(t[4])
            st["pending_owner"] = opt(t[5], ustr); st["min_time"] = opt(t[6], int)
        elif k == "st.admin":
            st["admin"] = opt(t[1], ustr)
        elif k == "st.pending":
            st["pending"] = int(t[1])
        elif k == "st.batch":
            st["batches"][int(t[1])] = dict(id=int(t[1]), total=int(t[2]), expected=opt(t[3], int), received=opt(t[4], int),
                                            count=opt(t[5], int), time=opt(t[6], int), status=t[7])
        elif k == "st.req":
            st["reqs"].append((int(t[1]), ustr(t[2]), int(t[3])))
        elif k == "st.pkt":
            d, a = t[2].split(":")
            st["pkts"][int(t[1])] = dict(seq=int(t[1]), denom=ustr(d), amount=int(a), receiver=ustr(t[3]), status=t[4])
        elif k == "st.wait":
            d, a = t[2].split(":")
            st["waits"][int(t[1])] = dict(id=int(t[1]), denom=ustr(d), amount=int(a), receiver=ustr(t[3]))
        elif k == "st.ver":
            st["ver"] = (ustr(t[1]), ustr(t[2]))
    return st


def parse_history(op_lines, obs_lines):
    """join the op lines of one history with its observation lines -> (cfg tokens, [Step])"""
    cfg = op_lines[0].split(" ")
    by_step = {}
    for l in obs_lines[1:]:
        sp = l.split(" ")
        if not sp[0].startswith("#"):
            continue
        by_step.setdefault(int(sp[0][1:]), []).append(sp[1:])
    steps = []; idx = 0; intx = False; txsteps = []
    committed = None; working = None; note = None; txid = 0
    for l in op_lines[1:]:
        t = [x for x in l.split(" ") if x]
        if not t:
            continue
        if t[0] == "#":
            note = t[1:]; continue
        if t[0] == "setver":
            note = ["setver", t[1], t[2]]; continue
        if t[0] == "tx_begin":
            intx = True; txsteps = []; working = committed; txid += 1; continue
        if t[0] == "tx_commit":
            intx = False; committed = working
            for s in txsteps:
                s.after = committed
            continue
        if t[0] == "tx_abort":
            intx = False; working = committed
            for s in txsteps:
                s.aborted = True; s.after = committed
            continue
        if t[0].startswith("#") or t[0] in ("cfg", "setver", "tx_begin_m", "tx_abort_m"):
            continue
        idx += 1
        s = Step(); s.idx = idx; s.op = l; s.optoks = t; s.intx = intx; s.note = note; note = None; s.tx = txid if intx else 0
        stl = []
        for o in by_step.get(idx, []):
            s.lines.append(o)
            if o[0] == "res":
                s.res = o[1]
            elif o[0] == "msg":
                s.msgs.append(decode_msg(o))
            elif o[0].startswith("st."):
                stl.append(o)
            elif o[0].startswith("q."):
                s.q.append(o)
            elif o[0] == "fn":
                s.fn = o[1:]
            elif o[0] in ("prt", "prtx", "pany"):
                s.res = "ok" if (o[1] == "ok" or "back=ok" in " ".join(o)) else "err"
        if stl:
            s.st = parse_state(stl)
        s.pre = working
        if s.st is not None:
            working = s.st
        s.post = working
        if not intx:
            committed = working; s.after = committed
        steps.append(s)
        if intx:
            txsteps.append(s)
    return cfg, steps
