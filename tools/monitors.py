# Monitors: direct, model-independent checks of a property's observable consequence on the
# implementation's own trace (parsed observations of the real contracts).
# Each monitor: f(cfg_tokens, steps) -> list of {"step": idx, "what": text}
from common import *
import b32

U128 = 2 ** 128 - 1
DEC = 10 ** 18


def dec_str(n):
    whole, frac = divmod(n, DEC)
    if frac == 0:
        return str(whole)
    return ("%d.%018d" % (whole, frac)).rstrip("0")


def opkind(s):
    t = s.optoks
    if t[0] == "exec":
        return t[5]
    return t[0]


def committed_ok(s):
    return s.res == "ok" and not s.aborted


def swept(st):
    n, l, f = st["N"], st["L"], st["fees"]
    if l == 0 and n != 0:
        return 0, l, f + n
    return n, l, f


# ---------------- C04 ----------------
def mon_c04(cfg, steps):
    out = []
    for s in steps:
        t = s.optoks
        if t[0] == "fn" and t[1] in ("mint", "unbond"):
            a, b, c = int(t[2]), int(t[3]), int(t[4])
            if t[1] == "mint":
                exp = c if a == 0 else b * c // a
            else:
                exp = 0 if c == 0 else (None if b == 0 else a * c // b)
            exp_s = "-" if exp is None or exp > U128 else str(exp)
            got = s.fn[0] if s.fn else "?"
            if got != exp_s:
                out.append({"step": s.idx, "what": "%s(%d,%d,%d) returned %s, floor is %s" % (t[1], a, b, c, got, exp_s)})
        if t[0] == "exec" and s.res == "ok" and s.pre and s.st:
            k = t[5]
            if k == "stake":
                n1, l1, _ = swept(s.pre)
                mints = [m for m in s.msgs if m["facet"] == "msg:mint"]
                paid = sum(int(x.split(":")[1]) for x in t[4][1:-1].split(",") if x)
                if len(mints) != 1:
                    out.append({"step": s.idx, "what": "LiquidStake emitted %d mint messages" % len(mints)}); continue
                m = mints[0].get("amount", -1)
                exp = paid if n1 == 0 else l1 * paid // n1
                if m != exp:
                    out.append({"step": s.idx, "what": "LiquidStake of %d at totals (%d,%d) minted %d, floor is %d" % (paid, n1, l1, m, exp)})
                if m == 0:
                    out.append({"step": s.idx, "what": "LiquidStake minted zero"})
                if paid < s.pre["protocol"]["min"]:
                    out.append({"step": s.idx, "what": "LiquidStake accepted %d below the minimum %d" % (paid, s.pre["protocol"]["min"])})
                if t[8] != "-" and m < int(t[8]):
                    out.append({"step": s.idx, "what": "LiquidStake minted %d below expected_mint_amount %s" % (m, t[8])})
                if s.st["N"] != n1 + paid or s.st["L"] != l1 + m:
                    out.append({"step": s.idx, "what": "LiquidStake totals: (%d,%d) -> (%d,%d) for paid %d minted %d" % (n1, l1, s.st["N"], s.st["L"], paid, m)})
                if l1 > 0 and n1 > 0 and n1 * s.st["L"] > s.st["N"] * l1:
                    out.append({"step": s.idx, "what": "LiquidStake lowered the redemption rate"})
            elif k == "submit":
                p = s.pre["pending"]; b = s.pre["batches"].get(p)
                nb = s.st["batches"].get(p)
                if b is None or nb is None:
                    continue
                n0, l0 = s.pre["N"], s.pre["L"]
                exp = 0 if b["total"] == 0 else (n0 * b["total"] // l0 if l0 else None)
                if nb["expected"] != exp:
                    out.append({"step": s.idx, "what": "SubmitBatch of %d at totals (%d,%d) set aside %s, floor is %s" % (b["total"], n0, l0, nb["expected"], exp)})
                if l0 > 0 and s.st["L"] > 0 and n0 * s.st["L"] > s.st["N"] * l0:
                    out.append({"step": s.idx, "what": "SubmitBatch lowered the redemption rate"})
    return out


# ---------------- C15 ----------------
POSTING = ("stake", "submit", "rewards", "resume")


def mon_c15(cfg, steps):
    out = []
    for s in steps:
        t = s.optoks
        if t[0] == "query" and t[1] == "state" and s.res == "ok" and s.q and s.pre:
            n, l = s.pre["N"], s.pre["L"]
            exp = 0 if l == 0 else (l * DEC // n if n else None)
            got = int(s.q[0][3])
            if exp is not None and got != exp:
                out.append({"step": s.idx, "what": "State query reports purchase rate %d, totals give %d" % (got, exp)})
        if t[0] != "exec" or s.pre is None:
            continue
        k = t[5]
        if k not in POSTING:
            continue
        oracle_pre = s.pre["protocol"]["oracle"]
        if s.res == "panic" and oracle_pre is None:
            out.append({"step": s.idx, "what": "%s panics when no oracle is configured" % k}); continue
        if s.res != "ok" or s.st is None:
            continue
        posts = [m for m in s.msgs if m["facet"] == "msg:oracle"]
        if oracle_pre is None:
            if posts:
                out.append({"step": s.idx, "what": "%s posted to an oracle although none is configured" % k})
            continue
        if len(posts) != 1:
            out.append({"step": s.idx, "what": "%s emitted %d oracle posts" % (k, len(posts))}); continue
        p = posts[0]
        n, l = s.st["N"], s.st["L"]
        if l == 0:
            red = pur = "0"
        elif n == 0:
            continue
        else:
            red = dec_str(n * DEC // l); pur = dec_str(l * DEC // n)
        exp = '{"post_rates":{"denom":"%s","purchase_rate":"%s","redemption_rate":"%s"}}' % (s.st["lst"], pur, red)
        if p.get("contract") != oracle_pre:
            out.append({"step": s.idx, "what": "%s posted to %s, configured oracle is %s" % (k, p.get("contract"), oracle_pre)})
        if p.get("json") != exp:
            out.append({"step": s.idx, "what": "%s posted %s but the post-transaction rates are %s" % (k, p.get("json"), exp)})
    return out


# ---------------- C03 (contract level) ----------------
def mon_c03(cfg, steps):
    out = []
    for s in steps:
        t = s.optoks
        if t[0] != "exec" or s.res != "ok" or s.pre is None or s.st is None:
            continue
        k = t[5]; lst = s.pre["lst"]
        if k == "stake":
            mints = [m for m in s.msgs if m["facet"] == "msg:mint"]
            if len(mints) != 1:
                out.append({"step": s.idx, "what": "LiquidStake emitted %d mint messages" % len(mints)}); continue
            m = mints[0]["amount"]
            recipient = unhex(t[6]).decode() if t[6] != "-" else unhex(t[3]).decode()
            carriers = [x for x in s.msgs if x["facet"] in ("msg:send", "msg:transfer", "msg:bank") and x.get("denom") == lst]
            if len(carriers) != 1:
                out.append({"step": s.idx, "what": "LiquidStake emitted %d messages carrying the LST (expected one delivery)" % len(carriers)}); continue
            c = carriers[0]
            to = c.get("to") if c["facet"] != "msg:transfer" else c.get("receiver")
            if c["amount"] != m:
                out.append({"step": s.idx, "what": "LiquidStake minted %d but delivers %d LST to %s" % (m, c["amount"], to)})
            if to != recipient:
                out.append({"step": s.idx, "what": "LiquidStake delivers to %s, recipient is %s" % (to, recipient)})
            is_nat = b32.valid_addr(recipient, s.pre["native"]["prefix"]); is_pro = b32.valid_addr(recipient, s.pre["protocol"]["prefix"])
            want_ibc = (is_nat and not is_pro) or (is_nat and is_pro and t[7] == "1")
            if want_ibc != (c["facet"] == "msg:transfer"):
                out.append({"step": s.idx, "what": "LiquidStake delivers by %s but the recipient %s (native-valid %s, protocol-valid %s, transfer_to_native_chain %s) requires %s"
                            % ("IBC transfer" if c["facet"] == "msg:transfer" else "bank send", recipient, is_nat, is_pro, t[7], "an IBC transfer" if want_ibc else "a bank send")})
            if mints[0].get("denom") != lst or mints[0].get("sender") != unhex(cfg[2]).decode() or mints[0].get("addr") != unhex(cfg[2]).decode():
                out.append({"step": s.idx, "what": "mint message fields wrong: %r" % {k2: mints[0].get(k2) for k2 in ("denom", "sender", "addr")}})
            n1, l1, _ = swept(s.pre)
            if s.st["L"] != l1 + m:
                out.append({"step": s.idx, "what": "LST total grew by %d, minted %d" % (s.st["L"] - l1, m)})
        elif k == "submit":
            burns = [m for m in s.msgs if m["facet"] == "msg:burn"]
            b = s.pre["batches"].get(s.pre["pending"])
            if b is None:
                continue
            if len(burns) != 1 or burns[0].get("amount") != b["total"] or burns[0].get("denom") != lst:
                out.append({"step": s.idx, "what": "SubmitBatch of a batch of %d burns %s" % (b["total"], [(x.get("amount"), x.get("denom")) for x in burns])})
            if s.st["L"] != max(0, s.pre["L"] - b["total"]):
                out.append({"step": s.idx, "what": "SubmitBatch: LST total %d -> %d for a batch of %d" % (s.pre["L"], s.st["L"], b["total"])})
        else:
            if s.st["L"] != s.pre["L"] and k != "resume":
                out.append({"step": s.idx, "what": "%s changed the LST total" % k})
    return out


# ---------------- C08 ----------------
ADMIN_ONLY = ("addval", "rmval", "updcfg", "xfer_own", "revoke_own", "resume", "feewd")


def mon_c08(cfg, steps):
    out = []
    nom = None   # the account nominated by the latest successful, un-revoked, un-consumed TransferOwnership
    for s in steps:
        t = s.optoks
        if t[0] != "exec" or s.res != "ok" or s.pre is None:
            continue
        k = t[5]; who = unhex(t[3]).decode("utf-8", "replace"); pre = s.pre
        if not s.aborted:
            if k == "accept_own" and who != nom:
                out.append({"step": s.idx, "what": "accept_own succeeded for %s: the nominated account is %s" % (who, nom)})
            if k == "xfer_own":
                nom = unhex(t[6]).decode("utf-8", "replace")
            elif k in ("revoke_own", "accept_own"):
                nom = None
        def bad(msg):
            out.append({"step": s.idx, "what": "%s succeeded for %s: %s" % (k, who, msg)})
        if k in ADMIN_ONLY and who != pre["admin"]:
            bad("not the admin %s" % pre["admin"])
        if k == "recover" and t[7] != "-" and who != pre["admin"]:
            bad("forced recovery by a non-admin (admin %s)" % pre["admin"])
        if k == "breaker" and who != pre["admin"] and who not in pre["monitors"]:
            bad("neither admin nor monitor")
        if k == "accept_own" and who != pre["pending_owner"]:
            bad("not the nominated account %s" % pre["pending_owner"])
        if k == "rewards" and who != b32.hook_sender(pre["protocol"]["channel"], pre["native"]["collector"], pre["protocol"]["prefix"]):
            bad("not the ibc-hooks account of the reward collector")
        if k == "unstaked" and who != b32.hook_sender(pre["protocol"]["channel"], pre["native"]["staker"], pre["protocol"]["prefix"]):
            bad("not the ibc-hooks account of the staker")
        if k == "withdraw":
            pays = [m for m in s.msgs if m["facet"] in ("msg:send", "msg:bank")]
            if len(pays) != 1 or pays[0].get("to") != who:
                bad("payout goes to %s" % [m.get("to") for m in pays])
            gone = [r for r in pre["reqs"] if r not in s.st["reqs"]]
            if any(r[1] != who for r in gone) or len(gone) != 1:
                bad("requests removed: %r" % (gone,))
    return out


# ---------------- C10 ----------------
SIX = ("stake", "unstake", "submit", "withdraw", "rewards", "unstaked")


def strip(st, *keys):
    d = dict(st)
    for k in keys:
        d.pop(k, None)
    return d


def mon_c10(cfg, steps):
    out = []
    for s in steps:
        t = s.optoks
        if t[0] == "inst" and s.res == "ok" and s.st and not s.st["stopped"]:
            out.append({"step": s.idx, "what": "a newly instantiated contract is not halted"})
        if t[0] != "exec" or s.pre is None:
            continue
        k = t[5]
        if s.pre["stopped"] and k in SIX and s.res != "err":
            out.append({"step": s.idx, "what": "%s returned %s while the contract is halted" % (k, s.res)})
        if s.res != "ok" or s.st is None:
            continue
        who = unhex(t[3]).decode("utf-8", "replace")
        if k == "breaker":
            if strip(s.st, "stopped") != strip(s.pre, "stopped") or not s.st["stopped"] or s.msgs:
                out.append({"step": s.idx, "what": "CircuitBreaker changed more than the halted flag"})
        if k == "resume":
            if who != s.pre["admin"]:
                out.append({"step": s.idx, "what": "ResumeContract succeeded for a non-admin"})
            exp = dict(s.pre); exp["stopped"] = False; exp["N"], exp["L"], exp["reward"] = int(t[6]), int(t[7]), int(t[8])
            if s.st != exp:
                diff = [x for x in exp if exp[x] != s.st.get(x)]
                out.append({"step": s.idx, "what": "ResumeContract: fields %r differ from 'old store with the three totals replaced and the flag cleared'" % diff})
    return out


# ---------------- C11 ----------------
def mon_c11(cfg, steps):
    out = []
    for s in steps:
        t = s.optoks
        if t[0] != "exec" or s.pre is None:
            continue
        k = t[5]; pre = s.pre
        if k == "rewards":
            coins = [x.split(":") for x in t[4][1:-1].split(",") if x]
            amt = next((int(a) for d, a in coins if unhex(d).decode() == pre["protocol"]["denom"]), None)
            if s.res == "ok" and s.st is not None:
                if amt is None:
                    out.append({"step": s.idx, "what": "ReceiveRewards succeeded without the staked asset"}); continue
                if pre["L"] == 0:
                    out.append({"step": s.idx, "what": "ReceiveRewards accepted while no LST exists"})
                fee = pre["fee"]["rate"] * amt // 100000
                if fee > amt:
                    out.append({"step": s.idx, "what": "ReceiveRewards accepted a reward %d smaller than its fee %d" % (amt, fee)}); continue
                rest = amt - fee
                if s.st["N"] != pre["N"] + rest:
                    out.append({"step": s.idx, "what": "reward %d at rate %d: staked total grew by %d, restaked amount is %d" % (amt, pre["fee"]["rate"], s.st["N"] - pre["N"], rest)})
                if s.st["reward"] != pre["reward"] + amt:
                    out.append({"step": s.idx, "what": "reward counter grew by %d for a reward of %d" % (s.st["reward"] - pre["reward"], amt)})
                tr = pre["fee"]["treasury"]
                banks = [m for m in s.msgs if m["facet"] in ("msg:bank", "msg:send")]
                xfers = [m for m in s.msgs if m["facet"] == "msg:transfer"]
                if len(xfers) != 1 or xfers[0].get("amount") != rest or xfers[0].get("denom") != pre["protocol"]["denom"] or xfers[0].get("receiver") != pre["native"]["staker"]:
                    out.append({"step": s.idx, "what": "reward %d fee %d: forwarded %s, expected %d to the staker" % (amt, fee, [(m.get("amount"), m.get("receiver")) for m in xfers], rest)})
                if tr is None:
                    if s.st["fees"] != pre["fees"] + fee or banks:
                        out.append({"step": s.idx, "what": "no treasury: fee balance grew by %d (fee %d), bank messages %d" % (s.st["fees"] - pre["fees"], fee, len(banks))})
                else:
                    if s.st["fees"] != pre["fees"] or len(banks) != 1 or banks[0].get("to") != tr or banks[0].get("amount") != fee or banks[0].get("denom") != pre["protocol"]["denom"]:
                        out.append({"step": s.idx, "what": "treasury %s: fee %d, paid %s, fee balance change %d" % (tr, fee, [(m.get("to"), m.get("amount")) for m in banks], s.st["fees"] - pre["fees"])})
        if k == "feewd" and s.res == "ok" and s.st is not None:
            a = int(t[6]); tr = pre["fee"]["treasury"]
            sends = [m for m in s.msgs if m["facet"] in ("msg:bank", "msg:send")]
            if a > pre["fees"]:
                out.append({"step": s.idx, "what": "FeeWithdraw of %d exceeds the accrued %d" % (a, pre["fees"])})
            if tr is None or len(sends) != 1 or sends[0].get("to") != tr or sends[0].get("amount") != a or sends[0].get("denom") != pre["protocol"]["denom"]:
                out.append({"step": s.idx, "what": "FeeWithdraw %d: sent %s, treasury is %s" % (a, [(m.get("to"), m.get("amount")) for m in sends], tr)})
            if s.st["fees"] != pre["fees"] - a:
                out.append({"step": s.idx, "what": "FeeWithdraw %d: fee balance %d -> %d" % (a, pre["fees"], s.st["fees"])})
    return out


# ---------------- C12 ----------------
def mon_c12(cfg, steps):
    """admin changes only by AcceptOwnership of the most recently nominated account, >= 7 days after that nomination"""
    out = []
    admin = None; nom = None     # nom = (nominee, time_s) of the latest un-cancelled successful nomination
    for s in steps:
        t = s.optoks
        tre = t[0] in ("texec", "tinst")
        if t[0] in ("inst", "tinst"):
            if s.res == "ok":
                admin = (s.st or {}).get("admin") if not tre else owner_of(s)
            continue
        if t[0] not in ("exec", "texec") or s.aborted:
            continue
        who = unhex(t[2] if tre else t[3]).decode("utf-8", "replace")
        k = t[3] if tre else t[5]
        now_s = int(t[1]) // 10 ** 9
        new_admin = owner_of(s) if tre else (s.st or {}).get("admin")
        if new_admin is None:
            continue
        if new_admin != admin:
            if k != "accept_own" or s.res != "ok":
                out.append({"step": s.idx, "what": "admin changed from %s to %s by %s" % (admin, new_admin, k)})
            elif nom is None or nom[0] != who or new_admin != who:
                out.append({"step": s.idx, "what": "AcceptOwnership by %s made %s admin; latest nomination is %r" % (who, new_admin, nom)})
            elif now_s < nom[1] + 604800:
                out.append({"step": s.idx, "what": "AcceptOwnership succeeded %d s after the nomination (7 days = 604800 s)" % (now_s - nom[1])})
            admin = new_admin
        if s.res == "ok":
            if k == "xfer_own":
                if who != admin:
                    out.append({"step": s.idx, "what": "TransferOwnership succeeded for non-admin %s" % who})
                nom = (unhex(t[4] if tre else t[6]).decode("utf-8", "replace"), now_s)
            elif k == "revoke_own":
                nom = None
            elif k == "accept_own":
                nom = None
    return out


def owner_of(s):
    for o in s.lines:
        if o[0] == "ts.owner":
            return None if o[1] == "-" else unhex(o[1]).decode()
    return None


MONITORS = {"C04": mon_c04, "C15": mon_c15, "C03": mon_c03, "C08": mon_c08, "C10": mon_c10, "C11": mon_c11, "C12": mon_c12}
