# Monitors: direct, model-independent checks of a property's observable consequence on the
# implementation's own trace (parsed observations of the real contracts).
# Each monitor: f(cfg_tokens, steps) -> list of {"step": idx, "what": text}
from common import *
import b32

U128 = 2 ** 128 - 1
DEC = 10 ** 18


def dec_str(n):
    whole, frac = divmod(n, DEC)
    if frac == 0:
        return str(whole)
    return ("%d.%018d" % (whole, frac)).rstrip("0")


def opkind(s):
    t = s.optoks
    if t[0] == "exec":
        return t[5]
    return t[0]


def committed_ok(s):
    return s.res == "ok" and not s.aborted


def swept(st):
    n, l, f = st["N"], st["L"], st["fees"]
    if l == 0 and n != 0:
        return 0, l, f + n
    return n, l, f


# ---------------- C04 ----------------
def mon_c04(cfg, steps):
    out = []
    for s in steps:
        t = s.optoks
        if t[0] == "fn" and t[1] in ("mint", "unbond"):
            a, b, c = int(t[2]), int(t[3]), int(t[4])
            if t[1] == "mint":
                exp = c if a == 0 else b * c // a
            else:
                exp = 0 if c == 0 else (None if b == 0 else a * c // b)
            exp_s = "-" if exp is None or exp > U128 else str(exp)
            got = s.fn[0] if s.fn else "?"
            if got != exp_s:
                out.append({"step": s.idx, "what": "%s(%d,%d,%d) returned %s, floor is %s" % (t[1], a, b, c, got, exp_s)})
        if t[0] == "exec" and s.res == "ok" and s.pre and s.st:
            k = t[5]
            if k == "stake":
                n1, l1, _ = swept(s.pre)
                mints = [m for m in s.msgs if m["facet"] == "msg:mint"]
                paid = sum(int(x.split(":")[1]) for x in t[4][1:-1].split(",") if x)
                if len(mints) != 1:
                    out.append({"step": s.idx, "what": "LiquidStake emitted %d mint messages" % len(mints)}); continue
                m = mints[0].get("amount", -1)
                exp = paid if n1 == 0 else l1 * paid // n1
                if m != exp:
                    out.append({"step": s.idx, "what": "LiquidStake of %d at totals (%d,%d) minted %d, floor is %d" % (paid, n1, l1, m, exp)})
                if m == 0:
                    out.append({"step": s.idx, "what": "LiquidStake minted zero"})
                if paid < s.pre["protocol"]["min"]:
                    out.append({"step": s.idx, "what": "LiquidStake accepted %d below the minimum %d" % (paid, s.pre["protocol"]["min"])})
                if t[8] != "-" and m < int(t[8]):
                    out.append({"step": s.idx, "what": "LiquidStake minted %d below expected_mint_amount %s" % (m, t[8])})
                if s.st["N"] != n1 + paid or s.st["L"] != l1 + m:
                    out.append({"step": s.idx, "what": "LiquidStake totals: (%d,%d) -> (%d,%d) for paid %d minted %d" % (n1, l1, s.st["N"], s.st["L"], paid, m)})
                if l1 > 0 and n1 > 0 and n1 * s.st["L"] > s.st["N"] * l1:
                    out.append({"step": s.idx, "what": "LiquidStake lowered the redemption rate"})
                # what the staker is handed is what was minted: the LST leaves the contract in exactly one message of exactly
                # the floor amount (a bank send or an IBC transfer), so no rounding or delivery path yields more than was paid for
                lst = s.pre["lst"]
                handed = [x.get("amount") for x in s.msgs if x["facet"] in ("msg:send", "msg:bank", "msg:transfer") and x.get("denom") == lst]
                if handed != [m]:
                    out.append({"step": s.idx, "what": "LiquidStake of %d at totals (%d,%d) minted %d but hands out %r of the LST" % (paid, n1, l1, m, handed)})
            elif k == "submit":
                p = s.pre["pending"]; b = s.pre["batches"].get(p)
                nb = s.st["batches"].get(p)
                if b is None or nb is None:
                    continue
                n0, l0 = s.pre["N"], s.pre["L"]
                exp = 0 if b["total"] == 0 else (n0 * b["total"] // l0 if l0 else None)
                if nb["expected"] != exp:
                    out.append({"step": s.idx, "what": "SubmitBatch of %d at totals (%d,%d) set aside %s, floor is %s" % (b["total"], n0, l0, nb["expected"], exp)})
                if l0 > 0 and s.st["L"] > 0 and n0 * s.st["L"] > s.st["N"] * l0:
                    out.append({"step": s.idx, "what": "SubmitBatch lowered the redemption rate"})
    return out


# ---------------- C15 ----------------
POSTING = ("stake", "submit", "rewards", "resume")


def oracle_twins(steps):
    """pairs of consecutive rolled-back transactions that differ only by a leading UpdateConfig removing the oracle"""
    blocks = []; cur = []
    for s in steps:
        if s.intx:
            if cur and cur[-1].tx != s.tx:
                blocks.append(cur); cur = []
            cur.append(s)
        elif cur:
            blocks.append(cur); cur = []
    if cur:
        blocks.append(cur)
    for a, b in zip(blocks, blocks[1:]):
        if len(b) == len(a) + 1 and b[0].optoks[0] == "exec" and b[0].optoks[5] == "updcfg" and b[0].optoks[7].endswith(";-)") \
                and [x.optoks for x in b[1:]] == [x.optoks for x in a] and a[0].pre and a[0].pre["protocol"]["oracle"]:
            yield a, b


def mon_c15(cfg, steps):
    out = []
    for a, b in oracle_twins(steps):
        if b[0].res != "ok":
            continue
        for x, y in zip(a, b[1:]):
            if x.res != y.res:
                out.append({"step": x.idx, "what": "%s returns %s with the oracle configured and %s with the oracle removed (same store, same call)" % (
                    x.optoks[5], x.res, y.res)})
                break
    for s in steps:
        t = s.optoks
        if t[0] == "query" and t[1] == "state" and s.res == "ok" and s.q and s.pre:
            n, l = s.pre["N"], s.pre["L"]
            exp = 0 if l == 0 else (l * DEC // n if n else None)
            got = int(s.q[0][3])
            if exp is not None and got != exp:
                out.append({"step": s.idx, "what": "State query reports purchase rate %d, totals give %d" % (got, exp)})
        if t[0] != "exec" or s.pre is None:
            continue
        k = t[5]
        if k == "updcfg" and s.res == "ok" and s.st is not None and t[7] != "-":
            # an accepted protocol section replaces the oracle, including by "none": from then on nothing is posted
            want = t[7][1:-1].split(";")[4]
            want = None if want == "-" else unhex(want).decode("utf-8", "replace")
            if s.st["protocol"]["oracle"] != want:
                out.append({"step": s.idx, "what": "UpdateConfig set the oracle to %s but the contract keeps answering to %s" % (want, s.st["protocol"]["oracle"])})
        if k not in POSTING:
            continue
        oracle_pre = s.pre["protocol"]["oracle"]
        if s.res == "panic" and oracle_pre is None:
            out.append({"step": s.idx, "what": "%s panics when no oracle is configured" % k}); continue
        if s.res != "ok" or s.st is None:
            continue
        posts = [m for m in s.msgs if m["facet"] == "msg:oracle"]
        if oracle_pre is None:
            if posts:
                out.append({"step": s.idx, "what": "%s posted to an oracle although none is configured" % k})
            continue
        if len(posts) != 1:
            out.append({"step": s.idx, "what": "%s emitted %d oracle posts" % (k, len(posts))}); continue
        p = posts[0]
        n, l = s.st["N"], s.st["L"]
        if l == 0:
            red = pur = "0"
        elif n == 0:
            continue
        else:
            red = dec_str(n * DEC // l); pur = dec_str(l * DEC // n)
        exp = '{"post_rates":{"denom":"%s","purchase_rate":"%s","redemption_rate":"%s"}}' % (s.st["lst"], pur, red)
        if p.get("contract") != oracle_pre:
            out.append({"step": s.idx, "what": "%s posted to %s, configured oracle is %s" % (k, p.get("contract"), oracle_pre)})
        if p.get("json") != exp:
            out.append({"step": s.idx, "what": "%s posted %s but the post-transaction rates are %s" % (k, p.get("json"), exp)})
    return out


# ---------------- C03 (contract level) ----------------
def mon_c03(cfg, steps):
    out = []
    for s in steps:
        t = s.optoks
        if t[0] != "exec" or s.res != "ok" or s.pre is None or s.st is None:
            continue
        k = t[5]; lst = s.pre["lst"]
        if k == "stake":
            mints = [m for m in s.msgs if m["facet"] == "msg:mint"]
            if len(mints) != 1:
                out.append({"step": s.idx, "what": "LiquidStake emitted %d mint messages" % len(mints)}); continue
            m = mints[0]["amount"]
            recipient = unhex(t[6]).decode() if t[6] != "-" else unhex(t[3]).decode()
            carriers = [x for x in s.msgs if x["facet"] in ("msg:send", "msg:transfer", "msg:bank") and x.get("denom") == lst]
            if len(carriers) != 1:
                out.append({"step": s.idx, "what": "LiquidStake emitted %d messages carrying the LST (expected one delivery)" % len(carriers)}); continue
            c = carriers[0]
            to = c.get("to") if c["facet"] != "msg:transfer" else c.get("receiver")
            if c["amount"] != m:
                out.append({"step": s.idx, "what": "LiquidStake minted %d but delivers %d LST to %s" % (m, c["amount"], to)})
            if to != recipient:
                out.append({"step": s.idx, "what": "LiquidStake delivers to %s, recipient is %s" % (to, recipient)})
            is_nat = b32.valid_addr(recipient, s.pre["native"]["prefix"]); is_pro = b32.valid_addr(recipient, s.pre["protocol"]["prefix"])
            want_ibc = (is_nat and not is_pro) or (is_nat and is_pro and t[7] == "1")
            if want_ibc != (c["facet"] == "msg:transfer"):
                out.append({"step": s.idx, "what": "LiquidStake delivers by %s but the recipient %s (native-valid %s, protocol-valid %s, transfer_to_native_chain %s) requires %s"
                            % ("IBC transfer" if c["facet"] == "msg:transfer" else "bank send", recipient, is_nat, is_pro, t[7], "an IBC transfer" if want_ibc else "a bank send")})
            if mints[0].get("denom") != lst or mints[0].get("sender") != unhex(cfg[2]).decode() or mints[0].get("addr") != unhex(cfg[2]).decode():
                out.append({"step": s.idx, "what": "mint message fields wrong: %r" % {k2: mints[0].get(k2) for k2 in ("denom", "sender", "addr")}})
            n1, l1, _ = swept(s.pre)
            if s.st["L"] != l1 + m:
                out.append({"step": s.idx, "what": "LST total grew by %d, minted %d" % (s.st["L"] - l1, m)})
        elif k == "submit":
            burns = [m for m in s.msgs if m["facet"] == "msg:burn"]
            b = s.pre["batches"].get(s.pre["pending"])
            if b is None:
                continue
            if len(burns) != 1 or burns[0].get("amount") != b["total"] or burns[0].get("denom") != lst:
                out.append({"step": s.idx, "what": "SubmitBatch of a batch of %d burns %s" % (b["total"], [(x.get("amount"), x.get("denom")) for x in burns])})
            if s.st["L"] != max(0, s.pre["L"] - b["total"]):
                out.append({"step": s.idx, "what": "SubmitBatch: LST total %d -> %d for a batch of %d" % (s.pre["L"], s.st["L"], b["total"])})
        elif k == "recover":
            # a refunded LST delivery may only be re-sent to the recipient it was recorded for ("and to nobody else")
            removed = [s.pre["pkts"][q] for q in sorted(s.pre["pkts"]) if q not in s.st["pkts"] and s.pre["pkts"][q]["denom"] == lst]
            xs = [m for m in s.msgs if m["facet"] == "msg:transfer" and m.get("denom") == lst]
            if removed or xs:
                tot = sum(p["amount"] for p in removed)
                to = xs[0].get("receiver") if xs else None
                forced_sent = t[7] != "-" and any(p["status"] == "sent" for p in removed)
                if len(xs) != 1 or xs[0].get("amount") != tot or any(p["receiver"] != to for p in removed):
                    out.append({"step": s.idx, "what": "LST-RESEND: recover re-sent %s LST to %s; the refunded LST deliveries it removed are %r" % ([m.get("amount") for m in xs], to, [(p["seq"], p["amount"], p["receiver"], p["status"]) for p in removed])})
                elif any(p["status"] == "sent" for p in removed) and not forced_sent:
                    out.append({"step": s.idx, "what": "LST-RESEND: a permissionless recovery re-sent LST deliveries still in flight: %r" % [p["seq"] for p in removed if p["status"] == "sent"]})
        else:
            if s.st["L"] != s.pre["L"] and k != "resume":
                out.append({"step": s.idx, "what": "%s changed the LST total" % k})
    return out


# ---------------- C08 ----------------
ADMIN_ONLY = ("addval", "rmval", "updcfg", "xfer_own", "revoke_own", "resume", "feewd")


def mon_c08(cfg, steps):
    out = []
    nom = None   # the account nominated by the latest successful, un-revoked, un-consumed TransferOwnership
    for s in steps:
        t = s.optoks
        if t[0] != "exec" or s.res != "ok" or s.pre is None:
            continue
        k = t[5]; who = unhex(t[3]).decode("utf-8", "replace"); pre = s.pre
        if not s.aborted:
            if k == "accept_own" and who != nom:
                out.append({"step": s.idx, "what": "accept_own succeeded for %s: the nominated account is %s" % (who, nom)})
            if k == "xfer_own":
                nom = unhex(t[6]).decode("utf-8", "replace")
            elif k in ("revoke_own", "accept_own"):
                nom = None
        def bad(msg):
            out.append({"step": s.idx, "what": "%s succeeded for %s: %s" % (k, who, msg)})
        if k in ADMIN_ONLY and who != pre["admin"]:
            bad("not the admin %s" % pre["admin"])
        if k == "recover" and t[7] != "-" and who != pre["admin"]:
            bad("forced recovery by a non-admin (admin %s)" % pre["admin"])
        if k == "breaker" and who != pre["admin"] and who not in pre["monitors"]:
            bad("neither admin nor monitor")
        if k == "updcfg" and t[9] != "-" and s.st is not None:
            # the monitors the breaker answers to are the ones the admin last configured: a supplied list is in force
            want = [unhex(x).decode("utf-8", "replace") for x in t[9][1:-1].split(",") if x]
            if s.st["monitors"] != want:
                out.append({"step": s.idx, "what": "UpdateConfig(monitors=%r) was accepted but the configured monitors are %r" % (want, s.st["monitors"])})
        if k == "accept_own" and who != pre["pending_owner"]:
            bad("not the nominated account %s" % pre["pending_owner"])
        if k == "rewards" and who != b32.hook_sender(pre["protocol"]["channel"], pre["native"]["collector"], pre["protocol"]["prefix"]):
            bad("not the ibc-hooks account of the reward collector")
        if k == "unstaked" and who != b32.hook_sender(pre["protocol"]["channel"], pre["native"]["staker"], pre["protocol"]["prefix"]):
            bad("not the ibc-hooks account of the staker")
        if k == "withdraw":
            pays = [m for m in s.msgs if m["facet"] in ("msg:send", "msg:bank")]
            if len(pays) != 1 or pays[0].get("to") != who:
                bad("payout goes to %s" % [m.get("to") for m in pays])
            gone = [r for r in pre["reqs"] if r not in s.st["reqs"]]
            if any(r[1] != who for r in gone) or len(gone) != 1:
                bad("requests removed: %r" % (gone,))
    return out


# ---------------- C10 ----------------
SIX = ("stake", "unstake", "submit", "withdraw", "rewards", "unstaked")


def strip(st, *keys):
    d = dict(st)
    for k in keys:
        d.pop(k, None)
    return d


def mon_c10(cfg, steps):
    out = []
    for s in steps:
        t = s.optoks
        if t[0] == "inst" and s.res == "ok" and s.st and not s.st["stopped"]:
            out.append({"step": s.idx, "what": "a newly instantiated contract is not halted"})
        if t[0] != "exec" or s.pre is None:
            continue
        k = t[5]
        if s.pre["stopped"] and k in SIX and s.res != "err":
            out.append({"step": s.idx, "what": "%s returned %s while the contract is halted" % (k, s.res)})
        who = unhex(t[3]).decode("utf-8", "replace")
        if k == "breaker" and s.res == "err" and (who == s.pre["admin"] or who in (s.pre.get("monitors") or [])):
            # halting is open to the admin and to ANY configured monitor, wherever it stands in the list
            out.append({"step": s.idx, "what": "CircuitBreaker refused for %s, who is %s (monitors %r)" % (
                who, "the admin" if who == s.pre["admin"] else "a configured monitor", s.pre.get("monitors"))})
        if s.res != "ok" or s.st is None:
            continue
        if k == "breaker":
            if strip(s.st, "stopped") != strip(s.pre, "stopped") or not s.st["stopped"] or s.msgs:
                out.append({"step": s.idx, "what": "CircuitBreaker changed more than the halted flag"})
        if k == "resume":
            if who != s.pre["admin"]:
                out.append({"step": s.idx, "what": "ResumeContract succeeded for a non-admin"})
            exp = dict(s.pre); exp["stopped"] = False; exp["N"], exp["L"], exp["reward"] = int(t[6]), int(t[7]), int(t[8])
            if s.st != exp:
                diff = [x for x in exp if exp[x] != s.st.get(x)]
                out.append({"step": s.idx, "what": "ResumeContract: fields %r differ from 'old store with the three totals replaced and the flag cleared'" % diff})
    return out


# ---------------- C11 ----------------
def mon_c11(cfg, steps):
    out = []
    for s in steps:
        t = s.optoks
        if t[0] != "exec" or s.pre is None:
            continue
        k = t[5]; pre = s.pre
        if k == "rewards":
            coins = [x.split(":") for x in t[4][1:-1].split(",") if x]
            amt = next((int(a) for d, a in coins if unhex(d).decode() == pre["protocol"]["denom"]), None)
            if s.res == "ok" and s.st is not None:
                if amt is None:
                    out.append({"step": s.idx, "what": "ReceiveRewards succeeded without the staked asset"}); continue
                if pre["L"] == 0:
                    out.append({"step": s.idx, "what": "ReceiveRewards accepted while no LST exists"})
                fee = pre["fee"]["rate"] * amt // 100000
                if fee > amt:
                    out.append({"step": s.idx, "what": "ReceiveRewards accepted a reward %d smaller than its fee %d" % (amt, fee)}); continue
                rest = amt - fee
                if s.st["N"] != pre["N"] + rest:
                    out.append({"step": s.idx, "what": "reward %d at rate %d: staked total grew by %d, restaked amount is %d" % (amt, pre["fee"]["rate"], s.st["N"] - pre["N"], rest)})
                if s.st["reward"] != pre["reward"] + amt:
                    out.append({"step": s.idx, "what": "reward counter grew by %d for a reward of %d" % (s.st["reward"] - pre["reward"], amt)})
                tr = pre["fee"]["treasury"]
                banks = [m for m in s.msgs if m["facet"] in ("msg:bank", "msg:send")]
                xfers = [m for m in s.msgs if m["facet"] == "msg:transfer"]
                if len(xfers) != 1 or xfers[0].get("amount") != rest or xfers[0].get("denom") != pre["protocol"]["denom"] or xfers[0].get("receiver") != pre["native"]["staker"]:
                    out.append({"step": s.idx, "what": "reward %d fee %d: forwarded %s, expected %d to the staker" % (amt, fee, [(m.get("amount"), m.get("receiver")) for m in xfers], rest)})
                if tr is None:
                    if s.st["fees"] != pre["fees"] + fee or banks:
                        out.append({"step": s.idx, "what": "no treasury: fee balance grew by %d (fee %d), bank messages %d" % (s.st["fees"] - pre["fees"], fee, len(banks))})
                else:
                    if s.st["fees"] != pre["fees"] or len(banks) != 1 or banks[0].get("to") != tr or banks[0].get("amount") != fee or banks[0].get("denom") != pre["protocol"]["denom"]:
                        out.append({"step": s.idx, "what": "treasury %s: fee %d, paid %s, fee balance change %d" % (tr, fee, [(m.get("to"), m.get("amount")) for m in banks], s.st["fees"] - pre["fees"])})
        if k == "feewd" and s.res == "ok" and s.st is not None:
            a = int(t[6]); tr = pre["fee"]["treasury"]
            sends = [m for m in s.msgs if m["facet"] in ("msg:bank", "msg:send")]
            if a > pre["fees"]:
                out.append({"step": s.idx, "what": "FeeWithdraw of %d exceeds the accrued %d" % (a, pre["fees"])})
            if tr is None or len(sends) != 1 or sends[0].get("to") != tr or sends[0].get("amount") != a or sends[0].get("denom") != pre["protocol"]["denom"]:
                out.append({"step": s.idx, "what": "FeeWithdraw %d: sent %s, treasury is %s" % (a, [(m.get("to"), m.get("amount")) for m in sends], tr)})
            if s.st["fees"] != pre["fees"] - a:
                out.append({"step": s.idx, "what": "FeeWithdraw %d: fee balance %d -> %d" % (a, pre["fees"], s.st["fees"])})
    return out


# ---------------- C12 ----------------
def mon_c12(cfg, steps):
    """admin changes only by AcceptOwnership of the most recently nominated account, >= 7 days after that nomination"""
    out = []
    admin = None; nom = None     # nom = (nominee, time_s) of the latest un-cancelled successful nomination
    for s in steps:
        t = s.optoks
        tre = t[0] in ("texec", "tinst")
        if t[0] in ("inst", "tinst"):
            if s.res == "ok":
                admin = (s.st or {}).get("admin") if not tre else owner_of(s)
            continue
        if t[0] not in ("exec", "texec") or s.aborted:
            continue
        who = unhex(t[2] if tre else t[3]).decode("utf-8", "replace")
        k = t[3] if tre else t[5]
        now_s = int(t[1]) // 10 ** 9
        new_admin = owner_of(s) if tre else (s.st or {}).get("admin")
        if new_admin is None:
            continue
        if new_admin != admin:
            if k != "accept_own" or s.res != "ok":
                out.append({"step": s.idx, "what": "admin changed from %s to %s by %s" % (admin, new_admin, k)})
            elif nom is None or nom[0] != who or new_admin != who:
                out.append({"step": s.idx, "what": "AcceptOwnership by %s made %s admin; latest nomination is %r" % (who, new_admin, nom)})
            elif now_s < nom[1] + 604800:
                out.append({"step": s.idx, "what": "AcceptOwnership succeeded %d s after the nomination (7 days = 604800 s)" % (now_s - nom[1])})
            admin = new_admin
        if s.res == "ok" and k == "accept_own":
            # acceptance consumes the nomination: it needs one, made for the caller, old enough
            if nom is None or nom[0] != who:
                out.append({"step": s.idx, "what": "AcceptOwnership succeeded for %s although the standing nomination is %r" % (who, nom)})
            elif now_s < nom[1] + 604800:
                out.append({"step": s.idx, "what": "AcceptOwnership succeeded %d s after the nomination (7 days = 604800 s)" % (now_s - nom[1])})
        if s.res == "ok":
            if k == "xfer_own":
                if who != admin:
                    out.append({"step": s.idx, "what": "TransferOwnership succeeded for non-admin %s" % who})
                nom = (unhex(t[4] if tre else t[6]).decode("utf-8", "replace"), now_s)
            elif k == "revoke_own":
                nom = None
            elif k == "accept_own":
                nom = None
    return out


def owner_of(s):
    for o in s.lines:
        if o[0] == "ts.owner":
            return None if o[1] == "-" else unhex(o[1]).decode()
    return None


# ---------------- C05 ----------------
def mon_c05(cfg, steps):
    out = []
    first_received = {}     # batch -> amount recorded when it became Received
    paid = {}               # batch -> sum of payouts
    paid_to = set()
    for s in steps:
        t = s.optoks
        st = s.post
        if s.aborted and s.res == "ok" and s.st is not None:
            # inside a transaction that is later rolled back the books must balance after every successful call all the same
            sums = {}
            for (bid, u, a) in s.st["reqs"]:
                sums[bid] = sums.get(bid, 0) + a
            pb = s.st["batches"].get(s.st["pending"])
            if pb is not None and sums.get(s.st["pending"], 0) != pb["total"]:
                out.append({"step": s.idx, "what": "pending batch total %d differs from the sum of its requests %d (after %s)" % (
                    pb["total"], sums.get(s.st["pending"], 0), s.optoks[5] if s.optoks[0] == "exec" else s.optoks[0])})
        if st is None:
            continue
        if not s.aborted:
            for bid, b in st["batches"].items():
                if b["status"] == "received" and bid not in first_received:
                    first_received[bid] = b["received"]
            # pending total = sum of its requests; other totals bound their open requests
            sums = {}
            for (bid, u, a) in st["reqs"]:
                sums[bid] = sums.get(bid, 0) + a
            keys = [(bid, u) for (bid, u, a) in st["reqs"]]
            if len(keys) != len(set(keys)):
                out.append({"step": s.idx, "what": "two requests for one (batch, account)"})
            pb = st["batches"].get(st["pending"])
            if pb is not None and sums.get(st["pending"], 0) != pb["total"]:
                out.append({"step": s.idx, "what": "pending batch total %d differs from the sum of its requests %d" % (pb["total"], sums.get(st["pending"], 0))})
            for bid, sm in sums.items():
                b = st["batches"].get(bid)
                if b is not None and sm > b["total"]:
                    out.append({"step": s.idx, "what": "open requests of batch %d sum to %d, above its total %d" % (bid, sm, b["total"])})
        if t[0] != "exec" or s.res != "ok" or s.pre is None or s.st is None:
            continue
        k = t[5]; who = unhex(t[3]).decode("utf-8", "replace"); pre = s.pre
        for bid, b in pre["batches"].items():
            nb = s.st["batches"].get(bid)
            if b["status"] == "received" and nb is not None and (nb["received"] != b["received"] or nb["total"] != b["total"]):
                out.append({"step": s.idx, "what": "batch %d had received %d (total %d); after %s it records %s (total %s): payouts now depend on withdrawal timing" % (bid, b["received"], b["total"], k, nb["received"], nb["total"])})
        if k == "unstaked":
            # what the batch records as received is what actually arrived (equal to, below or above the expected amount):
            # the payouts are shares of that figure
            bid = int(t[6]); nb = s.st["batches"].get(bid)
            D = pre["protocol"]["denom"]
            came = [int(x.split(":")[1]) for x in t[4][1:-1].split(",") if x and unhex(x.split(":")[0]).decode("utf-8", "replace") == D]
            if nb is not None and came and nb["received"] != came[0]:
                out.append({"step": s.idx, "what": "ReceiveUnstakedTokens delivered %d of the staked asset to batch %d (expected %s) but the batch records %s as received" % (
                    came[0], bid, (pre["batches"].get(bid) or {}).get("expected"), nb["received"])})
        if k == "unstake":
            a = sum(int(x.split(":")[1]) for x in t[4][1:-1].split(",") if x)
            p = pre["pending"]
            old = dict(((b, u), x) for (b, u, x) in pre["reqs"]).get((p, who), 0)
            new = dict(((b, u), x) for (b, u, x) in s.st["reqs"]).get((p, who))
            if new != old + a:
                out.append({"step": s.idx, "what": "unstake of %d: request %d -> %s (repeated unstakes must accumulate)" % (a, old, new)})
        if k == "withdraw":
            bid = int(t[6]); b = pre["batches"].get(bid)
            req = dict(((x, u), a) for (x, u, a) in pre["reqs"]).get((bid, who))
            pays = [m for m in s.msgs if m["facet"] in ("msg:send", "msg:bank")]
            if b is None or req is None:
                out.append({"step": s.idx, "what": "withdraw succeeded without a request of %s in batch %d" % (who, bid)}); continue
            if b["status"] != "received":
                out.append({"step": s.idx, "what": "withdraw from batch %d in status %s" % (bid, b["status"])}); continue
            if len(pays) != 1:
                out.append({"step": s.idx, "what": "withdraw emitted %d payments" % len(pays)}); continue
            R = first_received.get(bid, b["received"])
            exp = R * req // b["total"] if b["total"] else None
            got = pays[0].get("amount")
            if got != exp:
                out.append({"step": s.idx, "what": "withdraw from batch %d paid %s; floor(received %d x request %d / total %d) = %s" % (bid, got, R, req, b["total"], exp)})
            if not s.aborted:
                if (bid, who) in paid_to:
                    out.append({"step": s.idx, "what": "%s was paid twice from batch %d" % (who, bid)})
                paid_to.add((bid, who))
                paid[bid] = paid.get(bid, 0) + (got or 0)
                if paid[bid] > R:
                    out.append({"step": s.idx, "what": "payouts of batch %d add up to %d, more than the %d received for it" % (bid, paid[bid], R)})
                if any((x, u) == (bid, who) for (x, u, a) in s.st["reqs"]):
                    out.append({"step": s.idx, "what": "request not removed by withdraw"})
    return out


# ---------------- C06 ----------------
RANK = {"pending": 0, "submitted": 1, "received": 2}


def batches_wf(st):
    p = st["pending"]; bs = st["batches"]
    if sorted(bs) != list(range(1, p + 1)):
        return "batch ids %r are not 1..%d" % (sorted(bs), p)
    for k, b in bs.items():
        if (b["status"] == "pending") != (k == p):
            return "batch %d has status %s, pending id is %d" % (k, b["status"], p)
        if b["status"] == "pending" and b["time"] is None:
            return "pending batch without deadline"
        if b["status"] == "submitted" and (b["time"] is None or b["expected"] is None):
            return "submitted batch %d without deadline/expected amount" % k
        if b["status"] == "received" and (b["received"] is None or b["expected"] is None):
            return "received batch %d without received/expected amount" % k
    return None


def mon_c06(cfg, steps):
    out = []
    for s in steps:
        t = s.optoks
        if s.st is None or s.pre is None:
            if s.st is not None and t[0] == "inst" and s.res == "ok":
                w = batches_wf(s.st)
                if w:
                    out.append({"step": s.idx, "what": "after instantiate: " + w})
                # the first pending batch is due one batch period after instantiation, like every later one after its opening
                b1 = s.st["batches"].get(s.st["pending"])
                due = int(t[1]) // 10 ** 9 + s.st["batch_period"]
                if b1 is not None and b1["time"] != due:
                    out.append({"step": s.idx, "what": "after instantiate at %d with batch period %d the pending batch %d is due at %s, one batch period later is %d" % (
                        int(t[1]) // 10 ** 9, s.st["batch_period"], s.st["pending"], b1["time"], due)})
            continue
        pre = s.pre; st = s.st
        if t[0] in ("exec", "reply", "sudo") and s.res == "ok":
            w = batches_wf(st)
            if w:
                out.append({"step": s.idx, "what": w})
            for k, b in pre["batches"].items():
                nb = st["batches"].get(k)
                if nb is None:
                    out.append({"step": s.idx, "what": "batch %d disappeared" % k}); continue
                if RANK[nb["status"]] < RANK[b["status"]]:
                    out.append({"step": s.idx, "what": "batch %d moved from %s back to %s" % (k, b["status"], nb["status"])})
                if b["expected"] is not None and nb["expected"] != b["expected"]:
                    out.append({"step": s.idx, "what": "expected amount of batch %d changed from %d to %s" % (k, b["expected"], nb["expected"])})
                if b["status"] == "received" and (nb["received"] != b["received"] or nb["status"] != "received"):
                    out.append({"step": s.idx, "what": "batch %d already received %d, now records %s (%s)" % (k, b["received"], nb["received"], nb["status"])})
                if nb["status"] == "received" and b["status"] != "received":
                    ok = t[0] == "exec" and t[5] == "unstaked" and int(t[6]) == k
                    who = unhex(t[3]).decode("utf-8", "replace") if t[0] == "exec" else ""
                    hook = b32.hook_sender(pre["protocol"]["channel"], pre["native"]["staker"], pre["protocol"]["prefix"])
                    now_s = int(t[1]) // 10 ** 9 if t[0] == "exec" else 0
                    if not ok or who != hook:
                        out.append({"step": s.idx, "what": "batch %d became received by %s from %s" % (k, " ".join(t[5:7]) if t[0] == "exec" else t[0], who)})
                    elif b["status"] != "submitted" or b["time"] is None or now_s < b["time"]:
                        out.append({"step": s.idx, "what": "batch %d became received at %d, its unbonding deadline is %s (status before: %s)" % (k, now_s, b["time"], b["status"])})
                    else:
                        paid = [a for d, a in funds_of(t[4]) if d == pre["protocol"]["denom"]]
                        if not paid or nb["received"] != paid[0]:
                            out.append({"step": s.idx, "what": "batch %d became received (%s) without a matching payment in the staked asset: funds %r" % (k, nb["received"], funds_of(t[4]))})
        if t[0] == "exec" and t[5] == "submit" and s.res in ("ok", "err"):
            p = pre["pending"]; b = pre["batches"].get(p)
            if b is None:
                continue
            now_s = int(t[1]) // 10 ** 9
            has_req = any(x == p for (x, u, a) in pre["reqs"])
            ready = (not pre["stopped"]) and has_req and b["time"] is not None and now_s >= b["time"] and pre["L"] >= b["total"]
            if ready and s.res == "err" and now_s + max(pre["batch_period"], pre["native"]["unbonding"]) < 2 ** 64:
                out.append({"step": s.idx, "what": "SubmitBatch refused at %d although the pending batch is non-empty and was due at %d" % (now_s, b["time"])})
            if not ready and s.res == "ok":
                out.append({"step": s.idx, "what": "SubmitBatch accepted at %d: stopped=%s non-empty=%s deadline=%s" % (now_s, pre["stopped"], has_req, b["time"])})
            if s.res == "ok":
                nb = st["batches"].get(p + 1); ob = st["batches"].get(p)
                if st["pending"] != p + 1 or nb is None or nb["total"] != 0 or nb["time"] != now_s + pre["batch_period"]:
                    out.append({"step": s.idx, "what": "after SubmitBatch at %d the new pending batch is %r (batch period %d)" % (now_s, nb, pre["batch_period"])})
                if ob is None or ob["status"] != "submitted" or ob["time"] != now_s + pre["native"]["unbonding"]:
                    out.append({"step": s.idx, "what": "batch %d submitted at %d with unbonding period %d records deadline %s" % (p, now_s, pre["native"]["unbonding"], ob and ob["time"])})
    return out


# ---------------- C17 ----------------
def mon_c17(cfg, steps):
    """each query result against an independent computation from the store dump (typed range over the maps)"""
    out = []
    for s in steps:
        t = s.optoks
        if t[0] == "exec" and s.res == "ok" and s.pre is not None and s.st is not None and t[5] in ("withdraw", "unstake"):
            # the open requests follow the unstakes and withdrawals: a withdrawn request is gone, an unstake adds to (or
            # opens) exactly the sender's request in the pending batch, and nobody else's requests move
            who = unhex(t[3]).decode("utf-8", "replace")
            pre = dict(((b, u), a) for (b, u, a) in s.pre["reqs"]); post = dict(((b, u), a) for (b, u, a) in s.st["reqs"])
            if t[5] == "withdraw":
                exp = dict(pre); exp.pop((int(t[6]), who), None)
            else:
                paid = sum(int(x.split(":")[1]) for x in t[4][1:-1].split(",") if x)
                exp = dict(pre); k = (s.pre["pending"], who); exp[k] = exp.get(k, 0) + paid
            if post != exp:
                diff = sorted(set(post.items()) ^ set(exp.items()))[:4]
                out.append({"step": s.idx, "what": "after %s by %s the open requests differ from the expected set: %r" % (t[5], who, diff)})
        if t[0] != "query" or s.res != "ok" or s.pre is None:
            continue
        st = s.pre; kind = t[1]
        def lim(x):
            return 2 ** 32 - 1 if x == "-" else int(x)
        if kind == "batches":
            sa = None if t[2] == "-" else int(t[2]); l = lim(t[3]); stt = None if t[4] == "-" else t[4]
            exp = [k for k in sorted(st["batches"]) if (sa is None or k > sa) and (stt is None or st["batches"][k]["status"] == stt)][:l]
            got = [int(q[1]) for q in s.q if q[0] == "q.batch"]
            if got != exp:
                out.append({"step": s.idx, "what": "Batches(start_after=%s, limit=%s, status=%s) returned ids %r, the matching batches are %r" % (t[2], t[3], t[4], got, exp)})
            for q in s.q:
                b = st["batches"].get(int(q[1]))
                if b and (int(q[2]) != b["total"] or q[7] != b["status"] or int(q[3]) != (b["expected"] or 0) or int(q[4]) != (b["received"] or 0)):
                    out.append({"step": s.idx, "what": "Batches returned stale fields for batch %s" % q[1]})
        elif kind == "byids":
            ids = [int(x) for x in t[2][1:-1].split(",") if x]
            exp = [k for k in ids if k in st["batches"]]
            got = [int(q[1]) for q in s.q if q[0] == "q.batch"]
            if got != exp:
                out.append({"step": s.idx, "what": "BatchesByIds(%r) returned %r, existing requested batches are %r" % (ids, got, exp)})
        elif kind == "requests":
            u = unhex(t[2]).decode("utf-8", "replace")
            exp = sorted((b, a) for (b, uu, a) in st["reqs"] if uu == u)
            got = [(int(q[1]), int(q[3])) for q in s.q if q[0] == "q.req"]
            if got != exp:
                out.append({"step": s.idx, "what": "UnstakeRequests(%s) returned %r, the open requests are %r" % (u, got, exp)})
        elif kind in ("allreq", "allreq2"):
            # the by-user index in key order: (length of user, user bytes, batch id), after the key ("", start_after)
            sa = None if t[2] == "-" else int(t[2]); l = lim(t[3])
            rows = sorted(((len(uu.encode()), uu.encode(), b), a) for (b, uu, a) in st["reqs"])
            exp = [(k[2], k[1], a) for (k, a) in rows if not (sa is not None and k[0] == 0 and k[2] <= sa)][:l]
            got = [(int(q[1]), unhex(q[2]), int(q[3])) for q in s.q if q[0] == "q.req"]
            if got != exp:
                out.append({"step": s.idx, "what": "AllUnstakeRequests%s(start_after=%s, limit=%s) returned %d rows %r..., the index holds %r..." % (
                    "V2" if kind == "allreq2" else "", t[2], t[3], len(got), got[:3], exp[:3])})
        elif kind == "ibcq":
            sa = None if t[2] == "-" else int(t[2]); l = lim(t[3])
            exp = [k for k in sorted(st["pkts"]) if sa is None or k > sa][:l]
            got = [int(q[1]) for q in s.q if q[0] == "q.pkt"]
            if got != exp:
                out.append({"step": s.idx, "what": "IbcQueue(start_after=%s, limit=%s) returned %r, expected %r" % (t[2], t[3], got, exp)})
        elif kind in ("batch", "pending"):
            k = int(t[2]) if kind == "batch" else st["pending"]
            got = [int(q[1]) for q in s.q if q[0] == "q.batch"]
            if got != [k]:
                out.append({"step": s.idx, "what": "%s query returned %r" % (kind, got)})
    return out


# ---------------- C13 ----------------
def parse_route(t):
    inner = t[1:-1]
    if not inner:
        return []
    r = []
    for h in inner.split(","):
        p, i, o = h.split("/")
        r.append((int(p), unhex(i).decode(), unhex(o).decode()))
    return r


def parse_routes(t):
    inner = t[1:-1]
    return [parse_route(x) for x in inner.split(";")] if inner else []


def tstate(s):
    d = {}
    for o in s.lines:
        if o[0] == "ts.owner":
            d["admin"] = None if o[1] == "-" else unhex(o[1]).decode()
        elif o[0] == "ts.cfg":
            d["trader"] = unhex(o[1]).decode(); d["routes"] = parse_routes(o[2])
    return d


def mon_c13(cfg, steps):
    out = []
    cur = {}
    me = unhex(cfg[2]).decode()
    for s in steps:
        t = s.optoks
        if t[0] == "tinst":
            if s.res == "ok":
                cur = tstate(s)
                # tinst <time> <sender> <admin|-> <trader|-> <routes>: an omitted admin / trader is the instantiating account
                snd = unhex(t[2]).decode("utf-8", "replace")
                want_admin = snd if t[3] == "-" else unhex(t[3]).decode("utf-8", "replace")
                want_trader = snd if t[4] == "-" else unhex(t[4]).decode("utf-8", "replace")
                if cur and cur.get("trader") != want_trader:
                    out.append({"step": s.idx, "what": "instantiate by %s with trader %s made %s the trader (swaps are executed only for the trader)" % (
                        snd, "omitted" if t[4] == "-" else want_trader, cur.get("trader"))})
                if cur and cur.get("admin") != want_admin:
                    out.append({"step": s.idx, "what": "instantiate by %s with admin %s made %s the admin" % (snd, "omitted" if t[3] == "-" else want_admin, cur.get("admin"))})
            continue
        if t[0] != "texec":
            continue
        pre = cur
        if s.res == "ok" and not s.aborted:
            cur = tstate(s) or cur
        if s.res != "ok" or not pre:
            continue
        who = unhex(t[2]).decode("utf-8", "replace"); k = t[3]
        if k in ("swapin", "swapout"):
            route = parse_route(t[4]); d, a = t[5].split(":"); d = unhex(d).decode(); a = int(a); lim = int(t[6])
            if who != pre["trader"]:
                out.append({"step": s.idx, "what": "%s executed for %s, the trader is %s" % (k, who, pre["trader"])})
            if not route or route not in pre["routes"]:
                out.append({"step": s.idx, "what": "%s accepted route %r which is not identical to an allow-listed route %r" % (k, route, pre["routes"])}); continue
            if (k == "swapin" and route[0][1] != d) or (k == "swapout" and route[-1][2] != d):
                out.append({"step": s.idx, "what": "%s accepted coin denom %s for route %r" % (k, d, route)})
            if len(s.msgs) != 1 or s.msgs[0].get("facet") != "msg:swap":
                out.append({"step": s.idx, "what": "%s emitted %r" % (k, [m.get("facet") for m in s.msgs])}); continue
            m = s.msgs[0]; f = pb_parse(m["value"])
            sender = pb_get(f, 1).decode()
            hops = [(pb_get(pb_parse(h), 1, 0), pb_get(pb_parse(h), 2).decode()) for h in pb_all(f, 2)]
            if k == "swapin":
                coin = pb_coin(pb_get(f, 3)); limit = pb_get(f, 4).decode()
                exp_hops = [(p, o) for (p, i, o) in route]; url = "/osmosis.poolmanager.v1beta1.MsgSwapExactAmountIn"
            else:
                coin = pb_coin(pb_get(f, 4)); limit = pb_get(f, 3).decode()
                exp_hops = [(p, i) for (p, i, o) in route]; url = "/osmosis.poolmanager.v1beta1.MsgSwapExactAmountOut"
            if m["url"] != url or sender != me or hops != exp_hops or coin != (d, a) or limit != str(lim):
                out.append({"step": s.idx, "what": "%s message differs from the request: url %s sender %s hops %r coin %r limit %s (requested hops %r coin %r limit %d)" % (k, m["url"], sender, hops, coin, limit, exp_hops, (d, a), lim)})
        elif k == "spend":
            d, a = t[4].split(":"); d = unhex(d).decode(); a = int(a); rc = unhex(t[5]).decode("utf-8", "replace"); ch = None if t[6] == "-" else unhex(t[6]).decode()
            if who != pre["admin"]:
                out.append({"step": s.idx, "what": "SpendFunds executed for non-admin %s" % who})
            if len(s.msgs) != 1:
                out.append({"step": s.idx, "what": "SpendFunds emitted %d messages" % len(s.msgs)}); continue
            m = s.msgs[0]
            if ch is None:
                if not b32.valid_addr(rc, "osmo") or m["facet"] != "msg:bank" or m.get("to") != rc or (m.get("denom"), m.get("amount")) != (d, a):
                    out.append({"step": s.idx, "what": "local spend of %d%s to %s emitted %s to %s of %s%s" % (a, d, rc, m["facet"], m.get("to"), m.get("amount"), m.get("denom"))})
            else:
                if not b32.valid_addr(rc, "celestia") or m["facet"] != "msg:transfer" or m.get("receiver") != rc or (m.get("denom"), m.get("amount")) != (d, a) or m.get("channel") != ch or m.get("sender") != me:
                    out.append({"step": s.idx, "what": "IBC spend of %d%s to %s over %s emitted %s to %s of %s%s" % (a, d, rc, ch, m["facet"], m.get("receiver"), m.get("amount"), m.get("denom"))})
        elif k == "updcfg":
            if who != pre["admin"]:
                out.append({"step": s.idx, "what": "UpdateConfig executed for non-admin %s" % who})
            # an accepted update is in force afterwards: the supplied trader / allow-list replace the stored ones, a
            # section that was not supplied keeps its value (the trader and the allow-list the later swaps are checked
            # against are the ones the admin last set)
            post = tstate(s)
            if post:
                want_trader = pre["trader"] if t[4] == "-" else unhex(t[4]).decode("utf-8", "replace")
                want_routes = pre["routes"] if t[5] == "-" else parse_routes(t[5])
                if post.get("trader") != want_trader:
                    out.append({"step": s.idx, "what": "UpdateConfig(trader=%s) was accepted but the trader in force is %s" % (
                        "unchanged" if t[4] == "-" else want_trader, post.get("trader"))})
                if post.get("routes") != want_routes:
                    out.append({"step": s.idx, "what": "UpdateConfig(allowed_swap_routes=%s) was accepted but the allow-list in force is %r" % (
                        "unchanged" if t[5] == "-" else repr(want_routes), post.get("routes"))})
    return out


# ---------------- C14 ----------------
import re as _re


def wf_prefix(p):
    return 1 <= len(p.encode()) <= 83 and all(33 <= b <= 126 for b in p.encode()) and not any("A" <= ch <= "Z" for ch in p)


def config_problems(st):
    """independent re-validation of a stored configuration against the clauses of the property"""
    bad = []
    n, p, f = st["native"], st["protocol"], st["fee"]
    for nm, px in (("native account prefix", n["prefix"]), ("validator prefix", n["valprefix"]), ("protocol prefix", p["prefix"])):
        if not wf_prefix(px):
            bad.append("%s %r is not a valid lower-case bech32 prefix" % (nm, px))
    for v in n["validators"]:
        if not b32.valid_addr(v, n["valprefix"]):
            bad.append("validator %r is not a valid bech32 address under %r" % (v, n["valprefix"]))
    if len(set(n["validators"])) != len(n["validators"]):
        bad.append("a validator is listed twice")
    for nm, a in (("staker", n["staker"]), ("reward collector", n["collector"])):
        if not b32.valid_addr(a, n["prefix"]):
            bad.append("%s %r is not a valid bech32 address under %r" % (nm, a, n["prefix"]))
    if p["oracle"] is not None and not b32.valid_addr(p["oracle"], p["prefix"]):
        bad.append("oracle %r is not valid under %r" % (p["oracle"], p["prefix"]))
    if f["treasury"] is not None and not b32.valid_addr(f["treasury"], p["prefix"]):
        bad.append("treasury %r is not valid under %r" % (f["treasury"], p["prefix"]))
    for m in st["monitors"]:
        if not b32.valid_addr(m, p["prefix"]):
            bad.append("monitor %r is not valid under %r" % (m, p["prefix"]))
    if len(set(st["monitors"])) != len(st["monitors"]):
        bad.append("a monitor is listed twice")
    mm = _re.fullmatch(r"channel-([0-9]+)", p["channel"])
    if not mm or int(mm.group(1)) >= 2 ** 64:
        bad.append("channel %r is not channel-<n>" % p["channel"])
    if not (p["denom"].startswith("ibc/") and len(p["denom"].encode()) == 68):
        bad.append("staked-asset denom %r is not ibc/ + 64 characters" % p["denom"])
    if not (len(n["denom"]) > 3 and all(ch.isascii() and ch.isalpha() for ch in n["denom"])):
        bad.append("native token denom %r is not alphabetic" % n["denom"])
    return bad


def mon_c14(cfg, steps):
    out = []
    for s in steps:
        t = s.optoks
        if t[0] == "fn" and s.fn:
            a = unhex(t[2]).decode("utf-8", "replace")
            if t[1] == "vchan":
                mm = _re.fullmatch(r"channel-([0-9]+)", a)
                exp = "1" if (mm and int(mm.group(1)) < 2 ** 64) else "0"
                if s.fn[0] != exp:
                    out.append({"step": s.idx, "what": "channel %r %s by validation" % (a, "accepted" if s.fn[0] == "1" else "refused")})
            elif t[1] == "vaddr":
                px = unhex(t[3]).decode("utf-8", "replace")
                exp = "1" if b32.valid_addr(a, px) else "0"
                if s.fn[0] != exp:
                    out.append({"step": s.idx, "what": "address %r under prefix %r %s" % (a, px, "accepted" if s.fn[0] == "1" else "refused")})
            elif t[1] == "vprefix":
                ok = 1 <= len(a.encode()) <= 83 and all(33 <= b <= 126 for b in a.encode()) and not (any("a" <= ch <= "z" for ch in a) and any("A" <= ch <= "Z" for ch in a))
                exp = hx(a.lower()) if ok else "-"
                if s.fn[0] != exp:
                    out.append({"step": s.idx, "what": "prefix %r validated to %s, expected %s" % (a, s.fn[0], exp)})
            elif t[1] == "vibc":
                ok = a.startswith("ibc/") and len(a.encode()) == 68
                if (s.fn[0] != "-") != ok:
                    out.append({"step": s.idx, "what": "ibc denom %r %s" % (a, "accepted" if s.fn[0] != "-" else "refused")})
            elif t[1] == "vdenom":
                ok = len(a.encode()) > 3 and all(ch.isascii() and ch.isalpha() for ch in a)
                if (s.fn[0] != "-") != ok:
                    out.append({"step": s.idx, "what": "sub-denom %r %s" % (a, "accepted" if s.fn[0] != "-" else "refused")})
        if t[0] == "inst" and s.res == "ok" and s.st:
            for b in config_problems(s.st):
                out.append({"step": s.idx, "what": "instantiate accepted a configuration where " + b})
            sub = s.st["lst"].split("/")[-1]
            if not (s.st["lst"] == "factory/%s/%s" % (unhex(cfg[2]).decode(), sub) and len(sub) > 3 and sub.isascii() and sub.isalpha()):
                out.append({"step": s.idx, "what": "LST denom %r is not factory/<contract>/<alphabetic sub-denom>" % s.st["lst"]})
        if t[0] == "exec" and s.res == "ok" and s.st and s.pre:
            k = t[5]; pre = s.pre; st = s.st
            if k == "updcfg":
                for b in config_problems(st):
                    # only sections that were supplied are re-validated by the contract
                    out.append({"step": s.idx, "what": "UpdateConfig accepted a configuration where " + b}) if section_supplied(b, t) else None
                if st["lst"] != pre["lst"] or st["stopped"] != pre["stopped"]:
                    out.append({"step": s.idx, "what": "UpdateConfig changed the LST denom or the halted flag"})
                for sec, tok in (("native", 6), ("protocol", 7), ("fee", 8), ("monitors", 9), ("batch_period", 10)):
                    if t[tok] == "-" and st[sec] != pre[sec]:
                        out.append({"step": s.idx, "what": "UpdateConfig without a %s section changed it" % sec})
                for other in ("N", "L", "reward", "fees", "admin", "pending", "batches", "reqs", "pkts", "waits"):
                    if st[other] != pre[other]:
                        out.append({"step": s.idx, "what": "UpdateConfig changed %s" % other})
                # every supplied section is applied: the fields stored verbatim carry the supplied values
                def u(x):
                    return unhex(x).decode("utf-8", "replace")
                if t[6] != "-":
                    f = t[6][1:-1].split(";")
                    sup = dict(denom=u(f[2]), validators=[u(x) for x in f[3][1:-1].split(",") if x], unbonding=int(f[4]), staker=u(f[5]), collector=u(f[6]))
                    bad = [k2 for k2, v2 in sup.items() if st["native"][k2] != v2]
                    if bad:
                        out.append({"step": s.idx, "what": "UpdateConfig with a native section did not apply its fields %r" % bad})
                if t[7] != "-":
                    f = t[7][1:-1].split(";")
                    sup = dict(denom=u(f[1]), channel=u(f[2]), min=int(f[3]), oracle=None if f[4] == "-" else u(f[4]))
                    bad = [k2 for k2, v2 in sup.items() if st["protocol"][k2] != v2]
                    if bad:
                        out.append({"step": s.idx, "what": "UpdateConfig with a protocol section did not apply its fields %r" % bad})
                if t[8] != "-":
                    f = t[8][1:-1].split(";")
                    if st["fee"]["rate"] != int(f[0]) or st["fee"]["treasury"] != (None if f[1] == "-" else u(f[1])):
                        out.append({"step": s.idx, "what": "UpdateConfig with a fee section did not apply it"})
                if t[9] != "-" and st["monitors"] != [u(x) for x in t[9][1:-1].split(",") if x]:
                    out.append({"step": s.idx, "what": "UpdateConfig with a monitors section did not apply it"})
                if t[10] != "-" and st["batch_period"] != int(t[10]):
                    out.append({"step": s.idx, "what": "UpdateConfig with a batch period did not apply it"})
            elif k in ("addval", "rmval"):
                v = unhex(t[6]).decode("utf-8", "replace"); old = pre["native"]["validators"]; new = st["native"]["validators"]
                exp = old + [v] if k == "addval" else [x for i2, x in enumerate(old) if not (x == v and i2 == old.index(v))]
                if new != exp or not b32.valid_addr(v, pre["native"]["valprefix"]) or (k == "addval" and v in old) or (k == "rmval" and v not in old):
                    out.append({"step": s.idx, "what": "%s %r: validators %r -> %r" % (k, v, old, new)})
                ps = dict(pre); ps["native"] = dict(pre["native"], validators=None); ss = dict(st); ss["native"] = dict(st["native"], validators=None)
                if ps != ss:
                    out.append({"step": s.idx, "what": "%s changed more than the validator list" % k})
    return out


def section_supplied(problem, t):
    nat, pro, fee, mon = t[6] != "-", t[7] != "-", t[8] != "-", t[9] != "-"
    if any(w in problem for w in ("validator", "staker", "collector", "native")):
        return nat
    if any(w in problem for w in ("oracle", "channel", "staked-asset", "protocol prefix")):
        return pro
    if "treasury" in problem:
        return fee
    if "monitor" in problem:
        return mon
    return False


# ---------------- C09 ----------------
import hashlib as _hl


def mon_c09(cfg, steps):
    out = []
    for s in steps:
        t = s.optoks
        if t[0] == "fn" and t[1] == "vchan" and s.fn:
            a = unhex(t[2]).decode("utf-8", "replace")
            mm = _re.fullmatch(r"channel-([0-9]+)", a)
            if s.fn[0] == "1" and not (mm and int(mm.group(1)) < 2 ** 64):
                out.append({"step": s.idx, "what": "channel id %r is accepted: with anything but channel-<n> the hashed string <channel>/<sender> no longer parses back uniquely" % a})
    configured = None     # the channel id as supplied by the admin in the last accepted instantiate / UpdateConfig
    conf_native = None    # (staker, collector) as supplied by the admin, likewise
    for s in steps:
        t = s.optoks
        if t[0] == "inst" and s.res == "ok":
            configured = unhex(t[12]).decode("utf-8", "replace")
            conf_native = (unhex(t[8]).decode("utf-8", "replace"), unhex(t[9]).decode("utf-8", "replace"))
        if t[0] == "exec" and t[5] == "updcfg" and s.res == "ok" and not s.aborted and t[7] != "-":
            configured = unhex(t[7][1:-1].split(";")[2]).decode("utf-8", "replace")
        if t[0] == "exec" and t[5] == "updcfg" and s.res == "ok" and not s.aborted and t[6] != "-":
            f = t[6][1:-1].split(";")
            conf_native = (unhex(f[5]).decode("utf-8", "replace"), unhex(f[6]).decode("utf-8", "replace"))
        if t[0] == "fn" and s.fn:
            if t[1] == "sha256":
                exp = hx(_hl.sha256(unhex(t[2])).digest())
                if s.fn[0] != exp:
                    out.append({"step": s.idx, "what": "sha256 of a %d-byte message differs from the reference" % len(unhex(t[2]))})
            elif t[1] == "derive":
                ch = unhex(t[2]).decode("utf-8", "replace"); snd = unhex(t[3]).decode("utf-8", "replace"); pf = unhex(t[4]).decode("utf-8", "replace")
                ok = 1 <= len(pf.encode()) <= 83 and all(33 <= b <= 126 for b in pf.encode()) and not (any("a" <= c <= "z" for c in pf) and any("A" <= c <= "Z" for c in pf))
                exp = hx(b32.hook_sender(ch, snd, pf.lower())) if ok else "-"
                if s.fn[0] != exp:
                    out.append({"step": s.idx, "what": "derive(%r, %r, %r) = %s, ibc-hooks derivation gives %s" % (ch, snd, pf, s.fn[0], exp)})
        if t[0] == "exec" and s.pre is not None and t[5] in ("rewards", "unstaked"):
            who = unhex(t[3]).decode("utf-8", "replace"); pre = s.pre
            native = pre["native"]["collector"] if t[5] == "rewards" else pre["native"]["staker"]
            if conf_native is not None and not s.intx:
                native = conf_native[1] if t[5] == "rewards" else conf_native[0]
            chan = configured if configured is not None else pre["protocol"]["channel"]
            hook = b32.hook_sender(chan, native, pre["protocol"]["prefix"])
            if s.res == "ok" and who != hook:
                out.append({"step": s.idx, "what": "%s accepted sender %s; the ibc-hooks account of the configured (%s, %s) is %s" % (t[5], who, chan, native, hook)})
            stored_native = pre["native"]["collector"] if t[5] == "rewards" else pre["native"]["staker"]
            if s.res == "err" and who == hook and not pre["stopped"] and (s.pre["protocol"]["channel"] != chan or stored_native != native):
                out.append({"step": s.idx, "what": "%s refused the ibc-hooks account of the configured (%s, %s) (stored: %s, %s)" % (t[5], chan, native, s.pre["protocol"]["channel"], stored_native)})
    return out


# ---------------- C07 ----------------
def mon_c07(cfg, steps):
    """reconstructs the chain's packet table from the trace (transfers + submission replies + relayer outcomes)
    and checks the contract's records and recoveries against it"""
    out = []
    chain = {}        # seq -> dict(denom, amount, receiver, state, resent)
    forced = False    # an admin-forced recovery of in-flight packets happened: tracking may legitimately diverge
    by_tx = {}
    for s in steps:
        if s.tx:
            by_tx.setdefault(s.tx, []).append(s)
    for s in steps:
        t = s.optoks
        if t[0] == "reply" and t[2] != "ok" and s.res == "ok":
            out.append({"step": s.idx, "what": "reply to a failed transfer submission returned ok (the operation is not rolled back)"})
        if s.aborted:
            continue
        # new packets: transfers of a committed transaction, matched to their submission replies by sub-message id
        if t[0] == "exec" and s.res == "ok":
            replies = {int(x.optoks[1]): int(x.optoks[3]) for x in by_tx.get(s.tx, []) if x.optoks[0] == "reply" and x.optoks[2] == "ok" and x.res == "ok"}
            xs = [m for m in s.msgs if m["facet"] == "msg:transfer"]
            for m in xs:
                if not m["reply"]:
                    out.append({"step": s.idx, "what": "IBC transfer emitted without asking for a reply (it would go untracked)"})
                if "ibc_callback" not in m.get("memo", ""):
                    out.append({"step": s.idx, "what": "IBC transfer without the callback memo"})
                if m["id"] in replies:
                    chain[replies[m["id"]]] = dict(denom=m["denom"], amount=m["amount"], receiver=m["receiver"], state="flight", resent=False)
        if t[0] == "sudo" and s.note and s.note[0] == "relay":
            seq = int(s.note[1]); oc = s.note[2]
            if seq in chain:
                on_channel = s.pre is None or unhex(t[2]).decode("utf-8", "replace") == s.pre["protocol"]["channel"]
                if on_channel:
                    chain[seq]["state"] = "delivered" if oc == "ok" else "refunded:" + oc
                else:
                    # the admin re-configured the channel while this packet was in flight: its settlement now is
                    # "an acknowledgement for another channel", which must change nothing -- the record stays as it is
                    if s.st is not None and s.pre is not None and s.st != s.pre:
                        out.append({"step": s.idx, "what": "a settlement for the replaced channel changed the store"})
                    chain[seq]["state"] = "orphaned"
        if t[0] == "sudo" and s.note and s.note[0] == "stray" and s.pre is not None and s.st is not None and s.res == "ok":
            if s.st != s.pre:
                out.append({"step": s.idx, "what": "a stray %s changed the store" % " ".join(t[1:])})
        st = s.st if s.st is not None else None
        if t[0] == "exec" and t[5] == "recover" and s.res == "ok" and s.pre is not None and st is not None:
            who = unhex(t[3]).decode("utf-8", "replace"); pre = s.pre
            removed = [pre["pkts"][k] for k in sorted(pre["pkts"]) if k not in st["pkts"]]
            xs = [m for m in s.msgs if m["facet"] == "msg:transfer"]
            rcv = unhex(t[8]).decode("utf-8", "replace") if t[8] != "-" else pre["native"]["staker"]
            if len(xs) != 1 or len(s.msgs) != 1:
                out.append({"step": s.idx, "what": "recover emitted %d messages" % len(s.msgs)}); continue
            m = xs[0]
            if not removed:
                out.append({"step": s.idx, "what": "recover re-sent %d without removing any record" % m["amount"]}); continue
            tot = sum(p["amount"] for p in removed)
            if m["amount"] != tot or any(p["denom"] != m["denom"] for p in removed) or any(p["receiver"] != m["receiver"] for p in removed) or m["receiver"] != rcv:
                out.append({"step": s.idx, "what": "recover re-sent %d %s to %s; the removed records are %r (receiver requested: %s)" % (m["amount"], m["denom"], m["receiver"], [(p["seq"], p["amount"], p["denom"], p["receiver"], p["status"]) for p in removed], rcv)})
            if t[7] == "-":
                if any(p["status"] == "sent" for p in removed):
                    out.append({"step": s.idx, "what": "a permissionless recovery re-sent packets still in flight: %r" % [p["seq"] for p in removed if p["status"] == "sent"]})
                cand = [pre["pkts"][k] for k in sorted(pre["pkts"]) if pre["pkts"][k]["receiver"] == rcv and pre["pkts"][k]["status"] in ("ack_failure", "timed_out")]
                exp = cand[:10] if t[6] == "1" else cand
                if [p["seq"] for p in removed] != [p["seq"] for p in exp]:
                    out.append({"step": s.idx, "what": "permissionless recovery for %s took packets %r, the refundable ones are %r (paginated=%s)" % (rcv, [p["seq"] for p in removed], [p["seq"] for p in exp], t[6])})
            else:
                if who != pre["admin"]:
                    out.append({"step": s.idx, "what": "forced recovery by non-admin %s" % who})
                if any(p["status"] == "sent" for p in removed):
                    forced = True
            for p in removed:
                c = chain.get(p["seq"])
                if c is not None:
                    if c["resent"]:
                        out.append({"step": s.idx, "what": "packet %d re-sent twice" % p["seq"]})
                    c["resent"] = True
        # tracking, between transactions
        if st is not None and not s.intx or (st is not None and s is by_tx.get(s.tx, [None])[-1]):
            if forced:
                continue
            for seq, c in chain.items():
                rec = st["pkts"].get(seq)
                if c["state"] == "flight" and not c["resent"]:
                    if rec is None or rec["status"] != "sent" or (rec["denom"], rec["amount"], rec["receiver"]) != (c["denom"], c["amount"], c["receiver"]):
                        out.append({"step": s.idx, "what": "packet %d (%d %s to %s) is in flight but recorded as %r" % (seq, c["amount"], c["denom"], c["receiver"], rec)})
                elif c["state"].startswith("refunded") and not c["resent"]:
                    want = "ack_failure" if c["state"].endswith("err") else "timed_out"
                    if rec is None or rec["status"] != want or rec["amount"] != c["amount"]:
                        out.append({"step": s.idx, "what": "packet %d was refunded (%s) but is recorded as %r" % (seq, c["state"], rec)})
                elif c["state"] == "delivered" and rec is not None and not c["resent"]:
                    out.append({"step": s.idx, "what": "packet %d was delivered but is still recorded (%s)" % (seq, rec["status"])})
            if st["waits"]:
                out.append({"step": s.idx, "what": "a submission is still awaiting its reply between transactions: %r" % list(st["waits"])})
    return out


# ---------------- C18 ----------------
def semver_tuple(v):
    m = _re.fullmatch(r"(0|[1-9][0-9]*)\.(0|[1-9][0-9]*)\.(0|[1-9][0-9]*)", v)
    return tuple(int(x) for x in m.groups()) if m else None


def mg_view(s):
    d = {"pkts": {}, "lpkts": {}, "waits": {}, "lwaits": {}, "cfg": [], "rest": None, "ver": None, "changed": None}
    for o in s.lines:
        if o[0] == "mg.ver":
            d["ver"] = (unhex(o[1]).decode("utf-8", "replace"), unhex(o[2]).decode("utf-8", "replace"))
        elif o[0] == "mg.lpkt":
            d["lpkts"][int(o[1])] = (int(o[2]), int(o[3]), o[4])
        elif o[0] in ("mg.pkt", "mg.wait") and len(o) > 1 and o[1] == "UNREADABLE":
            d["pkts" if o[0] == "mg.pkt" else "waits"][-1] = ("unreadable by the installed code",)
        elif o[0] == "mg.pkt":
            dn, am = o[3].split(":")
            d["pkts"][int(o[1])] = (int(o[2]), unhex(dn).decode(), int(am), unhex(o[4]).decode(), o[5])
        elif o[0] == "mg.lwait":
            d["lwaits"][int(o[1])] = int(o[2])
        elif o[0] == "mg.wait":
            dn, am = o[2].split(":")
            d["waits"][int(o[1])] = (unhex(dn).decode(), int(am), unhex(o[3]).decode())
        elif o[0].startswith("mg.cfg"):
            d["cfg"].append(o)
        elif o[0] == "mg.rest":
            d["rest"] = o[1:]
        elif o[0] == "mg.changed":
            d["changed"] = [unhex(x).decode() for x in o[1][1:-1].split(",") if x]
    return d


def semver_full(v):
    """(core tuple, has_prerelease, has_build) of a semver string, None when it does not parse"""
    m = _re.fullmatch(r"(0|[1-9][0-9]*)\.(0|[1-9][0-9]*)\.(0|[1-9][0-9]*)(-[0-9A-Za-z.-]+)?(\+[0-9A-Za-z.-]+)?", v)
    if not m:
        return None
    return (tuple(int(x) for x in m.groups()[:3]), m.group(4) is not None, m.group(5) is not None)


def mon_c18_treasury(steps, out):
    """the treasury migration is a pure gate: same contract name, stored version strictly older than the installed one"""
    installed = None
    for s in steps:
        t = s.optoks
        if t[0] == "tinst" and s.res == "ok":
            for o in s.lines:
                if o[0] == "ts.ver":
                    installed = (unhex(o[1]).decode("utf-8", "replace"), unhex(o[2]).decode("utf-8", "replace"))
        if t[0] == "tmig" and installed is not None and s.res == "ok":
            name = unhex(t[1]).decode("utf-8", "replace"); ver = unhex(t[2]).decode("utf-8", "replace")
            a = semver_full(ver); b = semver_full(installed[1])
            older = a is not None and b is not None and (a[0] < b[0] or (a[0] == b[0] and a[1] and not b[1]))
            if name != installed[0]:
                out.append({"step": s.idx, "what": "treasury migration succeeded for stored contract name %r" % name})
            elif not older:
                out.append({"step": s.idx, "what": "treasury migration succeeded from stored version %r, which is not strictly older than %s" % (ver, installed[1])})


def mon_c18(cfg, steps):
    out = []
    mon_c18_treasury(steps, out)
    prev = None; prev_snap = None
    FROM = {"v0418": "0.4.18", "v0420": "0.4.20", "v100": "1.0.0"}
    stack = []
    for s in steps:
        t = s.optoks
        if t[0].startswith("leg"):
            prev = mg_view(s); continue
        if t[0] != "mig":
            continue
        cur = mg_view(s)
        stored = prev["ver"] if prev else None
        if s.note and s.note[0] == "setver":
            stored = (unhex(s.note[1]).decode("utf-8", "replace"), unhex(s.note[2]).decode("utf-8", "replace"))
        if s.res == "ok":
            if stored is None or stored[0] != "staking":
                out.append({"step": s.idx, "what": "migration succeeded for stored contract name %r" % (stored and stored[0])})
            if stored and stored[1] != FROM[t[1]]:
                out.append({"step": s.idx, "what": "migration path %s succeeded from stored version %r (its source version is %s)" % (t[1], stored[1], FROM[t[1]])})
            if stored and (semver_tuple(stored[1]) is None or semver_tuple(stored[1]) >= (1, 1, 0)):
                out.append({"step": s.idx, "what": "migration succeeded from version %r, not strictly older than 1.1.0" % stored[1]})
            if cur["ver"] != ("staking", "1.1.0"):
                out.append({"step": s.idx, "what": "after migration the recorded version is %r" % (cur["ver"],)})
            if prev and cur["rest"] != prev["rest"]:
                out.append({"step": s.idx, "what": "migration altered unrelated records"})
            if t[1] == "v100" and prev:
                dn = None; staker = None
                for o in cur["cfg"]:
                    if o[0] == "mg.cfg.protocol":
                        dn = unhex(o[3]).decode()
                    if o[0] == "mg.cfg.native":
                        staker = unhex(o[6]).decode()
                if prev["cfg"] != cur["cfg"]:
                    out.append({"step": s.idx, "what": "1.0.0 -> 1.1.0 altered the configuration"})
                exp = {k: (v[0], dn, v[1], staker, v[2]) for k, v in prev["lpkts"].items()}
                if cur["pkts"] != exp:
                    lost = [k for k in exp if cur["pkts"].get(k) != exp[k]]
                    out.append({"step": s.idx, "what": "1.0.0 -> 1.1.0: tracked transfers %r were not preserved with key, sequence, amount, status (+ denom %s, receiver %s): %r vs %r" % (lost, dn, staker, [cur["pkts"].get(k) for k in lost][:3], [exp[k] for k in lost][:3])})
                expw = {k: (dn, v, staker) for k, v in prev["lwaits"].items()}
                if cur["waits"] != expw:
                    out.append({"step": s.idx, "what": "1.0.0 -> 1.1.0: pending replies not preserved"})
                extra = set(cur["changed"] or []) - {"contract_info", "inflight", "ibc_waiting_for_reply"}
                if extra:
                    out.append({"step": s.idx, "what": "1.0.0 -> 1.1.0 rewrote records %r" % sorted(extra)})
            else:
                if prev and (cur["lpkts"] != prev["lpkts"] or cur["lwaits"] != prev["lwaits"]):
                    out.append({"step": s.idx, "what": "%s altered the tracked transfers" % t[1]})
                # field-by-field translation of the configuration: every value the newer layout retains is unchanged
                pc = {o[0]: o[1:] for o in (prev["cfg"] if prev else [])}
                cc = {o[0]: o[1:] for o in cur["cfg"]}
                if t[1] == "v0418" and "mg.cfg0418" in pc and "mg.cfg0420" in cc:
                    a = pc["mg.cfg0418"]; b = cc["mg.cfg0420"]
                    names = ["native_denom", "lst_denom", "treasury", "monitors", "validators", "batch_period", "unbonding_period", "fee", "staker",
                             "collector", "minimum", "channel", "stopped", "oracle_address"]
                    exp = [a[0], a[1], a[2], a[4], a[5], a[6], a[7], a[8], a[9], a[10], a[11], a[12], a[13], a[16]]
                    bad = [n for n, x, y in zip(names, exp, b[:14]) if x != y]
                    if bad or b[14] != t[2]:
                        out.append({"step": s.idx, "what": "0.4.18 -> 0.4.20 did not carry over config fields %r%s" % (bad, "" if b[14] == t[2] else " (send_fees_to_treasury %s, message says %s)" % (b[14], t[2]))})
                if t[1] == "v0420" and "mg.cfg0420" in pc and "mg.cfg.native" in cc:
                    a = pc["mg.cfg0420"]
                    n = cc["mg.cfg.native"]; pr = cc["mg.cfg.protocol"]; fe = cc["mg.cfg.fee"]; mi = cc["mg.cfg.misc"]
                    mons = a[3] if a[3] != "-" else "[]"
                    pairs = [("validators", a[4], n[3]), ("unbonding_period", a[6], n[4]), ("staker", a[8], n[5]), ("collector", a[9], n[6]),
                             ("channel", a[11], pr[1]), ("ibc denom", a[0], pr[2]), ("minimum", a[10], pr[3]), ("oracle_address", a[13], pr[4]),
                             ("fee", a[7], fe[0]), ("treasury", a[2] if a[14] == "1" else "-", fe[1]),
                             ("lst_denom", a[1], mi[0]), ("monitors", mons, mi[1]), ("batch_period", a[5], mi[2]), ("stopped", a[12], mi[3]),
                             ("native token denom (message)", t[4], n[2])]
                    bad = ["%s: %s -> %s" % (nm, x, y) for nm, x, y in pairs if x != y]
                    if bad:
                        out.append({"step": s.idx, "what": "0.4.20 -> 1.0.0 altered retained config values: %s" % "; ".join(bad)[:400]})
                extra = set(cur["changed"] or []) - {"contract_info", "config"}
                if extra:
                    out.append({"step": s.idx, "what": "%s rewrote records %r" % (t[1], sorted(extra))})
        else:
            if cur["changed"]:
                out.append({"step": s.idx, "what": "a refused migration changed records %r" % cur["changed"]})
        if s.res == "ok" and not (s.op and False):
            pass
        # successful kept migrations move the baseline; rolled-back ones (between tx_begin_m/tx_abort_m) do not: the
        # generator keeps only the last two `mig` of a history
    # note: baseline `prev` stays the pre-upgrade store for every attempt of the history
    return out



# ---------------- C20 ----------------
def mon_c20(cfg, steps):
    """on the bindings' own output: canonical bytes of a typed value decode and re-encode to themselves; packing into Any
    uses '/' + the fully-qualified name, unpacking returns the value and refuses other URLs"""
    out = []
    for s in steps:
        t = s.optoks
        if not s.lines:
            continue
        o = s.lines[0]
        if t[0] == "prt":
            if o[1] != "ok" or len(o) < 3 or o[2] != t[2]:
                out.append({"step": s.idx, "what": "PROTO-ROUNDTRIP: %s does not decode and re-encode its canonical bytes (got %s)" % (t[1], " ".join(o[1:])[:120])})
        elif t[0] == "pany":
            kv = dict(x.split("=", 1) for x in o[1:] if "=" in x)
            if not kv:
                out.append({"step": s.idx, "what": "ANY: %s could not be packed (%s)" % (t[1], " ".join(o[1:])[:80])}); continue
            url = unhex(kv.get("url", "x")).decode("latin1")
            if url != "/" + t[2]:
                out.append({"step": s.idx, "what": "TYPE-URL: %s packs with type URL '%s', canonical is '/%s'" % (t[1], url, t[2])})
            if kv.get("value") != t[3]:
                out.append({"step": s.idx, "what": "ANY: %s packs a different value" % t[1]})
            if not (len(o) >= 5 and o[3] == "back=ok" and o[4] == t[3]):
                out.append({"step": s.idx, "what": "ANY: %s does not unpack to the packed value" % t[1]})
            if kv.get("wrong") != "rejected":
                out.append({"step": s.idx, "what": "ANY: %s unpacks an Any with a mismatched type URL" % t[1]})
    return out

# ---------------- C19 ----------------
def pb_varint(n):
    out = b""
    while True:
        b = n & 0x7f; n >>= 7
        if n:
            out += bytes([b | 0x80])
        else:
            return out + bytes([b])


def pb_str(tag, v):
    if isinstance(v, str):
        v = v.encode()
    return b"" if not v else pb_varint(tag * 8 + 2) + pb_varint(len(v)) + v


def pb_msg(tag, v):
    return pb_varint(tag * 8 + 2) + pb_varint(len(v)) + v


TF_PKG = {"osmosis": "/osmosis.tokenfactory.v1beta1.", "miniwasm": "/miniwasm.tokenfactory.v1."}


def mon_c19(cfg, steps):
    """token-factory messages on the implementation's own output: type URL of the target chain's module, canonical bytes,
    contract as sender and holder, denom factory/<contract>/<subdenom>, exact amount; none from any other call"""
    out = []
    backend = cfg[1]; me = unhex(cfg[2]).decode(); pkg = TF_PKG.get(backend, "?")
    for s in steps:
        t = s.optoks
        if s.res != "ok" or t[0] not in ("inst", "exec", "reply", "sudo"):
            continue
        tf = [m for m in s.msgs if m["facet"] in ("msg:create", "msg:mint", "msg:burn") or "tokenfactory" in m.get("url", "")]
        k = t[5] if t[0] == "exec" else t[0]
        def bad(what):
            out.append({"step": s.idx, "what": what})
        for m in tf:
            name = {"msg:create": "MsgCreateDenom", "msg:mint": "MsgMint", "msg:burn": "MsgBurn"}.get(m["facet"])
            if name is None or m.get("url") != pkg + name:
                bad("TF-URL: %s emits type URL %r; the %s build's token-factory module is %s*" % (k, m.get("url"), backend, pkg))
            if m.get("undecodable"):
                bad("TF-BYTES: %s emits undecodable token-factory bytes" % k)
        if k == "inst":
            lst = (s.st or {}).get("lst", "")
            if len(tf) != 1 or tf[0]["facet"] != "msg:create":
                bad("TF-COUNT: instantiate emitted %s, expected one create-denom" % [m["facet"] for m in tf]); continue
            m = tf[0]
            if m.get("sender") != me or lst != "factory/%s/%s" % (me, m.get("sub")):
                bad("TF-CREATE: create-denom by %s for sub-denom %r, contract %s configured LST denom %r" % (m.get("sender"), m.get("sub"), me, lst))
            if m["value"] != pb_str(1, m.get("sender", "")) + pb_str(2, m.get("sub", "")):
                bad("TF-BYTES: create-denom bytes are not the canonical encoding of (sender, subdenom)")
        elif k == "stake" and s.pre is not None and s.st is not None:
            if len(tf) != 1 or tf[0]["facet"] != "msg:mint":
                bad("TF-COUNT: LiquidStake emitted %s, expected one mint" % [m["facet"] for m in tf]); continue
            m = tf[0]; lst = s.pre["lst"]
            _, l1, _ = swept(s.pre)
            if m.get("sender") != me or m.get("addr") != me or m.get("denom") != lst or not lst.startswith("factory/%s/" % me):
                bad("TF-MINT: mint fields sender=%s mint_to=%s denom=%s; contract %s, LST denom %s" % (m.get("sender"), m.get("addr"), m.get("denom"), me, lst))
            if m.get("amount") != s.st["L"] - l1:
                bad("TF-MINT-AMOUNT: mint message carries %s, the contract accounts %d liquid tokens for this stake" % (m.get("amount"), s.st["L"] - l1))
            canon = pb_str(1, m.get("sender", "")) + pb_msg(2, pb_str(1, m.get("denom", "")) + pb_str(2, str(m.get("amount", 0)))) + pb_str(3, m.get("addr", ""))
            if m["value"] != canon:
                bad("TF-BYTES: mint bytes are not the canonical encoding of (sender, coin, mint_to)")
        elif k == "submit" and s.pre is not None and s.st is not None:
            if len(tf) != 1 or tf[0]["facet"] != "msg:burn":
                bad("TF-COUNT: SubmitBatch emitted %s, expected one burn" % [m["facet"] for m in tf]); continue
            m = tf[0]; lst = s.pre["lst"]; b = s.pre["batches"].get(s.pre["pending"]) or {}
            holder_ok = (m.get("addr") == me) if backend == "osmosis" else (m.get("addr") in ("", None))
            if m.get("sender") != me or not holder_ok or m.get("denom") != lst:
                bad("TF-BURN: burn fields sender=%s burn_from=%r denom=%s; contract %s, LST denom %s" % (m.get("sender"), m.get("addr"), m.get("denom"), me, lst))
            if m.get("amount") != b.get("total") or m.get("amount") != s.pre["L"] - s.st["L"]:
                bad("TF-BURN-AMOUNT: burn message carries %s, the submitted batch holds %s and the LST total fell by %d" % (m.get("amount"), b.get("total"), s.pre["L"] - s.st["L"]))
            canon = pb_str(1, m.get("sender", "")) + pb_msg(2, pb_str(1, m.get("denom", "")) + pb_str(2, str(m.get("amount", 0)))) + pb_str(3, m.get("addr", "") or "")
            if m["value"] != canon:
                bad("TF-BYTES: burn bytes are not the canonical encoding of (sender, coin[, burn_from])")
        elif tf:
            bad("TF-COUNT: %s emitted token-factory messages %s" % (k, [m["facet"] for m in tf]))
    return out


# ---------------- C16 ----------------
E27 = 10 ** 27


def rate_in_domain(n, l):
    """exchange rate N/L within [10^-3, 10^3]; with no LST outstanding there is no rate (the code guards that case)"""
    if l == 0:
        return True
    return n * 1000 >= l and n <= 1000 * l


def funds_of(tok):
    out = []
    inner = tok[1:-1]
    for c in inner.split(","):
        if c:
            d, a = c.split(":"); out.append((unhex(d).decode("latin1"), int(a)))
    return out


def c16_domain(s):
    """(in_domain, why_not): the property's stated domain for one call"""
    t = s.optoks; pre = s.pre
    if t[0] in ("exec", "texec", "inst", "tinst") and t[1].isdigit() and int(t[1]) > 2 ** 63:
        return False, "block time beyond the year 2262 (not a time the chain can produce)"
    if pre is not None:
        for k in ("N", "L", "reward", "fees"):
            if pre[k] > E27:
                return False, "state total %s above 10^27" % k
        if not rate_in_domain(pre["N"], pre["L"]):
            return False, "exchange rate of the state outside [10^-3, 10^3]"
        if any(b["total"] > E27 or (b["expected"] or 0) > E27 or (b["received"] or 0) > E27 for b in pre["batches"].values()):
            return False, "batch amount above 10^27"
    if t[0] == "exec":
        amts = [a for _, a in funds_of(t[4])]
        if any(a > E27 for a in amts):
            return False, "funds above 10^27"
        k = t[5]
        if k == "resume":
            n, l, r = int(t[6]), int(t[7]), int(t[8])
            if max(n, l, r) > E27 or not rate_in_domain(n, l):
                return False, "resume totals outside the domain"
        if k == "feewd" and int(t[6]) > E27:
            return False, "amount above 10^27"
        if k == "stake" and t[8] != "-" and int(t[8]) > E27:
            return False, "expected amount above 10^27"
        if k == "rewards" and pre is not None and amts:
            a = amts[0]; fee = pre["fee"]["rate"] * a // 100000
            if fee <= a and not rate_in_domain(pre["N"] + a - fee, pre["L"]):
                return False, "reward would move the rate outside [10^-3, 10^3]"
            if pre["N"] + a > E27 or pre["reward"] + a > E27:
                return False, "reward would move a total above 10^27"
        if k == "stake" and pre is not None and amts and (pre["N"] + amts[0] > E27 or pre["L"] + amts[0] * 1000 > E27 * 1000):
            return False, "stake would move a total above 10^27"
    return True, ""


def mon_c16(cfg, steps):
    """no entry point call within the stated domain ends in a panic (observed through catch_unwind in the harness)"""
    out = []
    for s in steps:
        if s.res != "panic" or s.optoks[0] == "fn":      # helper functions called directly are not entry points
            continue
        ok, why = c16_domain(s)
        if not ok:
            continue
        t = s.optoks
        k = t[5] if t[0] == "exec" else " ".join(t[:2]) if t[0] in ("query", "tquery", "sudo", "reply") else t[0]
        pre = s.pre or {}
        ctx = ""
        if pre:
            ctx = " (totals N=%d L=%d, fee rate %d, batch period %d, unbonding %d, oracle %s, treasury %s)" % (
                pre["N"], pre["L"], pre["fee"]["rate"], pre["batch_period"], pre["native"]["unbonding"],
                "set" if pre["protocol"]["oracle"] else "absent", "set" if pre["fee"]["treasury"] else "absent")
        out.append({"step": s.idx, "what": "PANIC: %s panics within the stated domain%s" % (k, ctx)})
    return out


# ---------------- C02 (contract level; the balance equation itself is the world monitor of worldmon.py) ----------------
def mon_c02(cfg, steps):
    """every payout of the staked asset is what the books say is owed to that party, no more: a Withdraw pays exactly
    the request's share of what the batch received, the payouts of a batch never exceed what it received, FeeWithdraw
    pays exactly the amount taken from the retained fees"""
    out = []
    paid = {}
    for s in steps:
        t = s.optoks
        if t[0] != "exec" or s.res != "ok" or s.pre is None or s.st is None:
            continue
        k = t[5]; who = unhex(t[3]).decode("utf-8", "replace"); pre = s.pre
        D = pre["protocol"]["denom"]
        pays = [m for m in s.msgs if m["facet"] in ("msg:send", "msg:bank") and m.get("denom") == D]
        if k == "withdraw":
            bid = int(t[6]); b = pre["batches"].get(bid)
            req = dict(((x, u), a) for (x, u, a) in pre["reqs"]).get((bid, who))
            if b is None or req is None or b["status"] != "received" or not b["total"] or len(pays) != 1:
                continue        # C05 reports those
            owed = (b["received"] or 0) * req // b["total"]
            got = pays[0].get("amount")
            if got != owed:
                out.append({"step": s.idx, "what": "PAYOUT: withdraw from batch %d paid %s of the staked asset; the request is owed floor(received %d x %d / %d) = %d" % (bid, got, b["received"] or 0, req, b["total"], owed)})
            if not s.aborted:
                paid[bid] = paid.get(bid, 0) + (got or 0)
                if paid[bid] > (b["received"] or 0):
                    out.append({"step": s.idx, "what": "PAYOUT: batch %d has paid out %d, more than the %d it received: the excess backs other claims" % (bid, paid[bid], b["received"] or 0)})
        elif k == "feewd":
            a = int(t[6])
            if len(pays) != 1 or pays[0].get("amount") != a or pre["fees"] - s.st["fees"] != a:
                out.append({"step": s.idx, "what": "PAYOUT: FeeWithdraw of %d paid %s and lowered the retained fees by %d" % (a, [m.get("amount") for m in pays], pre["fees"] - s.st["fees"])})
    return out


def mon_state_query(cfg, steps):
    """what the State query reports is what the store holds (the properties are stated on the reported totals)"""
    out = []
    for s in steps:
        t = s.optoks
        if t[0] == "query" and t[1] == "state" and s.res == "ok" and s.q and s.pre:
            q = s.q[0]
            got = (int(q[1]), int(q[2]), int(q[5]), int(q[6]))
            exp = (s.pre["N"], s.pre["L"], s.pre["reward"], s.pre["fees"])
            if got != exp:
                out.append({"step": s.idx, "what": "State query reports (staked, LST, rewards, fees) = %r, the store holds %r" % (got, exp)})
    return out


def mon_migrate_ledger(cfg, steps):
    """the ledger clauses of the migration monitor, for the properties that speak about tracked transfers (C01, C02, C07):
    an upgrade keeps every tracked and pending transfer with its sequence, amount and status and touches nothing else"""
    keys = ("tracked transfers", "pending replies", "unrelated records", "rewrote records", "refused migration changed")
    return [f for f in mon_c18(cfg, steps) if any(k in f["what"] for k in keys)]


def mon_migrate_roles(cfg, steps):
    """C09 across an upgrade: the channel, the staker and the reward collector (hence the two ibc-hooks accounts the
    contract answers to) are the same before and after a migration"""
    keys = ("staker", "collector", "channel")
    return [f for f in mon_c18(cfg, steps) if ("config" in f["what"]) and any(k in f["what"] for k in keys)]


def mon_migrate_flags(cfg, steps):
    """C10 across an upgrade: the halted flag is the same before and after a migration (only ResumeContract releases it)"""
    return [f for f in mon_c18(cfg, steps) if "config" in f["what"] and "stopped" in f["what"]]


def with_migration(mon):
    return lambda cfg, steps: mon(cfg, steps) + mon_migrate_ledger(cfg, steps)


MONITORS = {"C02": mon_c02, "C16": mon_c16, "C19": mon_c19, "C20": mon_c20, "C04": mon_c04, "C15": mon_c15, "C03": mon_c03, "C08": mon_c08, "C10": mon_c10, "C11": mon_c11, "C12": mon_c12, "C05": mon_c05, "C06": mon_c06, "C17": mon_c17, "C13": mon_c13, "C14": mon_c14, "C09": mon_c09, "C07": mon_c07, "C18": mon_c18}
MONITORS["C02"] = with_migration(mon_c02)
MONITORS["C07"] = with_migration(mon_c07)
MONITORS["C01"] = (lambda cfg, steps: mon_migrate_ledger(cfg, steps) + mon_state_query(cfg, steps))
MONITORS["C03"] = (lambda cfg, steps: mon_c03(cfg, steps) + mon_state_query(cfg, steps))
MONITORS["C09"] = (lambda cfg, steps: mon_c09(cfg, steps) + mon_migrate_roles(cfg, steps))
MONITORS["C08"] = (lambda cfg, steps: mon_c08(cfg, steps) + mon_migrate_roles(cfg, steps))
MONITORS["C10"] = (lambda cfg, steps: mon_c10(cfg, steps) + mon_migrate_flags(cfg, steps))
MONITORS["C17"] = with_migration(mon_c17)


def mon_migrate_rest(cfg, steps):
    """an upgrade leaves every record it has no business with (state totals, batches, requests, ownership) untouched"""
    keys = ("unrelated records", "rewrote records", "refused migration changed")
    return [f for f in mon_c18(cfg, steps) if any(k in f["what"] for k in keys)]


def mon_migrate_config(cfg, steps):
    """an upgrade carries the configuration over field by field"""
    return [f for f in mon_c18(cfg, steps) if "config" in f["what"]]


for _p in ("C03", "C05", "C06", "C11", "C12"):
    MONITORS[_p] = (lambda m: (lambda cfg, steps: m(cfg, steps) + mon_migrate_rest(cfg, steps)))(MONITORS[_p])
for _p in ("C14", "C15"):
    MONITORS[_p] = (lambda m: (lambda cfg, steps: m(cfg, steps) + mon_migrate_config(cfg, steps)))(MONITORS[_p])
