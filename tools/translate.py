# Translator: reads what is *data* in /repo's current source and regenerates coq/Gen/*.v.
# Part 1 (this file): literal constants the properties mention -> Gen/Consts.v.
# Part 2 (translate_proto.py): prost schemas, type URLs, module tree -> Gen/Schema*.v etc.
# A pattern that matches zero or several times is an error: the run is then treated as "proof broken".
import os, re
from common import REPO, COQ, sha

GEN = os.path.join(COQ, "Gen")


class TranslateError(Exception):
    pass


def read(rel):
    return open(os.path.join(REPO, rel)).read()


def one(rel, pattern, flags=re.S):
    src = read(rel)
    ms = re.findall(pattern, src, flags)
    if len(ms) != 1:
        raise TranslateError("%s: pattern %r matched %d times" % (rel, pattern, len(ms)))
    return ms[0]


def evalprod(expr):
    v = 1
    for f in expr.replace("_", "").split("*"):
        v *= int(f.strip())
    return v


def coq_str(s):
    return '"' + s.replace('"', '""') + '"'


def toml_version(rel, workspace_rel="Cargo.toml"):
    src = read(rel)
    name = re.search(r'^name\s*=\s*"([^"]+)"', src, re.M).group(1)
    m = re.search(r'^version\s*=\s*"([^"]+)"', src, re.M)
    if m:
        ver = m.group(1)
    else:
        ws = read(workspace_rel)
        ver = re.search(r'\[workspace\.package\]\s*version\s*=\s*"([^"]+)"', ws).group(1)
    return name, ver


def function_body(rel, fname):
    src = read(rel)
    m = re.search(r"pub fn %s\s*\(" % re.escape(fname), src)
    if not m:
        raise TranslateError("%s: function %s not found" % (rel, fname))
    i = src.index("{", m.end()); depth = 0; j = i
    while True:
        if src[j] == "{":
            depth += 1
        elif src[j] == "}":
            depth -= 1
            if depth == 0:
                break
        j += 1
    return src[i:j + 1]


def one_in(text, pattern, what):
    ms = re.findall(pattern, text, re.S)
    if len(ms) != 1:
        raise TranslateError("%s: pattern %r matched %d times" % (what, pattern, len(ms)))
    return ms[0]


def consts():
    c = {}
    S = "contracts/staking/src/"
    T = "contracts/treasury/src/"
    c["staking_owner_delay_s"] = evalprod(one_in(function_body(S + "execute.rs", "execute_transfer_ownership"),
                                                 r"block\.time\.seconds\(\)\s*\+\s*((?:\d+\s*\*\s*)*\d+)", "staking transfer_ownership"))
    c["treasury_owner_delay_s"] = evalprod(one_in(function_body(T + "execute.rs", "execute_transfer_ownership"),
                                                  r"block\.time\.seconds\(\)\s*\+\s*((?:\d+\s*\*\s*)*\d+)", "treasury transfer_ownership"))
    c["fee_denominator"] = evalprod(one_in(function_body(S + "execute.rs", "receive_rewards"),
                                           r"multiply_ratio\(\s*amount\s*,\s*([\d_]+)u128\s*\)", "receive_rewards fee"))
    c["staking_ibc_timeout_ns"] = int(one(S + "contract.rs", r"IBC_TIMEOUT: Timestamp = Timestamp::from_nanos\((\d+)\)"))
    c["treasury_ibc_timeout_ns"] = int(one(T + "execute.rs", r"IBC_TIMEOUT: Timestamp = Timestamp::from_nanos\((\d+)\)"))
    c["recover_page_size"] = int(one_in(function_body(S + "execute.rs", "recover"), r"let page_size = (\d+)", "recover"))
    c["sender_prefix"] = one(S + "helpers.rs", r'SENDER_PREFIX: &str = "([^"]+)"')
    c["native_address_len"] = int(one_in(function_body(S + "execute.rs", "execute_liquid_stake"),
                                         r"account_address_prefix\.len\(\)\s*!=\s*(\d+)", "liquid_stake"))
    c["from_version_v0_4_20"] = one(S + "migrations/v0_4_20.rs", r'FROM_VERSION: &str = "([^"]+)"')
    c["from_version_v1_0_0"] = one(S + "migrations/v1_0_0.rs", r'FROM_VERSION: &str = "([^"]+)"')
    c["from_version_v1_1_0"] = one(S + "migrations/v1_1_0.rs", r'FROM_VERSION: &str = "([^"]+)"')
    spend = function_body(T + "execute.rs", "execute_spend_funds")
    prefixes = re.findall(r'validate_address\(&receiver,\s*"([a-z0-9]+)"\)', spend)
    if len(prefixes) != 2:
        raise TranslateError("treasury spend_funds: expected two validate_address calls")
    c["treasury_local_prefix"], c["treasury_remote_prefix"] = prefixes
    c["staking_name"], c["staking_version"] = toml_version("contracts/staking/Cargo.toml")
    c["treasury_name"], c["treasury_version"] = toml_version("contracts/treasury/Cargo.toml")
    c["ibc_port"] = one_in(function_body(S + "execute.rs", "ibc_transfer_msg"), r'source_port:\s*"([^"]+)"', "ibc_transfer_msg")
    memo = one_in(function_body(S + "execute.rs", "ibc_transfer_msg"), r'memo:\s*format!\("((?:[^"\\]|\\.)*)"', "ibc_transfer_msg memo")
    c["ibc_memo_format"] = memo.replace('\\"', '"')
    c["lst_denom_format"] = one_in(function_body(S + "contract.rs", "instantiate"), r'liquid_stake_token_denom:\s*format!\(\s*"([^"]+)"', "instantiate denom")
    c["tf_osmosis_types"] = ",".join(sorted(set(re.findall(r"tokenfactory::v1beta1::\{([^}]*)\}", read(S + "tokenfactory/osmosis.rs"))[0].replace(" ", "").split(","))))
    c["tf_miniwasm_urls"] = ",".join(re.findall(r'type_url:\s*"([^"]+)"', read(S + "tokenfactory/miniwasm.rs")))
    return c


def write_if_changed(path, text):
    os.makedirs(os.path.dirname(path), exist_ok=True)
    if os.path.exists(path) and open(path).read() == text:
        return False
    open(path, "w").write(text)
    return True


def run():
    c = consts()
    lines = ["(* Gen/Consts.v — GENERATED by tools/translate.py from /repo's current source on every run. Do not edit. *)",
             "From Coq Require Import NArith String.", "Open Scope N_scope.", "Open Scope string_scope.", ""]
    for k in sorted(c):
        v = c[k]
        if isinstance(v, int):
            lines.append("Definition src_%s : N := %d." % (k, v))
        else:
            lines.append("Definition src_%s : string := %s." % (k, coq_str(v)))
    changed = write_if_changed(os.path.join(GEN, "Consts.v"), "\n".join(lines) + "\n")
    return {"consts": c, "changed": changed}


if __name__ == "__main__":
    import json
    print(json.dumps(run(), indent=1))
