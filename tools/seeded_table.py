#!/usr/bin/env python3
# Rewrites the table of DESIGN.md section 11.6 from work/seeded_results.json (written by tools/run_seeded.py).
import json, os, re
V = os.path.dirname(os.path.dirname(os.path.abspath(__file__)))
r = json.load(open(os.path.join(V, "work", "seeded_results.json")))
rows = []; nf_any = 0; missed = []
for sid in sorted(r):
    mp = os.path.join(V, "seeded", sid, "meta.json")
    if not os.path.exists(mp):
        continue
    meta = json.load(open(mp))
    t = meta.get("property", sid.split("-")[0])
    o = r[sid].get(t, {})
    if not isinstance(o, dict) or o.get("exit") != 1:
        missed.append(sid)
    what = (o.get("what") or ["-"])[0] if isinstance(o, dict) else "-"
    k = re.match(r"\[\w+\] ([\w:-]+):", what)
    kind = k.group(1) if k else "?"
    nf = isinstance(o, dict) and any("no-failing-input-found" in v for v in o.get("violations", []))
    nf_any += nf
    summ = meta["summary"].replace("\n", " ")
    summ = re.split(r"(?<=[a-z\)])\. ", summ)[0][:170].replace("|", "/")
    msg = re.sub(r"^\[\w+\] [\w:-]+: ", "", what)[:150].replace("|", "/")
    rows.append("| %s | %s | %s%s | %s |" % (sid, summ, kind, " (no failing input)" if nf else "", msg))
head = ("Every change below was produced by a fresh sub-agent that saw only the property text and a scratch worktree, and was "
        "confirmed in a scratch worktree by `tools/confirm_seeded.sh` (its demonstration passes on the clean tree, fails with the "
        "change, the 107 tests still pass with it). `tools/run_seeded.py` applies each to /repo, runs the target property's quick "
        "check and reverts (evidence files are kept aside meanwhile). %d changes; reported by their target check with exit 1: %d; "
        "with `no-failing-input-found`: %d; missed: %s.\n\n| id | change | reported by | first line of the report |\n|---|---|---|---|\n"
        % (len(rows), len(rows) - len(missed), nf_any, ", ".join(missed) or "none"))
p = os.path.join(V, "DESIGN.md")
s = open(p).read()
a = s.index("<!-- SEEDED_TABLE_BEGIN -->") + len("<!-- SEEDED_TABLE_BEGIN -->\n")
b = s.index("<!-- SEEDED_TABLE_END -->")
open(p, "w").write(s[:a] + head + "\n".join(rows) + "\n" + s[b:])
print(len(rows), "rows; missed:", missed)
