# C20: when a table theorem of Properties/C20.v no longer checks, find the concrete rows (and, for a field mismatch, bytes
# that the bindings mis-handle) -- a search procedure, not part of the trusted base.
import json, os
from common import *
import translate_proto as TP


def varint(n):
    out = b""
    while True:
        b = n & 0x7f; n >>= 7
        if n:
            out += bytes([b | 0x80])
        else:
            return out + bytes([b])


def sample_payload(kind, tag):
    """one record of the given kind at the given tag with a non-default value"""
    if kind in ("KString", "KBytes"):
        return varint(tag * 8 + 2) + varint(2) + b"hi"
    if kind == "KMsg":
        return varint(tag * 8 + 2) + varint(0)            # an empty embedded message is valid for every message type
    if kind in ("KMapMsg", "KMapU64"):
        return None
    return varint(tag * 8) + varint(1)


def missing_rows(gen, base, base_name):
    """python re-statement of Codec.schema_covers, returning what is lost"""
    rows = []
    for fq, fields in base.items():
        if fq not in gen:
            rows.append({"message": fq, "what": "message %s of %s is no longer bound" % (fq, base_name)})
            continue
        tags = {f[0] for f in gen[fq]}
        for (tag, kind, label, ref, name) in fields:
            if tag not in tags:
                rows.append({"message": fq, "field": name, "tag": tag, "kind": kind,
                             "what": "field %s.%s (tag %d, %s %s) of %s is no longer decoded by the bindings" % (fq, name, tag, kind, label, base_name)})
    return rows


def compat_rows(gen, other, other_name):
    """python re-statement of Codec.msg_compat, returning the offending rows"""
    rows = []
    for fq, fields in gen.items():
        if fq not in other:
            continue
        o_by_tag = {f[0]: f for f in other[fq]}
        o_by_name = {f[4]: f for f in other[fq]}
        for (tag, kind, label, ref, name) in fields:
            g = o_by_tag.get(tag)
            if g is not None:
                lab_ok = (label == g[2]) or (label.startswith("(LOneof") and g[2].startswith("(LOneof")) \
                    or ({label, g[2]} == {"LSingular", "LOptional"} and kind != "KMsg")
                if g[1] != kind or not lab_ok or g[4] != name:
                    rows.append({"message": fq, "field": name, "tag": tag, "bindings": [kind, label], other_name: [g[4], g[1], g[2]],
                                 "what": "field %s.%s (tag %d, %s %s) is %s %s %s at that tag in %s" % (fq, name, tag, kind, label, g[4], g[1], g[2], other_name)})
            h = o_by_name.get(name)
            if h is not None and h[0] != tag:
                rows.append({"message": fq, "field": name, "tag": tag, "expected_tag": h[0], "kind": h[1],
                             "what": "field %s.%s has tag %d in the bindings but %d in %s" % (fq, name, tag, h[0], other_name)})
    return rows


def search(model, b):
    """-> list of failure dicts {what, kind, witness...}"""
    out = []
    rust2fq = {m["rust"]: fq for fq, m in model["messages"].items()}
    for e in model["type_urls"]:
        fq = rust2fq.get(e["rust"], "")
        if not fq or e["url"] != "/" + fq:
            out.append({"kind": "type-url", "what": "type URL of %s is %r but the message's fully-qualified name is %r" % (e["rust"], e["url"], fq),
                        "ops": ["cfg proto 0", "pany %s %s x" % (e["rust"], fq)]})
    for e in model["modtree"]:
        pkg = e["file"][:-3] if e["file"].endswith(".rs") else e["file"]
        if ".".join(e["mod"]) != pkg:
            out.append({"kind": "module-tree", "what": "module %s includes the protobuf package %s" % ("::".join(e["mod"]), pkg), "ops": []})
    gen = {fq: TP.fdescs(m["fields"]) for fq, m in model["messages"].items()}
    ref = {fq: TP.fdescs(fl, resolve_refs=False) for fq, fl in model["reference"].items()}
    base = {fq: [tuple(x) for x in v] for fq, v in json.load(open(os.path.join(VERIF, "baseline", "proto_schema.json"))).items()}
    for other, nm in ((ref, "osmosis-std " + model["reference_version"]), (base, "the pinned baseline")):
        for r in compat_rows(gen, other, nm):
            f = {"kind": "schema", "what": r["what"], "row": r, "ops": []}
            if "expected_tag" in r:
                pl = sample_payload(r["kind"], r["expected_tag"])
                if pl is not None:
                    f["ops"] = ["cfg proto 0", "prt %s x%s" % (r["message"], pl.hex())]
            out.append(f)
        for r in compat_rows(other, gen, "the bindings"):
            if not any(x.get("row", {}).get("message") == r["message"] and x.get("row", {}).get("field") == r["field"] for x in out):
                out.append({"kind": "schema", "what": r["what"] + " (described from %s)" % nm, "row": r, "ops": []})
    for r in missing_rows(gen, base, "the pinned baseline"):
        f = {"kind": "schema", "what": r["what"], "row": r, "ops": []}
        if "tag" in r:
            pl = sample_payload(r["kind"], r["tag"])
            if pl is not None:
                f["ops"] = ["cfg proto 0", "prt %s x%s" % (r["message"], pl.hex())]
        out.append(f)
    for a in model.get("stats", {}).get("oneof_anomalies", []):
        out.append({"kind": "schema", "ops": [], "row": a,
                    "what": "oneof %s.%s: the struct dispatches tags %r, the enum declares %r" % (a["message"], a["oneof"], a["tags"], a["variant_tags"])})
    for efq, vals in sorted(model.get("enums", {}).items()):
        if vals and vals[0][1] != 0:
            f = {"kind": "schema", "ops": [], "row": {"enum": efq, "first": list(vals[0])},
                 "what": "enumeration %s: the first declared variant is %s = %d, which the bindings use as the field default (protobuf's default is 0)" % (efq, vals[0][0], vals[0][1])}
            short = efq.split(".")[-1]
            for fq, m in model["messages"].items():
                hit = next((x for x in m["fields"] if x.get("kind") == "enum" and x.get("enum", "").split("::")[-1] == short and x.get("label") not in ("repeated",)), None)
                if hit is not None and vals[0][1] > 0:
                    f["ops"] = ["cfg proto 0", "prt %s x%s" % (fq, (varint(hit["tag"] * 8) + varint(vals[0][1])).hex())]
                    break
            out.append(f)
    for x in model.get("stats", {}).get("explicit_defaults", []):
        f = {"kind": "schema", "ops": [], "row": x,
             "what": "field %s.%s carries the explicit default %r: the value is omitted on the wire and assumed when the field is absent" % (x["message"], x["field"], x["default"])}
        if x.get("tag") and x["default"].isdigit() and int(x["default"]) > 0:
            f["ops"] = ["cfg proto 0", "prt %s x%s" % (x["message"], (varint(x["tag"] * 8) + varint(int(x["default"]))).hex())]
        out.append(f)
    # run the witnesses on the real bindings
    for f in out:
        if f["ops"] and b is not None and "miniwasm" in b.exe:
            d = os.path.join(WORK, "replay"); os.makedirs(d, exist_ok=True)
            p = os.path.join(d, "c20search-%d" % os.getpid())
            open(p + ".ops", "w").write("\n".join(f["ops"]) + "\n")
            rc, o, _ = run([b.exe["miniwasm"], "proto", p + ".ops", p + ".impl"], timeout=600)
            if rc == 0:
                lines = open(p + ".impl").read().splitlines()
                f["impl_line"] = lines[1] if len(lines) > 1 else "<none>"
    return out
