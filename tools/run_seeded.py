#!/usr/bin/env python3
# Applies each seeded change to /repo, runs the target property's check (quick), records the outcome, reverts.
# usage: tools/run_seeded.py [ids...] [--all-props]
import json, os, shutil, subprocess, sys, time
V = os.path.dirname(os.path.dirname(os.path.abspath(__file__)))
REPO = os.environ.get("MW_REPO", "/repo")
sys.path.insert(0, os.path.join(V, "tools"))
import props
ids = [a for a in sys.argv[1:] if not a.startswith("--")] or sorted(os.listdir(os.path.join(V, "seeded")))
allp = "--all-props" in sys.argv
res = {}
for sid in ids:
    d = os.path.join(V, "seeded", sid)
    if not os.path.exists(os.path.join(d, "patch.diff")):
        continue
    meta = json.load(open(os.path.join(d, "meta.json")))
    target = meta.get("property", sid.split("-")[0])
    if subprocess.run(["git", "-C", REPO, "status", "--porcelain", "--untracked-files=no"], capture_output=True, text=True).stdout.strip():
        print("repo dirty, abort"); sys.exit(2)
    r = subprocess.run(["git", "-C", REPO, "apply", os.path.join(d, "patch.diff")], capture_output=True, text=True)
    if r.returncode != 0:
        print(sid, "patch does not apply:", r.stderr[:300]); continue
    try:
        plist = [p for p in props.PROPS if props.PROPS[p].get("claimed", True)] if allp else [target]
        out = {}
        for p in plist:
            if p not in props.PROPS:
                out[p] = "no check yet"; continue
            t = time.time()
            # the evidence file must describe the unchanged tree: keep it aside while the check runs on the changed one
            ev = os.path.join(V, "evidence", p + ".json"); bak = ev + ".keep"
            if os.path.exists(ev):
                shutil.copy(ev, bak)
            try:
                c = subprocess.run([os.path.join(V, "bin", "check"), p, "quick"], capture_output=True, text=True, cwd=V)
            finally:
                if os.path.exists(bak):
                    shutil.move(bak, ev)
            v = [l for l in c.stdout.splitlines() if l.startswith("VIOLATION")]
            what = [l for l in c.stderr.splitlines() if l.startswith("[")]
            out[p] = {"exit": c.returncode, "violations": v[:2], "what": what[:2], "s": round(time.time() - t)}
        res[sid] = out
        print(sid, json.dumps(out)[:700])
    finally:
        subprocess.run(["git", "-C", REPO, "checkout", "--", "."], check=True)
rp = os.path.join(V, "work", "seeded_results.json")
allres = json.load(open(rp)) if os.path.exists(rp) else {}
allres.update(res)
json.dump(allres, open(rp, "w"), indent=1)
