#!/usr/bin/env python3
# Prepares scratch worktrees under /tmp/mut6 and the briefs handed to the sub-agents that write seeded changes.
# The briefs carry only the property text and a summary of earlier seeded changes - nothing else from /verif.
# usage: tools/seed_prompts.py C03 C04 ...
import json,subprocess,glob
props={json.loads(l)['id']:json.loads(l) for l in open('/verif/properties.jsonl')}
tmpl='''You are helping test a verification effort by producing ONE realistic, subtle bug ("seeded change") in a Rust CosmWasm repository. Work ONLY inside the scratch git worktree /tmp/mut6/{pid} (a checkout of the milkyway-contracts repository: CosmWasm liquid-staking (contracts/staking) + treasury (contracts/treasury) contracts, packages/initia-proto prost bindings). Do not read or touch /verif or /repo. No network: always build with CARGO_NET_OFFLINE=true and CARGO_TARGET_DIR=/tmp/mut6/{pid}/target and --offline.

The property the change must break (also in /tmp/mut6/{pid}.prop.txt):
"{pid} — {title}. {statement} ({quant})"
Relevant files: {files}.

Previous seeded changes for this property were: {prev} — yours must be DIFFERENT in kind (another clause of the property, another code path, another function). Look for the least obvious clause of the property text and the least exercised code path; prefer a change whose effect shows only in an unusual but reachable state, configuration or ordering of calls. If the property allows it, make the change outside the obvious handler body (the entry-point dispatch in contract.rs, ibc.rs, types.rs, state.rs, helpers.rs, query.rs, oracle.rs, packages/milky_way, the migrations, the treasury, the bindings) and make the failure need at least two independent conditions to coincide.

Task:
1. Read the relevant code.
2. Make ONE SMALL source change (a few lines; a plausible refactoring slip, off-by-one, swapped variable, dropped condition, wrong comparison operator, early return, wrong rounding direction, wrong constant, wrong map key, missing save...) that makes the property false. It must still compile, and the existing test suite (`cargo test --workspace --offline`, 107 tests: 85 staking + 22 treasury) must still pass unchanged.
3. The failure must need something SPECIFIC to manifest (say so precisely in meta.json). Make it as hard to notice as you can while still being a genuine violation of the property text.
4. Write a demonstration: a new Rust test module (e.g. contracts/staking/src/tests/seeded_demo.rs wired into tests/mod.rs, or the treasury equivalent, or packages/initia-proto/tests/seeded_demo.rs; test function names starting with `seeded_demo`; for a change that only exists in the miniwasm build gate the module with #[cfg(feature = "miniwasm")] and mention "miniwasm" in meta.json) that PASSES on the clean tree and FAILS with your change.
5. Produce these files in /tmp/mut6/{pid}.out/ : patch.diff (git diff of the bug only, applies to the clean tree with `git apply`), demo.diff (git diff adding only the demonstration test, applies to the clean tree independently of patch.diff), meta.json with keys: property ("{pid}"), summary (what was changed and why it breaks the property), needs (what specific state/input is needed), demo_cmd, ran (list of the commands you ran and their outcomes: demo on clean tree passes; demo with change fails; full suite with change passes 107).
6. Do not use `git stash` (the stash is shared between worktrees of one repository). Leave the worktree clean at the end (git checkout -- . && git clean -fd except the target dir), so that both diffs apply to it.
Verify everything yourself by actually running the commands. Report the summary and the paths when done.'''
import sys,os
os.makedirs('/tmp/mut6',exist_ok=True)
for pid in sys.argv[1:]:
    subprocess.check_call(["git","-C","/repo","worktree","add","-q","--detach","/tmp/mut6/%s"%pid,"HEAD"])
    p=props[pid]
    prevs=[]
    for d in sorted(glob.glob('/verif/seeded/%s-*'%pid)):
        prevs.append("'"+json.load(open(d+'/meta.json'))['summary'][:260].replace('"',"'")+"'")
    open('/tmp/mut6/%s.prop.txt'%pid,'w').write("%s — %s\n\n%s\n\nQuantifier: %s\n"%(pid,p['title'],p['statement'],p['quantifier']['text']))
    open('/tmp/mut6/%s.prompt.txt'%pid,'w').write(tmpl.format(pid=pid,title=p['title'],statement=p['statement'],quant=p['quantifier']['text'],files=", ".join(p['anchors']['files']),prev="; ".join(prevs)))
print("ok")