(* Treasury.v — executable model of contracts/treasury. *)
From MW Require Export Base Wire.
Open Scope string_scope.
Open Scope N_scope.

Record tstore := {
  t_admin : option string;
  t_pending_owner : option string;
  t_owner_min_time : option N;
  t_trader : string;
  t_routes : list (list hop);
  t_version : string * string }.

Record tinstantiate_msg := { ti_admin : option string; ti_trader : option string; ti_routes : list (list hop) }.

Inductive texecute_msg :=
| TTransferOwnership (new_owner : string)
| TAcceptOwnership
| TRevokeOwnershipTransfer
| TSpendFunds (amount : coin) (receiver : string) (channel : option string)
| TSwapExactAmountIn (routes : list hop) (token_in : coin) (min_out : N)
| TSwapExactAmountOut (routes : list hop) (token_out : coin) (max_in : N)
| TUpdateConfig (trader : option string) (routes : option (list (list hop))).

Record tenv := { t_now_ns : N; t_self : string }.

Definition T_IBC_TIMEOUT_NS : N := 1000000000000.
Definition T_OWNER_DELAY_S : N := 604800.
Definition T_LOCAL_PREFIX : string := "osmo".
Definition T_REMOTE_PREFIX : string := "celestia".
Definition T_CONTRACT_NAME : string := "treasury".
Definition T_CONTRACT_VERSION : string := "0.4.20".

Definition hop_eqb (a b : hop) : bool :=
  (h_pool a =? h_pool b) && String.eqb (h_in a) (h_in b) && String.eqb (h_out a) (h_out b).
Fixpoint route_eqb (a b : list hop) : bool :=
  match a, b with
  | [], [] => true
  | x :: a', y :: b' => hop_eqb x y && route_eqb a' b'
  | _, _ => false
  end.
Definition route_allowed (allowed : list (list hop)) (r : list hop) : bool :=
  match r with [] => false | _ => existsb (fun a => route_eqb a r) allowed end.

Definition t_now_s (e : tenv) : N := t_now_ns e / 1000000000.

Section TModel.
  Variable valid_addr : string -> string -> bool.
  Variable api_valid : string -> bool.

  Definition tinstantiate (e : tenv) (sender : string) (m : tinstantiate_msg) : result (tstore * response) :=
    do a <- match ti_admin m with
            | Some x => if api_valid x then Ok x else Err EStd
            | None => Ok sender
            end;
    do t <- match ti_trader m with
            | Some x => if api_valid x then Ok x else Err EStd
            | None => Ok sender
            end;
    Ok ({| t_admin := Some a; t_pending_owner := None; t_owner_min_time := None; t_trader := t;
           t_routes := ti_routes m; t_version := (T_CONTRACT_NAME, T_CONTRACT_VERSION) |}, []).

  Definition t_is_admin (s : tstore) (a : string) : bool := opt_str_eqb (t_admin s) (Some a).

  Definition set_towner (s : tstore) (a : option string) (p : option string) (t : option N) : tstore :=
    {| t_admin := a; t_pending_owner := p; t_owner_min_time := t; t_trader := t_trader s;
       t_routes := t_routes s; t_version := t_version s |}.

  Definition texecute (s : tstore) (e : tenv) (sender : string) (m : texecute_msg) : result (tstore * response) :=
    match m with
    | TTransferOwnership o =>
        check t_is_admin s sender else EAdmin;
        check api_valid o else EStd;
        Ok (set_towner s (t_admin s) (Some o) (Some (t_now_s e + T_OWNER_DELAY_S)), [])
    | TRevokeOwnershipTransfer =>
        check t_is_admin s sender else EAdmin;
        Ok (set_towner s (t_admin s) None None, [])
    | TAcceptOwnership =>
        check match t_owner_min_time s with Some t => negb (t_now_s e <? t) | None => true end
          else EOwnershipNotReady;
        match t_pending_owner s with
        | Some p => if String.eqb p sender then Ok (set_towner s (Some p) None (t_owner_min_time s), [])
                    else Err ENoPendingOwner
        | None => Err ENoPendingOwner
        end
    | TSpendFunds amount receiver channel =>
        check t_is_admin s sender else EAdmin;
        match channel with
        | None =>
            check valid_addr receiver T_LOCAL_PREFIX else EStd;
            Ok (s, [plain (ABankSend receiver amount)])
        | Some ch =>
            check valid_addr receiver T_REMOTE_PREFIX else EStd;
            do timeout <- of_opt (add64 (t_now_ns e) T_IBC_TIMEOUT_NS) 127;
            Ok (s, [plain (ATransfer ch receiver amount (t_self e) timeout (ibc_memo (t_self e)))])
        end
    | TSwapExactAmountIn routes tin min_out =>
        check String.eqb (t_trader s) sender else EUnauthorized;
        check route_allowed (t_routes s) routes else ESwapRoute;
        match routes with
        | [] => Panic 158
        | h :: _ =>
            check String.eqb (h_in h) (c_denom tin) else ETokenIn;
            Ok (s, [plain (ASwapIn (t_self e) routes tin min_out)])
        end
    | TSwapExactAmountOut routes tout max_in =>
        check String.eqb (t_trader s) sender else EUnauthorized;
        check route_allowed (t_routes s) routes else ESwapRoute;
        match rev routes with
        | [] => Panic 206
        | h :: _ =>
            check String.eqb (h_out h) (c_denom tout) else ETokenOut;
            Ok (s, [plain (ASwapOut (t_self e) routes tout max_in)])
        end
    | TUpdateConfig trader routes =>
        check t_is_admin s sender else EAdmin;
        do t <- match trader with
                | Some x => if api_valid x then Ok x else Err EStd
                | None => Ok (t_trader s)
                end;
        Ok ({| t_admin := t_admin s; t_pending_owner := t_pending_owner s;
               t_owner_min_time := t_owner_min_time s; t_trader := t;
               t_routes := opt_default (t_routes s) routes; t_version := t_version s |}, [])
    end.

  (* query Config: (admin, trader, routes); ADMIN.get(..).expect(..) panics without admin *)
  Definition tquery (s : tstore) : result (string * string * list (list hop)) :=
    do a <- of_opt (t_admin s) 12;
    Ok (a, t_trader s, t_routes s).
End TModel.

(* semver "MAJOR.MINOR.PATCH" (digits only), the only shape generated on the structured stream *)
Fixpoint split_dot (s : string) (cur : string) : list string :=
  match s with
  | EmptyString => [cur]
  | String c r => if Ascii.eqb c "."%char then cur :: split_dot r EmptyString
                  else split_dot r (cur ++ String c EmptyString)
  end.
Fixpoint digits_val (s : string) (acc : N) : N :=
  match s with EmptyString => acc | String c r => digits_val r (acc * 10 + (code c - 48)) end.
Definition parse_num (s : string) : option N :=
  match s with
  | EmptyString => None
  | String c r =>
      if negb (str_forall is_digit s) then None
      else if Ascii.eqb c "0"%char && negb (slen r =? 0) then None   (* no leading zeros *)
      else if u64_max <? digits_val s 0 then None else Some (digits_val s 0)
  end.
Definition parse_semver (s : string) : option (N * N * N) :=
  match split_dot s EmptyString with
  | [a; b; c] => match parse_num a, parse_num b, parse_num c with
                 | Some x, Some y, Some z => Some (x, y, z)
                 | _, _, _ => None
                 end
  | _ => None
  end.
Definition semver_lt (a b : N * N * N) : bool :=
  let '(a1, a2, a3) := a in let '(b1, b2, b3) := b in
  (a1 <? b1) || ((a1 =? b1) && ((a2 <? b2) || ((a2 =? b2) && (a3 <? b3)))).

(* treasury migrate: gate only, store unchanged (the new version is not recorded) *)
Definition tmigrate (s : tstore) : result (tstore * response) :=
  check String.eqb (fst (t_version s)) T_CONTRACT_NAME else EStd;
  match parse_semver (snd (t_version s)), parse_semver T_CONTRACT_VERSION with
  | Some v, Some nv => if semver_lt v nv then Ok (s, []) else Err EStd
  | _, _ => Err EStd
  end.
