(* Cases.v — text rendering of proto correspondence cases, evaluated by vm_compute on the regenerated tables. *)
From MW.Proto Require Import Codec Sample.
Open Scope N_scope.

Definition hexdigit (n : N) : ascii := ascii_of_N (if n <? 10 then 48 + n else 87 + n).
Fixpoint to_hex (s : string) : string :=
  match s with
  | EmptyString => EmptyString
  | String c r => let n := code c in String (hexdigit (n / 16)) (String (hexdigit (n mod 16)) (to_hex r))
  end.
Definition xhex (s : string) : string := ("x" ++ to_hex s)%string.
Definition nl : string := String (ascii_of_N 10) EmptyString.

Fixpoint str_take (n : nat) (s : string) : string :=
  match n, s with
  | S k, String c r => String c (str_take k r)
  | _, _ => EmptyString
  end.

Definition DEPTH : nat := 4.
Definition res_text (r : option string) : string := match r with Some b => ("ok " ++ xhex b)%string | None => "err"%string end.

Definition rt_line (op : string) (Sc : schema) (name bytes : string) : string :=
  (op ++ " " ++ name ++ " " ++ xhex bytes ++ " => " ++ res_text (recode Sc (S DEPTH) name bytes) ++ nl)%string.

Definition msg_lines (Sc : schema) (seed : N) (name : string) : string :=
  let bytes := encode (sample Sc DEPTH seed name) in
  let cut := N.to_nat (mix seed (slen bytes) 7 mod (slen bytes + 1)) in
  (rt_line "prt" Sc name bytes ++ rt_line "prtx" Sc name (str_take cut bytes))%string.

Definition any_text (Sc : schema) (fq url bytes : string) : string :=
  let a := to_any url bytes in
  let back := match from_any Sc (S DEPTH) fq url a with Some m => Some (encode m) | None => None end in
  let wrong := match from_any Sc (S DEPTH) fq url {| any_url := (url ++ "x")%string; any_value := bytes |},
                     from_any Sc (S DEPTH) fq url {| any_url := fq; any_value := bytes |} with
               | None, None => "rejected" | _, _ => "accepted" end in
  match back with
  | None => "err"         (* the bytes do not decode as the type: nothing to pack *)
  | Some _ => ("url=" ++ xhex (any_url a) ++ " value=" ++ xhex (any_value a) ++ " back=" ++ res_text back ++ " wrong=" ++ wrong)%string
  end.

Definition any_line (Sc : schema) (seed : N) (e : string * string * string) : string :=
  let '(rust, fq, url) := e in
  let bytes := encode (sample Sc DEPTH seed fq) in
  ("pany " ++ rust ++ " " ++ fq ++ " " ++ xhex bytes ++ " => " ++ any_text Sc fq url bytes ++ nl)%string.

(* evaluation of given op lines (replays, shrinking): (op, a, b, hex payload) *)
Definition unhexdigit (c : ascii) : N := let n := code c in if n <? 58 then n - 48 else n - 87.
Fixpoint of_hex (s : string) : string :=
  match s with
  | String a (String b r) => String (ascii_of_N (unhexdigit a * 16 + unhexdigit b)) (of_hex r)
  | _ => EmptyString
  end.
Fixpoint url_of (urls : list (string * string * string)) (rust : string) : option (string * string) :=
  match urls with
  | [] => None
  | (r, fq, url) :: tl => if String.eqb r rust then Some (fq, url) else url_of tl rust
  end.
Definition eval_op (Sc : schema) (urls : list (string * string * string)) (o : string * string * string * string) : string :=
  let '(op, a, b, hx) := o in
  let bytes := of_hex hx in
  if String.eqb op "pany" then
    match url_of urls a with
    | Some (fq, url) => ("pany " ++ any_text Sc fq url bytes ++ nl)%string
    | None => ("pany unknown-type" ++ nl)%string
    end
  else
    match lookup_msg Sc a with
    | Some _ => (op ++ " " ++ res_text (recode Sc (S DEPTH) a bytes) ++ nl)%string
    | None => (op ++ " unknown-type" ++ nl)%string
    end.
Definition eval_ops (Sc : schema) (urls : list (string * string * string)) (os : list (string * string * string * string)) : string :=
  concat_str (map (eval_op Sc urls) os).

Definition proto_lines (Sc : schema) (urls : list (string * string * string)) (seed : N) : string :=
  (concat_str (map (fun nd => msg_lines Sc seed (fst nd)) Sc) ++ concat_str (map (any_line Sc seed) urls))%string.
