(* CodecProofs.v — round-trip theorems for the protobuf wire format and the schema-directed typed codec. *)
From MW.Proto Require Import Codec Sample.
From MW.Proofs Require Import Tactics.
Open Scope N_scope.

Lemma code_ascii_of_N n : n < 256 -> code (ascii_of_N n) = n.
Proof. intros H. unfold code. apply N_ascii_embedding. exact H. Qed.

Lemma append_assoc_str a b c : ((a ++ b) ++ c = a ++ (b ++ c))%string.
Proof. induction a as [|x a IH]; cbn; [reflexivity | rewrite IH; reflexivity]. Qed.

(* ---------- varint ---------- *)
Lemma varint_fuel_unfold f n :
  varint_fuel (S f) n = if n <? 128 then String (ascii_of_N n) EmptyString
                        else String (ascii_of_N (n mod 128 + 128)) (varint_fuel f (n / 128)).
Proof. reflexivity. Qed.

Lemma decode_varint_fuel fd : forall f n rest,
  n < 2 ^ N.of_nat f -> n < 2 ^ (7 * N.of_nat (S fd)) ->
  decode_varint (S fd) (varint_fuel (S f) n ++ rest) = Some (n, rest).
Proof.
  induction fd as [|fd IH]; intros f n rest Hf Hd; rewrite varint_fuel_unfold; destruct (n <? 128) eqn:E.
  - cbn [append decode_varint]. rewrite code_ascii_of_N by lia. rewrite E. reflexivity.
  - change (2 ^ (7 * N.of_nat 1)) with 128 in Hd. lia.
  - cbn [append decode_varint]. rewrite code_ascii_of_N by lia. rewrite E. reflexivity.
  - cbn [append]. change (decode_varint (S (S fd)) (String ?c ?r)) with
      (let b := code c in if b <? 128 then Some (b, r) else
         match decode_varint (S fd) r with Some (m, r') => Some (b - 128 + 128 * m, r') | None => None end).
    cbv zeta.
    assert (Hb : n mod 128 + 128 < 256) by (pose proof (N.mod_lt n 128); lia).
    rewrite code_ascii_of_N by exact Hb.
    assert (Eb : (n mod 128 + 128 <? 128) = false) by lia. rewrite Eb.
    destruct f as [|f'].
    { cbn in Hf. lia. }
    assert (Hq : n / 128 < 2 ^ N.of_nat f').
    { apply N.div_lt_upper_bound; [lia|]. replace (N.of_nat (S f')) with (N.succ (N.of_nat f')) in Hf by lia.
      rewrite N.pow_succ_r' in Hf. lia. }
    assert (Hq2 : n / 128 < 2 ^ (7 * N.of_nat (S fd))).
    { apply N.div_lt_upper_bound; [lia|]. replace (7 * N.of_nat (S (S fd))) with (7 + 7 * N.of_nat (S fd)) in Hd by lia.
      rewrite N.pow_add_r in Hd. change (2 ^ 7) with 128 in Hd. lia. }
    rewrite (IH f' (n / 128) rest Hq Hq2).
    f_equal. f_equal. pose proof (N.div_mod n 128). lia.
Qed.

Lemma size_bound n : n < 2 ^ N.of_nat (N.size_nat n).
Proof.
  destruct n as [|p]; [cbn; lia|]. unfold N.size_nat.
  assert (H : N.of_nat (Pos.size_nat p) = N.pos (Pos.size p)).
  { induction p as [p IH|p IH|]; cbn [Pos.size_nat Pos.size]; try reflexivity; rewrite Nat2N.inj_succ, IH; lia. }
  rewrite H. exact (N.size_gt (N.pos p)).
Qed.

Theorem varint_roundtrip n rest : n < 2 ^ 64 -> decode_varint VARINT_MAX_BYTES (varint n ++ rest) = Some (n, rest).
Proof.
  intros H. unfold varint. change VARINT_MAX_BYTES with (S 9). apply decode_varint_fuel; [apply size_bound|].
  change (7 * N.of_nat 10) with 70. assert (2 ^ 64 < 2 ^ 70) by (apply N.pow_lt_mono_r; lia). lia.
Qed.

Lemma varint_nonempty n : varint n <> EmptyString.
Proof. unfold varint. rewrite varint_fuel_unfold. destruct (n <? 128); discriminate. Qed.

(* ---------- length-delimited ---------- *)
Lemma take_str_app a b : take_str (String.length a) (a ++ b) = Some (a, b).
Proof. induction a as [|c a IH]; cbn; [reflexivity | rewrite IH; reflexivity]. Qed.

Lemma slen_to_nat s : N.to_nat (slen s) = String.length s.
Proof. unfold slen. lia. Qed.

(* ---------- records ---------- *)
Definition valid_wire (w : wire) : Prop :=
  match w with WInt n => n < 2 ^ 64 | WLen s => slen s < 2 ^ 64 end.
Definition valid_record (tw : N * wire) : Prop := 1 <= fst tw /\ fst tw < 2 ^ 60 /\ valid_wire (snd tw).

Lemma key_decode tag wt rest :
  tag < 2 ^ 60 -> wt < 8 ->
  decode_varint VARINT_MAX_BYTES (key tag wt ++ rest) = Some (tag * 8 + wt, rest) /\ (tag * 8 + wt) / 8 = tag /\ (tag * 8 + wt) mod 8 = wt.
Proof.
  intros Ht Hw. unfold key. split.
  - apply varint_roundtrip. assert (tag * 8 + wt < 2 ^ 60 * 8 + 8) by lia. change (2 ^ 64) with (2 ^ 60 * 16). lia.
  - split; lia.
Qed.

Lemma parse_records_step f s :
  s <> EmptyString ->
  parse_records (S f) s =
    match decode_varint VARINT_MAX_BYTES s with
    | None => None
    | Some (k, r) =>
        let tag := k / 8 in let wt := k mod 8 in
        if tag =? 0 then None
        else if wt =? 0 then
          match decode_varint VARINT_MAX_BYTES r with
          | Some (n, r') => match parse_records f r' with Some l => Some ((tag, WInt n) :: l) | None => None end
          | None => None
          end
        else if wt =? 2 then
          match decode_varint VARINT_MAX_BYTES r with
          | Some (len, r') =>
              match take_str (N.to_nat len) r' with
              | Some (body, r'') => match parse_records f r'' with Some l => Some ((tag, WLen body) :: l) | None => None end
              | None => None
              end
          | None => None
          end
        else None
    end.
Proof. destruct s; [congruence | reflexivity]. Qed.

Lemma enc_record_nonempty tw rest : (enc_record tw ++ rest)%string <> EmptyString.
Proof.
  destruct tw as [tag w]. unfold enc_record, len_delim, key. cbn [fst snd].
  destruct w; rewrite ?append_assoc_str; (destruct (varint (tag * 8 + _)) eqn:E; [apply varint_nonempty in E; contradiction | discriminate]).
Qed.

Theorem parse_records_roundtrip rs : forall f,
  (List.length rs <= f)%nat -> Forall valid_record rs -> parse_records f (enc_records rs) = Some rs.
Proof.
  induction rs as [|[tag w] rs IH]; intros f Hf Hv.
  - destruct f; reflexivity.
  - destruct f as [|f]; [cbn in Hf; lia|]. inversion Hv as [|x l Hr Hrest]; subst. destruct Hr as (H1 & H2 & H3). cbn [fst snd] in *.
    unfold enc_records. cbn [map concat_str]. fold (enc_records rs).
    rewrite parse_records_step by apply enc_record_nonempty.
    unfold enc_record. cbn [fst snd]. destruct w as [n|s].
    + rewrite append_assoc_str. destruct (key_decode tag 0 (varint n ++ enc_records rs)%string H2 ltac:(lia)) as (K & Kd & Km).
      rewrite K. cbv zeta. rewrite Kd, Km. assert (E0 : (tag =? 0) = false) by lia. rewrite E0. cbn [N.eqb].
      rewrite varint_roundtrip by exact H3. rewrite IH; [reflexivity | cbn in Hf; lia | exact Hrest].
    + unfold len_delim. rewrite !append_assoc_str. destruct (key_decode tag 2 (varint (slen s) ++ s ++ enc_records rs)%string H2 ltac:(lia)) as (K & Kd & Km).
      rewrite K. cbv zeta. rewrite Kd, Km. assert (E0 : (tag =? 0) = false) by lia. rewrite E0.
      change (2 =? 0) with false. change (2 =? 2) with true. cbv iota.
      rewrite varint_roundtrip by exact H3. rewrite slen_to_nat, take_str_app. rewrite IH; [reflexivity | cbn in Hf; lia | exact Hrest].
Qed.

Lemma records_length_le rs : (List.length rs <= String.length (enc_records rs))%nat.
Proof.
  induction rs as [|tw rs IH]; [cbn; lia|]. unfold enc_records. cbn [map concat_str List.length]. fold (enc_records rs).
  assert (H : (1 <= String.length (enc_record tw))%nat).
  { destruct (enc_record tw) eqn:E; [exfalso; apply (enc_record_nonempty tw EmptyString); rewrite E; reflexivity | cbn; lia]. }
  assert (L : forall a b, String.length (a ++ b)%string = (String.length a + String.length b)%nat).
  { clear. induction a as [|c a IHa]; intros b; cbn; [reflexivity | rewrite IHa; reflexivity]. }
  rewrite L. lia.
Qed.

Theorem parse_roundtrip rs : Forall valid_record rs -> parse (enc_records rs) = Some rs.
Proof. intros H. unfold parse. apply parse_records_roundtrip; [apply records_length_le | exact H]. Qed.

(* ---------- typed values ---------- *)
Definition to_wire (v : fval) : wire :=
  match v with
  | FInt n | FUnknownInt n => WInt n
  | FBytes s | FUnknownLen s => WLen s
  | FMsg m => WLen (encode m)
  | FPacked l => WLen (concat_str (map varint l))
  end.
Definition to_rec (tv : N * fval) : N * wire := (fst tv, to_wire (snd tv)).

Lemma enc_fval_wire tag v : enc_fval tag v = enc_record (tag, to_wire v).
Proof. destruct v; reflexivity. Qed.

Lemma encode_records m : encode m = enc_records (map to_rec m).
Proof.
  unfold encode, enc_records. rewrite map_map. f_equal. apply map_ext. intros [tag v]. apply enc_fval_wire.
Qed.

(* what a value of field [tag] must look like to be a value of message descriptor [d];
   [sub] is the typing of nested messages one level down *)
Definition field_typed (sub : string -> mval -> Prop) (d : msgdesc) (tag : N) (v : fval) : Prop :=
  match lookup_field d tag, v with
  | None, FUnknownInt _ | None, FUnknownLen _ => True
  | Some f, FInt _ => is_varint_kind (fd_kind f) = true
  | Some f, FBytes _ =>
      is_bytes_kind (fd_kind f) = true
      \/ (is_bytes_kind (fd_kind f) = false /\ is_varint_kind (fd_kind f) = false /\ (fd_kind f = KMsg -> ext_ref (fd_ref f) = true))
  | Some f, FPacked l => is_varint_kind (fd_kind f) = true /\ Forall (fun n => n < 2 ^ 64) l
  | Some f, FMsg m => fd_kind f = KMsg /\ ext_ref (fd_ref f) = false /\ sub (fd_ref f) m
  | _, _ => False
  end.

Fixpoint typed (Sc : schema) (depth : nat) (name : string) (m : mval) {struct depth} : Prop :=
  match depth with
  | O => False
  | S dep =>
      exists d, lookup_msg Sc name = Some d /\
        Forall (fun tv => valid_record (to_rec tv) /\ field_typed (typed Sc dep) d (fst tv) (snd tv)) m
  end.

Lemma decode_packed_step f s :
  s <> EmptyString ->
  decode_packed (S f) s = match decode_varint VARINT_MAX_BYTES s with
                          | Some (n, r) => match decode_packed f r with Some l => Some (n :: l) | None => None end
                          | None => None
                          end.
Proof. destruct s; [congruence | reflexivity]. Qed.

Lemma decode_packed_roundtrip l : forall f rest,
  (List.length l <= f)%nat -> Forall (fun n => n < 2 ^ 64) l -> rest = EmptyString ->
  decode_packed f (concat_str (map varint l) ++ rest) = Some l.
Proof.
  induction l as [|n l IH]; intros f rest Hf Hv Hr; subst rest.
  - destruct f; reflexivity.
  - inversion Hv as [|x y Hn Hl]; subst. destruct f as [|f]; [cbn in Hf; lia|].
    cbn [map concat_str]. rewrite append_assoc_str.
    assert (NE : (varint n ++ concat_str (map varint l) ++ "")%string <> EmptyString).
    { destruct (varint n) eqn:E; [apply varint_nonempty in E; contradiction | discriminate]. }
    rewrite (decode_packed_step _ _ NE). rewrite varint_roundtrip by exact Hn.
    rewrite IH; [reflexivity | cbn in Hf; lia | exact Hl | reflexivity].
Qed.

Lemma append_nil_r s : (s ++ "")%string = s.
Proof. induction s as [|c s IH]; cbn; [reflexivity | rewrite IH; reflexivity]. Qed.

Lemma str_length_app a b : String.length (a ++ b)%string = (String.length a + String.length b)%nat.
Proof. induction a as [|c a IH]; cbn; [reflexivity | rewrite IH; reflexivity]. Qed.

Lemma packed_length_le l : (List.length l <= String.length (concat_str (map varint l)))%nat.
Proof.
  induction l as [|n l IH]; [cbn; lia|]. cbn [map concat_str List.length]. rewrite str_length_app.
  assert (1 <= String.length (varint n))%nat by (destruct (varint n) eqn:E; [apply varint_nonempty in E; contradiction | cbn; lia]). lia.
Qed.

Theorem typed_roundtrip Sc : forall depth name m, typed Sc depth name m -> decode Sc depth name (encode m) = Some m.
Proof.
  induction depth as [|dep IH]; intros name m H; [contradiction|].
  destruct H as (d & Hd & Hall). unfold decode. rewrite encode_records.
  rewrite parse_roundtrip.
  2:{ apply Forall_map. eapply Forall_impl; [|exact Hall]. intros tv [Hv _]. exact Hv. }
  cbn [decode_fields]. rewrite Hd. clear Hd.
  induction m as [|[tag v] m IHm]; [reflexivity|].
  inversion Hall as [|x y [Hv Hf] Hrest]; subst. cbn [fst snd] in *.
  cbn [map decode_list to_rec fst snd]. rewrite (IHm Hrest).
  assert (F : decode_field (decode_fields Sc dep) d tag (to_wire v) = Some v).
  { unfold decode_field, field_typed in *. destruct (lookup_field d tag) as [f|].
    - destruct v as [n|s|sub|l|n|s]; cbn [to_wire]; try contradiction.
      + rewrite Hf. reflexivity.
      + destruct Hf as [Hb | (Hb & Hi & Hk)]; rewrite Hb; [reflexivity|]. rewrite Hi.
        destruct (fd_kind f); try reflexivity. rewrite Hk by reflexivity. reflexivity.
      + destruct Hf as (Hk & He & Hs). rewrite Hk. cbn [is_bytes_kind is_varint_kind]. rewrite He.
        pose proof (IH _ _ Hs) as R. unfold decode in R. destruct (parse (encode sub)) as [rs|]; [|discriminate]. rewrite R. reflexivity.
      + destruct Hf as (Hi & Hl). assert (Hb : is_bytes_kind (fd_kind f) = false) by (destruct (fd_kind f); cbn in *; congruence).
        rewrite Hb, Hi. pose proof (decode_packed_roundtrip l (String.length (concat_str (map varint l))) EmptyString (packed_length_le l) Hl eq_refl) as R.
        rewrite append_nil_r in R. rewrite R. reflexivity.
    - destruct v; cbn [to_wire]; try contradiction; reflexivity. }
  rewrite F. reflexivity.
Qed.

(* ---------- a decidable form of [typed], for table checks on the regenerated schema ---------- *)
Definition valid_wireb (w : wire) : bool := match w with WInt n => n <? 2 ^ 64 | WLen s => slen s <? 2 ^ 64 end.
Definition valid_recordb (tw : N * wire) : bool := (1 <=? fst tw) && (fst tw <? 2 ^ 60) && valid_wireb (snd tw).

Definition field_typedb (sub : string -> mval -> bool) (d : msgdesc) (tag : N) (v : fval) : bool :=
  match lookup_field d tag, v with
  | None, FUnknownInt _ | None, FUnknownLen _ => true
  | Some f, FInt _ => is_varint_kind (fd_kind f)
  | Some f, FBytes _ =>
      is_bytes_kind (fd_kind f)
      || (negb (is_varint_kind (fd_kind f)) && (negb (kind_eqb (fd_kind f) KMsg) || ext_ref (fd_ref f)))
  | Some f, FPacked l => is_varint_kind (fd_kind f) && forallb (fun n => n <? 2 ^ 64) l
  | Some f, FMsg m => kind_eqb (fd_kind f) KMsg && negb (ext_ref (fd_ref f)) && sub (fd_ref f) m
  | _, _ => false
  end.

Fixpoint typedb (Sc : schema) (depth : nat) (name : string) (m : mval) {struct depth} : bool :=
  match depth with
  | O => false
  | S dep =>
      match lookup_msg Sc name with
      | None => false
      | Some d => forallb (fun tv => valid_recordb (to_rec tv) && field_typedb (typedb Sc dep) d (fst tv) (snd tv)) m
      end
  end.

Lemma kind_eqb_eq a b : kind_eqb a b = true -> a = b.
Proof. destruct a, b; cbn; congruence. Qed.

Lemma valid_recordb_sound tw : valid_recordb tw = true -> valid_record tw.
Proof.
  unfold valid_recordb, valid_record, valid_wireb, valid_wire. intros H.
  apply andb_true_iff in H. destruct H as [H H3]. apply andb_true_iff in H. destruct H as [H1 H2].
  repeat split; try lia. destruct (snd tw); lia.
Qed.

Theorem typedb_sound Sc : forall depth name m, typedb Sc depth name m = true -> typed Sc depth name m.
Proof.
  induction depth as [|dep IH]; intros name m H; [discriminate|].
  cbn [typedb] in H. destruct (lookup_msg Sc name) as [d|] eqn:L; [|discriminate].
  exists d. split; [exact L|]. rewrite forallb_forall in H. apply Forall_forall. intros [tag v] Hin.
  specialize (H _ Hin). apply andb_true_iff in H. destruct H as [Hv Hf]. split; [apply valid_recordb_sound; exact Hv|].
  cbn [fst snd] in *. unfold field_typedb in Hf. unfold field_typed.
  destruct (lookup_field d tag) as [f|]; destruct v as [n|s|sub|l|n|s]; try discriminate; try exact I.
  - exact Hf.
  - apply orb_true_iff in Hf. destruct Hf as [Hb|Hb]; [left; exact Hb|].
    destruct (is_bytes_kind (fd_kind f)) eqn:B; [left; reflexivity|]. right.
    apply andb_true_iff in Hb. destruct Hb as [Hi Hk]. split; [reflexivity|]. split; [destruct (is_varint_kind (fd_kind f)); [discriminate|reflexivity]|].
    intros K. rewrite K in Hk. cbn in Hk. exact Hk.
  - apply andb_true_iff in Hf. destruct Hf as [Hf Hs]. apply andb_true_iff in Hf. destruct Hf as [Hk He].
    split; [apply kind_eqb_eq; exact Hk|]. split; [destruct (ext_ref (fd_ref f)); [discriminate|reflexivity]|]. apply IH. exact Hs.
  - apply andb_true_iff in Hf. destruct Hf as [Hi Hl]. split; [exact Hi|]. rewrite forallb_forall in Hl. apply Forall_forall. intros n Hn. specialize (Hl _ Hn). lia.
Qed.

(* ---------- Any ---------- *)
Theorem any_roundtrip Sc depth name url m :
  typed Sc depth name m -> from_any Sc depth name url (to_any url (encode m)) = Some m.
Proof. intros H. unfold from_any, to_any. cbn. rewrite String.eqb_refl. apply typed_roundtrip. exact H. Qed.

Theorem any_mismatch Sc depth name url a : any_url a <> url -> from_any Sc depth name url a = None.
Proof. intros H. unfold from_any. destruct (String.eqb_spec (any_url a) url); [contradiction|reflexivity]. Qed.

(* ---------- what the compatibility check means ---------- *)
Lemma lookup_msg_in (S : schema) n d : lookup_msg S n = Some d -> In (n, d) S.
Proof.
  induction S as [|[n' d'] S IH]; cbn; [discriminate|]. destruct (String.eqb_spec n' n); intros H.
  - inversion H; subst. left. reflexivity.
  - right. apply IH. exact H.
Qed.

Definition same_wire (f g : fdesc) : Prop :=
  fd_kind f = fd_kind g /\ fd_name f = fd_name g /\
  match fd_label f, fd_label g with
  | LOneof _, LOneof _ => True
  | LSingular, LOptional | LOptional, LSingular => fd_kind f <> KMsg
  | x, y => x = y
  end.

Lemma label_eqb_eq a b : label_eqb a b = true -> a = b.
Proof. destruct a, b; cbn; try congruence. intros H. f_equal. lia. Qed.

Theorem schema_compat_spec (S R : schema) n d r f g :
  schema_compat S R = true -> In (n, d) S -> lookup_msg R n = Some r ->
  In f d -> lookup_field r (fd_tag f) = Some g -> same_wire f g.
Proof.
  intros HC Hin HR Hf Hg. unfold schema_compat in HC. rewrite forallb_forall in HC. specialize (HC _ Hin). cbn [fst snd] in HC.
  rewrite HR in HC. unfold msg_compat in HC. apply andb_true_iff in HC. destruct HC as [HC _].
  rewrite forallb_forall in HC. specialize (HC _ Hf). rewrite Hg in HC.
  apply andb_true_iff in HC. destruct HC as [HW HN]. unfold wire_compat in HW. apply andb_true_iff in HW. destruct HW as [HK HL].
  unfold same_wire. split; [apply kind_eqb_eq; exact HK|]. split; [apply String.eqb_eq; exact HN|].
  destruct (fd_label f), (fd_label g); try exact I; try (apply label_eqb_eq in HL; exact HL); try discriminate.
  - intros K. rewrite K in HL. discriminate.
  - intros K. rewrite K in HL. discriminate.
Qed.

(* a renumbered field (same name, other tag) is rejected by the check *)
Theorem schema_compat_names (S R : schema) n d r f g :
  schema_compat S R = true -> In (n, d) S -> lookup_msg R n = Some r ->
  In f d -> lookup_name r (fd_name f) = Some g -> fd_tag f = fd_tag g.
Proof.
  intros HC Hin HR Hf Hg. unfold schema_compat in HC. rewrite forallb_forall in HC. specialize (HC _ Hin). cbn [fst snd] in HC.
  rewrite HR in HC. unfold msg_compat in HC. apply andb_true_iff in HC. destruct HC as [_ HC].
  rewrite forallb_forall in HC. specialize (HC _ Hf). rewrite Hg in HC. lia.
Qed.

(* nothing the other description has is lost: every message of R is a message of S, and every field of it is decoded by
   S at the same tag *)
Theorem schema_covers_spec (S R : schema) n r g :
  schema_covers S R = true -> In (n, r) R -> In g r ->
  exists d f, lookup_msg S n = Some d /\ lookup_field d (fd_tag g) = Some f.
Proof.
  intros HC Hin Hg. unfold schema_covers in HC. rewrite forallb_forall in HC. specialize (HC _ Hin). cbn [fst snd] in HC.
  destruct (lookup_msg S n) as [d|] eqn:E; [|discriminate]. unfold msg_covers in HC. rewrite forallb_forall in HC.
  specialize (HC _ Hg). destruct (lookup_field d (fd_tag g)) as [f|] eqn:F; [|discriminate].
  exists d, f. split; [reflexivity | exact F].
Qed.
