(* Codec.v — protobuf wire format and a schema-directed typed codec (only wire types 0 and 2 occur in the
   bindings: no fixed / float / sint fields).  Executable; proofs in Proto/CodecProofs.v. *)
From MW Require Export Base Wire.
Open Scope string_scope.
Open Scope N_scope.

(* ---------- wire level ---------- *)
Fixpoint decode_varint (fuel : nat) (s : string) : option (N * string) :=
  match fuel with
  | O => None
  | S f =>
      match s with
      | EmptyString => None
      | String c r =>
          let b := code c in
          if b <? 128 then Some (b, r)
          else match decode_varint f r with
               | Some (m, r') => Some (b - 128 + 128 * m, r')
               | None => None
               end
      end
  end.
Definition VARINT_MAX_BYTES : nat := 10.

Fixpoint take_str (n : nat) (s : string) : option (string * string) :=
  match n with
  | O => Some (EmptyString, s)
  | S k => match s with
           | EmptyString => None
           | String c r => match take_str k r with Some (a, b) => Some (String c a, b) | None => None end
           end
  end.

Inductive wire := WInt (n : N) | WLen (s : string).

Definition enc_record (tw : N * wire) : string :=
  match snd tw with
  | WInt n => key (fst tw) 0 ++ varint n
  | WLen s => len_delim (fst tw) s
  end.
Definition enc_records (rs : list (N * wire)) : string := concat_str (map enc_record rs).

(* one record per step; every record consumes at least one byte, so the input length is enough fuel *)
Fixpoint parse_records (fuel : nat) (s : string) : option (list (N * wire)) :=
  match s with
  | EmptyString => Some []
  | _ =>
      match fuel with
      | O => None
      | S f =>
          match decode_varint VARINT_MAX_BYTES s with
          | None => None
          | Some (k, r) =>
              let tag := k / 8 in
              let wt := k mod 8 in
              if tag =? 0 then None
              else if wt =? 0 then
                match decode_varint VARINT_MAX_BYTES r with
                | Some (n, r') => match parse_records f r' with Some l => Some ((tag, WInt n) :: l) | None => None end
                | None => None
                end
              else if wt =? 2 then
                match decode_varint VARINT_MAX_BYTES r with
                | Some (len, r') =>
                    match take_str (N.to_nat len) r' with
                    | Some (body, r'') => match parse_records f r'' with Some l => Some ((tag, WLen body) :: l) | None => None end
                    | None => None
                    end
                | None => None
                end
              else None
          end
      end
  end.
Definition parse (s : string) : option (list (N * wire)) := parse_records (String.length s) s.

(* ---------- schema ---------- *)
Inductive kind := KString | KBytes | KBool | KInt32 | KInt64 | KUint32 | KUint64 | KEnum | KMsg | KMapMsg | KMapU64.
Inductive label := LSingular | LOptional | LRepeated | LPacked | LOneof (group : N).
Record fdesc := { fd_tag : N; fd_name : string; fd_kind : kind; fd_label : label; fd_ref : string }.
Definition msgdesc := list fdesc.
Definition schema := list (string * msgdesc).

Definition kind_eqb (a b : kind) : bool :=
  match a, b with
  | KString, KString | KBytes, KBytes | KBool, KBool | KInt32, KInt32 | KInt64, KInt64 | KUint32, KUint32
  | KUint64, KUint64 | KEnum, KEnum | KMsg, KMsg | KMapMsg, KMapMsg | KMapU64, KMapU64 => true
  | _, _ => false
  end.
Definition label_eqb (a b : label) : bool :=
  match a, b with
  | LSingular, LSingular | LOptional, LOptional | LRepeated, LRepeated | LPacked, LPacked => true
  | LOneof x, LOneof y => x =? y
  | _, _ => false
  end.
Definition fdesc_eqb (a b : fdesc) : bool :=
  (fd_tag a =? fd_tag b) && String.eqb (fd_name a) (fd_name b) && kind_eqb (fd_kind a) (fd_kind b) && label_eqb (fd_label a) (fd_label b) && String.eqb (fd_ref a) (fd_ref b).

Fixpoint lookup_msg (S : schema) (name : string) : option msgdesc :=
  match S with
  | [] => None
  | (n, d) :: r => if String.eqb n name then Some d else lookup_msg r name
  end.
Fixpoint lookup_field (d : msgdesc) (tag : N) : option fdesc :=
  match d with
  | [] => None
  | f :: r => if fd_tag f =? tag then Some f else lookup_field r tag
  end.

Definition is_varint_kind (k : kind) : bool :=
  match k with KBool | KInt32 | KInt64 | KUint32 | KUint64 | KEnum => true | _ => false end.
Definition is_bytes_kind (k : kind) : bool := match k with KString | KBytes => true | _ => false end.

(* ---------- typed values ---------- *)
(* a message value is the list of its present fields in emission order; a repeated (unpacked) field is several
   entries with the same tag; a packed field is one entry; unknown (skipped) fields are kept as raw records *)
Inductive fval :=
| FInt (n : N)
| FBytes (s : string)
| FMsg (m : list (N * fval))
| FPacked (l : list N)
| FUnknownInt (n : N)
| FUnknownLen (s : string).
Definition mval := list (N * fval).

Fixpoint enc_fval (tag : N) (v : fval) : string :=
  match v with
  | FInt n | FUnknownInt n => key tag 0 ++ varint n
  | FBytes s | FUnknownLen s => len_delim tag s
  | FMsg m => len_delim tag (concat_str (map (fun tv => enc_fval (fst tv) (snd tv)) m))
  | FPacked l => len_delim tag (concat_str (map varint l))
  end.
Definition encode (m : mval) : string := concat_str (map (fun tv => enc_fval (fst tv) (snd tv)) m).

Fixpoint decode_packed (fuel : nat) (s : string) : option (list N) :=
  match s with
  | EmptyString => Some []
  | _ => match fuel with
         | O => None
         | S f => match decode_varint VARINT_MAX_BYTES s with
                  | Some (n, r) => match decode_packed f r with Some l => Some (n :: l) | None => None end
                  | None => None
                  end
         end
  end.

(* external / unresolved message references (google.protobuf, tendermint) are kept as opaque bytes *)
Definition ext_ref (r : string) : bool := starts_with "ext:" r || starts_with "google.protobuf." r.

(* one record against the descriptor; [rec] decodes a nested message of the named type *)
Definition decode_field (rec : string -> list (N * wire) -> option mval) (d : msgdesc) (tag : N) (w : wire) : option fval :=
  match lookup_field d tag, w with
  | None, WInt n => Some (FUnknownInt n)
  | None, WLen s => Some (FUnknownLen s)
  | Some f, WInt n => if is_varint_kind (fd_kind f) then Some (FInt n) else None
  | Some f, WLen s =>
      if is_bytes_kind (fd_kind f) then Some (FBytes s)
      else if is_varint_kind (fd_kind f) then
        match decode_packed (String.length s) s with Some l => Some (FPacked l) | None => None end
      else match fd_kind f with
           | KMsg =>
               if ext_ref (fd_ref f) then Some (FBytes s)
               else match parse s with
                    | Some sub => match rec (fd_ref f) sub with Some m => Some (FMsg m) | None => None end
                    | None => None
                    end
           | _ => Some (FBytes s)      (* map entries are kept as opaque entry messages *)
           end
  end.
Fixpoint decode_list (rec : string -> list (N * wire) -> option mval) (d : msgdesc) (rs : list (N * wire)) : option mval :=
  match rs with
  | [] => Some []
  | (tag, w) :: rest =>
      match decode_field rec d tag w, decode_list rec d rest with
      | Some x, Some l => Some ((tag, x) :: l)
      | _, _ => None
      end
  end.
Fixpoint decode_fields (Sc : schema) (depth : nat) (name : string) (rs : list (N * wire)) {struct depth} : option mval :=
  match depth with
  | O => None
  | S dep =>
      match lookup_msg Sc name with
      | None => None
      | Some d => decode_list (decode_fields Sc dep) d rs
      end
  end.

Definition decode (Sc : schema) (depth : nat) (name : string) (s : string) : option mval :=
  match parse s with
  | Some rs => decode_fields Sc depth name rs
  | None => None
  end.

(* ---------- table checks (run by vm_compute on the regenerated tables) ---------- *)
Fixpoint nodup_N (l : list N) : bool := match l with [] => true | x :: r => negb (existsb (N.eqb x) r) && nodup_N r end.
Definition ref_ok (S : schema) (f : fdesc) : bool :=
  match fd_kind f with
  | KMsg | KMapMsg => ext_ref (fd_ref f) || match lookup_msg S (fd_ref f) with Some _ => true | None => false end
  | _ => true
  end.
Definition msg_wf (S : schema) (d : msgdesc) : bool :=
  nodup_N (map fd_tag d) && forallb (fun f => (1 <=? fd_tag f) && (fd_tag f <? 536870912) && ref_ok S f) d.
Fixpoint nodup_strs (l : list string) : bool := match l with [] => true | x :: r => negb (existsb (String.eqb x) r) && nodup_strs r end.
Definition schema_wf (S : schema) : bool := nodup_strs (map fst S) && forallb (fun nd => msg_wf S (snd nd)) S.

(* two descriptions of one field agree on the wire: same kind class and cardinality *)
Definition wire_compat (a b : fdesc) : bool :=
  kind_eqb (fd_kind a) (fd_kind b)
  && match fd_label a, fd_label b with
     | LOneof _, LOneof _ => true
     (* explicit vs implicit presence of a scalar: same bytes for every non-default value *)
     | LSingular, LOptional | LOptional, LSingular => negb (kind_eqb (fd_kind a) KMsg)
     | x, y => label_eqb x y
     end.
Fixpoint lookup_name (d : msgdesc) (name : string) : option fdesc :=
  match d with
  | [] => None
  | f :: r => if String.eqb (fd_name f) name then Some f else lookup_name r name
  end.
(* every tag present in both descriptions of a shared message is the same field, described compatibly, and every
   field name present in both has the same tag (so a renumbered field is a mismatch, not a new field) *)
Definition msg_compat (d r : msgdesc) : bool :=
  forallb (fun f => match lookup_field r (fd_tag f) with Some g => wire_compat f g && String.eqb (fd_name f) (fd_name g) | None => true end) d
  && forallb (fun f => match lookup_name r (fd_name f) with Some g => fd_tag f =? fd_tag g | None => true end) d.
Definition schema_compat (S R : schema) : bool :=
  forallb (fun nd => match lookup_msg R (fst nd) with Some r => msg_compat (snd nd) r | None => true end) S.
(* every field of R's description of a message is still decoded by S (same tag present): nothing R describes is lost *)
Definition msg_covers (d r : msgdesc) : bool :=
  forallb (fun g => match lookup_field d (fd_tag g) with Some _ => true | None => false end) r.
Definition schema_covers (S R : schema) : bool :=
  forallb (fun nr => match lookup_msg S (fst nr) with Some d => msg_covers d (snd nr) | None => false end) R.
Definition schema_eqb (A B : schema) : bool :=
  (N.of_nat (List.length A) =? N.of_nat (List.length B))
  && forallb (fun nd => match lookup_msg B (fst nd) with
                        | Some d => (N.of_nat (List.length d) =? N.of_nat (List.length (snd nd))) && forallb (fun f => match lookup_field d (fd_tag f) with Some g => fdesc_eqb f g | None => false end) (snd nd)
                        | None => false
                        end) A.
