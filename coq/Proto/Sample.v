(* Sample.v — deterministic instance generator over a schema (drives the correspondence with prost), and the Any model. *)
From MW.Proto Require Import Codec.
Open Scope N_scope.

Definition mix (a b c : N) : N := ((a * 2654435761 + b * 40503 + c * 977 + 12345) * 2246822519 / 8192) mod 4294967296.

Definition sample_int (k : kind) (r : N) : N :=
  match k with
  | KBool => 1
  | KInt32 => if r mod 5 =? 0 then 18446744073709551616 - 1 - r mod 2147483648 else 1 + r mod 2147483647
  | KUint32 => 1 + r mod 4294967295
  | KInt64 => if r mod 5 =? 0 then 18446744073709551616 - 1 - r mod 100000 else 1 + (r * r * 2147483629) mod 9223372036854775807
  | KUint64 => 1 + (r * r * 4294967291) mod 18446744073709551615
  | _ => 1 + r mod 3
  end.
Definition sample_str (r : N) : string := ("s" ++ N_to_string (r mod 1000))%string.

Definition oneof_group (f : fdesc) : option N := match fd_label f with LOneof g => Some g | _ => None end.
Definition same_group (g : N) (f : fdesc) : bool := match fd_label f with LOneof h => g =? h | _ => false end.

Definition repeatN {A} (n : nat) (f : N -> A) : list A := map (fun i => f (N.of_nat i)) (seq 0 n).

(* values of one field, given the generator for nested messages *)
Definition sample_field (rec : N -> string -> mval) (seed : N) (f : fdesc) : list (N * fval) :=
  let tag := fd_tag f in
  let r := mix seed tag 0 in
  let one (i : N) : fval :=
    let ri := mix seed tag (i + 1) in
    match fd_kind f with
    | KString | KBytes => FBytes (sample_str ri)
    | KMsg => if ext_ref (fd_ref f) then FBytes EmptyString else FMsg (rec ri (fd_ref f))
    | KMapU64 => FBytes (encode [(1, FBytes (sample_str ri)); (2, FInt (sample_int KUint64 ri))])
    | KMapMsg =>
        (* prost omits a map value equal to the default message *)
        let v := if ext_ref (fd_ref f) then [] else rec ri (fd_ref f) in
        FBytes (encode ((1, FBytes (sample_str ri)) :: match v with [] => [] | _ => [(2, FMsg v)] end))
    | k => FInt (sample_int k ri)
    end in
  match fd_label f with
  | LSingular =>
      match fd_kind f with
      | KMsg => if r mod 4 =? 0 then [] else [(tag, one 0)]
      | _ => if r mod 7 =? 0 then [] else [(tag, one 0)]        (* absent = default value *)
      end
  | LOptional | LOneof _ => if r mod 4 =? 0 then [] else [(tag, one 0)]
  | LRepeated =>
      match fd_kind f with
      | KMapU64 | KMapMsg => if r mod 2 =? 0 then [] else [(tag, one 0)]     (* one entry: map order is not part of the contract *)
      | _ => repeatN (N.to_nat (r mod 3)) (fun i => (tag, one i))
      end
  | LPacked =>
      let n := N.to_nat (r mod 4) in
      match n with O => [] | _ => [(tag, FPacked (repeatN n (fun i => sample_int (fd_kind f) (mix seed tag (i + 1)))))] end
  end.

(* fields in tag order; a oneof contributes its chosen member at the position of its smallest tag *)
Fixpoint sample_fields (rec : N -> string -> mval) (seed : N) (all rest : msgdesc) (seen : list N) : mval :=
  match rest with
  | [] => []
  | f :: tl =>
      match oneof_group f with
      | None => (sample_field rec seed f ++ sample_fields rec seed all tl seen)%list
      | Some g =>
          if existsb (N.eqb g) seen then sample_fields rec seed all tl seen
          else
            let members := filter (same_group g) all in
            let pick := nth (N.to_nat (mix seed g 99 mod N.of_nat (List.length members))) members f in
            (sample_field rec seed pick ++ sample_fields rec seed all tl (g :: seen))%list
      end
  end.

Fixpoint sample (Sc : schema) (depth : nat) (seed : N) (name : string) {struct depth} : mval :=
  match depth with
  | O => []
  | S dep =>
      match lookup_msg Sc name with
      | None => []
      | Some d => sample_fields (fun s n => sample Sc dep s n) seed d d []
      end
  end.

(* decode then re-encode: what a binding does with received bytes *)
Definition recode (Sc : schema) (depth : nat) (name : string) (bytes : string) : option string :=
  match decode Sc depth name bytes with Some m => Some (encode m) | None => None end.

(* ---------- Any ---------- *)
Record any := { any_url : string; any_value : string }.
Definition to_any (url : string) (bytes : string) : any := {| any_url := url; any_value := bytes |}.
Definition from_any (Sc : schema) (depth : nat) (name url : string) (a : any) : option mval :=
  if String.eqb (any_url a) url then decode Sc depth name (any_value a) else None.
Definition canonical_url (fq : string) : string := ("/" ++ fq)%string.
