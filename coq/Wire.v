(* Wire.v — abstract messages emitted by the contracts and their exact rendering as
   (type_url, protobuf bytes), as prost 0.12 / osmosis-std 0.25 produce them. Bytes are Coq strings. *)
From MW Require Export Base.
Open Scope string_scope.
Open Scope N_scope.

(* ---------- protobuf wire primitives ---------- *)
Fixpoint varint_fuel (fuel : nat) (n : N) : string :=
  match fuel with
  | O => EmptyString
  | S f => if n <? 128 then String (ascii_of_N n) EmptyString
           else String (ascii_of_N (n mod 128 + 128)) (varint_fuel f (n / 128))
  end.
Definition varint (n : N) : string := varint_fuel (S (N.size_nat n)) n.

Definition key (tag wt : N) : string := varint (tag * 8 + wt).
Definition len_delim (tag : N) (body : string) : string :=
  key tag 2 ++ varint (slen body) ++ body.
(* proto3 scalar fields: default values are not emitted *)
Definition f_string (tag : N) (s : string) : string :=
  match s with EmptyString => EmptyString | _ => len_delim tag s end.
Definition f_uint (tag : N) (v : N) : string :=
  if v =? 0 then EmptyString else key tag 0 ++ varint v.
(* message fields: emitted whenever present (optional Some / each repeated element) *)
Definition f_msg (tag : N) (body : string) : string := len_delim tag body.
Fixpoint concat_str (l : list string) : string :=
  match l with [] => EmptyString | x :: r => x ++ concat_str r end.

(* ---------- abstract messages ---------- *)
Record coin := { c_denom : string; c_amount : N }.
Record hop := { h_pool : N; h_in : string; h_out : string }.

Inductive backend := Osmosis | Miniwasm.

Inductive amsg :=
| ABankSend (to : string) (c : coin)                      (* cosmwasm BankMsg::Send, one coin *)
| ASend (from to : string) (c : coin)                     (* cosmos.bank.v1beta1.MsgSend via stargate *)
| ACreateDenom (sender sub : string)
| AMint (sender : string) (c : coin) (mint_to : string)
| ABurn (sender : string) (c : coin) (burn_from : string)
| ATransfer (channel receiver : string) (c : coin) (sender : string) (timeout_ns : N) (memo : string)
| AOracle (sender contract : string) (denom purchase redemption : string)
| ASwapIn (sender : string) (routes : list hop) (token_in : coin) (min_out : N)
| ASwapOut (sender : string) (routes : list hop) (token_out : coin) (max_in : N).

Record submsg := { sm_id : N; sm_msg : amsg; sm_reply : bool }.
Definition plain (m : amsg) : submsg := {| sm_id := 0; sm_msg := m; sm_reply := false |}.
Definition response := list submsg.

(* ---------- rendering ---------- *)
Definition enc_coin (c : coin) : string :=
  f_string 1 (c_denom c) ++ f_string 2 (N_to_string (c_amount c)).

Definition oracle_json (denom purchase redemption : string) : string :=
  "{""post_rates"":{""denom"":""" ++ denom ++ """,""purchase_rate"":""" ++ purchase
  ++ """,""redemption_rate"":""" ++ redemption ++ """}}".

Definition ibc_memo (self : string) : string := "{""ibc_callback"":""" ++ self ++ """}".

Inductive cmsg :=
| CBank (to : string) (c : coin)
| CStargate (type_url : string) (value : string).

Definition tf_pkg (b : backend) : string :=
  match b with Osmosis => "/osmosis.tokenfactory.v1beta1." | Miniwasm => "/miniwasm.tokenfactory.v1." end.

Definition render (b : backend) (m : amsg) : cmsg :=
  match m with
  | ABankSend to c => CBank to c
  | ASend from to c =>
      CStargate "/cosmos.bank.v1beta1.MsgSend"
        (f_string 1 from ++ f_string 2 to ++ f_msg 3 (enc_coin c))
  | ACreateDenom sender sub =>
      CStargate (tf_pkg b ++ "MsgCreateDenom") (f_string 1 sender ++ f_string 2 sub)
  | AMint sender c mint_to =>
      CStargate (tf_pkg b ++ "MsgMint")
        (f_string 1 sender ++ f_msg 2 (enc_coin c) ++ f_string 3 mint_to)
  | ABurn sender c burn_from =>
      CStargate (tf_pkg b ++ "MsgBurn")
        (f_string 1 sender ++ f_msg 2 (enc_coin c)
         ++ match b with Osmosis => f_string 3 burn_from | Miniwasm => EmptyString end)
  | ATransfer channel receiver c sender timeout memo =>
      CStargate "/ibc.applications.transfer.v1.MsgTransfer"
        (f_string 1 "transfer" ++ f_string 2 channel ++ f_msg 3 (enc_coin c) ++ f_string 4 sender
         ++ f_string 5 receiver ++ f_uint 7 timeout ++ f_string 8 memo)
  | AOracle sender contract denom p r =>
      CStargate "/cosmwasm.wasm.v1.MsgExecuteContract"
        (f_string 1 sender ++ f_string 2 contract ++ f_string 3 (oracle_json denom p r))
  | ASwapIn sender routes tin min_out =>
      CStargate "/osmosis.poolmanager.v1beta1.MsgSwapExactAmountIn"
        (f_string 1 sender
         ++ concat_str (map (fun h => f_msg 2 (f_uint 1 (h_pool h) ++ f_string 2 (h_out h))) routes)
         ++ f_msg 3 (enc_coin tin) ++ f_string 4 (N_to_string min_out))
  | ASwapOut sender routes tout max_in =>
      CStargate "/osmosis.poolmanager.v1beta1.MsgSwapExactAmountOut"
        (f_string 1 sender
         ++ concat_str (map (fun h => f_msg 2 (f_uint 1 (h_pool h) ++ f_string 2 (h_in h))) routes)
         ++ f_string 3 (N_to_string max_in) ++ f_msg 4 (enc_coin tout))
  end.
