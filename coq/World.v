(* World.v — the contract inside a chain: outbound IBC packets, their relay, and the transaction boundary.
   The chain semantics here are ASSUMED (DESIGN.md section 3 / 11.3): a transaction is atomic; every IBC transfer the
   contract emits is a sub-message with reply-on-success; the chain assigns the next sequence number, escrows the coin,
   and calls reply; a later acknowledgement / timeout reaches the contract through sudo; a refused transfer or a failing
   reply aborts the whole transaction. *)
From MW Require Import Base Wire Staking.
Open Scope N_scope.

Inductive pstate := Flight | Delivered | RefundedAck | RefundedTimeout.
(* [wp_tracked] is a ghost flag: the contract still carries a record of this packet *)
Record wpacket := { wp_seq : N; wp_channel : string; wp_receiver : string; wp_coin : coin; wp_state : pstate; wp_tracked : bool }.
Record world := { w_store : store; w_packets : list wpacket; w_next : N }.

Inductive outcome := OAckOk | OAckErr | OTimeout.

Inductive wevent :=
| WExec (e : env) (i : info) (m : execute_msg)     (* a transaction calling execute; all of its transfers are accepted *)
| WExecRefused (e : env) (i : info) (m : execute_msg)  (* the same, but the chain refuses one of its messages: rolled back *)
| WRelay (seq : N) (o : outcome)                    (* the relayer settles a packet that is in flight *)
| WStray (m : sudo_msg).                            (* a callback for a packet of another channel / an unknown sequence *)

Definition set_pkt_state (seq : N) (st : pstate) (tr : bool) (pk : list wpacket) : list wpacket :=
  map (fun p => if wp_seq p =? seq
                then {| wp_seq := wp_seq p; wp_channel := wp_channel p; wp_receiver := wp_receiver p; wp_coin := wp_coin p;
                        wp_state := st; wp_tracked := tr |}
                else p) pk.
Definition untrack (seqs : list N) (pk : list wpacket) : list wpacket :=
  map (fun p => if existsb (N.eqb (wp_seq p)) seqs
                then {| wp_seq := wp_seq p; wp_channel := wp_channel p; wp_receiver := wp_receiver p; wp_coin := wp_coin p;
                        wp_state := wp_state p; wp_tracked := false |}
                else p) pk.
Definition find_pkt (seq : N) (pk : list wpacket) : option wpacket := find (fun p => wp_seq p =? seq) pk.

Section World.
  Variable va : string -> string -> bool.
  Variable dv : string -> string -> string -> option string.
  Variable av : string -> bool.
  Notation execute := (execute va dv av).

  (* the chain executes the sub-messages of a response in order; only transfers matter to this model *)
  Fixpoint dispatch (s : store) (pk : list wpacket) (next : N) (r : response) : option (store * list wpacket * N) :=
    match r with
    | [] => Some (s, pk, next)
    | sm :: rest =>
        match sm_msg sm with
        | ATransfer ch rcv c _ _ _ =>
            if sm_reply sm then
              match reply s (sm_id sm) (ROk next) with
              | Ok (s', _) =>
                  dispatch s' (pk ++ [{| wp_seq := next; wp_channel := ch; wp_receiver := rcv; wp_coin := c;
                                         wp_state := Flight; wp_tracked := true |}])%list (next + 1) rest
              | _ => None
              end
            else dispatch s pk next rest
        | _ => dispatch s pk next rest
        end
    end.

  (* sequence numbers of the records a recovery removes *)
  Definition removed_seqs (s s' : store) : list N :=
    filter (fun k => match nfind k (inflight s') with None => true | Some _ => false end) (nkeys (inflight s)).

  Definition wstep (w : world) (ev : wevent) : world :=
    match ev with
    | WExec e i m =>
        match execute (w_store w) e i m with
        | Ok (s', r) =>
            match dispatch s' (untrack (removed_seqs (w_store w) s') (w_packets w)) (w_next w) r with
            | Some (s'', pk, nx) => {| w_store := s''; w_packets := pk; w_next := nx |}
            | None => w
            end
        | _ => w
        end
    | WExecRefused _ _ _ => w
    | WRelay seq o =>
        match find_pkt seq (w_packets w) with
        | Some p =>
            match wp_state p with
            | Flight =>
                let m := match o with
                         | OAckOk => SAck (wp_channel p) seq true
                         | OAckErr => SAck (wp_channel p) seq false
                         | OTimeout => STimeout (wp_channel p) seq
                         end in
                let st := match o with OAckOk => Delivered | OAckErr => RefundedAck | OTimeout => RefundedTimeout end in
                let tr := match o with OAckOk => false | _ => wp_tracked p end in
                match sudo (w_store w) m with
                | Ok (s', _) => {| w_store := s'; w_packets := set_pkt_state seq st tr (w_packets w); w_next := w_next w |}
                | _ => w
                end
            | _ => w
            end
        | None => w
        end
    | WStray m =>
        let hits := match m with
                    | SAck ch seq _ | STimeout ch seq =>
                        String.eqb ch (pc_channel (protocol (cfg (w_store w))))
                        && match nfind seq (inflight (w_store w)) with Some _ => true | None => false end
                    end in
        if hits then w      (* not stray: such a callback is delivered by WRelay only *)
        else match sudo (w_store w) m with
             | Ok (s', _) => {| w_store := s'; w_packets := w_packets w; w_next := w_next w |}
             | _ => w
             end
    end.

  Definition wrun (w0 : world) (evs : list wevent) : world := fold_left wstep evs w0.
  Definition world0 (s : store) : world := {| w_store := s; w_packets := []; w_next := 1 |}.
End World.
