(* Extract.v — extraction of the executable model to OCaml (ExtrOcamlBasic directives only). *)
From Coq Require Import Extraction ExtrOcamlBasic.
From MW Require Import Concrete.
Extraction Language OCaml.
Extraction "mwm.ml"
  c_instantiate c_legacy_uncounted c_execute c_reply c_sudo c_query c_tinstantiate c_texecute c_tquery tmigrate c_migrate c_render
  compute_mint compute_unbond get_rates validate_address_prefix validate_denom validate_ibc_denom
  valid_channel valid_addr derive sha256 b32_decode b32_encode to_base32 api_valid
  dec_to_string N_to_string str_bytes bytes_str nfind.
