(* Validation.v — only well-formed configuration is accepted; updates are sectional (C14). *)
From MW Require Import Staking Crypto.
From MW.Proofs Require Import Tactics Handlers.
Open Scope N_scope.

(* ---------- strings ---------- *)
Lemma strip_prefix_app p s r : strip_prefix p s = Some r -> s = (p ++ r)%string.
Proof.
  revert s. induction p as [|a p IH]; intros s; cbn.
  - intros H; injection H as <-. reflexivity.
  - destruct s as [|b s]; [discriminate|]. destruct (Ascii.eqb a b) eqn:E; [|discriminate].
    apply Ascii.eqb_eq in E. subst. intros H. apply IH in H. subst. reflexivity.
Qed.
Lemma str_forall_spec f s : str_forall f s = true -> forall c, In c (list_ascii_of_string s) -> f c = true.
Proof.
  induction s as [|a s IH]; cbn; [intros _ c []|]. intros H c [<-|Hc]; apply andb_true_iff in H as [H1 H2]; [exact H1 | apply IH; assumption].
Qed.
Lemma str_exists_false f s : str_exists f s = false -> forall c, In c (list_ascii_of_string s) -> f c = false.
Proof.
  induction s as [|a s IH]; cbn; [intros _ c []|]. intros H c [<-|Hc]; apply orb_false_iff in H as [H1 H2]; [exact H1 | apply IH; assumption].
Qed.
Lemma str_map_id f s : (forall c, In c (list_ascii_of_string s) -> f c = c) -> str_map f s = s.
Proof.
  induction s as [|a s IH]; cbn; [reflexivity|]. intros H. rewrite (H a (or_introl eq_refl)), IH; [reflexivity|].
  intros c Hc. apply H. right. exact Hc.
Qed.
Lemma lowercase_no_upper s : str_exists is_upper s = false -> lowercase s = s.
Proof.
  intros H. apply str_map_id. intros c Hc. unfold to_lower. rewrite (str_exists_false _ _ H c Hc). reflexivity.
Qed.
Lemma slen_str_map f s : slen (str_map f s) = slen s.
Proof. unfold slen. f_equal. induction s as [|a s IH]; cbn; [reflexivity | rewrite IH; reflexivity]. Qed.

Lemma code_ascii_of_N n : n < 256 -> code (ascii_of_N n) = n.
Proof. intros H. unfold code. apply N_ascii_embedding. exact H. Qed.
Lemma to_lower_not_upper c : is_upper (to_lower c) = false.
Proof.
  unfold to_lower. destruct (is_upper c) eqn:E; [| exact E].
  unfold is_upper in *. apply andb_true_iff in E as [E1 E2].
  assert (Hc : code c + 32 < 256) by lia.
  rewrite (code_ascii_of_N _ Hc). lia.
Qed.
Lemma lowercase_has_no_upper s : str_exists is_upper (lowercase s) = false.
Proof. unfold lowercase. induction s as [|a s IH]; cbn; [reflexivity|]. rewrite to_lower_not_upper, IH. reflexivity. Qed.

(* ---------- prefixes ---------- *)
Definition wf_prefix (p : string) : Prop :=
  1 <= slen p <= 83 /\ str_forall valid_hrp_char p = true /\ str_exists is_upper p = false.

Lemma to_lower_valid c : valid_hrp_char c = true -> valid_hrp_char (to_lower c) = true.
Proof.
  unfold to_lower. destruct (is_upper c) eqn:E; [| tauto]. intros _.
  unfold is_upper in E. apply andb_true_iff in E as [E1 E2]. unfold valid_hrp_char.
  assert (Hc : code c + 32 < 256) by lia. rewrite (code_ascii_of_N _ Hc). lia.
Qed.
Lemma str_forall_map f g s : (forall c, f c = true -> f (g c) = true) -> str_forall f s = true -> str_forall f (str_map g s) = true.
Proof.
  intros H. induction s as [|a s IH]; cbn; [tauto|]. intros Hs. apply andb_true_iff in Hs as [H1 H2].
  rewrite (H a H1), (IH H2). reflexivity.
Qed.

(* an accepted prefix is a valid BIP-173 human-readable part, and what is stored is its lower-casing *)
Theorem prefix_ok h p :
  validate_address_prefix h = Some p ->
  1 <= slen h <= 83 /\ str_forall valid_hrp_char h = true
  /\ (str_exists is_lower h && str_exists is_upper h = false)
  /\ p = lowercase h /\ wf_prefix p.
Proof.
  unfold validate_address_prefix.
  destruct ((slen h =? 0) || (83 <? slen h)) eqn:E1; [discriminate|].
  destruct (negb (str_forall valid_hrp_char h)) eqn:E2; [discriminate|].
  destruct (str_exists is_lower h && str_exists is_upper h) eqn:E3; [discriminate|].
  apply orb_false_iff in E1 as [A B]. apply negb_false_iff in E2.
  destruct (str_exists is_upper h) eqn:E4; intros H; injection H as <-.
  - repeat split; try lia; try assumption.
    + unfold lowercase. rewrite slen_str_map. lia.
    + unfold lowercase. rewrite slen_str_map. lia.
    + apply str_forall_map; [exact to_lower_valid | exact E2].
    + apply lowercase_has_no_upper.
  - rewrite (lowercase_no_upper h E4). repeat split; try lia; assumption.
Qed.
Lemma wf_prefix_fixpoint p : wf_prefix p -> validate_address_prefix p = Some p.
Proof.
  intros (Hl & Hc & Hu). unfold validate_address_prefix.
  assert (E1 : (slen p =? 0) || (83 <? slen p) = false) by lia. rewrite E1, Hc, Hu. cbn.
  rewrite andb_false_r. reflexivity.
Qed.

(* ---------- addresses (with the Crypto instance of validate_address) ---------- *)
Lemma check_hrp_result h cs :
  check_hrp h = Some cs -> str_exists is_upper (match cs with CUpper => lowercase h | _ => h end) = false.
Proof.
  unfold check_hrp. destruct ((slen h =? 0) || (83 <? slen h)); [discriminate|].
  destruct (negb _); [discriminate|].
  destruct (str_exists is_lower h && str_exists is_upper h) eqn:E; [discriminate|].
  destruct (str_exists is_upper h) eqn:U; intros H; injection H as <-.
  - apply lowercase_has_no_upper.
  - destruct (str_exists is_lower h); exact U.
Qed.

(* a valid address decodes, checksum included, to exactly the prefix; that prefix has no upper-case letter *)
Theorem address_ok a p :
  valid_addr a p = true ->
  (exists d c, b32_decode a = Some (p, d, c) /\ (c = BECH32_CONST \/ c = BECH32M_CONST))
  /\ str_exists is_upper p = false.
Proof.
  unfold valid_addr. destruct (b32_decode a) as [[[h d] c]|] eqn:E; [|discriminate].
  intros H. apply String.eqb_eq in H. subst h. split.
  - exists d, c. split; [reflexivity|]. unfold b32_decode in E.
    destruct (rfind_sep a 0 None); [|discriminate]. destruct (check_hrp _); [|discriminate].
    destruct (decode_data _ _ _); [|discriminate]. destruct (_ <? 6); [discriminate|].
    match type of E with (if ?x || ?y then _ else _) = _ => destruct x eqn:X, y eqn:Y; cbn in E; try discriminate end;
      injection E as _ _ <-; lia.
  - unfold b32_decode in E. destruct (rfind_sep a 0 None); [|discriminate].
    destruct (check_hrp _) as [cs|] eqn:C; [|discriminate]. apply check_hrp_result in C.
    destruct (decode_data _ _ _); [|discriminate]. destruct (_ <? 6); [discriminate|].
    destruct (_ || _); [|discriminate]. injection E as <- _ _. exact C.
Qed.

Lemma validate_addresses_spec va l p seen :
  validate_addresses va l p seen = true ->
  (forall a, In a l -> va a p = true /\ ~ In a seen) /\ NoDup l.
Proof.
  revert seen. induction l as [|a l IH]; cbn; intros seen H; [split; [intros ? [] | constructor]|].
  apply andb_true_iff in H as [H H3]. apply andb_true_iff in H as [H1 H2]. apply negb_true_iff in H2.
  destruct (IH _ H3) as [Hall Hnd]. split.
  - intros b [<-|Hb].
    + split; [exact H1|]. intros Hin. clear - H2 Hin. induction seen as [|x seen IHs]; [contradiction|].
      cbn in H2. apply orb_false_iff in H2 as [E1 E2]. destruct Hin as [->|Hin]; [rewrite String.eqb_refl in E1; discriminate | tauto].
    + destruct (Hall b Hb) as [Hv Hns]. split; [exact Hv|]. intros Hin. apply Hns. right. exact Hin.
  - constructor; [| exact Hnd]. intros Hin. destruct (Hall a Hin) as [_ Hns]. apply Hns. left. reflexivity.
Qed.

(* ---------- channel / denoms ---------- *)
Theorem channel_ok c :
  valid_channel c = true ->
  exists ds, c = ("channel-" ++ ds)%string /\ ds <> EmptyString /\ str_forall is_digit ds = true /\ digits_value ds 0 <= u64_max.
Proof.
  unfold valid_channel. destruct (strip_prefix "channel-" c) as [r|] eqn:E; [|discriminate].
  intros H. apply andb_true_iff in H as [H H3]. apply andb_true_iff in H as [H1 H2].
  exists r. split; [apply strip_prefix_app; exact E|]. split; [| split; [exact H2 | lia]].
  intros ->. cbn in H1. discriminate.
Qed.
Theorem ibc_denom_ok d d' :
  validate_ibc_denom d = Some d' -> d' = d /\ exists r, d = ("ibc/" ++ r)%string /\ slen r = 64.
Proof.
  unfold validate_ibc_denom. destruct (strip_prefix "ibc/" d) as [r|] eqn:E; [|discriminate].
  destruct (slen r =? 64) eqn:L; [|discriminate]. intros H; injection H as <-.
  split; [reflexivity|]. exists r. split; [apply strip_prefix_app; exact E | lia].
Qed.
Theorem denom_ok d d' : validate_denom d = Some d' -> d' = d /\ 3 < slen d /\ str_forall is_alpha d = true.
Proof.
  unfold validate_denom. destruct (slen d <=? 3) eqn:L; [discriminate|]. destruct (str_forall is_alpha d) eqn:A; [|discriminate].
  intros H; injection H as <-. repeat split; lia.
Qed.

(* ---------- sections ---------- *)
Definition wf_native (n : native_cfg) : Prop :=
  wf_prefix (nc_prefix n) /\ wf_prefix (nc_valprefix n)
  /\ 3 < slen (nc_denom n) /\ str_forall is_alpha (nc_denom n) = true
  /\ NoDup (nc_validators n) /\ (forall v, In v (nc_validators n) -> valid_addr v (nc_valprefix n) = true)
  /\ valid_addr (nc_staker n) (nc_prefix n) = true /\ valid_addr (nc_collector n) (nc_prefix n) = true.

Definition wf_protocol (p : protocol_cfg) : Prop :=
  wf_prefix (pc_prefix p)
  /\ (exists ds, pc_channel p = ("channel-" ++ ds)%string /\ ds <> EmptyString /\ str_forall is_digit ds = true /\ digits_value ds 0 <= u64_max)
  /\ (exists r, pc_denom p = ("ibc/" ++ r)%string /\ slen r = 64)
  /\ (forall o, pc_oracle p = Some o -> valid_addr o (pc_prefix p) = true).

Definition wf_fee (f : fee_cfg) (p : protocol_cfg) : Prop :=
  forall t, fee_treasury f = Some t -> valid_addr t (pc_prefix p) = true.

(* a raw prefix under which some address validates is already its own normal form *)
Lemma valid_addr_prefix_normal a raw p :
  valid_addr a raw = true -> validate_address_prefix raw = Some p -> p = raw.
Proof.
  intros Hv Hp. apply address_ok in Hv as [_ Hu]. apply prefix_ok in Hp as (_ & _ & _ & -> & _).
  apply lowercase_no_upper. exact Hu.
Qed.

Theorem native_cfg_wf u n : validate_native valid_addr u = Some n -> wf_native n /\ nc_unbonding n = un_unbonding u.
Proof.
  unfold validate_native.
  destruct (validate_address_prefix (un_prefix u)) as [p|] eqn:P; [|discriminate].
  destruct (validate_address_prefix (un_valprefix u)) as [vp|] eqn:VP; [|discriminate].
  destruct (validate_denom (un_denom u)) as [d|] eqn:Dn; [|discriminate].
  destruct (validate_addresses valid_addr (un_validators u) (un_valprefix u) [] && _ && _) eqn:V; [|discriminate].
  intros H; injection H as <-. apply andb_true_iff in V as [V V3]. apply andb_true_iff in V as [V1 V2].
  pose proof (valid_addr_prefix_normal _ _ _ V2 P) as ->.
  apply validate_addresses_spec in V1 as [Hall Hnd]. apply denom_ok in Dn as (-> & L & A).
  split; [| reflexivity]. unfold wf_native. cbn.
  split; [apply prefix_ok in P; tauto|]. split; [apply prefix_ok in VP; tauto|].
  repeat split; try assumption.
  intros v Hv. destruct (Hall v Hv) as [Hva _]. rewrite (valid_addr_prefix_normal _ _ _ Hva VP). exact Hva.
Qed.

Theorem protocol_cfg_wf u p :
  validate_protocol valid_addr u = Some p -> wf_protocol p /\ pc_min p = up_min u /\ pc_oracle p = up_oracle u.
Proof.
  unfold validate_protocol. destruct (negb (valid_channel (up_channel u))) eqn:C; [discriminate|]. apply negb_false_iff in C.
  destruct (validate_address_prefix (up_prefix u)) as [px|] eqn:P; [|discriminate].
  destruct (validate_ibc_denom (up_denom u)) as [d|] eqn:Dn; [|discriminate].
  destruct (match up_oracle u with Some o => valid_addr o (up_prefix u) | None => true end) eqn:O; [|discriminate].
  intros H; injection H as <-. split; [| split; reflexivity]. unfold wf_protocol. cbn.
  split; [apply prefix_ok in P; tauto|]. split; [apply channel_ok; exact C|].
  split; [apply ibc_denom_ok in Dn as [-> H]; exact H|].
  intros o Ho. rewrite Ho in O. rewrite (valid_addr_prefix_normal _ _ _ O P). exact O.
Qed.

Theorem fee_cfg_wf u p f : validate_fee valid_addr u p = Some f -> wf_fee f p /\ fee_rate f = uf_rate u.
Proof.
  unfold validate_fee. destruct (match uf_treasury u with Some t => valid_addr t (pc_prefix p) | None => true end) eqn:T; [|discriminate].
  intros H; injection H as <-. split; [| reflexivity]. intros t Ht. cbn in Ht. rewrite Ht in T. exact T.
Qed.

Definition wf_config (c : config) : Prop :=
  wf_native (native c) /\ wf_protocol (protocol c) /\ wf_fee (fees c) (protocol c)
  /\ NoDup (monitors c) /\ (forall m, In m (monitors c) -> valid_addr m (pc_prefix (protocol c)) = true).

Section ConfigWF.
  Variable dv : string -> string -> string -> option string.
  Variable av : string -> bool.
  Notation execute := (execute valid_addr dv av).

  Theorem instantiate_wf e i m s r :
    instantiate valid_addr e i m = Ok (s, r) ->
    wf_config (cfg s)
    /\ (exists sub, lst_denom (cfg s) = ("factory/" ++ self e ++ "/" ++ sub)%string /\ 3 < slen sub /\ str_forall is_alpha sub = true)
    /\ stopped (cfg s) = true /\ batch_period (cfg s) = im_batch_period m.
  Proof.
    unfold instantiate. intros H. inv_ok H.
    repeat match goal with Hs : of_opt_err _ _ = Ok _ |- _ => apply of_opt_err_ok in Hs end.
    match goal with Hn : validate_native _ _ = Some ?n, Hp : validate_protocol _ _ = Some ?p, Hf : validate_fee _ _ _ = Some ?f,
                    Hd : validate_denom _ = Some ?d, Hm : validate_addresses _ _ _ _ = true |- _ =>
      apply native_cfg_wf in Hn as [Hn _]; pose proof Hp as Hp0; apply protocol_cfg_wf in Hp as [Hp _];
      apply fee_cfg_wf in Hf as [Hf _]; apply denom_ok in Hd as (-> & Hd1 & Hd2);
      pose proof Hm as Hm0; apply validate_addresses_spec in Hm as [Hm1 Hm2] end.
    injection H as <- <-. cbn. split; [| split; [eexists; repeat split; eassumption | split; reflexivity]].
    unfold wf_config. cbn. split; [assumption|]. split; [assumption|]. split; [assumption|]. split; [assumption|].
    intros x Hx. match goal with Hm1 : forall a, In a _ -> _ /\ ~ In a [] |- _ => destruct (Hm1 x Hx) as [Hv _] end.
    (* monitors are checked against the raw protocol prefix, which is then its own normal form *)
    match goal with Hp0 : validate_protocol _ _ = Some _ |- _ => rename Hp0 into Hpp end.
    unfold validate_protocol in Hpp. destruct (negb _); [discriminate|].
    destruct (validate_address_prefix (up_prefix (im_protocol m))) as [px|] eqn:P; [|discriminate].
    destruct (validate_ibc_denom _); [|discriminate]. destruct (match up_oracle _ with Some _ => _ | None => _ end); [|discriminate].
    injection Hpp as <-. cbn. rewrite (valid_addr_prefix_normal _ _ _ Hv P). exact Hv.
  Qed.

  (* UpdateConfig: sectional — absent sections are untouched, the LST denom and the halted flag never change,
     nothing outside the configuration changes — and every supplied section is well-formed *)
  Theorem update_config_sectional s e i n p f m bp s' r :
    execute s e i (UpdateConfig n p f m bp) = Ok (s', r) ->
    admin s = Some (sender i) /\ r = []
    /\ st s' = st s /\ admin s' = admin s /\ batches s' = batches s /\ pending_id s' = pending_id s
    /\ requests s' = requests s /\ inflight s' = inflight s /\ waitq s' = waitq s /\ version s' = version s
    /\ lst_denom (cfg s') = lst_denom (cfg s) /\ stopped (cfg s') = stopped (cfg s)
    /\ (n = None -> native (cfg s') = native (cfg s))
    /\ (p = None -> protocol (cfg s') = protocol (cfg s))
    /\ (f = None -> fees (cfg s') = fees (cfg s))
    /\ (m = None -> monitors (cfg s') = monitors (cfg s))
    /\ (bp = None -> batch_period (cfg s') = batch_period (cfg s))
    /\ (forall x, bp = Some x -> batch_period (cfg s') = x)
    /\ (n <> None -> wf_native (native (cfg s')))
    /\ (p <> None -> wf_protocol (protocol (cfg s')))
    /\ (f <> None -> wf_fee (fees (cfg s')) (protocol (cfg s')))
    /\ (m <> None -> NoDup (monitors (cfg s')) /\ forall x, In x (monitors (cfg s')) -> valid_addr x (pc_prefix (protocol (cfg s'))) = true).
  Proof.
    intros H. apply update_config_inv in H. destruct H as (n' & p' & f' & m' & Ha & Hn & Hp & Hf & Hm & -> & ->).
    cbn.
    split; [exact Ha|]. split; [reflexivity|].
    do 8 (split; [reflexivity|]).
    split; [reflexivity|]. split; [reflexivity|].
    split; [intros ->; exact Hn|]. split; [intros ->; exact Hp|]. split; [intros ->; exact Hf|]. split; [intros ->; exact Hm|].
    split; [intros ->; reflexivity|]. split; [intros x ->; reflexivity|].
    split; [destruct n; [intros _; apply native_cfg_wf in Hn; tauto | congruence]|].
    split; [destruct p; [intros _; apply protocol_cfg_wf in Hp; tauto | congruence]|].
    split; [destruct f; [intros _; apply fee_cfg_wf in Hf; tauto | congruence]|].
    destruct m; [| congruence]. intros _. destruct Hm as [Hv ->]. apply validate_addresses_spec in Hv as [Hall Hnd].
    split; [exact Hnd|]. intros x Hx. apply Hall. exact Hx.
  Qed.

  Lemma remove_first_str_spec v l :
    NoDup l -> In v l -> NoDup (remove_first_str v l) /\ (forall x, In x (remove_first_str v l) <-> In x l /\ x <> v).
  Proof.
    induction l as [|y l IH]; cbn; [tauto|]. intros Hnd Hin. inversion Hnd as [|z l' Hy Hnd']; subst.
    destruct (String.eqb v y) eqn:E.
    - apply String.eqb_eq in E. subst y. split; [exact Hnd'|]. intros x. split.
      + intros Hx. split; [right; exact Hx | intros ->; contradiction].
      + intros [[->|Hx] Hne]; [congruence | exact Hx].
    - assert (Hne : v <> y) by (intros ->; rewrite String.eqb_refl in E; discriminate).
      destruct Hin as [->|Hin]; [congruence|]. destruct (IH Hnd' Hin) as [Hnd2 Hiff]. split.
      + constructor; [| exact Hnd2]. intros Hc. apply Hiff in Hc. tauto.
      + intros x. cbn. rewrite Hiff. split.
        * intros [->|[Hx Hn]]; [split; [left; reflexivity | congruence] | split; [right; exact Hx | exact Hn]].
        * intros [[->|Hx] Hn]; [left; reflexivity | right; split; assumption].
  Qed.

  (* AddValidator / RemoveValidator change exactly the named validator *)
  Theorem add_validator_spec s e i v s' r :
    execute s e i (AddValidator v) = Ok (s', r) ->
    admin s = Some (sender i) /\ valid_addr v (nc_valprefix (native (cfg s))) = true
    /\ ~ In v (nc_validators (native (cfg s)))
    /\ nc_validators (native (cfg s')) = (nc_validators (native (cfg s)) ++ [v])%list
    /\ s' = set_cfg s (set_validators (cfg s) (nc_validators (native (cfg s)) ++ [v])) /\ r = [].
  Proof.
    intros H. apply add_validator_inv in H. destruct H as (Ha & Hv & Hm & -> & ->).
    repeat split; try assumption. intros Hin. clear - Hm Hin.
    induction (nc_validators (native (cfg s))) as [|y l IH]; [contradiction|]. cbn in Hm.
    apply orb_false_iff in Hm as [E1 E2]. destruct Hin as [->|Hin]; [rewrite String.eqb_refl in E1; discriminate | tauto].
  Qed.
  Theorem remove_validator_spec s e i v s' r :
    execute s e i (RemoveValidator v) = Ok (s', r) ->
    admin s = Some (sender i) /\ valid_addr v (nc_valprefix (native (cfg s))) = true
    /\ In v (nc_validators (native (cfg s)))
    /\ nc_validators (native (cfg s')) = remove_first_str v (nc_validators (native (cfg s)))
    /\ s' = set_cfg s (set_validators (cfg s) (remove_first_str v (nc_validators (native (cfg s))))) /\ r = [].
  Proof.
    intros H. apply remove_validator_inv in H. destruct H as (Ha & Hv & Hm & -> & ->).
    repeat split; try assumption. apply mem_str_In. exact Hm.
  Qed.
End ConfigWF.

Section ConfigApplied.
  Variable va : string -> string -> bool.
  Variable dv : string -> string -> string -> option string.
  Variable av : string -> bool.
  Notation execute := (execute va dv av).

  (* every supplied section is applied: the stored section is the validated form of the supplied one, and the routing
     fields (channel, staker, collector, validators, periods, denoms, minimum, oracle, fee, treasury) are the supplied values *)
  Theorem update_config_applies s e i n p f m bp s' r :
    execute s e i (UpdateConfig n p f m bp) = Ok (s', r) ->
    (forall u, n = Some u -> validate_native va u = Some (native (cfg s'))
                             /\ nc_staker (native (cfg s')) = un_staker u /\ nc_collector (native (cfg s')) = un_collector u
                             /\ nc_validators (native (cfg s')) = un_validators u /\ nc_unbonding (native (cfg s')) = un_unbonding u)
    /\ (forall u, p = Some u -> validate_protocol va u = Some (protocol (cfg s'))
                                /\ pc_channel (protocol (cfg s')) = up_channel u /\ pc_min (protocol (cfg s')) = up_min u
                                /\ pc_oracle (protocol (cfg s')) = up_oracle u)
    /\ (forall u, f = Some u -> fee_rate (fees (cfg s')) = uf_rate u /\ fee_treasury (fees (cfg s')) = uf_treasury u)
    /\ (forall l, m = Some l -> monitors (cfg s') = l)
    /\ (forall x, bp = Some x -> batch_period (cfg s') = x).
  Proof.
    intros H. apply update_config_inv in H. destruct H as (n' & p' & f' & m' & _ & Hn & Hp & Hf & Hm & -> & _). cbn.
    split; [| split; [| split; [| split]]].
    - intros u ->. split; [exact Hn|]. unfold validate_native in Hn.
      destruct (validate_address_prefix (un_prefix u)); [|discriminate]. destruct (validate_address_prefix (un_valprefix u)); [|discriminate].
      destruct (validate_denom (un_denom u)); [|discriminate]. destruct (_ && _ && _); [|discriminate]. inversion Hn; subst. cbn. repeat split.
    - intros u ->. split; [exact Hp|]. unfold validate_protocol in Hp. destruct (negb _); [discriminate|].
      destruct (validate_address_prefix (up_prefix u)); [|discriminate]. destruct (validate_ibc_denom (up_denom u)); [|discriminate].
      destruct (match up_oracle u with Some o => _ | None => true end); [|discriminate]. inversion Hp; subst. cbn. repeat split.
    - intros u ->. unfold validate_fee in Hf. destruct (match uf_treasury u with Some t => _ | None => true end); [|discriminate]. inversion Hf; subst. cbn. split; reflexivity.
    - intros l ->. destruct Hm as [_ ->]. reflexivity.
    - intros x ->. reflexivity.
  Qed.

  (* C09 across a re-configuration: after an accepted UpdateConfig that supplies both sections, the only account whose
     ReceiveRewards / ReceiveUnstakedTokens can succeed is the one derived from the SUPPLIED channel and the SUPPLIED
     collector / staker *)
  Theorem reconfigured_hook_sender s e i un up f m bp s1 r1 e2 i2 s2 r2 :
    execute s e i (UpdateConfig (Some un) (Some up) f m bp) = Ok (s1, r1) ->
    (execute s1 e2 i2 ReceiveRewards = Ok (s2, r2) ->
       dv (up_channel up) (un_collector un) (pc_prefix (protocol (cfg s1))) = Some (sender i2))
    /\ (forall id, execute s1 e2 i2 (ReceiveUnstakedTokens id) = Ok (s2, r2) ->
       dv (up_channel up) (un_staker un) (pc_prefix (protocol (cfg s1))) = Some (sender i2)).
  Proof.
    intros H. destruct (update_config_applies _ _ _ _ _ _ _ _ _ _ H) as (Hn & Hp & _).
    destruct (Hn un eq_refl) as (_ & Hst & Hco & _). destruct (Hp up eq_refl) as (_ & Hch & _).
    assert (G : forall nat, hook_sender_ok dv s1 nat i2 = true -> dv (pc_channel (protocol (cfg s1))) nat (pc_prefix (protocol (cfg s1))) = Some (sender i2)).
    { intros nat Hh. unfold hook_sender_ok in Hh. destruct (dv _ nat _) as [a|]; [|discriminate]. apply String.eqb_eq in Hh. rewrite Hh. reflexivity. }
    split.
    - intros H2. apply receive_rewards_inv in H2. destruct H2 as (c & fee & om & _ & _ & Hh & _). rewrite <- Hch, <- Hco. apply G. exact Hh.
    - intros id H2. apply receive_unstaked_inv in H2. destruct H2 as (c & b & t & _ & Hh & _). rewrite <- Hch, <- Hst. apply G. exact Hh.
  Qed.
End ConfigApplied.
