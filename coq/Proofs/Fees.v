(* Fees.v — protocol fee accounting on rewards (C11). *)
From MW Require Import Staking.
From MW.Proofs Require Import Tactics Arith Handlers.
Open Scope N_scope.

Section Fees.
  Variable va : string -> string -> bool.
  Variable dv : string -> string -> string -> option string.
  Variable av : string -> bool.
  Notation execute := (execute va dv av).

  (* a successful ReceiveRewards of `reward`: fee = floor(rate*reward/100000) <= reward, the remainder is
     restaked, fee + restaked = reward, the reward counter grows by the full reward, the fee goes to the
     treasury in the same response when one is configured and otherwise accrues *)
  Theorem reward_spec s e i s' r :
    execute s e i ReceiveRewards = Ok (s', r) ->
    exists reward fee restaked om,
      let D := pc_denom (protocol (cfg s)) in
      let x := st s in
      total_lst x <> 0
      /\ (exists c, find_coin D (funds i) = Some c /\ c_amount c = reward)
      /\ fee = fee_rate (fees (cfg s)) * reward / FEE_DENOM
      /\ fee <= reward /\ restaked = reward - fee /\ fee + restaked = reward
      /\ total_native (st s') = total_native x + restaked
      /\ total_lst (st s') = total_lst x
      /\ total_reward (st s') = total_reward x + reward
      /\ oracle_msgs s' e = Ok om
      /\ match fee_treasury (fees (cfg s)) with
         | None => total_fees (st s') = total_fees x + fee
                   /\ r = (om ++ [transfer_sub s e (sub_id e None) (nc_staker (native (cfg s)))
                                   {| c_denom := D; c_amount := restaked |} (now_ns e + IBC_TIMEOUT_NS)])%list
         | Some t => total_fees (st s') = total_fees x
                     /\ r = (om ++ [transfer_sub s e (sub_id e None) (nc_staker (native (cfg s)))
                                     {| c_denom := D; c_amount := restaked |} (now_ns e + IBC_TIMEOUT_NS)]
                                ++ [plain (ABankSend t {| c_denom := D; c_amount := fee |})])%list
         end.
  Proof.
    intros H. apply receive_rewards_inv in H.
    destruct H as (c & fee & om & _ & Hl & _ & Hc & Hf & Hle & Hst & _ & _ & _ & _ & _ & _ & _ & _ & Ho & Hr).
    apply mul_ratio_some in Hf as (_ & Hf & _).
    exists (c_amount c), fee, (c_amount c - fee), om. cbv zeta. rewrite Hst. cbn.
    split; [assumption|]. split; [exists c; split; [assumption | reflexivity]|].
    split; [assumption|]. split; [assumption|]. split; [reflexivity|]. split; [lia|].
    split; [reflexivity|]. split; [reflexivity|]. split; [reflexivity|]. split; [assumption|].
    destruct (fee_treasury (fees (cfg s))) as [t|]; split; try reflexivity; rewrite Hr.
    - reflexivity.
    - rewrite app_nil_r. reflexivity.
  Qed.

  Theorem reward_refused_without_lst s e i :
    total_lst (st s) = 0 -> forall s' r, execute s e i ReceiveRewards <> Ok (s', r).
  Proof.
    intros Hz s' r H. apply receive_rewards_inv in H.
    destruct H as (c & fee & om & _ & Hl & _). apply Hl. exact Hz.
  Qed.

  (* a fee rate above the denominator makes the fee exceed the reward: such a payment is refused *)
  Theorem reward_refused_when_fee_exceeds s e i s' r :
    execute s e i ReceiveRewards = Ok (s', r) ->
    forall c, find_coin (pc_denom (protocol (cfg s))) (funds i) = Some c ->
    fee_rate (fees (cfg s)) * c_amount c / FEE_DENOM <= c_amount c.
  Proof.
    intros H c Hc. apply receive_rewards_inv in H.
    destruct H as (c' & fee & om & _ & _ & _ & Hc' & Hf & Hle & _).
    rewrite Hc in Hc'. inversion Hc'; subst c'. apply mul_ratio_some in Hf as (_ & -> & _). exact Hle.
  Qed.

  (* FeeWithdraw: admin only, treasury configured, at most the accrued amount, one send of exactly that
     amount of the staked asset to the current treasury, and the fee balance drops by exactly that amount *)
  Theorem fee_withdraw_spec s e i a s' r :
    execute s e i (FeeWithdraw a) = Ok (s', r) ->
    exists t,
      admin s = Some (sender i) /\ a <= total_fees (st s) /\ fee_treasury (fees (cfg s)) = Some t
      /\ total_fees (st s') = total_fees (st s) - a
      /\ total_native (st s') = total_native (st s) /\ total_lst (st s') = total_lst (st s)
      /\ total_reward (st s') = total_reward (st s)
      /\ r = [plain (ASend (self e) t {| c_denom := pc_denom (protocol (cfg s)); c_amount := a |})].
  Proof.
    intros H. apply fee_withdraw_inv in H. destruct H as (t & Ha & Hle & Ht & -> & ->).
    exists t. cbn. repeat split; assumption.
  Qed.
End Fees.
