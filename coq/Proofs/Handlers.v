(* Handlers.v — inversion lemmas: what a successful call of each handler implies (all inputs, all stores). *)
From MW Require Import Staking.
From MW.Proofs Require Import Tactics Arith.
Open Scope N_scope.

Section Handlers.
  Variable va : string -> string -> bool.
  Variable dv : string -> string -> string -> option string.
  Variable av : string -> bool.

  Notation execute := (execute va dv av).

  Lemma check_stopped_ok s u : check_stopped s = Ok u -> stopped (cfg s) = false.
  Proof. unfold check_stopped. destruct (stopped (cfg s)); [discriminate | reflexivity]. Qed.

  Definition transfer_sub (s : store) (e : env) (sid : N) (receiver : string) (c : coin) (timeout : N) : submsg :=
    {| sm_id := sid;
       sm_msg := ATransfer (pc_channel (protocol (cfg s))) receiver c (self e) timeout (ibc_memo (self e));
       sm_reply := true |}.

  Definition sub_id (e : env) (id : option N) : N :=
    match id with
    | Some k => k
    | None => match txi e with Some t => t + now_ns e | None => now_ns e end
    end.

  Lemma ibc_sub_ok s e rcv c id s1 sm :
    ibc_sub s e rcv c id = Ok (s1, sm) ->
    sm = transfer_sub s e (sub_id e id) rcv c (now_ns e + IBC_TIMEOUT_NS)
    /\ s1 = set_waitq s (ninsert (sub_id e id) {| w_coin := c; w_receiver := rcv |} (waitq s))
    /\ nfind (sub_id e id) (waitq s) = None.
  Proof.
    unfold ibc_sub. intros H. inv_ok H.
    apply of_opt_ok in E. apply add64_some in E as [-> _].
    assert (v0 = sub_id e id) as ->.
    { unfold sub_id. destruct id as [k|]; [inversion E0; reflexivity|].
      destruct (txi e) as [t|]; [|inversion E0; reflexivity].
      apply of_opt_ok in E0. apply add64_some in E0 as [-> _]. reflexivity. }
    destruct (nfind (sub_id e id) (waitq s)) eqn:F; [discriminate|].
    inversion H; subst. repeat split.
  Qed.

  Lemma oracle_msgs_ext s1 s2 e : cfg s1 = cfg s2 -> st s1 = st s2 -> oracle_msgs s1 e = oracle_msgs s2 e.
  Proof. intros Hc Hs. unfold oracle_msgs. rewrite Hc, Hs. reflexivity. Qed.

  (* the ownerless-stake sweep of LiquidStake *)
  Definition sweeps (x : state) : bool := (total_lst x =? 0) && negb (total_native x =? 0).
  Definition swept (x : state) : state :=
    if sweeps x then set_totals x 0 (total_lst x) (total_reward x) (total_fees x + total_native x) else x.

  Definition mint_msg (s : store) (e : env) (m : N) : submsg :=
    plain (AMint (self e) {| c_denom := lst_denom (cfg s); c_amount := m |} (self e)).

  Definition stake_to_protocol (s : store) (addr : string) (tn : option bool) : bool :=
    if va addr (nc_prefix (native (cfg s))) && va addr (pc_prefix (protocol (cfg s)))
    then negb (opt_default false tn)
    else va addr (pc_prefix (protocol (cfg s))).

  Lemma liquid_stake_inv s e i mt tn ex s' r :
    execute s e i (LiquidStake mt tn ex) = Ok (s', r) ->
    exists a m om,
      let D := pc_denom (protocol (cfg s)) in
      let x1 := swept (st s) in
      let addr := opt_default (sender i) mt in
      let sid := sub_id e None in
      let timeout := now_ns e + IBC_TIMEOUT_NS in
      let stake_sub := transfer_sub s e sid (nc_staker (native (cfg s))) {| c_denom := D; c_amount := a |} timeout in
      let lstc := {| c_denom := lst_denom (cfg s); c_amount := m |} in
      must_pay i D = Ok a
      /\ stopped (cfg s) = false
      /\ (mt = None -> slen (sender i) = slen (pc_prefix (protocol (cfg s))) + 39)
      /\ (va addr (nc_prefix (native (cfg s))) || va addr (pc_prefix (protocol (cfg s))) = true)
      /\ pc_min (protocol (cfg s)) <= a
      /\ compute_mint (total_native x1) (total_lst x1) a = Some m
      /\ m <> 0
      /\ (forall x, ex = Some x -> x <= m)
      /\ st s' = set_totals x1 (total_native x1 + a) (total_lst x1 + m) (total_reward x1) (total_fees x1)
      /\ total_native x1 + a <= u128_max /\ total_lst x1 + m <= u128_max
      /\ cfg s' = cfg s /\ admin s' = admin s /\ batches s' = batches s /\ pending_id s' = pending_id s
      /\ requests s' = requests s /\ inflight s' = inflight s /\ version s' = version s
      /\ oracle_msgs s' e = Ok om
      /\ ((stake_to_protocol s addr tn = true
           /\ r = ([mint_msg s e m] ++ om ++ [stake_sub] ++ [plain (ASend (self e) addr lstc)])%list
           /\ waitq s' = ninsert sid {| w_coin := {| c_denom := D; c_amount := a |}; w_receiver := nc_staker (native (cfg s)) |} (waitq s))
          \/
          (stake_to_protocol s addr tn = false
           /\ r = ([mint_msg s e m] ++ om ++ [stake_sub] ++ [transfer_sub s e (sid + 1) addr lstc timeout])%list
           /\ waitq s' = ninsert (sid + 1) {| w_coin := lstc; w_receiver := addr |}
                           (ninsert sid {| w_coin := {| c_denom := D; c_amount := a |}; w_receiver := nc_staker (native (cfg s)) |} (waitq s)))).
  Proof.
    intros H. cbn [Staking.execute] in H. inv_ok H.
    unfold execute_liquid_stake in H. inv_ok H.
    match goal with Hs : check_stopped _ = Ok _ |- _ => apply check_stopped_ok in Hs end.
    match goal with Hs : ibc_sub _ _ _ _ None = Ok ?p |- _ =>
      destruct p as [s1 stake_sub]; apply ibc_sub_ok in Hs as (-> & -> & Hw) end.
    inv_ok H.
    repeat match goal with Hs : of_opt _ _ = Ok _ |- _ => apply of_opt_ok in Hs end.
    repeat match goal with Hs : add128 _ _ = Some _ |- _ => apply add128_some in Hs as [-> ?] end.
    match goal with Hs : (if (total_lst _ =? 0) && _ then _ else _) = Ok ?x2 |- _ =>
      assert (Hx : x2 = swept (st s));
      [ unfold swept, sweeps; destruct ((total_lst (st s) =? 0) && negb (total_native (st s) =? 0));
        [ inv_ok Hs; match goal with Hq : of_opt _ _ = Ok _ |- _ => apply of_opt_ok in Hq; apply add128_some in Hq as [-> _] end;
          inversion Hs; reflexivity
        | inversion Hs; reflexivity ]
      | subst x2; clear Hs ] end.
    match goal with Hp : must_pay _ _ = Ok ?a, Hm : compute_mint _ _ _ = Some ?m, Ho : oracle_msgs _ _ = Ok ?om |- _ =>
      exists a, m, om end.
    match goal with Ho : oracle_msgs _ _ = Ok _ |- _ => rename Ho into Hom end.
    assert (Hmt : mt = None -> slen (sender i) = slen (pc_prefix (protocol (cfg s))) + 39).
    { intros ->.
      match goal with Hs : (if ?c then Panic _ else _) = Ok _ |- _ => destruct c eqn:F; [discriminate|] end.
      match goal with Hs : (if ?c then _ else Err _) = Ok _ |- _ => destruct c eqn:G; [lia | discriminate] end. }
    match goal with Hm : compute_mint _ _ _ = Some ?m |- _ =>
      assert (Hex : forall x, ex = Some x -> x <= m) by (intros x ->; lia) end.
    fold (stake_to_protocol s (opt_default (sender i) mt) tn) in H.
    destruct (stake_to_protocol s (opt_default (sender i) mt) tn) eqn:P.
    - inversion H; subst s' r; clear H. cbn.
      repeat (split; [first [assumption | reflexivity | lia]|]).
      left. repeat split; first [assumption | reflexivity].
    - inv_ok H.
      match goal with Hs : ibc_sub _ _ _ _ (Some _) = Ok ?p |- _ => destruct p as [s3 lst_sub] end.
      match goal with Hs : of_opt (add64 _ 1) _ = Ok _ |- _ =>
        apply of_opt_ok in Hs; apply add64_some in Hs as [-> _] end.
      match goal with Hs : ibc_sub _ _ _ _ (Some _) = Ok _ |- _ =>
        cbn [sm_id transfer_sub] in Hs; apply ibc_sub_ok in Hs as (-> & -> & Hw2) end.
      inversion H; subst s' r; clear H. cbn.
      repeat (split; [first [assumption | reflexivity | lia]|]).
      right. repeat split; first [assumption | reflexivity].
  Qed.
End Handlers.

Section Handlers2.
  Variable va : string -> string -> bool.
  Variable dv : string -> string -> string -> option string.
  Variable av : string -> bool.
  Notation execute := (execute va dv av).

  Lemma oracle_msgs_shape s e om :
    oracle_msgs s e = Ok om ->
    match pc_oracle (protocol (cfg s)) with
    | None => om = []
    | Some o => exists r p, get_rates (st s) = Some (r, p)
                /\ om = [plain (AOracle (self e) o (lst_denom (cfg s)) (dec_to_string p) (dec_to_string r))]
    end.
  Proof.
    unfold oracle_msgs. destruct (pc_oracle (protocol (cfg s))) as [o|]; intros H.
    - inv_ok H. apply of_opt_ok in E. destruct v as [r p]. inversion H; subst. exists r, p. split; [assumption | reflexivity].
    - inversion H; reflexivity.
  Qed.

  (* SubmitBatch *)
  Lemma submit_batch_inv s e i s' r :
    execute s e i SubmitBatch = Ok (s', r) ->
    exists b unbond om,
      let p := pending_id s in
      let nb := new_batch (p + 1) (now_s e + batch_period (cfg s)) in
      let b' := {| b_id := b_id b; b_total := b_total b; b_expected := Some unbond; b_received := b_received b;
                   b_count := b_count b; b_time := Some (now_s e + nc_unbonding (native (cfg s))); b_status := Submitted |} in
      stopped (cfg s) = false
      /\ nfind p (batches s) = Some b
      /\ (exists t, b_time b = Some t /\ t <= now_s e)
      /\ batch_has_request p (requests s) = true
      /\ b_total b <= total_lst (st s)
      /\ compute_unbond (total_native (st s)) (total_lst (st s)) (b_total b) = Some unbond
      /\ st s' = set_totals (st s) (total_native (st s) - unbond) (total_lst (st s) - b_total b)
                   (total_reward (st s)) (total_fees (st s))
      /\ cfg s' = cfg s /\ admin s' = admin s /\ requests s' = requests s /\ inflight s' = inflight s
      /\ waitq s' = waitq s /\ version s' = version s
      /\ pending_id s' = b_id b + 1
      /\ batches s' = ninsert (b_id b) b' (ninsert (b_id b + 1) (new_batch (b_id b + 1) (now_s e + batch_period (cfg s))) (batches s))
      /\ oracle_msgs s' e = Ok om
      /\ r = (plain (ABurn (self e) {| c_denom := lst_denom (cfg s); c_amount := b_total b |} (self e)) :: om).
  Proof.
    intros H. cbn [Staking.execute] in H. unfold execute_submit_batch in H. inv_ok H.
    match goal with Hs : check_stopped _ = Ok _ |- _ => apply check_stopped_ok in Hs end.
    repeat match goal with Hs : of_opt_err _ _ = Ok _ |- _ => apply of_opt_err_ok in Hs end.
    repeat match goal with Hs : of_opt _ _ = Ok _ |- _ => apply of_opt_ok in Hs end.
    repeat match goal with Hs : add64 _ _ = Some _ |- _ => apply add64_some in Hs as [-> ?] end.
    match goal with Hb : nfind _ (batches s) = Some ?b, Hu : compute_unbond _ _ _ = Some ?u, Ho : oracle_msgs _ _ = Ok ?om |- _ =>
      exists b, u, om end.
    inversion H; subst s' r; clear H. cbn.
    repeat (split; [first [assumption | reflexivity | lia]|]).
    split.
    { match goal with Ht : match b_time ?b with Some _ => _ | None => _ end = Ok _ |- _ =>
        destruct (b_time b) as [t|]; [| discriminate Ht];
        destruct (now_s e <? t) eqn:F; [discriminate Ht|]; exists t; split; [reflexivity | lia] end. }
    repeat (split; [first [assumption | reflexivity | lia]|]).
    first [assumption | reflexivity].
  Qed.
End Handlers2.
