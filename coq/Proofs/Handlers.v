(* Handlers.v — inversion lemmas: what a successful call of each handler implies (all inputs, all stores). *)
From MW Require Import Staking.
From MW.Proofs Require Import Tactics Arith.
Open Scope N_scope.

Section Handlers.
  Variable va : string -> string -> bool.
  Variable dv : string -> string -> string -> option string.
  Variable av : string -> bool.

  Notation execute := (execute va dv av).

  Lemma check_stopped_ok s u : check_stopped s = Ok u -> stopped (cfg s) = false.
  Proof. unfold check_stopped. destruct (stopped (cfg s)); [discriminate | reflexivity]. Qed.

  Definition transfer_sub (s : store) (e : env) (sid : N) (receiver : string) (c : coin) (timeout : N) : submsg :=
    {| sm_id := sid;
       sm_msg := ATransfer (pc_channel (protocol (cfg s))) receiver c (self e) timeout (ibc_memo (self e));
       sm_reply := true |}.

  Definition sub_id (e : env) (id : option N) : N :=
    match id with
    | Some k => k
    | None => match txi e with Some t => t + now_ns e | None => now_ns e end
    end.

  Lemma ibc_sub_ok s e rcv c id s1 sm :
    ibc_sub s e rcv c id = Ok (s1, sm) ->
    sm = transfer_sub s e (sub_id e id) rcv c (now_ns e + IBC_TIMEOUT_NS)
    /\ s1 = set_waitq s (ninsert (sub_id e id) {| w_coin := c; w_receiver := rcv |} (waitq s))
    /\ nfind (sub_id e id) (waitq s) = None.
  Proof.
    unfold ibc_sub. intros H. inv_ok H.
    apply of_opt_ok in E. apply add64_some in E as [-> _].
    assert (v0 = sub_id e id) as ->.
    { unfold sub_id. destruct id as [k|]; [inversion E0; reflexivity|].
      destruct (txi e) as [t|]; [|inversion E0; reflexivity].
      apply of_opt_ok in E0. apply add64_some in E0 as [-> _]. reflexivity. }
    destruct (nfind (sub_id e id) (waitq s)) eqn:F; [discriminate|].
    inversion H; subst. repeat split.
  Qed.

  Lemma oracle_msgs_ext s1 s2 e : cfg s1 = cfg s2 -> st s1 = st s2 -> oracle_msgs s1 e = oracle_msgs s2 e.
  Proof. intros Hc Hs. unfold oracle_msgs. rewrite Hc, Hs. reflexivity. Qed.

  (* the ownerless-stake sweep of LiquidStake *)
  Definition sweeps (x : state) : bool := (total_lst x =? 0) && negb (total_native x =? 0).
  Definition swept (x : state) : state :=
    if sweeps x then set_totals x 0 (total_lst x) (total_reward x) (total_fees x + total_native x) else x.

  Definition mint_msg (s : store) (e : env) (m : N) : submsg :=
    plain (AMint (self e) {| c_denom := lst_denom (cfg s); c_amount := m |} (self e)).

  Definition stake_to_protocol (s : store) (addr : string) (tn : option bool) : bool :=
    if va addr (nc_prefix (native (cfg s))) && va addr (pc_prefix (protocol (cfg s)))
    then negb (opt_default false tn)
    else va addr (pc_prefix (protocol (cfg s))).

  Lemma liquid_stake_inv s e i mt tn ex s' r :
    execute s e i (LiquidStake mt tn ex) = Ok (s', r) ->
    exists a m om,
      let D := pc_denom (protocol (cfg s)) in
      let x1 := swept (st s) in
      let addr := opt_default (sender i) mt in
      let sid := sub_id e None in
      let timeout := now_ns e + IBC_TIMEOUT_NS in
      let stake_sub := transfer_sub s e sid (nc_staker (native (cfg s))) {| c_denom := D; c_amount := a |} timeout in
      let lstc := {| c_denom := lst_denom (cfg s); c_amount := m |} in
      must_pay i D = Ok a
      /\ stopped (cfg s) = false
      /\ (mt = None -> slen (sender i) = slen (pc_prefix (protocol (cfg s))) + 39)
      /\ (va addr (nc_prefix (native (cfg s))) || va addr (pc_prefix (protocol (cfg s))) = true)
      /\ pc_min (protocol (cfg s)) <= a
      /\ compute_mint (total_native x1) (total_lst x1) a = Some m
      /\ m <> 0
      /\ (forall x, ex = Some x -> x <= m)
      /\ st s' = set_totals x1 (total_native x1 + a) (total_lst x1 + m) (total_reward x1) (total_fees x1)
      /\ total_native x1 + a <= u128_max /\ total_lst x1 + m <= u128_max
      /\ cfg s' = cfg s /\ admin s' = admin s /\ batches s' = batches s /\ pending_id s' = pending_id s
      /\ requests s' = requests s /\ inflight s' = inflight s /\ version s' = version s
      /\ oracle_msgs s' e = Ok om
      /\ ((stake_to_protocol s addr tn = true
           /\ r = ([mint_msg s e m] ++ om ++ [stake_sub] ++ [plain (ASend (self e) addr lstc)])%list
           /\ waitq s' = ninsert sid {| w_coin := {| c_denom := D; c_amount := a |}; w_receiver := nc_staker (native (cfg s)) |} (waitq s))
          \/
          (stake_to_protocol s addr tn = false
           /\ r = ([mint_msg s e m] ++ om ++ [stake_sub] ++ [transfer_sub s e (sid + 1) addr lstc timeout])%list
           /\ waitq s' = ninsert (sid + 1) {| w_coin := lstc; w_receiver := addr |}
                           (ninsert sid {| w_coin := {| c_denom := D; c_amount := a |}; w_receiver := nc_staker (native (cfg s)) |} (waitq s)))).
  Proof.
    intros H. cbn [Staking.execute] in H. inv_ok H.
    unfold execute_liquid_stake in H. inv_ok H.
    match goal with Hs : check_stopped _ = Ok _ |- _ => apply check_stopped_ok in Hs end.
    match goal with Hs : ibc_sub _ _ _ _ None = Ok ?p |- _ =>
      destruct p as [s1 stake_sub]; apply ibc_sub_ok in Hs as (-> & -> & Hw) end.
    inv_ok H.
    repeat match goal with Hs : of_opt _ _ = Ok _ |- _ => apply of_opt_ok in Hs end.
    repeat match goal with Hs : add128 _ _ = Some _ |- _ => apply add128_some in Hs as [-> ?] end.
    match goal with Hs : (if (total_lst _ =? 0) && _ then _ else _) = Ok ?x2 |- _ =>
      assert (Hx : x2 = swept (st s));
      [ unfold swept, sweeps; destruct ((total_lst (st s) =? 0) && negb (total_native (st s) =? 0));
        [ inv_ok Hs; match goal with Hq : of_opt _ _ = Ok _ |- _ => apply of_opt_ok in Hq; apply add128_some in Hq as [-> _] end;
          inversion Hs; reflexivity
        | inversion Hs; reflexivity ]
      | subst x2; clear Hs ] end.
    match goal with Hp : must_pay _ _ = Ok ?a, Hm : compute_mint _ _ _ = Some ?m, Ho : oracle_msgs _ _ = Ok ?om |- _ =>
      exists a, m, om end.
    match goal with Ho : oracle_msgs _ _ = Ok _ |- _ => rename Ho into Hom end.
    assert (Hmt : mt = None -> slen (sender i) = slen (pc_prefix (protocol (cfg s))) + 39).
    { intros ->.
      match goal with Hs : (if ?c then Panic _ else _) = Ok _ |- _ => destruct c eqn:F; [discriminate|] end.
      match goal with Hs : (if ?c then _ else Err _) = Ok _ |- _ => destruct c eqn:G; [lia | discriminate] end. }
    match goal with Hm : compute_mint _ _ _ = Some ?m |- _ =>
      assert (Hex : forall x, ex = Some x -> x <= m) by (intros x ->; lia) end.
    fold (stake_to_protocol s (opt_default (sender i) mt) tn) in H.
    destruct (stake_to_protocol s (opt_default (sender i) mt) tn) eqn:P.
    - inversion H; subst s' r; clear H. cbn.
      repeat (split; [first [assumption | reflexivity | lia]|]).
      left. repeat split; first [assumption | reflexivity].
    - inv_ok H.
      match goal with Hs : ibc_sub _ _ _ _ (Some _) = Ok ?p |- _ => destruct p as [s3 lst_sub] end.
      match goal with Hs : of_opt (add64 _ 1) _ = Ok _ |- _ =>
        apply of_opt_ok in Hs; apply add64_some in Hs as [-> _] end.
      match goal with Hs : ibc_sub _ _ _ _ (Some _) = Ok _ |- _ =>
        cbn [sm_id transfer_sub] in Hs; apply ibc_sub_ok in Hs as (-> & -> & Hw2) end.
      inversion H; subst s' r; clear H. cbn.
      repeat (split; [first [assumption | reflexivity | lia]|]).
      right. repeat split; first [assumption | reflexivity].
  Qed.
End Handlers.

Section Handlers2.
  Variable va : string -> string -> bool.
  Variable dv : string -> string -> string -> option string.
  Variable av : string -> bool.
  Notation execute := (execute va dv av).

  Lemma oracle_msgs_shape s e om :
    oracle_msgs s e = Ok om ->
    match pc_oracle (protocol (cfg s)) with
    | None => om = []
    | Some o => exists r p, get_rates (st s) = Some (r, p)
                /\ om = [plain (AOracle (self e) o (lst_denom (cfg s)) (dec_to_string p) (dec_to_string r))]
    end.
  Proof.
    unfold oracle_msgs. destruct (pc_oracle (protocol (cfg s))) as [o|]; intros H.
    - inv_ok H. apply of_opt_ok in E. destruct v as [r p]. inversion H; subst. exists r, p. split; [assumption | reflexivity].
    - inversion H; reflexivity.
  Qed.

  (* SubmitBatch *)
  Lemma submit_batch_inv s e i s' r :
    execute s e i SubmitBatch = Ok (s', r) ->
    exists b unbond om,
      let p := pending_id s in
      let nb := new_batch (p + 1) (now_s e + batch_period (cfg s)) in
      let b' := {| b_id := b_id b; b_total := b_total b; b_expected := Some unbond; b_received := b_received b;
                   b_count := b_count b; b_time := Some (now_s e + nc_unbonding (native (cfg s))); b_status := Submitted |} in
      stopped (cfg s) = false
      /\ nfind p (batches s) = Some b
      /\ (exists t, b_time b = Some t /\ t <= now_s e)
      /\ batch_has_request p (requests s) = true
      /\ b_total b <= total_lst (st s)
      /\ compute_unbond (total_native (st s)) (total_lst (st s)) (b_total b) = Some unbond
      /\ st s' = set_totals (st s) (total_native (st s) - unbond) (total_lst (st s) - b_total b)
                   (total_reward (st s)) (total_fees (st s))
      /\ cfg s' = cfg s /\ admin s' = admin s /\ requests s' = requests s /\ inflight s' = inflight s
      /\ waitq s' = waitq s /\ version s' = version s
      /\ pending_id s' = b_id b + 1
      /\ batches s' = ninsert (b_id b) b' (ninsert (b_id b + 1) (new_batch (b_id b + 1) (now_s e + batch_period (cfg s))) (batches s))
      /\ oracle_msgs s' e = Ok om
      /\ r = (plain (ABurn (self e) {| c_denom := lst_denom (cfg s); c_amount := b_total b |} (self e)) :: om).
  Proof.
    intros H. cbn [Staking.execute] in H. unfold execute_submit_batch in H. inv_ok H.
    match goal with Hs : check_stopped _ = Ok _ |- _ => apply check_stopped_ok in Hs end.
    repeat match goal with Hs : of_opt_err _ _ = Ok _ |- _ => apply of_opt_err_ok in Hs end.
    repeat match goal with Hs : of_opt _ _ = Ok _ |- _ => apply of_opt_ok in Hs end.
    repeat match goal with Hs : add64 _ _ = Some _ |- _ => apply add64_some in Hs as [-> ?] end.
    repeat match goal with Hs : deadline _ _ = Some _ |- _ => apply deadline_some in Hs as [-> ?] end.
    match goal with Hb : nfind _ (batches s) = Some ?b, Hu : compute_unbond _ _ _ = Some ?u, Ho : oracle_msgs _ _ = Ok ?om |- _ =>
      exists b, u, om end.
    inversion H; subst s' r; clear H. cbn.
    repeat (split; [first [assumption | reflexivity | lia]|]).
    split.
    { match goal with Ht : match b_time ?b with Some _ => _ | None => _ end = Ok _ |- _ =>
        destruct (b_time b) as [t|]; [| discriminate Ht];
        destruct (now_s e <? t) eqn:F; [discriminate Ht|]; exists t; split; [reflexivity | lia] end. }
    repeat (split; [first [assumption | reflexivity | lia]|]).
    first [assumption | reflexivity].
  Qed.
End Handlers2.

Lemma bstatus_eqb_eq a b : bstatus_eqb a b = true -> a = b.
Proof. destruct a, b; cbn; intros H; try discriminate; reflexivity. Qed.
Lemma opt_str_eqb_eq a b : opt_str_eqb a b = true -> a = b.
Proof.
  destruct a as [x|], b as [y|]; cbn; intros H; try discriminate; try reflexivity.
  apply String.eqb_eq in H. subst. reflexivity.
Qed.
Lemma mem_str_In x l : mem_str x l = true -> In x l.
Proof.
  induction l as [|y l IH]; cbn; [discriminate|]. intros H. apply orb_true_iff in H as [H|H].
  - apply String.eqb_eq in H. left. symmetry. exact H.
  - right. apply IH. exact H.
Qed.
Lemma is_admin_true s a : is_admin s a = true -> admin s = Some a.
Proof. unfold is_admin. apply opt_str_eqb_eq. Qed.

Section Handlers3.
  Variable va : string -> string -> bool.
  Variable dv : string -> string -> string -> option string.
  Variable av : string -> bool.
  Notation execute := (execute va dv av).

  Lemma assert_admin_ok s i u : assert_admin s i = Ok u -> admin s = Some (sender i).
  Proof. unfold assert_admin. destruct (is_admin s (sender i)) eqn:E; [intros _; apply is_admin_true; exact E | discriminate]. Qed.

  Ltac prep H :=
    cbn [Staking.execute] in H;
    repeat match goal with Hs : check_stopped _ = Ok _ |- _ => apply check_stopped_ok in Hs end.
  Ltac conv :=
    repeat match goal with
    | Hs : check_stopped _ = Ok _ |- _ => apply check_stopped_ok in Hs
    | Hs : assert_admin _ _ = Ok _ |- _ => apply assert_admin_ok in Hs
    | Hs : of_opt_err _ _ = Ok _ |- _ => apply of_opt_err_ok in Hs
    | Hs : of_opt _ _ = Ok _ |- _ => apply of_opt_ok in Hs
    | Hs : add64 _ _ = Some _ |- _ => apply add64_some in Hs as [-> ?]
    | Hs : add128 _ _ = Some _ |- _ => apply add128_some in Hs as [-> ?]
    | Hs : sub_checked _ _ = Some _ |- _ => apply sub_checked_some in Hs as [-> ?]
    | Hs : bstatus_eqb _ _ = true |- _ => apply bstatus_eqb_eq in Hs
    end.

  Lemma withdraw_inv s e i id s' r :
    execute s e i (Withdraw id) = Ok (s', r) ->
    exists b recv q amount om,
      stopped (cfg s) = false /\ nfind id (batches s) = Some b /\ b_status b = Received
      /\ b_received b = Some recv
      /\ find_request (b_id b) (sender i) (requests s) = Some q
      /\ mul_ratio recv (r_amount q) (b_total b) = Some amount
      /\ s' = set_requests s (remove_request (b_id b) (sender i) (requests s))
      /\ oracle_msgs s' e = Ok om
      /\ r = plain (ASend (self e) (sender i) {| c_denom := pc_denom (protocol (cfg s)); c_amount := amount |}) :: om.
  Proof.
    intros H. cbn [Staking.execute] in H. unfold execute_withdraw in H. inv_ok H. conv.
    inversion H; subst s' r; clear H.
    do 5 eexists. repeat split; try eassumption; reflexivity.
  Qed.

  Lemma receive_rewards_inv s e i s' r :
    execute s e i ReceiveRewards = Ok (s', r) ->
    exists c fee om,
      let D := pc_denom (protocol (cfg s)) in
      let x := st s in
      let amount := c_amount c in
      let after := amount - fee in
      let sid := sub_id e None in
      stopped (cfg s) = false /\ total_lst x <> 0
      /\ hook_sender_ok dv s (nc_collector (native (cfg s))) i = true
      /\ find_coin D (funds i) = Some c
      /\ mul_ratio (fee_rate (fees (cfg s))) amount FEE_DENOM = Some fee /\ fee <= amount
      /\ st s' = set_totals x (total_native x + after) (total_lst x) (total_reward x + amount)
                   (match fee_treasury (fees (cfg s)) with None => total_fees x + fee | Some _ => total_fees x end)
      /\ cfg s' = cfg s /\ admin s' = admin s /\ batches s' = batches s /\ pending_id s' = pending_id s
      /\ requests s' = requests s /\ inflight s' = inflight s /\ version s' = version s
      /\ waitq s' = ninsert sid {| w_coin := {| c_denom := D; c_amount := after |}; w_receiver := nc_staker (native (cfg s)) |} (waitq s)
      /\ oracle_msgs s' e = Ok om
      /\ r = (om ++ [transfer_sub s e sid (nc_staker (native (cfg s))) {| c_denom := D; c_amount := after |} (now_ns e + IBC_TIMEOUT_NS)]
                 ++ match fee_treasury (fees (cfg s)) with
                    | Some t => [plain (ABankSend t {| c_denom := D; c_amount := fee |})]
                    | None => []
                    end)%list.
  Proof.
    intros H. cbn [Staking.execute] in H. unfold receive_rewards in H. inv_ok H. conv.
    match goal with Hs : ibc_sub _ _ _ _ None = Ok ?p |- _ =>
      destruct p as [s1 sub]; apply ibc_sub_ok in Hs as (-> & -> & Hw) end.
    inv_ok H. inversion H; subst s' r; clear H.
    match goal with Hc : find_coin _ _ = Some ?c, Hf : mul_ratio _ _ FEE_DENOM = Some ?f, Ho : oracle_msgs _ _ = Ok ?om |- _ =>
      exists c, f, om end.
    cbn.
    assert (Hl : total_lst (st s) <> 0) by (match goal with Hn : negb (_ =? 0) = true |- _ => lia end).
    destruct (fee_treasury (fees (cfg s))) as [t|] eqn:Ft.
    - match goal with Hs : Ok _ = Ok _ |- _ => inversion Hs; subst end.
      repeat (split; [first [assumption | reflexivity | lia]|]). first [assumption | reflexivity].
    - conv. repeat (split; [first [assumption | reflexivity | lia]|]). first [assumption | reflexivity].
  Qed.
End Handlers3.

Section Handlers4.
  Variable va : string -> string -> bool.
  Variable dv : string -> string -> string -> option string.
  Variable av : string -> bool.
  Notation execute := (execute va dv av).

  Ltac conv :=
    repeat match goal with
    | Hs : check_stopped _ = Ok _ |- _ => apply check_stopped_ok in Hs
    | Hs : assert_admin _ _ = Ok _ |- _ => apply assert_admin_ok in Hs
    | Hs : of_opt_err _ _ = Ok _ |- _ => apply of_opt_err_ok in Hs
    | Hs : of_opt _ _ = Ok _ |- _ => apply of_opt_ok in Hs
    | Hs : add64 _ _ = Some _ |- _ => apply add64_some in Hs as [-> ?]
    | Hs : add128 _ _ = Some _ |- _ => apply add128_some in Hs as [-> ?]
    | Hs : sub_checked _ _ = Some _ |- _ => apply sub_checked_some in Hs as [-> ?]
    | Hs : bstatus_eqb _ _ = true |- _ => apply bstatus_eqb_eq in Hs
    end.

  Lemma receive_unstaked_inv s e i id s' r :
    execute s e i (ReceiveUnstakedTokens id) = Ok (s', r) ->
    exists c b t,
      stopped (cfg s) = false
      /\ hook_sender_ok dv s (nc_staker (native (cfg s))) i = true
      /\ find_coin (pc_denom (protocol (cfg s))) (funds i) = Some c
      /\ nfind id (batches s) = Some b /\ b_status b = Submitted /\ b_time b = Some t /\ t <= now_s e
      /\ s' = set_batches s (ninsert (b_id b)
                {| b_id := b_id b; b_total := b_total b; b_expected := b_expected b; b_received := Some (c_amount c);
                   b_count := b_count b; b_time := None; b_status := Received |} (batches s))
      /\ r = [].
  Proof.
    intros H. cbn [Staking.execute] in H. unfold receive_unstaked_tokens in H. inv_ok H. conv.
    inversion H; subst s' r; clear H.
    do 3 eexists. repeat split; try eassumption; try reflexivity. lia.
  Qed.

  Lemma circuit_breaker_inv s e i s' r :
    execute s e i CircuitBreaker = Ok (s', r) ->
    (admin s = Some (sender i) \/ In (sender i) (monitors (cfg s)))
    /\ s' = set_cfg s (set_stopped (cfg s) true) /\ r = [].
  Proof.
    intros H. cbn [Staking.execute] in H. unfold circuit_breaker in H. inv_ok H.
    inversion H; subst; clear H. split; [| split; reflexivity].
    match goal with Hc : _ || _ = true |- _ => apply orb_true_iff in Hc as [Hc2|Hc2] end.
    - left. apply is_admin_true. assumption.
    - right. apply mem_str_In. assumption.
  Qed.

  Lemma resume_inv s e i n l rw s' r :
    execute s e i (ResumeContract n l rw) = Ok (s', r) ->
    admin s = Some (sender i)
    /\ s' = set_st (set_cfg s (set_stopped (cfg s) false)) (set_totals (st s) n l rw (total_fees (st s)))
    /\ oracle_msgs s' e = Ok r.
  Proof.
    intros H. cbn [Staking.execute] in H. unfold resume_contract in H. inv_ok H. conv.
    inversion H; subst; clear H. repeat split; assumption.
  Qed.

  Lemma fee_withdraw_inv s e i a s' r :
    execute s e i (FeeWithdraw a) = Ok (s', r) ->
    exists t,
      admin s = Some (sender i) /\ a <= total_fees (st s) /\ fee_treasury (fees (cfg s)) = Some t
      /\ s' = set_st s (set_totals (st s) (total_native (st s)) (total_lst (st s)) (total_reward (st s)) (total_fees (st s) - a))
      /\ r = [plain (ASend (self e) t {| c_denom := pc_denom (protocol (cfg s)); c_amount := a |})].
  Proof.
    intros H. cbn [Staking.execute] in H. unfold fee_withdraw in H. inv_ok H. conv.
    inversion H; subst; clear H. eexists. repeat split; try eassumption; try reflexivity. lia.
  Qed.

  Lemma liquid_unstake_inv s e i s' r :
    execute s e i LiquidUnstake = Ok (s', r) ->
    exists a b,
      let p := pending_id s in
      must_pay i (lst_denom (cfg s)) = Ok a /\ stopped (cfg s) = false
      /\ nfind p (batches s) = Some b
      /\ r = []
      /\ cfg s' = cfg s /\ st s' = st s /\ admin s' = admin s /\ pending_id s' = p /\ inflight s' = inflight s
      /\ waitq s' = waitq s /\ version s' = version s
      /\ match find_request p (sender i) (requests s) with
         | Some q =>
             requests s' = add_to_request p (sender i) a (requests s)
             /\ batches s' = ninsert p {| b_id := b_id b; b_total := b_total b + a; b_expected := b_expected b;
                                          b_received := b_received b; b_count := b_count b; b_time := b_time b;
                                          b_status := b_status b |} (batches s)
         | None =>
             requests s' = (requests s ++ [{| r_batch := p; r_user := sender i; r_amount := a |}])%list
             /\ batches s' = ninsert p {| b_id := b_id b; b_total := b_total b + a; b_expected := b_expected b;
                                          b_received := b_received b; b_count := Some (opt_default 0 (b_count b) + 1);
                                          b_time := b_time b; b_status := b_status b |} (batches s)
         end.
  Proof.
    intros H. cbn [Staking.execute] in H. inv_ok H. unfold execute_liquid_unstake in H. inv_ok H. conv.
    inversion H; subst s' r; clear H.
    match goal with Hp : must_pay _ _ = Ok ?a, Hb : nfind _ (batches s) = Some ?b |- _ => exists a, b end.
    cbn.
    destruct (find_request (pending_id s) (sender i) (requests s)) as [q|] eqn:Fq.
    - match goal with Hs : bind _ _ = Ok ?v1 |- _ => inv_ok Hs; inversion Hs; subst v1 end.
      match goal with Hs : Ok _ = Ok _ |- _ => inversion Hs; subst end.
      repeat split; first [assumption | reflexivity].
    - match goal with Hs : Ok true = Ok ?v1 |- _ => inversion Hs; subst v1 end.
      match goal with Hs : bind _ _ = Ok _ |- _ => inv_ok Hs; conv; inversion Hs; subst end.
      repeat split; first [assumption | reflexivity].
  Qed.
End Handlers4.

Section Handlers5.
  Variable va : string -> string -> bool.
  Variable dv : string -> string -> string -> option string.
  Variable av : string -> bool.
  Notation execute := (execute va dv av).

  Ltac conv :=
    repeat match goal with
    | Hs : check_stopped _ = Ok _ |- _ => apply check_stopped_ok in Hs
    | Hs : assert_admin _ _ = Ok _ |- _ => apply assert_admin_ok in Hs
    | Hs : of_opt_err _ _ = Ok _ |- _ => apply of_opt_err_ok in Hs
    | Hs : of_opt _ _ = Ok _ |- _ => apply of_opt_ok in Hs
    | Hs : add64 _ _ = Some _ |- _ => apply add64_some in Hs as [-> ?]
    | Hs : add128 _ _ = Some _ |- _ => apply add128_some in Hs as [-> ?]
    | Hs : sub_checked _ _ = Some _ |- _ => apply sub_checked_some in Hs as [-> ?]
    | Hs : bstatus_eqb _ _ = true |- _ => apply bstatus_eqb_eq in Hs
    end.

  Lemma add_validator_inv s e i v s' r :
    execute s e i (AddValidator v) = Ok (s', r) ->
    admin s = Some (sender i) /\ va v (nc_valprefix (native (cfg s))) = true
    /\ mem_str v (nc_validators (native (cfg s))) = false
    /\ s' = set_cfg s (set_validators (cfg s) (nc_validators (native (cfg s)) ++ [v])) /\ r = [].
  Proof.
    intros H. cbn [Staking.execute] in H. unfold execute_add_validator in H. inv_ok H. conv.
    inversion H; subst; clear H.
    repeat split; try assumption.
    match goal with Hc : negb _ = true |- _ => apply negb_true_iff in Hc; exact Hc end.
  Qed.

  Lemma remove_validator_inv s e i v s' r :
    execute s e i (RemoveValidator v) = Ok (s', r) ->
    admin s = Some (sender i) /\ va v (nc_valprefix (native (cfg s))) = true
    /\ mem_str v (nc_validators (native (cfg s))) = true
    /\ s' = set_cfg s (set_validators (cfg s) (remove_first_str v (nc_validators (native (cfg s))))) /\ r = [].
  Proof.
    intros H. cbn [Staking.execute] in H. unfold execute_remove_validator in H. inv_ok H. conv.
    inversion H; subst; clear H. repeat split; assumption.
  Qed.

  Lemma transfer_ownership_inv s e i o s' r :
    execute s e i (TransferOwnership o) = Ok (s', r) ->
    admin s = Some (sender i) /\ av o = true
    /\ s' = set_st s (set_owner (st s) (Some o) (Some (now_s e + OWNER_DELAY_S))) /\ r = [].
  Proof.
    intros H. cbn [Staking.execute] in H. unfold execute_transfer_ownership in H. inv_ok H. conv.
    inversion H; subst; clear H. repeat split; assumption.
  Qed.

  Lemma revoke_ownership_inv s e i s' r :
    execute s e i RevokeOwnershipTransfer = Ok (s', r) ->
    admin s = Some (sender i) /\ s' = set_st s (set_owner (st s) None None) /\ r = [].
  Proof.
    intros H. cbn [Staking.execute] in H. unfold execute_revoke_ownership in H. inv_ok H. conv.
    inversion H; subst; clear H. repeat split; assumption.
  Qed.

  Lemma accept_ownership_inv s e i s' r :
    execute s e i AcceptOwnership = Ok (s', r) ->
    pending_owner (st s) = Some (sender i)
    /\ (forall t, owner_min_time (st s) = Some t -> t <= now_s e)
    /\ s' = set_admin (set_st s (set_owner (st s) None (owner_min_time (st s)))) (Some (sender i)) /\ r = [].
  Proof.
    intros H. cbn [Staking.execute] in H. unfold execute_accept_ownership in H. inv_ok H.
    destruct (pending_owner (st s)) as [p|] eqn:Hp; [|discriminate].
    destruct (String.eqb p (sender i)) eqn:Heq; [|discriminate].
    apply String.eqb_eq in Heq. subst p. inversion H; subst; clear H.
    repeat split; try reflexivity.
    intros t Ht. match goal with Hc : match owner_min_time _ with Some _ => _ | None => _ end = true |- _ => rewrite Ht in Hc; lia end.
  Qed.

  Lemma update_config_inv s e i n p f m bp s' r :
    execute s e i (UpdateConfig n p f m bp) = Ok (s', r) ->
    exists n' p' f' m',
      admin s = Some (sender i)
      /\ match n with Some u => validate_native va u = Some n' | None => n' = native (cfg s) end
      /\ match p with Some u => validate_protocol va u = Some p' | None => p' = protocol (cfg s) end
      /\ match f with Some u => validate_fee va u p' = Some f' | None => f' = fees (cfg s) end
      /\ match m with Some l => validate_addresses va l (pc_prefix p') [] = true /\ m' = l | None => m' = monitors (cfg s) end
      /\ s' = set_cfg s {| native := n'; protocol := p'; fees := f'; lst_denom := lst_denom (cfg s); monitors := m';
                           batch_period := opt_default (batch_period (cfg s)) bp; stopped := stopped (cfg s) |}
      /\ r = [].
  Proof.
    intros H. cbn [Staking.execute] in H. unfold update_config in H. inv_ok H. conv.
    inversion H; subst; clear H.
    match goal with
    | Hn : _ = Ok ?n', Hp : _ = Ok ?p', Hf : _ = Ok ?f', Hm : match m with Some _ => _ | None => _ end = Ok ?m' |- _ =>
        match type of n' with native_cfg => match type of p' with protocol_cfg => match type of f' with fee_cfg =>
          exists n', p', f', m'; rename Hn into En, Hp into Ep, Hf into Ef, Hm into Em end end end
    end.
    split; [assumption|].
    split; [destruct n; [apply of_opt_err_ok in En; exact En | inversion En; reflexivity]|].
    split; [destruct p; [apply of_opt_err_ok in Ep; exact Ep | inversion Ep; reflexivity]|].
    split; [destruct f; [apply of_opt_err_ok in Ef; exact Ef | inversion Ef; reflexivity]|].
    split; [| split; reflexivity].
    destruct m as [l|].
    - match type of Em with (if ?c then Ok _ else _) = Ok _ => destruct c eqn:Hv; [inversion Em; subst; split; reflexivity | discriminate] end.
    - inversion Em; reflexivity.
  Qed.
End Handlers5.

Section Handlers6.
  Variable va : string -> string -> bool.
  Variable dv : string -> string -> string -> option string.
  Variable av : string -> bool.
  Notation execute := (execute va dv av).

  Definition recover_filter (rcv : string) (p : packet) : bool :=
    String.eqb (p_receiver p) rcv && refundable (p_status p).

  Lemma recover_inv s e i pg sel rcvo s' r :
    execute s e i (RecoverPendingIbcTransfers pg sel rcvo) = Ok (s', r) ->
    exists rcv p0 rest total maxid,
      let ps := p0 :: rest in
      let c := {| c_denom := c_denom (p_coin p0); c_amount := total |} in
      (sel <> None -> admin s = Some (sender i))
      /\ match rcvo with
         | Some x => va x (nc_prefix (native (cfg s))) = true /\ rcv = x
         | None => rcv = nc_staker (native (cfg s))
         end
      /\ match sel with
         | Some ids => load_selected ids (inflight s) rcv [] = Ok ps
         | None => ps = paginate (inflight s) None (if opt_default false pg then Some PAGE_SIZE else None) (recover_filter rcv)
         end
      /\ forallb (fun p => String.eqb (c_denom (p_coin p)) (c_denom (p_coin p0))) rest = true
      /\ nlast_key (inflight s) = Some maxid
      /\ sum_packets ps 0 = Some total
      /\ s' = set_waitq (set_inflight s (fold_left (fun m p => nremove (p_seq p) m) ps (inflight s)))
                (ninsert (maxid + 1) {| w_coin := c; w_receiver := rcv |} (waitq s))
      /\ r = [transfer_sub s e (maxid + 1) rcv c (now_ns e + IBC_TIMEOUT_NS)].
  Proof.
    intros H. cbn [Staking.execute] in H. unfold recover in H. inv_ok H.
    match goal with Hp : _ = Ok ?ps |- _ => match type of ps with list packet => destruct ps as [|p0 rest]; [discriminate|] end end.
    inv_ok H.
    repeat match goal with Hs : of_opt _ _ = Ok _ |- _ => apply of_opt_ok in Hs end.
    match goal with Hs : add64 _ 1 = Some _ |- _ => apply add64_some in Hs as [-> _] end.
    match goal with Hs : ibc_sub _ _ _ _ (Some _) = Ok ?p |- _ =>
      destruct p as [s2 sub]; apply ibc_sub_ok in Hs as (-> & -> & Hw) end.
    inversion H; subst s' r; clear H.
    match goal with
    | Hr : _ = Ok ?rcv, Hm : nlast_key _ = Some ?mx, Ht : sum_packets _ 0 = Some ?tot |- _ =>
        match type of rcv with string => exists rcv, p0, rest, tot, mx; rename Hr into Er end
    end.
    cbv zeta.
    split.
    { intros Hsel. destruct sel as [ids|]; [| congruence].
      match goal with Hs : assert_admin _ _ = Ok _ |- _ => eapply assert_admin_ok; exact Hs end. }
    split.
    { destruct rcvo as [x|].
      - destruct (va x (nc_prefix (native (cfg s)))) eqn:Hv; [inversion Er; subst; split; reflexivity | discriminate].
      - inversion Er; reflexivity. }
    split.
    { destruct sel as [ids|].
      - assumption.
      - match goal with Hs : Ok _ = Ok (p0 :: rest) |- _ => inversion Hs as [Hq]; reflexivity end. }
    split; [assumption|]. split; [assumption|]. split; [assumption|].
    split; reflexivity.
  Qed.

End Handlers6.
