(* Tactics.v — inversion of the outcome monad, arithmetic set-up shared by the proofs. *)
From MW Require Export Base.
From Coq Require Export ZifyBool ZifyN Lia.
Ltac Zify.zify_post_hook ::= Z.div_mod_to_equations.

Arguments N.add : simpl never.
Arguments N.sub : simpl never.
Arguments N.mul : simpl never.
Arguments N.div : simpl never.
Arguments N.modulo : simpl never.
Arguments N.pow : simpl never.
Arguments N.eqb : simpl never.
Arguments N.ltb : simpl never.
Arguments N.leb : simpl never.

(* [H : (do x <- e; k) = Ok r]  ~~>  e = Ok x  and  k x = Ok r *)
Lemma bind_ok {A B} (r : result A) (f : A -> result B) (b : B) :
  bind r f = Ok b -> exists a, r = Ok a /\ f a = Ok b.
Proof. destruct r; cbn; intros H; try discriminate; eauto. Qed.

Lemma of_opt_ok {A} (o : option A) site (a : A) : of_opt o site = Ok a -> o = Some a.
Proof. destruct o; cbn; intros H; inversion H; reflexivity. Qed.
Lemma of_opt_err_ok {A} (o : option A) e (a : A) : of_opt_err o e = Ok a -> o = Some a.
Proof. destruct o; cbn; intros H; inversion H; reflexivity. Qed.

Ltac inv_ok H :=
  repeat (first
    [ match type of H with
      | bind ?e _ = Ok _ =>
          let a := fresh "v" in let E := fresh "E" in
          apply bind_ok in H; destruct H as (a & E & H)
      | (if ?c then _ else _) = Ok _ =>
          let C := fresh "C" in destruct c eqn:C; [| discriminate H ]
      | (if ?c then _ else _) = Ok _ =>
          let C := fresh "C" in destruct c eqn:C; [ discriminate H |]
      | Err _ = Ok _ => discriminate H
      | Panic _ = Ok _ => discriminate H
      end ]).

Lemma add128_some a b c : add128 a b = Some c -> c = a + b /\ a + b <= u128_max.
Proof. unfold add128. destruct (a + b <=? u128_max) eqn:E; intros H; inversion H. split; [reflexivity | lia]. Qed.
Lemma add64_some a b c : add64 a b = Some c -> c = a + b /\ a + b <= u64_max.
Proof. unfold add64. destruct (a + b <=? u64_max) eqn:E; intros H; inversion H. split; [reflexivity | lia]. Qed.
Lemma deadline_some a b c : deadline a b = Some c -> c = a + b /\ a + b <= u64_max.
Proof. unfold deadline. destruct ((a + b) * 1000000000 <=? u64_max) eqn:E; intros H; inversion H. split; [reflexivity | unfold u64_max in *; lia]. Qed.
Lemma deadline_fits a b c : deadline a b = Some c -> c * 1000000000 <= u64_max.
Proof. unfold deadline. destruct ((a + b) * 1000000000 <=? u64_max) eqn:E; intros H; inversion H. lia. Qed.
Lemma sub_checked_some a b c : sub_checked a b = Some c -> c = a - b /\ b <= a.
Proof. unfold sub_checked. destruct (b <=? a) eqn:E; intros H; inversion H. split; [reflexivity | lia]. Qed.
Lemma mul_ratio_some a n d q : mul_ratio a n d = Some q -> d <> 0 /\ q = a * n / d /\ q <= u128_max.
Proof.
  unfold mul_ratio. destruct (d =? 0) eqn:E; [discriminate|].
  destruct (a * n / d <=? u128_max) eqn:F; intros H; inversion H. repeat split; lia.
Qed.
Lemma mul_ratio_total a n d : d <> 0 -> a * n / d <= u128_max -> mul_ratio a n d = Some (a * n / d).
Proof.
  intros Hd Hq. unfold mul_ratio. destruct (d =? 0) eqn:E; [lia|].
  destruct (a * n / d <=? u128_max) eqn:F; [reflexivity | lia].
Qed.
