(* MigrateProofs.v — migrations are version-gated and preserve every value-bearing record (C18). *)
From MW Require Import Staking Treasury Migrate.
From MW.Proofs Require Import Tactics Handlers Maps Invariant Pagination Recovery.
Open Scope N_scope.

Definition from_version (m : migrate_msg) : string :=
  match m with MV0418 _ => FROM_0418 | MV0420 _ _ _ _ => FROM_0420 | MV100 => FROM_100 end.

Section MigrateProofs.
  Variable va : string -> string -> bool.
  Notation migrate := (migrate va).

  (* the gate: same contract name, exactly the source version of the chosen path, strictly older than the new one *)
  Theorem migrate_gate ms msg ms' :
    migrate ms msg = Ok ms' ->
    m_name ms = CONTRACT_NAME /\ m_version ms = from_version msg
    /\ (exists v nv, parse_semver (m_version ms) = Some v /\ parse_semver CONTRACT_VERSION = Some nv /\ semver_lt v nv = true)
    /\ m_name ms' = CONTRACT_NAME /\ m_version ms' = CONTRACT_VERSION.
  Proof.
    unfold Migrate.migrate. intros H. inv_ok H.
    match goal with Hn : String.eqb (m_name ms) _ = true |- _ => apply String.eqb_eq in Hn end.
    destruct (parse_semver (m_version ms)) as [v|] eqn:Pv; [|discriminate].
    destruct (parse_semver CONTRACT_VERSION) as [nv|] eqn:Pn; [|discriminate].
    inv_ok H.
    assert (Hs : forall l, stamp l = ms' -> m_name ms' = CONTRACT_NAME /\ m_version ms' = CONTRACT_VERSION) by (intros l <-; split; reflexivity).
    destruct msg; inv_ok H; match goal with Hv : String.eqb (m_version ms) _ = true |- _ => apply String.eqb_eq in Hv end.
    - destruct (m_layout ms); try discriminate. injection H as H. destruct (Hs _ H). repeat split; try assumption. exists v, nv. repeat split; assumption.
    - destruct (validate_address_prefix native_prefix); [|discriminate]. destruct (validate_address_prefix val_prefix); [|discriminate].
      destruct (validate_address_prefix protocol_prefix); [|discriminate]. destruct (validate_denom native_denom); [|discriminate].
      destruct (m_layout ms); try discriminate. inv_ok H. injection H as H. destruct (Hs _ H).
      repeat split; try assumption. exists v, nv. repeat split; assumption.
    - destruct (m_layout ms); try discriminate. injection H as H. destruct (Hs _ H). repeat split; try assumption. exists v, nv. repeat split; assumption.
  Qed.

  (* 1.0.0 -> 1.1.0: every tracked and pending transfer keeps its key, sequence, amount and status, gains the
     configured staked-asset denom and the staker as receiver; the configuration is untouched *)
  Theorem v110_preserves ms ms' :
    migrate ms MV100 = Ok ms' ->
    exists c pkts waits,
      m_layout ms = L100 c pkts waits
      /\ m_layout ms' = L110 c
           (map (fun kv => (fst kv, {| p_seq := lp_seq (snd kv);
                                        p_coin := {| c_denom := pc_denom (protocol c); c_amount := lp_amount (snd kv) |};
                                        p_receiver := nc_staker (native c); p_status := lp_status (snd kv) |})) pkts)
           (map (fun kv => (fst kv, {| w_coin := {| c_denom := pc_denom (protocol c); c_amount := snd kv |};
                                        w_receiver := nc_staker (native c) |})) waits).
  Proof.
    unfold Migrate.migrate. intros H. inv_ok H.
    destruct (parse_semver (m_version ms)); [|discriminate]. destruct (parse_semver CONTRACT_VERSION); [|discriminate].
    inv_ok H. destruct (m_layout ms) as [| |c pkts waits|]; try discriminate. injection H as <-. exists c, pkts, waits. split; reflexivity.
  Qed.

  (* consequences, key by key *)
  Lemma nfind_map {A B} (f : A -> B) (m : nmap A) k : nfind k (map (fun kv => (fst kv, f (snd kv))) m) = option_map f (nfind k m).
  Proof. induction m as [|[k' v] m IH]; cbn; [reflexivity|]. destruct (k =? k'); [reflexivity | exact IH]. Qed.

  Theorem v110_packet ms ms' c pkts waits c' pkts' waits' :
    migrate ms MV100 = Ok ms' -> m_layout ms = L100 c pkts waits -> m_layout ms' = L110 c' pkts' waits' ->
    c' = c
    /\ (forall k, nfind k pkts' = option_map (fun lp => {| p_seq := lp_seq lp; p_coin := {| c_denom := pc_denom (protocol c); c_amount := lp_amount lp |};
                                                          p_receiver := nc_staker (native c); p_status := lp_status lp |}) (nfind k pkts))
    /\ (forall k, nfind k waits' = option_map (fun a => {| w_coin := {| c_denom := pc_denom (protocol c); c_amount := a |};
                                                           w_receiver := nc_staker (native c) |}) (nfind k waits))
    /\ nkeys pkts' = nkeys pkts /\ nkeys waits' = nkeys waits.
  Proof.
    intros H L1 L2. apply v110_preserves in H. destruct H as (c0 & p0 & w0 & E1 & E2). rewrite L1 in E1. injection E1 as <- <- <-.
    rewrite L2 in E2. injection E2 as -> -> ->. split; [reflexivity|].
    split; [intros k; exact (nfind_map (fun lp => {| p_seq := lp_seq lp; p_coin := {| c_denom := pc_denom (protocol c); c_amount := lp_amount lp |};
                                                   p_receiver := nc_staker (native c); p_status := lp_status lp |}) pkts k)|].
    split; [intros k; exact (nfind_map (fun a => {| w_coin := {| c_denom := pc_denom (protocol c); c_amount := a |}; w_receiver := nc_staker (native c) |}) waits k)|].
    unfold nkeys. rewrite !map_map. split; reflexivity.
  Qed.

  (* refundable value recoverable before the upgrade is recoverable after it: the refundable records of the
     migrated table carry exactly the legacy refundable amounts, all in the staked-asset denom, all for the staker *)
  Theorem v110_refundable ms ms' c pkts waits pkts' waits' :
    migrate ms MV100 = Ok ms' -> m_layout ms = L100 c pkts waits -> m_layout ms' = L110 c pkts' waits' ->
    map (fun p => (p_seq p, c_amount (p_coin p))) (filter (recover_filter (nc_staker (native c))) (map snd pkts'))
    = map (fun lp => (lp_seq lp, lp_amount lp)) (filter (fun lp => refundable (lp_status lp)) (map snd pkts))
    /\ (forall p, In p (map snd pkts') -> c_denom (p_coin p) = pc_denom (protocol c) /\ p_receiver p = nc_staker (native c)).
  Proof.
    intros H L1 L2. apply v110_preserves in H. destruct H as (c0 & p0 & w0 & E1 & E2). rewrite L1 in E1. injection E1 as <- <- <-.
    rewrite L2 in E2. injection E2 as -> ->. clear L1 L2. split.
    - induction pkts as [|[k lp] r IH]; cbn; [reflexivity|]. unfold recover_filter at 1. cbn. rewrite String.eqb_refl. cbn.
      destruct (refundable (lp_status lp)); cbn; rewrite IH; reflexivity.
    - intros p Hp. rewrite map_map in Hp. apply in_map_iff in Hp as (kv & <- & _). split; reflexivity.
  Qed.

  (* 0.4.18 -> 0.4.20: field by field; nothing but the configuration record changes *)
  Theorem v0420_fieldwise ms sf ms' :
    migrate ms (MV0418 sf) = Ok ms' ->
    exists c pkts waits c',
      m_layout ms = L0418 c pkts waits /\ m_layout ms' = L0420 c' pkts waits
      /\ b_native_denom c' = a_native_denom c /\ b_lst_denom c' = a_lst_denom c /\ b_treasury c' = a_treasury c
      /\ b_monitors c' = a_monitors c /\ b_validators c' = a_validators c /\ b_batch_period c' = a_batch_period c
      /\ b_unbonding c' = a_unbonding c /\ b_fee c' = a_fee c /\ b_staker c' = a_staker c /\ b_collector c' = a_collector c
      /\ b_min c' = a_min c /\ b_channel c' = a_channel c /\ b_stopped c' = a_stopped c /\ b_oracle c' = a_oracle c
      /\ b_send_fees c' = sf.
  Proof.
    unfold Migrate.migrate. intros H. inv_ok H.
    destruct (parse_semver (m_version ms)); [|discriminate]. destruct (parse_semver CONTRACT_VERSION); [|discriminate].
    inv_ok H. destruct (m_layout ms) as [c pkts waits| | |]; try discriminate. injection H as <-.
    do 4 eexists. split; [reflexivity|]. split; [reflexivity|]. cbn. repeat split.
  Qed.

  (* 0.4.20 -> 1.0.0: every value the newer layout retains is carried over unchanged; the new prefixes are the
     validated (normalised) ones, every carried address validates under them, packets are untouched *)
  Theorem v100_fieldwise ms np vp nd pp ms' :
    migrate ms (MV0420 np vp nd pp) = Ok ms' ->
    exists c pkts waits c',
      m_layout ms = L0420 c pkts waits /\ m_layout ms' = L100 c' pkts waits
      /\ validate_address_prefix np = Some (nc_prefix (native c')) /\ validate_address_prefix vp = Some (nc_valprefix (native c'))
      /\ validate_address_prefix pp = Some (pc_prefix (protocol c')) /\ validate_denom nd = Some nd /\ nc_denom (native c') = nd
      /\ nc_validators (native c') = b_validators c /\ nc_unbonding (native c') = b_unbonding c
      /\ nc_staker (native c') = b_staker c /\ nc_collector (native c') = b_collector c
      /\ pc_channel (protocol c') = b_channel c /\ pc_denom (protocol c') = b_native_denom c /\ pc_min (protocol c') = b_min c
      /\ pc_oracle (protocol c') = b_oracle c /\ fee_rate (fees c') = b_fee c
      /\ fee_treasury (fees c') = (if b_send_fees c then Some (b_treasury c) else None)
      /\ lst_denom c' = b_lst_denom c /\ monitors c' = opt_default [] (b_monitors c)
      /\ batch_period c' = b_batch_period c /\ stopped c' = b_stopped c
      /\ va (b_staker c) (nc_prefix (native c')) = true /\ va (b_collector c) (nc_prefix (native c')) = true
      /\ (forall v, In v (b_validators c) -> va v (nc_valprefix (native c')) = true)
      /\ (forall o, b_oracle c = Some o -> va o (pc_prefix (protocol c')) = true)
      /\ (b_send_fees c = true -> va (b_treasury c) (pc_prefix (protocol c')) = true).
  Proof.
    unfold Migrate.migrate. intros H. inv_ok H.
    destruct (parse_semver (m_version ms)); [|discriminate]. destruct (parse_semver CONTRACT_VERSION); [|discriminate].
    inv_ok H.
    destruct (validate_address_prefix np) as [np'|] eqn:E1; [|discriminate]. destruct (validate_address_prefix vp) as [vp'|] eqn:E2; [|discriminate].
    destruct (validate_address_prefix pp) as [pp'|] eqn:E3; [|discriminate]. destruct (validate_denom nd) as [nd'|] eqn:E4; [|discriminate].
    destruct (m_layout ms) as [|c pkts waits| |]; try discriminate. inv_ok H. injection H as <-.
    assert (nd' = nd) as -> by (unfold validate_denom in E4; destruct (slen nd <=? 3); [discriminate|]; destruct (str_forall is_alpha nd); [injection E4 as <-; reflexivity | discriminate]).
    do 4 eexists. split; [reflexivity|]. split; [reflexivity|]. cbn.
    repeat (split; [first [assumption | reflexivity]|]).
    split; [intros v Hv; match goal with Hf : forallb _ _ = true |- _ => rewrite forallb_forall in Hf; apply Hf; exact Hv end|].
    split; [intros o Ho; match goal with Hx : match b_oracle c with Some _ => _ | None => _ end = true |- _ => rewrite Ho in Hx; exact Hx end|].
    intros Hs. match goal with Hx : (if b_send_fees c then _ else true) = true |- _ => rewrite Hs in Hx; exact Hx end.
  Qed.
End MigrateProofs.

(* treasury: gate only, the store is returned unchanged *)
Theorem tmigrate_spec s s' r :
  tmigrate s = Ok (s', r) ->
  fst (t_version s) = T_CONTRACT_NAME
  /\ (exists v nv, parse_semver (snd (t_version s)) = Some v /\ parse_semver T_CONTRACT_VERSION = Some nv /\ semver_lt v nv = true)
  /\ s' = s /\ r = [].
Proof.
  unfold tmigrate. intros H. inv_ok H. match goal with Hn : String.eqb _ _ = true |- _ => apply String.eqb_eq in Hn end.
  destruct (parse_semver (snd (t_version s))) as [v|] eqn:Pv; [|discriminate].
  destruct (parse_semver T_CONTRACT_VERSION) as [nv|] eqn:Pn; [|discriminate].
  destruct (semver_lt v nv) eqn:L; [|discriminate]. injection H as <- <-. repeat split; try assumption. exists v, nv. repeat split; assumption.
Qed.
