(* WorldSolvency.v — C02 on the world: the environment assumptions of Solvency.v that concern the chain (success
   acknowledgements only for transfers still in flight, fresh packet sequences) are theorems of the world model, so the
   ghost wallet stays solvent along every world history. *)
From MW Require Import Base Wire Staking World.
From MW.Proofs Require Import Tactics Handlers Maps Invariant Recovery Ledger Solvency WorldProofs.
Open Scope N_scope.

Section WS.
  Variable va : string -> string -> bool.
  Variable dv : string -> string -> string -> option string.
  Variable av : string -> bool.
  Notation execute := (execute va dv av).
  Notation wstep := (World.wstep va dv av).
  Notation wrun := (World.wrun va dv av).
  Notation sstep := (Solvency.wstep va dv av).

  Lemma sstep_store s w c : fst (sstep (s, w) c) = fst (apply_call va dv av s c).
  Proof. unfold Solvency.wstep. destruct (apply_call va dv av s c). reflexivity. Qed.

  Lemma fresh_next s pk next : M_inv s pk next -> nfind next (inflight s) = None.
  Proof.
    intros (_ & H1 & H2 & _). rewrite H1. unfold rec_at. rewrite find_pkt_none; [reflexivity|].
    intros p Hp E. specialize (H2 p Hp). lia.
  Qed.

  (* one accepted transfer: the reply succeeds on a fresh sequence and the invariant moves on *)
  Lemma dispatch_one s pk next sm r :
    M_inv s pk next -> wf_resp s (sm :: r) -> is_transfer sm = true ->
    exists rcv c sender t memo s1,
      sm_msg sm = ATransfer (CH s) rcv c sender t memo /\ sm_reply sm = true
      /\ reply s (sm_id sm) (ROk next) = Ok (s1, [])
      /\ M_inv s1 (pk ++ [{| wp_seq := next; wp_channel := CH s; wp_receiver := rcv; wp_coin := c; wp_state := Flight; wp_tracked := true |}])%list (next + 1)
      /\ wf_resp s1 r.
  Proof.
    intros HM [Hwf Hnd] T.
    unfold transfers in Hwf, Hnd. cbn [filter] in Hwf, Hnd. rewrite T in Hwf, Hnd. fold (transfers r) in Hwf, Hnd.
    inversion Hwf as [|x l Hsm Hrest]; subst. cbn [map] in Hnd. inversion Hnd as [|y l' Hnotin Hnd']; subst.
    destruct Hsm as (rcv & c & sender & t & memo & Hm & Hr & Hw).
    pose proof (reply_spec s (sm_id sm) (ROk next)) as RS. rewrite Hw in RS.
    set (s1 := set_inflight (set_waitq s (nremove (sm_id sm) (waitq s)))
                 (ninsert next {| p_seq := next; p_coin := c; p_receiver := rcv; p_status := Sent |} (inflight s))) in *.
    exists rcv, c, sender, t, memo, s1. split; [exact Hm|]. split; [exact Hr|]. split; [exact RS|].
    set (newp := {| wp_seq := next; wp_channel := CH s; wp_receiver := rcv; wp_coin := c; wp_state := Flight; wp_tracked := true |}).
    destruct HM as (HI & H1 & H2 & H3 & H4 & H5). split.
    - unfold M_inv. split; [| split; [| split; [| split; [| split]]]].
      + eapply (reply_preserves_I_packets _ (sm_id sm) (ROk next)); [exact HI | exact RS].
      + intros k. unfold s1. cbn [inflight set_inflight]. rewrite rec_at_app_new by (intros q Hq; cbn; apply H2; exact Hq).
        cbn [wp_seq newp]. destruct (k =? next) eqn:E.
        * assert (k = next) by lia. subst k. rewrite nfind_ninsert_eq. reflexivity.
        * rewrite nfind_ninsert_neq by lia. apply H1.
      + intros p Hp. apply in_app_iff in Hp as [Hp|[<-|[]]]; [specialize (H2 p Hp); lia | cbn; lia].
      + rewrite map_app. cbn. apply NoDup_app_single; [exact H3|]. intros Hin. apply in_map_iff in Hin as (q & Hq & Hin). specialize (H2 q Hin). lia.
      + intros p Hp Ht. apply in_app_iff in Hp as [Hp|[<-|[]]]; [apply H4; assumption | reflexivity].
      + intros p Hp Hd. apply in_app_iff in Hp as [Hp|[<-|[]]]; [apply H5; assumption | discriminate Hd].
    - split; [| exact Hnd']. apply Forall_forall. intros x Hx. rewrite Forall_forall in Hrest.
      apply (wf_transfer_after_reply s s1 (sm_id sm)); [apply Hrest; exact Hx | | reflexivity | reflexivity | reflexivity].
      intros E. apply Hnotin. rewrite <- E. apply in_map. exact Hx.
  Qed.

  (* the replies of a dispatched response keep the wallet solvent *)
  Lemma dispatch_solvent r : forall s pk next s' pk' next' wal,
    M_inv s pk next -> wf_resp s r -> Solvent (s, wal) ->
    dispatch s pk next r = Some (s', pk', next') ->
    fst (fold_left sstep (reply_calls next r) (s, wal)) = s'
    /\ Solvent (fold_left sstep (reply_calls next r) (s, wal)).
  Proof.
    induction r as [|sm r IH]; intros s pk next s' pk' next' wal HM Hwf HS H; cbn [dispatch reply_calls] in *.
    - inversion H; subst. split; [reflexivity | exact HS].
    - destruct (is_transfer sm) eqn:T.
      + destruct (dispatch_one s pk next sm r HM Hwf T) as (rcv & c & sender & t & memo & s1 & Hm & Hr & RS & HM1 & Hwf1).
        rewrite Hm, Hr, RS in H. rewrite Hm, Hr. cbn [fold_left].
        assert (Ok1 : ok_call s (CReply (sm_id sm) (ROk next))) by (cbn; eapply fresh_next; exact HM).
        pose proof (Solvent_step va dv av (s, wal) _ HS Ok1) as HS1.
        assert (E : sstep (s, wal) (CReply (sm_id sm) (ROk next)) = (s1, snd (sstep (s, wal) (CReply (sm_id sm) (ROk next))))).
        { rewrite (surjective_pairing (sstep (s, wal) (CReply (sm_id sm) (ROk next)))). f_equal. rewrite sstep_store. unfold apply_call. rewrite RS. reflexivity. }
        rewrite E in HS1 |- *. change (CH s) with (pc_channel (protocol (cfg s))) in H.
        apply (IH _ _ _ _ _ _ _ HM1 Hwf1 HS1 H).
      + assert (Hwf' : wf_resp s r).
        { destruct Hwf as [A B]. unfold wf_resp, transfers in *. cbn [filter] in A, B. rewrite T in A, B. split; assumption. }
        destruct (sm_msg sm) eqn:Msg; try (apply (IH _ _ _ _ _ _ _ HM Hwf' HS H)). unfold is_transfer in T. rewrite Msg in T. discriminate.
  Qed.

  (* what is still assumed about a transaction: the channel and the staked-asset denom are not reconfigured and an
     admin-forced recovery names refunded transfers only *)
  Definition exec_ok (w : world) (ev : wevent) : Prop :=
    routing_kept va dv av w ev
    /\ match ev with WExec e i m => ok_call (w_store w) (CExec e i m) | _ => True end.

  Theorem world_solvent_step w ev wal :
    W_inv w -> Solvent (w_store w, wal) -> exec_ok w ev ->
    fst (fold_left sstep (wcalls va dv av w ev) (w_store w, wal)) = w_store (wstep w ev)
    /\ Solvent (fold_left sstep (wcalls va dv av w ev) (w_store w, wal)).
  Proof.
    intros HW HS [HR Hok]. destruct w as [s pk next]. unfold W_inv in HW. cbn [w_store w_packets w_next] in *.
    destruct ev as [e i m | e i m | seq o | m]; cbn [wcalls World.wstep w_store w_packets w_next].
    - unfold committed. cbn [w_store w_packets w_next].
      destruct (execute s e i m) as [[s' r]|k|site] eqn:H; try (cbn; split; [reflexivity | exact HS]).
      destruct (exec_inv va dv av s pk next e i m s' r HW H (HR s' r H)) as [HM Hwf].
      destruct (dispatch s' (untrack (removed_seqs s s') pk) next r) as [[[s'' pk''] nx]|] eqn:Dp; [| cbn; split; [reflexivity | exact HS]].
      cbn [fold_left w_store].
      pose proof (Solvent_step va dv av (s, wal) _ HS Hok) as HS1.
      assert (E : sstep (s, wal) (CExec e i m) = (s', snd (sstep (s, wal) (CExec e i m)))).
      { rewrite (surjective_pairing (sstep (s, wal) (CExec e i m))). f_equal. rewrite sstep_store. unfold apply_call. rewrite H. reflexivity. }
      rewrite E in HS1 |- *. apply (dispatch_solvent r _ _ _ _ _ _ _ HM Hwf HS1 Dp).
    - cbn. split; [reflexivity | exact HS].
    - destruct (find_pkt seq pk) as [p|] eqn:P; [| cbn; split; [reflexivity | exact HS]].
      destruct (wp_state p) eqn:St; try (cbn; split; [reflexivity | exact HS]).
      apply find_pkt_some in P as [Pin Pseq]. destruct HW as (HI & H1 & H2 & H3 & H4 & H5).
      set (m := match o with OAckOk => SAck (wp_channel p) seq true | OAckErr => SAck (wp_channel p) seq false | OTimeout => STimeout (wp_channel p) seq end).
      cbn [fold_left].
      assert (Okm : ok_call s (CSudo m)).
      { unfold m. destruct o; cbn; try exact I. intros _ q Hq. rewrite H1 in Hq. unfold rec_at in Hq.
        rewrite <- Pseq in Hq. rewrite (find_pkt_in pk p H3 Pin) in Hq. unfold rec_of in Hq. destruct (wp_tracked p); [|discriminate].
        inversion Hq; subst. cbn. rewrite St. reflexivity. }
      split; [| apply (Solvent_step va dv av (s, wal) _ HS Okm)].
      rewrite sstep_store. unfold apply_call. fold m. destruct (sudo s m) as [[s' r]|k|site]; reflexivity.
    - destruct (match m with SAck ch seq _ | STimeout ch seq => String.eqb ch (pc_channel (protocol (cfg s))) && match nfind seq (inflight s) with Some _ => true | None => false end end) eqn:Hit;
        [cbn; split; [reflexivity | exact HS]|].
      cbn [fold_left].
      assert (Okm : ok_call s (CSudo m)).
      { destruct m as [ch seq ok | ch seq]; [destruct ok|]; cbn; try exact I. intros Hc q Hq. rewrite Hc, Hq in Hit. discriminate. }
      split; [| apply (Solvent_step va dv av (s, wal) _ HS Okm)].
      rewrite sstep_store. unfold apply_call. destruct (sudo s m) as [[s' r]|k|site]; reflexivity.
  Qed.

  (* the wallet carried along a world history *)
  Fixpoint wwallet (w : world) (wal : wallet) (evs : list wevent) : wallet :=
    match evs with
    | [] => wal
    | ev :: rest => wwallet (wstep w ev) (snd (fold_left sstep (wcalls va dv av w ev) (w_store w, wal))) rest
    end.

  Theorem world_solvency w wal evs :
    W_inv w -> Solvent (w_store w, wal) -> events_ok va dv av exec_ok w evs ->
    Solvent (w_store (wrun w evs), wwallet w wal evs).
  Proof.
    revert w wal. induction evs as [|ev evs IH]; intros w wal HW HS Hok; cbn [World.wrun fold_left wwallet]; [exact HS|].
    destruct Hok as [Hev Hrest]. destruct (world_solvent_step w ev wal HW HS Hev) as [A B].
    apply IH; [apply wstep_inv; [exact HW | apply Hev] | | exact Hrest].
    rewrite <- A. rewrite <- surjective_pairing. exact B.
  Qed.
End WS.
