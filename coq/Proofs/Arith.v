(* Arith.v — the rounding laws behind C04 / C05 / C11, over all of N. *)
From MW Require Import Staking.
From MW.Proofs Require Import Tactics.
Open Scope N_scope.

Lemma div_mul_le a b : b <> 0 -> a / b * b <= a.
Proof. intros Hb. pose proof (N.mul_div_le a b Hb). lia. Qed.

(* floor(x / n) * n <= x, the workhorse *)
Lemma floor_le x n q : n <> 0 -> q = x / n -> q * n <= x.
Proof. intros Hn ->. apply div_mul_le; assumption. Qed.

Lemma compute_mint_spec tn tl a m :
  compute_mint tn tl a = Some m ->
  (tn = 0 /\ m = a) \/ (tn <> 0 /\ m = tl * a / tn /\ m <= u128_max).
Proof.
  unfold compute_mint. destruct (tn =? 0) eqn:E.
  - intros H; inversion H. left; split; [lia | reflexivity].
  - intros H. apply mul_ratio_some in H. right. intuition.
Qed.
Lemma compute_mint_total tn tl a :
  tn <> 0 -> tl * a / tn <= u128_max -> compute_mint tn tl a = Some (tl * a / tn).
Proof.
  intros Hn Hq. unfold compute_mint. destruct (tn =? 0) eqn:E; [lia|]. apply mul_ratio_total; assumption.
Qed.
Lemma compute_mint_zero tl a : compute_mint 0 tl a = Some a.
Proof. reflexivity. Qed.

Lemma compute_unbond_spec tn tl b u :
  compute_unbond tn tl b = Some u ->
  (b = 0 /\ u = 0) \/ (b <> 0 /\ tl <> 0 /\ u = tn * b / tl /\ u <= u128_max).
Proof.
  unfold compute_unbond. destruct (b =? 0) eqn:E.
  - intros H; inversion H. left; split; [lia | reflexivity].
  - intros H. apply mul_ratio_some in H. right. intuition; lia.
Qed.
Lemma compute_unbond_total tn tl b :
  b <> 0 -> tl <> 0 -> tn * b / tl <= u128_max -> compute_unbond tn tl b = Some (tn * b / tl).
Proof.
  intros Hb Hl Hq. unfold compute_unbond. destruct (b =? 0) eqn:E; [lia|]. apply mul_ratio_total; assumption.
Qed.

(* staked-per-LST rate (N/L) never drops: cross-multiplied *)
Lemma stake_rate_mono N L a m : N <> 0 -> m = L * a / N -> N * (L + m) <= (N + a) * L.
Proof.
  intros HN ->. pose proof (div_mul_le (L * a) N HN). nia.
Qed.
Lemma submit_rate_mono N L b u : L <> 0 -> b <= L -> u = N * b / L -> N * (L - b) <= (N - u) * L.
Proof.
  intros HL Hb ->. pose proof (div_mul_le (N * b) L HL).
  assert (N * b / L <= N) by (apply N.div_le_upper_bound; [assumption | nia]).
  nia.
Qed.
Lemma submit_unbond_le N L b : L <> 0 -> b <= L -> N * b / L <= N.
Proof. intros HL Hb. apply N.div_le_upper_bound; [assumption | nia]. Qed.

(* stake a, put the m minted tokens (and o more) into one batch B, submit, withdraw: never more than a *)
Lemma no_round_trip_profit N L a m B :
  0 < B -> m <= B -> B <= L + m ->
  (N = 0 -> m = a) -> (N <> 0 -> m = L * a / N) ->
  ((N + a) * B / (L + m)) * m / B <= a.
Proof.
  intros HB HmB HBL H0 H1.
  assert (HLm : L + m <> 0) by lia.
  set (u := (N + a) * B / (L + m)).
  assert (Hu : u * (L + m) <= (N + a) * B) by (apply div_mul_le; assumption).
  apply N.div_le_upper_bound; [lia|].
  (* u * m <= B * a  follows from  u*(L+m) <= (N+a)*B  and  N*m <= a*L *)
  assert (Hk : N * m <= a * L).
  { destruct (N.eq_dec N 0) as [->|HN]; [lia|].
    rewrite (H1 HN). pose proof (div_mul_le (L * a) N HN). nia. }
  (* multiply through by (L+m) *)
  assert (u * m * (L + m) <= B * a * (L + m)) by nia.
  nia.
Qed.

(* pro-rata payouts never exceed what was received (C05) *)
Lemma share_le R r T : T <> 0 -> R * r / T * T <= R * r.
Proof. intros HT. apply div_mul_le; assumption. Qed.

(* fee split (C11) *)
Lemma fee_split rate reward fee :
  fee = rate * reward / 100000 -> fee <= reward -> fee + (reward - fee) = reward.
Proof. intros -> H. lia. Qed.
Lemma fee_le_when_rate_le rate reward : rate <= 100000 -> rate * reward / 100000 <= reward.
Proof. intros H. apply N.div_le_upper_bound; [lia | nia]. Qed.
