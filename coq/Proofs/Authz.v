(* Authz.v — who may do what (C08) and the circuit breaker (C10). *)
From MW Require Import Staking.
From MW.Proofs Require Import Tactics Handlers.
Open Scope N_scope.

Section Authz.
  Variable va : string -> string -> bool.
  Variable dv : string -> string -> string -> option string.
  Variable av : string -> bool.
  Notation execute := (execute va dv av).

  Definition hook_of (s : store) (native_sender : string) : option string :=
    dv (pc_channel (protocol (cfg s))) native_sender (pc_prefix (protocol (cfg s))).

  (* the authorization table of the property *)
  Definition allowed (s : store) (who : string) (m : execute_msg) : Prop :=
    match m with
    | AddValidator _ | RemoveValidator _ | UpdateConfig _ _ _ _ _ | TransferOwnership _
    | RevokeOwnershipTransfer | ResumeContract _ _ _ | FeeWithdraw _ => admin s = Some who
    | RecoverPendingIbcTransfers _ (Some _) _ => admin s = Some who
    | CircuitBreaker => admin s = Some who \/ In who (monitors (cfg s))
    | AcceptOwnership => pending_owner (st s) = Some who
    | ReceiveRewards => hook_of s (nc_collector (native (cfg s))) = Some who
    | ReceiveUnstakedTokens _ => hook_of s (nc_staker (native (cfg s))) = Some who
    | LiquidStake _ _ _ | LiquidUnstake | SubmitBatch | Withdraw _ | RecoverPendingIbcTransfers _ None _ => True
    end.

  Lemma hook_sender_ok_true s ns i : hook_sender_ok dv s ns i = true -> hook_of s ns = Some (sender i).
  Proof.
    unfold hook_sender_ok, hook_of. destruct (dv _ _ _) as [a|]; [|discriminate].
    intros H. apply String.eqb_eq in H. subst. reflexivity.
  Qed.

  Theorem authz s e i m s' r : execute s e i m = Ok (s', r) -> allowed s (sender i) m.
  Proof.
    intros H. destruct m; cbn [allowed]; try exact I.
    - apply add_validator_inv in H. tauto.
    - apply remove_validator_inv in H. tauto.
    - apply transfer_ownership_inv in H. tauto.
    - apply accept_ownership_inv in H. tauto.
    - apply revoke_ownership_inv in H. tauto.
    - apply update_config_inv in H. destruct H as (? & ? & ? & ? & H & _). exact H.
    - apply receive_rewards_inv in H. destruct H as (? & ? & ? & _ & _ & H & _). apply hook_sender_ok_true. exact H.
    - apply receive_unstaked_inv in H. destruct H as (? & ? & ? & _ & H & _). apply hook_sender_ok_true. exact H.
    - apply circuit_breaker_inv in H. tauto.
    - apply resume_inv in H. tauto.
    - destruct selected as [ids|]; [|exact I].
      apply recover_inv in H. destruct H as (? & ? & ? & ? & ? & H & _). apply H. discriminate.
    - apply fee_withdraw_inv in H. destruct H as (? & H & _). exact H.
  Qed.

  (* Withdraw only ever pays the caller's own request: the single bank message goes to the sender,
     for the sender's own request, and only that request disappears *)
  Theorem withdraw_own_only s e i id s' r :
    execute s e i (Withdraw id) = Ok (s', r) ->
    exists b q amount om,
      nfind id (batches s) = Some b
      /\ find_request (b_id b) (sender i) (requests s) = Some q
      /\ r = plain (ASend (self e) (sender i) {| c_denom := pc_denom (protocol (cfg s)); c_amount := amount |}) :: om
      /\ oracle_msgs s' e = Ok om
      /\ s' = set_requests s (remove_request (b_id b) (sender i) (requests s)).
  Proof.
    intros H. apply withdraw_inv in H. destruct H as (b & recv & q & amount & om & _ & Hb & _ & _ & Hq & _ & Hs & Ho & Hr).
    exists b, q, amount, om. repeat split; assumption.
  Qed.

  (* ---------- circuit breaker ---------- *)
  Definition value_moving (m : execute_msg) : bool :=
    match m with
    | LiquidStake _ _ _ | LiquidUnstake | SubmitBatch | Withdraw _ | ReceiveRewards | ReceiveUnstakedTokens _ => true
    | _ => false
    end.

  Theorem halted_blocks s e i m :
    stopped (cfg s) = true -> value_moving m = true -> exists k, execute s e i m = Err k.
  Proof.
    intros Hs Hm. destruct m; try discriminate Hm; cbn [Staking.execute].
    - destruct (must_pay i (pc_denom (protocol (cfg s)))) as [a|k|k] eqn:E; cbn [bind].
      + unfold execute_liquid_stake, check_stopped. rewrite Hs. cbn [bind]. eauto.
      + eauto.
      + unfold must_pay in E. destruct (funds i) as [|c [|]]; try discriminate.
        destruct (c_amount c =? 0); [discriminate|]. destruct (String.eqb _ _); discriminate.
    - destruct (must_pay i (lst_denom (cfg s))) as [a|k|k] eqn:E; cbn [bind].
      + unfold execute_liquid_unstake, check_stopped. rewrite Hs. cbn [bind]. eauto.
      + eauto.
      + unfold must_pay in E. destruct (funds i) as [|c [|]]; try discriminate.
        destruct (c_amount c =? 0); [discriminate|]. destruct (String.eqb _ _); discriminate.
    - unfold execute_submit_batch, check_stopped. rewrite Hs. cbn [bind]. eauto.
    - unfold execute_withdraw, check_stopped. rewrite Hs. cbn [bind]. eauto.
    - unfold receive_rewards, check_stopped. rewrite Hs. cbn [bind]. eauto.
    - unfold receive_unstaked_tokens, check_stopped. rewrite Hs. cbn [bind]. eauto.
  Qed.

  Theorem instantiate_halted e i m s r : instantiate va e i m = Ok (s, r) -> stopped (cfg s) = true.
  Proof.
    unfold instantiate. intros H. inv_ok H. inversion H; subst. reflexivity.
  Qed.

  (* halting changes nothing but the flag; resuming sets exactly the three totals and clears the flag *)
  Theorem breaker_spec s e i s' r :
    execute s e i CircuitBreaker = Ok (s', r) ->
    (admin s = Some (sender i) \/ In (sender i) (monitors (cfg s)))
    /\ s' = set_cfg s (set_stopped (cfg s) true) /\ r = [].
  Proof. apply circuit_breaker_inv. Qed.

  (* the converse: the admin and EVERY configured monitor, wherever it stands in the list, can halt -- in any state,
     halted or not *)
  Lemma In_mem_str x l : In x l -> mem_str x l = true.
  Proof.
    induction l as [|y l IH]; cbn; [intros []|]. intros [H|H].
    - subst. rewrite String.eqb_refl. reflexivity.
    - rewrite (IH H). apply orb_true_r.
  Qed.
  Lemma admin_is_admin s a : admin s = Some a -> is_admin s a = true.
  Proof. unfold is_admin. intros ->. cbn. apply String.eqb_refl. Qed.
  Theorem breaker_complete s e i :
    (admin s = Some (sender i) \/ In (sender i) (monitors (cfg s))) ->
    execute s e i CircuitBreaker = Ok (set_cfg s (set_stopped (cfg s) true), []).
  Proof.
    intros H. cbn [Staking.execute]. unfold circuit_breaker.
    assert (E : is_admin s (sender i) || mem_str (sender i) (monitors (cfg s)) = true).
    { destruct H as [H|H]; [rewrite (admin_is_admin _ _ H); reflexivity | rewrite (In_mem_str _ _ H); apply orb_true_r]. }
    rewrite E. reflexivity.
  Qed.

  Theorem resume_spec s e i n l rw s' r :
    execute s e i (ResumeContract n l rw) = Ok (s', r) ->
    admin s = Some (sender i)
    /\ s' = set_st (set_cfg s (set_stopped (cfg s) false)) (set_totals (st s) n l rw (total_fees (st s)))
    /\ oracle_msgs s' e = Ok r.
  Proof. apply resume_inv. Qed.
End Authz.
