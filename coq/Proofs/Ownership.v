(* Ownership.v — the two-step, time-locked hand-over machine shared by both contracts (C12). *)
From MW Require Import Staking Treasury.
From MW.Proofs Require Import Tactics Handlers Authz.
Open Scope N_scope.

Definition DELAY : N := 604800.

Record own := { o_admin : option string; o_pending : option string; o_min : option N }.
Inductive own_op := Nominate (o : string) | Revoke | Accept.
Record oev := { ev_time : N; ev_who : string; ev_op : option own_op (* None: any other message *) }.

Section Machine.
  Variable av : string -> bool.   (* deps.api.addr_validate *)

  Definition own_step (now : N) (who : string) (x : own) (op : own_op) : option own :=
    match op with
    | Nominate o =>
        if opt_str_eqb (o_admin x) (Some who) && av o
        then Some {| o_admin := o_admin x; o_pending := Some o; o_min := Some (now + DELAY) |} else None
    | Revoke =>
        if opt_str_eqb (o_admin x) (Some who)
        then Some {| o_admin := o_admin x; o_pending := None; o_min := None |} else None
    | Accept =>
        if match o_min x with Some t => negb (now <? t) | None => true end
        then match o_pending x with
             | Some p => if String.eqb p who
                         then Some {| o_admin := Some p; o_pending := None; o_min := o_min x |} else None
             | None => None
             end
        else None
    end.

  (* ghost: the most recent successful nomination that has not been revoked, replaced or consumed *)
  Definition ghost := option (string * N).
  Definition step (xg : own * ghost) (ev : oev) : own * ghost :=
    match ev_op ev with
    | None => xg
    | Some op =>
        match own_step (ev_time ev) (ev_who ev) (fst xg) op with
        | None => xg                                         (* refused: nothing changes *)
        | Some x' => (x', match op with Nominate o => Some (o, ev_time ev) | _ => None end)
        end
    end.
  Definition run (x0 : own) (evs : list oev) : own * ghost := fold_left step evs (x0, None).

  Definition Inv (xg : own * ghost) : Prop :=
    match snd xg with
    | None => o_pending (fst xg) = None
    | Some (p, t) => o_pending (fst xg) = Some p /\ o_min (fst xg) = Some (t + DELAY)
    end.

  Lemma step_inv xg ev : Inv xg -> Inv (step xg ev).
  Proof.
    destruct xg as [x g]. unfold step. cbn [fst snd]. destruct (ev_op ev) as [op|]; [|auto].
    destruct (own_step (ev_time ev) (ev_who ev) x op) as [x'|] eqn:E; [|auto].
    intros _. unfold Inv. cbn [fst snd]. destruct op; cbn in E.
    - destruct (opt_str_eqb (o_admin x) (Some (ev_who ev)) && av o); inversion E; subst; cbn. split; reflexivity.
    - destruct (opt_str_eqb (o_admin x) (Some (ev_who ev))); inversion E; subst; reflexivity.
    - destruct (match o_min x with Some t => negb (ev_time ev <? t) | None => true end); [|discriminate].
      destruct (o_pending x) as [p|]; [|discriminate]. destruct (String.eqb p (ev_who ev)); inversion E; subst; reflexivity.
  Qed.

  Lemma run_inv x0 evs : o_pending x0 = None -> Inv (run x0 evs).
  Proof.
    intros H0. unfold run. assert (Hi : Inv (x0, None)) by exact H0.
    revert Hi. generalize (x0, @None (string * N)). induction evs as [|ev evs IH]; cbn; intros xg Hi; [exact Hi|].
    apply IH. apply step_inv. exact Hi.
  Qed.

  (* one step: the admin changes only by an Accept of the nominated account, not before the nomination
     recorded in the ghost plus seven days; acceptance consumes the nomination *)
  Lemma step_admin_change xg ev :
    Inv xg -> o_admin (fst (step xg ev)) <> o_admin (fst xg) ->
    ev_op ev = Some Accept
    /\ exists t, snd xg = Some (ev_who ev, t) /\ t + DELAY <= ev_time ev
       /\ o_admin (fst (step xg ev)) = Some (ev_who ev)
       /\ o_pending (fst (step xg ev)) = None /\ snd (step xg ev) = None.
  Proof.
    destruct xg as [x g]. unfold step, Inv. cbn [fst snd]. intros Hi Hne.
    destruct (ev_op ev) as [op|]; [|cbn in Hne; contradiction].
    destruct (own_step (ev_time ev) (ev_who ev) x op) as [x'|] eqn:E; [|contradiction].
    cbn [fst snd] in *. destruct op; cbn in E.
    - destruct (opt_str_eqb (o_admin x) (Some (ev_who ev)) && av o); inversion E; subst; cbn in Hne; contradiction.
    - destruct (opt_str_eqb (o_admin x) (Some (ev_who ev))); inversion E; subst; cbn in Hne; contradiction.
    - split; [reflexivity|].
      destruct (match o_min x with Some t => negb (ev_time ev <? t) | None => true end) eqn:Ht; [|discriminate].
      destruct (o_pending x) as [p|] eqn:Hp; [|discriminate].
      destruct (String.eqb p (ev_who ev)) eqn:Hq; [|discriminate].
      apply String.eqb_eq in Hq. subst p. inversion E; subst x'; clear E. cbn.
      destruct g as [[p t]|].
      + destruct Hi as [Hp' Hm]. inversion Hp'; subst p.
        rewrite Hm in Ht. exists t. repeat split. lia.
      + discriminate.
  Qed.

  (* whole histories: any sequence of nominate / revoke / accept / other events by any principals at any times *)
  Theorem admin_changes_only_by_accept x0 evs ev :
    o_pending x0 = None ->
    let xg := run x0 evs in
    o_admin (fst (step xg ev)) <> o_admin (fst xg) ->
    ev_op ev = Some Accept
    /\ exists t, snd xg = Some (ev_who ev, t) /\ t + DELAY <= ev_time ev
       /\ o_admin (fst (step xg ev)) = Some (ev_who ev)
       /\ o_pending (fst (step xg ev)) = None /\ snd (step xg ev) = None.
  Proof. intros H0 xg. apply step_admin_change. apply run_inv. exact H0. Qed.

  (* the ghost really is "the most recent nomination": what each successful operation does to it *)
  Lemma ghost_nominate xg ev o x' :
    ev_op ev = Some (Nominate o) -> own_step (ev_time ev) (ev_who ev) (fst xg) (Nominate o) = Some x' ->
    snd (step xg ev) = Some (o, ev_time ev) /\ o_admin (fst xg) = Some (ev_who ev).
  Proof.
    intros Ho E. unfold step. rewrite Ho, E. split; [reflexivity|].
    cbn in E. destruct (opt_str_eqb (o_admin (fst xg)) (Some (ev_who ev))) eqn:F; [|discriminate].
    apply opt_str_eqb_eq in F. exact F.
  Qed.
  Lemma ghost_revoke xg ev x' :
    ev_op ev = Some Revoke -> own_step (ev_time ev) (ev_who ev) (fst xg) Revoke = Some x' ->
    snd (step xg ev) = None /\ o_admin (fst xg) = Some (ev_who ev).
  Proof.
    intros Ho E. unfold step. rewrite Ho, E. split; [reflexivity|].
    cbn in E. destruct (opt_str_eqb (o_admin (fst xg)) (Some (ev_who ev))) eqn:F; [|discriminate].
    apply opt_str_eqb_eq in F. exact F.
  Qed.
  Lemma ghost_refused xg ev op :
    ev_op ev = Some op -> own_step (ev_time ev) (ev_who ev) (fst xg) op = None -> step xg ev = xg.
  Proof. intros Ho E. unfold step. rewrite Ho, E. reflexivity. Qed.

  (* boundary: refused at nomination + 7 days - 1 s, accepted at nomination + 7 days *)
  Lemma accept_boundary a p t :
    let x := {| o_admin := a; o_pending := Some p; o_min := Some (t + DELAY) |} in
    own_step (t + DELAY - 1) p x Accept = None
    /\ own_step (t + DELAY) p x Accept = Some {| o_admin := Some p; o_pending := None; o_min := Some (t + DELAY) |}.
  Proof.
    cbn. rewrite String.eqb_refl.
    assert (H1 : (t + DELAY - 1 <? t + DELAY) = true) by (unfold DELAY; lia).
    assert (H2 : (t + DELAY <? t + DELAY) = false) by lia.
    rewrite H1, H2. cbn. split; reflexivity.
  Qed.
End Machine.

(* ---------- the staking contract refines the machine ---------- *)
Definition own_of (s : store) : own :=
  {| o_admin := admin s; o_pending := pending_owner (st s); o_min := owner_min_time (st s) |}.
Definition own_op_of (m : execute_msg) : option own_op :=
  match m with
  | TransferOwnership o => Some (Nominate o)
  | RevokeOwnershipTransfer => Some Revoke
  | AcceptOwnership => Some Accept
  | _ => None
  end.

Section StakingRefines.
  Variable va : string -> string -> bool.
  Variable dv : string -> string -> string -> option string.
  Variable av : string -> bool.
  Notation execute := (execute va dv av).

  Lemma staking_owner_delay : OWNER_DELAY_S = DELAY.
  Proof. reflexivity. Qed.

  Theorem staking_refines s e i m s' r :
    execute s e i m = Ok (s', r) ->
    match own_op_of m with
    | Some op => own_step av (now_s e) (sender i) (own_of s) op = Some (own_of s')
    | None => own_of s' = own_of s
    end.
  Proof.
    intros H. destruct m; cbn [own_op_of].
    - apply liquid_stake_inv in H.
      destruct H as (a & m & om & _ & _ & _ & _ & _ & _ & _ & _ & Hst & _ & _ & _ & Ha & _).
      unfold own_of. rewrite Hst, Ha. unfold swept. destruct (sweeps (st s)); reflexivity.
    - apply liquid_unstake_inv in H. destruct H as (a & b & _ & _ & _ & _ & _ & Hst & Ha & _).
      unfold own_of. rewrite Hst, Ha. reflexivity.
    - apply submit_batch_inv in H.
      destruct H as (b & u & om & _ & _ & _ & _ & _ & _ & Hst & _ & Ha & _).
      unfold own_of. rewrite Hst, Ha. reflexivity.
    - apply withdraw_inv in H. destruct H as (b & rc & q & am & om & _ & _ & _ & _ & _ & _ & -> & _). reflexivity.
    - apply add_validator_inv in H. destruct H as (_ & _ & _ & -> & _). reflexivity.
    - apply remove_validator_inv in H. destruct H as (_ & _ & _ & -> & _). reflexivity.
    - apply transfer_ownership_inv in H. destruct H as (Ha & Hv & -> & _).
      cbn. unfold own_of at 1. cbn. rewrite Ha. cbn. rewrite String.eqb_refl, Hv. reflexivity.
    - apply accept_ownership_inv in H. destruct H as (Hp & Ht & -> & _).
      cbn. unfold own_of at 1. cbn. rewrite Hp.
      destruct (owner_min_time (st s)) as [t|] eqn:Hm.
      + specialize (Ht t eq_refl). assert (Hlt : (now_s e <? t) = false) by lia. rewrite Hlt. cbn.
        rewrite String.eqb_refl. unfold own_of. cbn. rewrite ?Hm. reflexivity.
      + rewrite String.eqb_refl. unfold own_of. cbn. rewrite ?Hm. reflexivity.
    - apply revoke_ownership_inv in H. destruct H as (Ha & -> & _).
      cbn. unfold own_of at 1. cbn. rewrite Ha. cbn. rewrite String.eqb_refl. reflexivity.
    - apply update_config_inv in H. destruct H as (? & ? & ? & ? & _ & _ & _ & _ & _ & -> & _). reflexivity.
    - apply receive_rewards_inv in H.
      destruct H as (c & fee & om & _ & _ & _ & _ & _ & _ & Hst & _ & Ha & _).
      unfold own_of. rewrite Hst, Ha. reflexivity.
    - apply receive_unstaked_inv in H. destruct H as (c & b & t & _ & _ & _ & _ & _ & _ & _ & -> & _). reflexivity.
    - apply circuit_breaker_inv in H. destruct H as (_ & -> & _). reflexivity.
    - apply resume_inv in H. destruct H as (_ & -> & _). reflexivity.
    - apply recover_inv in H. destruct H as (? & ? & ? & ? & ? & _ & _ & _ & _ & _ & _ & -> & _). reflexivity.
    - apply fee_withdraw_inv in H. destruct H as (t & _ & _ & _ & -> & _). reflexivity.
  Qed.

  (* reply and sudo never touch the hand-over state *)
  Lemma reply_keeps_owner s id rr s' r : reply s id rr = Ok (s', r) -> own_of s' = own_of s.
  Proof.
    unfold reply. destruct (nfind id (waitq s)); [|discriminate]. destruct rr; try discriminate.
    intros H; inversion H; subst. reflexivity.
  Qed.
  Lemma sudo_keeps_owner s m s' r : sudo s m = Ok (s', r) -> own_of s' = own_of s.
  Proof.
    unfold sudo. destruct m.
    - destruct (negb _); [intros H; inversion H; reflexivity|].
      destruct (nfind seq (inflight s)); [|intros H; inversion H; reflexivity].
      destruct success; intros H; inversion H; reflexivity.
    - destruct (negb _); [intros H; inversion H; reflexivity|].
      destruct (nfind seq (inflight s)); intros H; inversion H; reflexivity.
  Qed.

  (* after acceptance the former admin has no admin rights *)
  Theorem former_admin_loses_rights s e i s' r old :
    execute s e i AcceptOwnership = Ok (s', r) -> admin s = Some old -> old <> sender i ->
    forall e' fs m s'' r'',
      match m with
      | AddValidator _ | RemoveValidator _ | UpdateConfig _ _ _ _ _ | TransferOwnership _
      | RevokeOwnershipTransfer | ResumeContract _ _ _ | FeeWithdraw _
      | RecoverPendingIbcTransfers _ (Some _) _ => True
      | _ => False
      end ->
      execute s' e' {| sender := old; funds := fs |} m <> Ok (s'', r'').
  Proof.
    intros H Hold Hne e' fs m s'' r'' Hm H2.
    apply accept_ownership_inv in H. destruct H as (_ & _ & -> & _).
    apply authz in H2. cbn [sender] in H2.
    destruct m; try contradiction; cbn in H2; try (inversion H2; congruence).
    destruct selected; [|contradiction]. cbn in H2. inversion H2; congruence.
  Qed.
End StakingRefines.

(* ---------- the treasury contract refines the same machine ---------- *)
Definition town_of (s : tstore) : own :=
  {| o_admin := t_admin s; o_pending := t_pending_owner s; o_min := t_owner_min_time s |}.
Definition town_op_of (m : texecute_msg) : option own_op :=
  match m with
  | TTransferOwnership o => Some (Nominate o)
  | TRevokeOwnershipTransfer => Some Revoke
  | TAcceptOwnership => Some Accept
  | _ => None
  end.

Section TreasuryRefines.
  Variable va : string -> string -> bool.
  Variable av : string -> bool.

  Lemma treasury_owner_delay : T_OWNER_DELAY_S = DELAY.
  Proof. reflexivity. Qed.

  Theorem treasury_refines s e who m s' r :
    texecute va av s e who m = Ok (s', r) ->
    match town_op_of m with
    | Some op => own_step av (t_now_s e) who (town_of s) op = Some (town_of s')
    | None => town_of s' = town_of s
    end.
  Proof.
    intros H. destruct m; cbn [town_op_of texecute] in *.
    - inv_ok H. inversion H; subst. cbn. unfold t_is_admin in *. unfold town_of at 1. cbn.
      match goal with Ha : opt_str_eqb _ _ = true |- _ => rewrite Ha end.
      match goal with Hv : av _ = true |- _ => rewrite Hv end. reflexivity.
    - inv_ok H. cbn. unfold town_of at 1. cbn.
      match goal with Hc : match t_owner_min_time s with Some _ => _ | None => _ end = true |- _ => rewrite Hc end.
      destruct (t_pending_owner s) as [p|]; [|discriminate].
      destruct (String.eqb p who) eqn:Hq; [|discriminate]. inversion H; subst. reflexivity.
    - inv_ok H. inversion H; subst. cbn. unfold t_is_admin in *. unfold town_of at 1. cbn.
      match goal with Ha : opt_str_eqb _ _ = true |- _ => rewrite Ha end. reflexivity.
    - inv_ok H. destruct channel as [ch|]; inv_ok H; inversion H; subst; reflexivity.
    - inv_ok H. destruct routes as [|h rt]; [discriminate|]. inv_ok H. inversion H; subst. reflexivity.
    - inv_ok H. destruct (rev routes) as [|h rt]; [discriminate|]. inv_ok H. inversion H; subst. reflexivity.
    - inv_ok H. inversion H; subst. reflexivity.
  Qed.
End TreasuryRefines.
