(* Recovery.v — outbound IBC transfers are tracked and recovered without loss or duplication (C07, contract level). *)
From MW Require Import Staking.
From MW.Proofs Require Import Tactics Handlers Maps Invariant Pagination.
Open Scope N_scope.

Definition packets_total (ps : list packet) : N := sumN (map (fun p => c_amount (p_coin p)) ps).

Lemma sum_packets_spec ps acc t : sum_packets ps acc = Some t -> t = acc + packets_total ps.
Proof.
  revert acc. induction ps as [|p ps IH]; cbn; intros acc H.
  - injection H as <-. unfold packets_total. cbn. lia.
  - destruct (add128 acc (c_amount (p_coin p))) as [a|] eqn:E; [|discriminate]. apply add128_some in E as [-> _].
    apply IH in H. unfold packets_total in *. cbn. lia.
Qed.

(* the admin's explicit selection: every selected id names a recorded packet of that receiver, no id twice *)
Lemma load_selected_spec ids m rcv acc ps :
  (forall k p, nfind k m = Some p -> p_seq p = k) ->
  load_selected ids m rcv acc = Ok ps ->
  (forall q, In q acc -> p_receiver q = rcv /\ nfind (p_seq q) m = Some q) -> NoDup (map p_seq acc) ->
  (forall p, In p ps -> p_receiver p = rcv /\ nfind (p_seq p) m = Some p) /\ NoDup (map p_seq ps)
  /\ map p_seq ps = (rev (map p_seq acc) ++ ids)%list.
Proof.
  intros Hkey. revert acc. induction ids as [|k ids IH]; cbn; intros acc H Hacc Hnd.
  - injection H as <-. split; [| split].
    + intros p Hp. apply in_rev in Hp. apply Hacc. exact Hp.
    + rewrite map_rev. apply NoDup_rev. exact Hnd.
    + rewrite map_rev, app_nil_r. reflexivity.
  - destruct (nfind k m) as [p|] eqn:Fk; [|discriminate].
    destruct (negb (String.eqb (p_receiver p) rcv)) eqn:Er; [discriminate|].
    destruct (existsb (fun q => p_seq q =? p_seq p) acc) eqn:Ex; [discriminate|].
    pose proof (Hkey _ _ Fk) as Hpk.
    apply IH in H.
    + destruct H as (H1 & H2 & H3). split; [exact H1|]. split; [exact H2|].
      rewrite H3. cbn. rewrite <- app_assoc. cbn. rewrite Hpk. reflexivity.
    + intros q [<-|Hq]; [| apply Hacc; exact Hq]. split.
      * apply negb_false_iff in Er. apply String.eqb_eq in Er. exact Er.
      * rewrite Hpk. exact Fk.
    + cbn. constructor; [| exact Hnd]. intros Hin. apply in_map_iff in Hin as (q & Hq & Hin).
      assert (Hf : existsb (fun q0 => p_seq q0 =? p_seq p) acc = true).
      { apply existsb_exists. exists q. split; [exact Hin | lia]. }
      congruence.
Qed.

Section Recovery.
  Variable va : string -> string -> bool.
  Variable dv : string -> string -> string -> option string.
  Variable av : string -> bool.
  Notation execute := (execute va dv av).

  (* RecoverPendingIbcTransfers *)
  Theorem recover_spec s e i pg sel rcvo s' r :
    I_packets s ->
    execute s e i (RecoverPendingIbcTransfers pg sel rcvo) = Ok (s', r) ->
    exists rcv ps d maxid,
      let total := packets_total ps in
      let c := {| c_denom := d; c_amount := total |} in
      ps <> []
      /\ (match rcvo with Some x => va x (nc_prefix (native (cfg s))) = true /\ rcv = x | None => rcv = nc_staker (native (cfg s)) end)
      /\ (forall p, In p ps -> nfind (p_seq p) (inflight s) = Some p /\ p_receiver p = rcv /\ c_denom (p_coin p) = d)
      /\ NoDup (map p_seq ps)
      /\ match sel with
         | Some ids => admin s = Some (sender i) /\ map p_seq ps = ids
         | None => ps = paginate (inflight s) None (if opt_default false pg then Some PAGE_SIZE else None) (recover_filter rcv)
                   /\ (forall p, In p ps -> refundable (p_status p) = true)
         end
      /\ nlast_key (inflight s) = Some maxid
      /\ inflight s' = fold_left (fun m p => nremove (p_seq p) m) ps (inflight s)
      /\ (forall p, In p ps -> nfind (p_seq p) (inflight s') = None)
      /\ waitq s' = ninsert (maxid + 1) {| w_coin := c; w_receiver := rcv |} (waitq s)
      /\ cfg s' = cfg s /\ st s' = st s /\ batches s' = batches s /\ requests s' = requests s
      /\ r = [transfer_sub s e (maxid + 1) rcv c (now_ns e + IBC_TIMEOUT_NS)].
  Proof.
    intros (Hsorted & Hkey & _) H. apply recover_inv in H.
    destruct H as (rcv & p0 & rest & total & maxid & Hadm & Hrcv & Hps & Hden & Hmax & Hsum & -> & ->).
    apply sum_packets_spec in Hsum. rewrite N.add_0_l in Hsum. subst total.
    exists rcv, (p0 :: rest), (c_denom (p_coin p0)), maxid. cbv zeta.
    assert (Hfacts : (forall p, In p (p0 :: rest) -> nfind (p_seq p) (inflight s) = Some p /\ p_receiver p = rcv)
                     /\ NoDup (map p_seq (p0 :: rest))
                     /\ match sel with
                        | Some ids => map p_seq (p0 :: rest) = ids
                        | None => forall p, In p (p0 :: rest) -> refundable (p_status p) = true
                        end).
    { destruct sel as [ids|].
      - apply (load_selected_spec _ _ _ _ _ Hkey) in Hps; [| intros ? [] | constructor].
        destruct Hps as (H1 & H2 & H3). split; [intros p Hp; destruct (H1 p Hp); tauto|]. split; [exact H2 | exact H3].
      - assert (Hin : forall p, In p (p0 :: rest) -> In p (map snd (matches (inflight s) None (recover_filter rcv)))).
        { intros p Hp. rewrite Hps, paginate_values in Hp. unfold page_kv in Hp. rewrite take_n_firstn in Hp.
          apply in_map_iff in Hp as (kv & <- & Hkv). apply in_map. eapply firstn_incl. exact Hkv. }
        assert (Hm : forall p, In p (p0 :: rest) -> nfind (p_seq p) (inflight s) = Some p /\ recover_filter rcv p = true).
        { intros p Hp. apply Hin in Hp. apply in_map_iff in Hp as ([k v] & <- & Hkv). unfold matches in Hkv.
          apply filter_In in Hkv as [Hkv Hf]. cbn in Hkv, Hf |- *. split; [| exact Hf].
          assert (Hfind : nfind k (inflight s) = Some v).
          { clear - Hsorted Hkv. induction (inflight s) as [|[k' v'] m IH]; [contradiction|]. destruct Hsorted as [Hlt Hs]. cbn.
            destruct Hkv as [Hk|Hk].
            - injection Hk as -> ->. rewrite N.eqb_refl. reflexivity.
            - assert (k' < k) by (apply Hlt; apply (in_map fst) in Hk; exact Hk).
              assert (E : (k =? k') = false) by lia. rewrite E. apply IH; assumption. }
          rewrite (Hkey _ _ Hfind). exact Hfind. }
        split; [| split].
        + intros p Hp. destruct (Hm p Hp) as [Hf Hr]. split; [exact Hf|]. unfold recover_filter in Hr.
          apply andb_true_iff in Hr as [Hr _]. apply String.eqb_eq in Hr. exact Hr.
        + (* distinct sequences: a page of a sorted map *)
          rewrite Hps, paginate_values. destruct (page_spec (inflight s) None (if opt_default false pg then Some PAGE_SIZE else None) (recover_filter rcv) Hsorted) as (_ & Hsp & Hall).
          assert (Hmap : map p_seq (map snd (page_kv (inflight s) None (if opt_default false pg then Some PAGE_SIZE else None) (recover_filter rcv)))
                         = nkeys (page_kv (inflight s) None (if opt_default false pg then Some PAGE_SIZE else None) (recover_filter rcv))).
          { unfold nkeys. rewrite map_map. apply map_ext_in. intros [k v] Hkv. cbn. destruct (Hall k v Hkv) as (Hf & _). apply (Hkey _ _ Hf). }
          rewrite Hmap. apply sorted_nodup. exact Hsp.
        + intros p Hp. destruct (Hm p Hp) as [_ Hr]. unfold recover_filter in Hr. apply andb_true_iff in Hr. tauto. }
    destruct Hfacts as (Hf1 & Hf2 & Hf3).
    split; [discriminate|]. split; [exact Hrcv|]. split.
    { intros p Hp. destruct (Hf1 p Hp) as [A B]. split; [exact A|]. split; [exact B|].
      destruct Hp as [<-|Hp]; [reflexivity|]. rewrite forallb_forall in Hden. specialize (Hden p Hp). apply String.eqb_eq in Hden. exact Hden. }
    split; [exact Hf2|]. split.
    { destruct sel as [ids|]; [split; [apply Hadm; discriminate | exact Hf3] | split; [exact Hps | exact Hf3]]. }
    split; [exact Hmax|]. split; [reflexivity|]. split.
    { (* removed packets are gone *)
      intros p Hp. cbn [inflight set_waitq set_inflight].
      assert (Hgen : forall (l : list packet) (m : nmap packet), sorted m -> In p l -> nfind (p_seq p) (fold_left (fun m q => nremove (p_seq q) m) l m) = None).
      { clear. induction l as [|q l IH]; intros m Hs Hin; [contradiction|]. cbn. destruct Hin as [->|Hin].
        - destruct (nfind (p_seq p) (fold_left (fun m q => nremove (p_seq q) m) l (nremove (p_seq p) m))) eqn:E; [| reflexivity].
          apply fold_nremove_find in E; [| apply sorted_nremove; exact Hs]. rewrite nfind_nremove_eq in E by exact Hs. discriminate.
        - apply IH; [apply sorted_nremove; exact Hs | exact Hin]. }
      exact (Hgen (p0 :: rest) (inflight s) Hsorted Hp). }
    repeat split.
  Qed.

  (* an acknowledgement or timeout for another channel or an unknown sequence changes nothing *)
  Theorem stray_noop s m :
    match m with
    | SAck ch seq _ | STimeout ch seq =>
        ch <> pc_channel (protocol (cfg s)) \/ nfind seq (inflight s) = None
    end -> sudo s m = Ok (s, []).
  Proof.
    destruct m as [ch seq ok | ch seq]; cbn; intros [Hne|Hn].
    - destruct (String.eqb ch (pc_channel (protocol (cfg s)))) eqn:E; [apply String.eqb_eq in E; contradiction | reflexivity].
    - destruct (negb _); [reflexivity|]. rewrite Hn. reflexivity.
    - destruct (String.eqb ch (pc_channel (protocol (cfg s)))) eqn:E; [apply String.eqb_eq in E; contradiction | reflexivity].
    - destruct (negb _); [reflexivity|]. rewrite Hn. reflexivity.
  Qed.

  (* on our channel and a recorded sequence: success removes the record, failure / timeout keep it as refundable *)
  Theorem ack_spec s seq p :
    nfind seq (inflight s) = Some p ->
    sudo s (SAck (pc_channel (protocol (cfg s))) seq true) = Ok (set_inflight s (nremove seq (inflight s)), [])
    /\ sudo s (SAck (pc_channel (protocol (cfg s))) seq false) = Ok (set_inflight s (ninsert seq (set_pstatus p AckFailure) (inflight s)), [])
    /\ sudo s (STimeout (pc_channel (protocol (cfg s))) seq) = Ok (set_inflight s (ninsert seq (set_pstatus p TimedOut) (inflight s)), []).
  Proof. intros H. cbn. rewrite String.eqb_refl, H. cbn. repeat split. Qed.

  (* the submission reply: success records the transfer under the returned sequence as Sent with exactly the coin
     and receiver that were announced; anything else makes reply fail, so the whole transaction is rolled back *)
  Theorem reply_spec s id rr :
    match nfind id (waitq s), rr with
    | Some w, ROk seq =>
        reply s id rr = Ok (set_inflight (set_waitq s (nremove id (waitq s)))
                              (ninsert seq {| p_seq := seq; p_coin := w_coin w; p_receiver := w_receiver w; p_status := Sent |} (inflight s)), [])
    | _, _ => exists k, reply s id rr = Err k
    end.
  Proof. unfold reply. destruct (nfind id (waitq s)) as [w|]; [destruct rr|]; eauto. Qed.

  (* every IBC transfer the contract emits carries the callback memo, the timeout now + IBC_TIMEOUT and asks for a reply *)
  Definition is_transfer (sm : submsg) : bool := match sm_msg sm with ATransfer _ _ _ _ _ _ => true | _ => false end.
  Definition well_formed_transfer (s : store) (e : env) (sm : submsg) : Prop :=
    exists id rcv c, sm = transfer_sub s e id rcv c (now_ns e + IBC_TIMEOUT_NS).

  Lemma oracle_msgs_no_transfer s e om : oracle_msgs s e = Ok om -> forall sm, In sm om -> is_transfer sm = false.
  Proof.
    intros H sm Hin. apply oracle_msgs_shape in H. destruct (pc_oracle (protocol (cfg s))).
    - destruct H as (r & p & _ & ->). destruct Hin as [<-|[]]. reflexivity.
    - subst. contradiction.
  Qed.

  Theorem transfers_have_callback_and_timeout s e i m s' r :
    execute s e i m = Ok (s', r) -> forall sm, In sm r -> is_transfer sm = true -> well_formed_transfer s e sm.
  Proof.
    intros H sm Hin Ht. unfold well_formed_transfer. destruct m.
    - apply liquid_stake_inv in H.
      destruct H as (a & mt & om & _ & _ & _ & _ & _ & _ & _ & _ & _ & _ & _ & _ & _ & _ & _ & _ & _ & Hcs & Ho & Hr).
      assert (Hcfg : forall x, oracle_msgs s' e = Ok x -> forall y, In y x -> is_transfer y = false) by (intros x Hx; eapply oracle_msgs_no_transfer; exact Hx).
      destruct Hr as [(_ & -> & _) | (_ & -> & _)]; repeat (apply in_app_iff in Hin as [Hin|Hin]);
        try (destruct Hin as [<-|[]]; first [discriminate Ht | eauto]);
        try (rewrite (Hcfg om Ho sm Hin) in Ht; discriminate).
    - apply liquid_unstake_inv in H. destruct H as (a & b & _ & _ & _ & -> & _). contradiction.
    - apply submit_batch_inv in H. destruct H as (b & u & om & _ & _ & _ & _ & _ & _ & _ & _ & _ & _ & _ & _ & _ & _ & _ & Ho & ->).
      destruct Hin as [<-|Hin]; [discriminate|]. rewrite (oracle_msgs_no_transfer _ _ _ Ho sm Hin) in Ht. discriminate.
    - apply withdraw_inv in H. destruct H as (b & rc & q & am & om & _ & _ & _ & _ & _ & _ & _ & Ho & ->).
      destruct Hin as [<-|Hin]; [discriminate|]. rewrite (oracle_msgs_no_transfer _ _ _ Ho sm Hin) in Ht. discriminate.
    - apply add_validator_inv in H. destruct H as (_ & _ & _ & _ & ->). contradiction.
    - apply remove_validator_inv in H. destruct H as (_ & _ & _ & _ & ->). contradiction.
    - apply transfer_ownership_inv in H. destruct H as (_ & _ & _ & ->). contradiction.
    - apply accept_ownership_inv in H. destruct H as (_ & _ & _ & ->). contradiction.
    - apply revoke_ownership_inv in H. destruct H as (_ & _ & ->). contradiction.
    - apply update_config_inv in H. destruct H as (? & ? & ? & ? & _ & _ & _ & _ & _ & _ & ->). contradiction.
    - apply receive_rewards_inv in H.
      destruct H as (c & fee & om & _ & _ & _ & _ & _ & _ & _ & _ & _ & _ & _ & _ & _ & _ & _ & Ho & ->).
      repeat (apply in_app_iff in Hin as [Hin|Hin]).
      + rewrite (oracle_msgs_no_transfer _ _ _ Ho sm Hin) in Ht. discriminate.
      + destruct Hin as [<-|[]]. eauto.
      + destruct (fee_treasury (fees (cfg s))); [destruct Hin as [<-|[]]; discriminate | contradiction].
    - apply receive_unstaked_inv in H. destruct H as (c & b & t & _ & _ & _ & _ & _ & _ & _ & _ & ->). contradiction.
    - apply circuit_breaker_inv in H. destruct H as (_ & _ & ->). contradiction.
    - apply resume_inv in H. destruct H as (_ & _ & Ho). rewrite (oracle_msgs_no_transfer _ _ _ Ho sm Hin) in Ht. discriminate.
    - apply recover_inv in H. destruct H as (? & ? & ? & ? & ? & _ & _ & _ & _ & _ & _ & _ & ->). destruct Hin as [<-|[]]. eauto.
    - apply fee_withdraw_inv in H. destruct H as (t & _ & _ & _ & _ & ->). destruct Hin as [<-|[]]. discriminate.
  Qed.
End Recovery.

(* ---------- the packet-table invariant is inductive ---------- *)
Lemma I_packets_intro s' inf wq :
  inflight s' = inf -> waitq s' = wq -> sorted inf -> (forall k p, nfind k inf = Some p -> p_seq p = k) -> sorted wq -> I_packets s'.
Proof. intros E1 E2 A B C. unfold I_packets. rewrite E1, E2. repeat split; assumption. Qed.

Lemma key_ninsert (m : nmap packet) k p :
  (forall j q, nfind j m = Some q -> p_seq q = j) -> p_seq p = k ->
  forall j q, nfind j (ninsert k p m) = Some q -> p_seq q = j.
Proof.
  intros Hm Hp j q. destruct (N.eq_dec j k) as [->|Hne].
  - rewrite nfind_ninsert_eq. intros H; injection H as <-. exact Hp.
  - rewrite nfind_ninsert_neq by exact Hne. apply Hm.
Qed.
Lemma key_nremove (m : nmap packet) k :
  sorted m -> (forall j q, nfind j m = Some q -> p_seq q = j) ->
  forall j q, nfind j (nremove k m) = Some q -> p_seq q = j.
Proof. intros Hs Hm j q H. apply nfind_nremove_some in H; [| exact Hs]. apply Hm. tauto. Qed.

Section PacketsInv.
  Variable va : string -> string -> bool.
  Variable dv : string -> string -> string -> option string.
  Variable av : string -> bool.
  Notation execute := (execute va dv av).

  Theorem execute_preserves_I_packets s e i m s' r : I_packets s -> execute s e i m = Ok (s', r) -> I_packets s'.
  Proof.
    intros (Hs & Hk & Hw) H.
    assert (Hsame : inflight s' = inflight s -> waitq s' = waitq s -> I_packets s').
    { intros A B. eapply I_packets_intro; try eassumption. }
    destruct m.
    - apply liquid_stake_inv in H.
      destruct H as (a & mt & om & _ & _ & _ & _ & _ & _ & _ & _ & _ & _ & _ & _ & _ & _ & _ & _ & Hi & _ & _ & Hr).
      destruct Hr as [(_ & _ & Hwq) | (_ & _ & Hwq)]; (eapply I_packets_intro; [exact Hi | exact Hwq | exact Hs | exact Hk |]);
        repeat apply sorted_ninsert; exact Hw.
    - apply liquid_unstake_inv in H. destruct H as (a & b & _ & _ & _ & _ & _ & _ & _ & _ & Hi & Hwq & _). apply Hsame; assumption.
    - apply submit_batch_inv in H. destruct H as (b & u & om & _ & _ & _ & _ & _ & _ & _ & _ & _ & _ & Hi & Hwq & _). apply Hsame; assumption.
    - apply withdraw_inv in H. destruct H as (b & rc & q & am & om & _ & _ & _ & _ & _ & _ & -> & _). apply Hsame; reflexivity.
    - apply add_validator_inv in H. destruct H as (_ & _ & _ & -> & _). apply Hsame; reflexivity.
    - apply remove_validator_inv in H. destruct H as (_ & _ & _ & -> & _). apply Hsame; reflexivity.
    - apply transfer_ownership_inv in H. destruct H as (_ & _ & -> & _). apply Hsame; reflexivity.
    - apply accept_ownership_inv in H. destruct H as (_ & _ & -> & _). apply Hsame; reflexivity.
    - apply revoke_ownership_inv in H. destruct H as (_ & -> & _). apply Hsame; reflexivity.
    - apply update_config_inv in H. destruct H as (? & ? & ? & ? & _ & _ & _ & _ & _ & -> & _). apply Hsame; reflexivity.
    - apply receive_rewards_inv in H.
      destruct H as (c & fee & om & _ & _ & _ & _ & _ & _ & _ & _ & _ & _ & _ & _ & Hi & _ & Hwq & _).
      eapply I_packets_intro; [exact Hi | exact Hwq | exact Hs | exact Hk | apply sorted_ninsert; exact Hw].
    - apply receive_unstaked_inv in H. destruct H as (c & b & t & _ & _ & _ & _ & _ & _ & _ & -> & _). apply Hsame; reflexivity.
    - apply circuit_breaker_inv in H. destruct H as (_ & -> & _). apply Hsame; reflexivity.
    - apply resume_inv in H. destruct H as (_ & -> & _). apply Hsame; reflexivity.
    - apply recover_inv in H. destruct H as (rcv & p0 & rest & total & maxid & _ & _ & _ & _ & _ & _ & -> & _).
      eapply I_packets_intro; [reflexivity | reflexivity | apply fold_nremove_sorted; exact Hs | | apply sorted_ninsert; exact Hw].
      intros k p Hf. apply fold_nremove_find in Hf; [| exact Hs]. apply Hk. exact Hf.
    - apply fee_withdraw_inv in H. destruct H as (t & _ & _ & _ & -> & _). apply Hsame; reflexivity.
  Qed.

  Theorem reply_preserves_I_packets s id rr s' r : I_packets s -> reply s id rr = Ok (s', r) -> I_packets s'.
  Proof.
    intros (Hs & Hk & Hw). unfold reply. destruct (nfind id (waitq s)) as [w|]; [|discriminate]. destruct rr; try discriminate.
    intros H; injection H as <- _. eapply I_packets_intro; [reflexivity | reflexivity | apply sorted_ninsert; exact Hs | | apply sorted_nremove; exact Hw].
    apply key_ninsert; [exact Hk | reflexivity].
  Qed.

  Theorem sudo_preserves_I_packets s m s' r : I_packets s -> sudo s m = Ok (s', r) -> I_packets s'.
  Proof.
    intros HI. pose proof HI as (Hs & Hk & Hw). unfold sudo. destruct m as [ch seq ok | ch seq].
    - destruct (negb _); [intros H; injection H as <- _; exact HI|].
      destruct (nfind seq (inflight s)) as [p|] eqn:F; [| intros H; injection H as <- _; exact HI].
      destruct ok; intros H; injection H as <- _.
      + eapply I_packets_intro; [reflexivity | reflexivity | apply sorted_nremove; exact Hs | apply key_nremove; assumption | exact Hw].
      + eapply I_packets_intro; [reflexivity | reflexivity | apply sorted_ninsert; exact Hs | | exact Hw].
        apply key_ninsert; [exact Hk | cbn; apply (Hk _ _ F)].
    - destruct (negb _); [intros H; injection H as <- _; exact HI|].
      destruct (nfind seq (inflight s)) as [p|] eqn:F; intros H; injection H as <- _; [| exact HI].
      eapply I_packets_intro; [reflexivity | reflexivity | apply sorted_ninsert; exact Hs | | exact Hw].
      apply key_ninsert; [exact Hk | cbn; apply (Hk _ _ F)].
  Qed.

  Theorem instantiate_I_packets e i m s r : instantiate va e i m = Ok (s, r) -> I_packets s.
  Proof.
    unfold instantiate. intros H. inv_ok H. injection H as <- _. repeat split; cbn; try exact I. intros k p Hf. discriminate.
  Qed.
End PacketsInv.
