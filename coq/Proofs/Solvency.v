(* Solvency.v — what the contract holds equals what it owes (C02), and the contract's LST holdings (C03),
   over whole histories of entry-point calls.  The chain's side of the ledger is modelled by ghost balances:
   a successful call credits the coins it is paid, debits the coins its messages send, and an error
   acknowledgement / timeout for a recorded in-flight packet refunds exactly the recorded amount (the
   ibc-transfer module's refund). *)
From MW Require Import Staking.
From MW.Proofs Require Import Tactics Arith Handlers Maps Invariant Oracle Recovery Ledger.
Open Scope N_scope.

(* coins leaving the contract with a response, per denom *)
Definition msg_out (d : string) (sm : submsg) : N :=
  match sm_msg sm with
  | ABankSend _ c | ASend _ _ c | ATransfer _ _ c _ _ _ => if String.eqb (c_denom c) d then c_amount c else 0
  | _ => 0
  end.
Definition out_of (d : string) (r : response) : N := sumN (map (msg_out d) r).
Lemma out_of_app d a b : out_of d (a ++ b) = out_of d a + out_of d b.
Proof. unfold out_of. rewrite map_app. apply sumN_app. Qed.
Lemma out_of_cons d x r : out_of d (x :: r) = msg_out d x + out_of d r.
Proof. reflexivity. Qed.
Lemma oracle_out s e om d : oracle_msgs s e = Ok om -> out_of d om = 0.
Proof.
  intros H. apply oracle_msgs_shape in H. destruct (pc_oracle (protocol (cfg s))).
  - destruct H as (r & p & _ & ->). reflexivity.
  - subst. reflexivity.
Qed.

(* what the store says is owed *)
Definition recv_of (b : batch) : N := match b_status b with Received => opt_default 0 (b_received b) | _ => 0 end.
Definition received_total (s : store) : N := nsum recv_of (batches s).
Definition refundable_amount (d : string) (p : packet) : N :=
  if refundable (p_status p) && String.eqb (c_denom (p_coin p)) d then c_amount (p_coin p) else 0.
Definition refundable_total (d : string) (s : store) : N := nsum (refundable_amount d) (inflight s).
Definition pending_total (s : store) : N := match nfind (pending_id s) (batches s) with Some b => b_total b | None => 0 end.

Lemma fold_nremove_nsum (f : packet -> N) (ps : list packet) : forall (m : nmap packet),
  sorted m -> NoDup (map p_seq ps) -> (forall p, In p ps -> nfind (p_seq p) m = Some p) ->
  nsum f (fold_left (fun m p => nremove (p_seq p) m) ps m) + sumN (map f ps) = nsum f m.
Proof.
  induction ps as [|p ps IH]; intros m Hs Hnd Hall; cbn [fold_left map sumN]; [lia|].
  inversion Hnd as [|x l Hx Hnd']; subst.
  rewrite <- (nsum_nremove f m (p_seq p)), (Hall p (or_introl eq_refl)).
  rewrite <- (IH (nremove (p_seq p) m)); [lia | apply sorted_nremove; exact Hs | exact Hnd'|].
  intros q Hq. rewrite nfind_nremove_neq; [apply Hall; right; exact Hq|].
  intros Heq. apply Hx. rewrite <- Heq. apply in_map. exact Hq.
Qed.

Definition pstatus_is_sent (x : pstatus) : bool := match x with Sent => true | _ => false end.

Section Solvency.
  Variable va : string -> string -> bool.
  Variable dv : string -> string -> string -> option string.
  Variable av : string -> bool.
  Notation execute := (execute va dv av).
  Notation apply_call := (apply_call va dv av).
  Notation succeeded := (succeeded va dv av).

  Definition D_of (s : store) : string := pc_denom (protocol (cfg s)).
  Definition L_of (s : store) : string := lst_denom (cfg s).

  (* coins credited to the contract with a successful call *)
  Definition in_D (s : store) (c : call) : N :=
    if negb (succeeded s c) then 0 else
    match c with
    | CExec e i (LiquidStake _ _ _) => match must_pay i (D_of s) with Ok a => a | _ => 0 end
    | CExec e i ReceiveRewards | CExec e i (ReceiveUnstakedTokens _) =>
        match find_coin (D_of s) (funds i) with Some c0 => c_amount c0 | None => 0 end
    | _ => 0
    end.
  Definition in_L (s : store) (c : call) : N :=
    if negb (succeeded s c) then 0 else
    match c with
    | CExec e i LiquidUnstake => match must_pay i (L_of s) with Ok a => a | _ => 0 end
    | _ => 0
    end.
  (* the transfer module's refund that accompanies an error acknowledgement / timeout of an in-flight packet *)
  Definition refund (d : string) (s : store) (c : call) : N :=
    match c with
    | CSudo (SAck ch seq false) | CSudo (STimeout ch seq) =>
        if String.eqb ch (pc_channel (protocol (cfg s))) then
          match nfind seq (inflight s) with
          | Some p => if pstatus_is_sent (p_status p) && String.eqb (c_denom (p_coin p)) d then c_amount (p_coin p) else 0
          | None => 0
          end
        else 0
    | _ => 0
    end.
  Definition paid_delta (s : store) (c : call) : N :=
    match c with CExec e i (Withdraw _) => out_of (D_of s) (snd (apply_call s c)) | _ => 0 end.

  (* assumptions on the environment for one call: what the chain and an honest admin guarantee *)
  Definition ok_call (s : store) (c : call) : Prop :=
    match c with
    | CSudo (SAck ch seq true) =>
        String.eqb ch (pc_channel (protocol (cfg s))) = true -> forall p, nfind seq (inflight s) = Some p -> p_status p = Sent
    | CReply id (ROk seq) => nfind seq (inflight s) = None             (* packet sequences are fresh *)
    | CExec e i (RecoverPendingIbcTransfers _ (Some ids) _) =>          (* forced recovery only of refunded packets *)
        forall k p, In k ids -> nfind k (inflight s) = Some p -> refundable (p_status p) = true
    | CExec e i (UpdateConfig _ (Some u) _ _ _) => up_denom u = D_of s  (* the staked-asset denom is not re-configured *)
    | _ => True
    end.

  Lemma frame_sums s s' d :
    batches s' = batches s -> pending_id s' = pending_id s -> inflight s' = inflight s ->
    received_total s' = received_total s /\ pending_total s' = pending_total s /\ refundable_total d s' = refundable_total d s.
  Proof. intros A B C. unfold received_total, pending_total, refundable_total. rewrite A, B, C. repeat split. Qed.

  Lemma transfer_out d s e id rcv c t : msg_out d (transfer_sub s e id rcv c t) = if String.eqb (c_denom c) d then c_amount c else 0.
  Proof. reflexivity. Qed.

  Lemma refundable_amount_sent d p : p_status p = Sent -> refundable_amount d p = 0.
  Proof. unfold refundable_amount. intros ->. reflexivity. Qed.

  Lemma sum_refundable_packets d0 d ps :
    (forall p, In p ps -> refundable (p_status p) = true /\ c_denom (p_coin p) = d0) ->
    sumN (map (refundable_amount d) ps) = if String.eqb d0 d then packets_total ps else 0.
  Proof.
    induction ps as [|p ps IH]; intros H; cbn [map sumN].
    - unfold packets_total. destruct (String.eqb d0 d); reflexivity.
    - destruct (H p (or_introl eq_refl)) as [Hr Hd]. rewrite IH by (intros q Hq; apply H; right; exact Hq).
      unfold refundable_amount at 1. rewrite Hr, Hd. cbn [andb]. unfold packets_total. cbn [map sumN].
      destruct (String.eqb d0 d); lia.
  Qed.
End Solvency.

Section Solvency2.
  Variable va : string -> string -> bool.
  Variable dv : string -> string -> string -> option string.
  Variable av : string -> bool.
  Notation execute := (execute va dv av).
  Notation apply_call := (Ledger.apply_call va dv av).
  Notation succeeded := (Ledger.succeeded va dv av).
  Notation swept_delta := (Ledger.swept_delta va dv av).
  Notation in_D := (in_D va dv av).
  Notation in_L := (in_L va dv av).
  Notation paid_delta := (paid_delta va dv av).

  Definition solv_D (s s' : store) (r : response) (i_ rf sw pd : N) : Prop :=
    (ZN i_ + ZN rf + ZN sw + ZN pd + ZN (received_total s) + ZN (total_fees (st s)) + ZN (refundable_total (D_of s) s)
     = ZN (out_of (D_of s) r) + ZN (received_total s') + ZN (total_fees (st s')) + ZN (refundable_total (D_of s) s'))%Z.
  Definition solv_L (s s' : store) (r : response) (i_ rf : N) : Prop :=
    (ZN i_ + ZN rf + ZN (minted r) + ZN (pending_total s) + ZN (refundable_total (L_of s) s)
     = ZN (burnt r) + ZN (out_of (L_of s) r) + ZN (pending_total s') + ZN (refundable_total (L_of s) s'))%Z.

  (* nothing relevant changes and no coin moves *)
  Lemma solv_quiet s s' r :
    batches s' = batches s -> pending_id s' = pending_id s -> inflight s' = inflight s ->
    total_fees (st s') = total_fees (st s) ->
    (forall d, out_of d r = 0) -> minted r = 0 -> burnt r = 0 ->
    solv_D s s' r 0 0 0 0 /\ solv_L s s' r 0 0.
  Proof.
    intros A B C F O M Bn. unfold solv_D, solv_L.
    destruct (frame_sums s s' (D_of s) A B C) as (-> & _ & ->). destruct (frame_sums s s' (L_of s) A B C) as (_ & -> & ->).
    rewrite F, !O, M, Bn. unfold ZN. split; lia.
  Qed.

  Lemma eqb_refl_str x : String.eqb x x = true. Proof. apply String.eqb_refl. Qed.
  Lemma eqb_neq_str x y : x <> y -> String.eqb x y = false.
  Proof. intros H. destruct (String.eqb x y) eqn:E; [apply String.eqb_eq in E; contradiction | reflexivity]. Qed.

  Definition I_status (s : store) : Prop := forall k p, nfind k (inflight s) = Some p -> p_status p <> AckSuccess.

  Lemma call_solvency s c :
    I_batches s -> I_packets s -> I_status s -> D_of s <> L_of s -> ok_call s c ->
    let s' := fst (apply_call s c) in
    let r := snd (apply_call s c) in
    D_of s' = D_of s /\ L_of s' = L_of s
    /\ solv_D s s' r (in_D s c) (refund (D_of s) s c) (swept_delta s c) (paid_delta s c)
    /\ solv_L s s' r (in_L s c) (refund (L_of s) s c).
  Proof.
    intros HB HP HS Hne Hok.
    assert (HneL : String.eqb (L_of s) (D_of s) = false) by (apply eqb_neq_str; congruence).
    assert (HneD : String.eqb (D_of s) (L_of s) = false) by (apply eqb_neq_str; exact Hne).
    unfold Ledger.apply_call, Solvency.in_D, Solvency.in_L, Solvency.paid_delta, Ledger.swept_delta, Ledger.succeeded, Ledger.apply_call. cbv zeta.
    destruct c as [e i m | id rr | m].
    - (* execute *)
      destruct (execute s e i m) as [[s' r]|k|site] eqn:H; cbn [is_ok negb fst snd].
      2,3: split; [reflexivity|]; split; [reflexivity|];
           destruct m; cbn [refund]; apply solv_quiet; try reflexivity; intros; reflexivity.
      destruct m; cbn [fst snd refund].
      + (* LiquidStake *)
        apply liquid_stake_inv in H.
        destruct H as (a & mt & om & Hp & _ & _ & _ & _ & _ & _ & _ & Hst & _ & _ & Hcfg & _ & Hbt & Hpid & _ & Hinf & _ & Ho & Hr).
        assert (HD : D_of s' = D_of s) by (unfold D_of; rewrite Hcfg; reflexivity).
        assert (HL : L_of s' = L_of s) by (unfold L_of; rewrite Hcfg; reflexivity).
        split; [exact HD|]. split; [exact HL|]. change (pc_denom (protocol (cfg s))) with (D_of s) in Hp. rewrite Hp.
        destruct (frame_sums s s' (D_of s) Hbt Hpid Hinf) as (Er & Ep & ErD). destruct (frame_sums s s' (L_of s) Hbt Hpid Hinf) as (_ & _ & ErL).
        unfold solv_D, solv_L. rewrite Er, Ep, ErD, ErL, Hst. cbn [total_fees set_totals].
        pose proof (oracle_out _ _ _ (D_of s) Ho) as OD. pose proof (oracle_out _ _ _ (L_of s) Ho) as OL.
        apply oracle_no_mint_burn in Ho as [Om Ob].
        assert (Hfees : total_fees (swept (st s)) = total_fees (st s) + (if sweeps (st s) then total_native (st s) else 0)).
        { unfold swept. destruct (sweeps (st s)); cbn; lia. }
        rewrite Hfees.
        destruct Hr as [(_ & -> & _) | (_ & -> & _)];
          rewrite !out_of_app, !minted_app, !burnt_app, OD, OL, Om, Ob; cbn [out_of map sumN msg_out sm_msg mint_msg plain transfer_sub minted burnt c_denom c_amount];
          fold (D_of s) (L_of s); rewrite ?eqb_refl_str, ?HneL, ?HneD; unfold ZN; split; lia.
      + (* LiquidUnstake *)
        apply liquid_unstake_inv in H. destruct H as (a & b & Hp & _ & Hb & -> & Hcfg & Hst & _ & Hpid & Hinf & _ & _ & Hm).
        split; [unfold D_of; rewrite Hcfg; reflexivity|]. split; [unfold L_of; rewrite Hcfg; reflexivity|].
        change (lst_denom (cfg s)) with (L_of s) in Hp. rewrite Hp.
        assert (Hbs : exists c0, batches s' = ninsert (pending_id s)
                   {| b_id := b_id b; b_total := b_total b + a; b_expected := b_expected b; b_received := b_received b;
                      b_count := c0; b_time := b_time b; b_status := b_status b |} (batches s)).
        { destruct (find_request _ _ _); destruct Hm as [_ ->]; eexists; reflexivity. }
        destruct Hbs as (c0 & Hbs). destruct HB as (Hsb & _ & _ & Hok0).
        unfold solv_D, solv_L, received_total, pending_total, refundable_total. rewrite Hbs, Hpid, Hinf, Hst, nfind_ninsert_eq, Hb.
        set (b' := {| b_id := b_id b; b_total := b_total b + a; b_expected := b_expected b; b_received := b_received b;
                      b_count := c0; b_time := b_time b; b_status := b_status b |}) in *.
        assert (Hr : recv_of b' = recv_of b) by reflexivity.
        pose proof (nsum_ninsert recv_of (batches s) (pending_id s) b' Hsb) as Hs. rewrite Hb, Hr in Hs.
        assert (Ht : b_total b' = b_total b + a) by reflexivity. rewrite Ht.
        cbn [out_of map sumN minted burnt b_total]. unfold ZN. split; lia.
      + (* SubmitBatch *)
        apply submit_batch_inv in H.
        destruct H as (b & u & om & _ & Hb & _ & _ & _ & _ & Hst & Hcfg & _ & _ & Hinf & _ & _ & Hpid & Hbs & Ho & ->).
        split; [unfold D_of; rewrite Hcfg; reflexivity|]. split; [unfold L_of; rewrite Hcfg; reflexivity|].
        pose proof HB as (Hsb & _ & _ & Hok0). destruct (Hok0 _ _ Hb) as (Hbid & _ & Hpend & Hsh).
        assert (Hpst : b_status b = Pending) by (apply Hpend; reflexivity).
        pose proof (oracle_out _ _ _ (D_of s) Ho) as OD. pose proof (oracle_out _ _ _ (L_of s) Ho) as OL.
        apply oracle_no_mint_burn in Ho as [Om Ob].
        unfold solv_D, solv_L, received_total, pending_total, refundable_total.
        rewrite Hbs, Hpid, Hinf, Hst, Hbid, Hb. cbn [total_fees set_totals].
        rewrite nfind_ninsert_neq by lia. rewrite nfind_ninsert_eq.
        (* received_total: the new pending batch and the submitted batch both contribute 0, as did the old record *)
        set (nb := new_batch (pending_id s + 1) (now_s e + batch_period (cfg s))).
        set (sb := {| b_id := pending_id s; b_total := b_total b; b_expected := Some u; b_received := b_received b; b_count := b_count b;
                      b_time := Some (now_s e + nc_unbonding (native (cfg s))); b_status := Submitted |}).
        pose proof (nsum_ninsert recv_of (batches s) (pending_id s + 1) nb Hsb) as H1.
        assert (Hnone : nfind (pending_id s + 1) (batches s) = None).
        { destruct (nfind (pending_id s + 1) (batches s)) as [x|] eqn:E; [| reflexivity]. destruct (Hok0 _ _ E) as (_ & Hr & _). lia. }
        rewrite Hnone in H1.
        pose proof (nsum_ninsert recv_of (ninsert (pending_id s + 1) nb (batches s)) (pending_id s) sb (sorted_ninsert _ _ _ Hsb)) as H2.
        rewrite nfind_ninsert_neq in H2 by lia. rewrite Hb in H2.
        assert (R0 : recv_of nb = 0) by reflexivity. assert (R1 : recv_of sb = 0) by reflexivity.
        assert (R2 : recv_of b = 0) by (unfold recv_of; rewrite Hpst; reflexivity).
        match goal with |- context[out_of _ (?x :: om)] =>
          change (out_of (D_of s) (x :: om)) with (out_of (D_of s) ([x] ++ om)); change (out_of (L_of s) (x :: om)) with (out_of (L_of s) ([x] ++ om));
          change (minted (x :: om)) with (minted ([x] ++ om)); change (burnt (x :: om)) with (burnt ([x] ++ om)) end.
        rewrite !out_of_app, minted_app, burnt_app, OD, OL, Om, Ob. cbn [out_of map sumN msg_out sm_msg plain minted burnt c_amount new_batch b_total nb].
        unfold ZN. split; lia.
      + (* Withdraw *)
        apply withdraw_inv in H. destruct H as (b & rc & q & am & om & _ & _ & _ & _ & _ & _ & -> & Ho & ->).
        split; [reflexivity|]. split; [reflexivity|].
        pose proof (oracle_out _ _ _ (D_of s) Ho) as OD. pose proof (oracle_out _ _ _ (L_of s) Ho) as OL.
        apply oracle_no_mint_burn in Ho as [Om Ob].
        unfold solv_D, solv_L, received_total, pending_total, refundable_total. cbn [batches pending_id inflight st set_requests].
        match goal with |- context[out_of _ (?x :: om)] =>
          change (out_of (D_of s) (x :: om)) with (out_of (D_of s) ([x] ++ om)); change (out_of (L_of s) (x :: om)) with (out_of (L_of s) ([x] ++ om));
          change (minted (x :: om)) with (minted ([x] ++ om)); change (burnt (x :: om)) with (burnt ([x] ++ om)) end.
        rewrite !out_of_app, minted_app, burnt_app, OD, OL, Om, Ob.
        cbn [out_of map sumN msg_out sm_msg plain minted burnt c_amount c_denom]. fold (D_of s). rewrite eqb_refl_str, HneD.
        unfold ZN. split; lia.
      + apply add_validator_inv in H. destruct H as (_ & _ & _ & -> & ->). split; [reflexivity|]. split; [reflexivity|].
        apply solv_quiet; try reflexivity; intros; reflexivity.
      + apply remove_validator_inv in H. destruct H as (_ & _ & _ & -> & ->). split; [reflexivity|]. split; [reflexivity|].
        apply solv_quiet; try reflexivity; intros; reflexivity.
      + apply transfer_ownership_inv in H. destruct H as (_ & _ & -> & ->). split; [reflexivity|]. split; [reflexivity|].
        apply solv_quiet; try reflexivity; intros; reflexivity.
      + apply accept_ownership_inv in H. destruct H as (_ & _ & -> & ->). split; [reflexivity|]. split; [reflexivity|].
        apply solv_quiet; try reflexivity; intros; reflexivity.
      + apply revoke_ownership_inv in H. destruct H as (_ & -> & ->). split; [reflexivity|]. split; [reflexivity|].
        apply solv_quiet; try reflexivity; intros; reflexivity.
      + (* UpdateConfig: the two denoms are untouched (the LST denom never, the staked-asset denom by assumption) *)
        apply update_config_inv in H. destruct H as (n' & p' & f' & m' & _ & _ & Hp & _ & _ & -> & ->).
        assert (HD : pc_denom p' = D_of s).
        { destruct p as [u|]; [| subst; reflexivity]. cbn in Hok. unfold validate_protocol in Hp.
          destruct (negb _); [discriminate|]. destruct (validate_address_prefix _); [|discriminate].
          destruct (validate_ibc_denom (up_denom u)) as [d|] eqn:Ed; [|discriminate].
          destruct (match up_oracle u with Some _ => _ | None => _ end); [|discriminate]. injection Hp as <-. cbn.
          unfold validate_ibc_denom in Ed. destruct (strip_prefix _ _); [|discriminate]. destruct (_ =? 64); [|discriminate].
          injection Ed as <-. exact Hok. }
        split; [exact HD|]. split; [reflexivity|]. apply solv_quiet; try reflexivity; intros; reflexivity.
      + (* ReceiveRewards *)
        apply receive_rewards_inv in H.
        destruct H as (c & fee & om & _ & _ & _ & Hc & Hf & Hle & Hst & Hcfg & _ & Hbt & Hpid & _ & Hinf & _ & _ & Ho & ->).
        split; [unfold D_of; rewrite Hcfg; reflexivity|]. split; [unfold L_of; rewrite Hcfg; reflexivity|].
        change (pc_denom (protocol (cfg s))) with (D_of s) in Hc. rewrite Hc.
        destruct (frame_sums s s' (D_of s) Hbt Hpid Hinf) as (Er & Ep & ErD). destruct (frame_sums s s' (L_of s) Hbt Hpid Hinf) as (_ & _ & ErL).
        pose proof (oracle_out _ _ _ (D_of s) Ho) as OD. pose proof (oracle_out _ _ _ (L_of s) Ho) as OL.
        apply oracle_no_mint_burn in Ho as [Om Ob].
        unfold solv_D, solv_L. rewrite Er, Ep, ErD, ErL, Hst. cbn [total_fees set_totals].
        rewrite !out_of_app, !minted_app, !burnt_app, OD, OL, Om, Ob.
        destruct (fee_treasury (fees (cfg s))) as [t|];
          cbn [out_of map sumN msg_out sm_msg plain transfer_sub minted burnt c_amount c_denom]; fold (D_of s) (L_of s);
          rewrite ?eqb_refl_str, ?HneD; unfold ZN; split; lia.
      + (* ReceiveUnstakedTokens *)
        apply receive_unstaked_inv in H. destruct H as (c & b & t & _ & _ & Hc & Hb & Hst & _ & _ & -> & ->).
        split; [reflexivity|]. split; [reflexivity|].
        change (pc_denom (protocol (cfg s))) with (D_of s) in Hc. rewrite Hc.
        pose proof HB as (Hsb & _ & _ & Hok0). destruct (Hok0 _ _ Hb) as (Hbid & _ & Hpend & _).
        assert (Hnp : batch_id <> pending_id s) by (intros ->; assert (b_status b = Pending) by (apply Hpend; reflexivity); congruence).
        unfold solv_D, solv_L, received_total, pending_total, refundable_total. cbn [batches pending_id inflight st set_batches].
        rewrite Hbid. rewrite nfind_ninsert_neq by congruence.
        set (rb := {| b_id := batch_id; b_total := b_total b; b_expected := b_expected b; b_received := Some (c_amount c);
                      b_count := b_count b; b_time := None; b_status := Received |}).
        pose proof (nsum_ninsert recv_of (batches s) batch_id rb Hsb) as H1. rewrite Hb in H1.
        assert (R0 : recv_of b = 0) by (unfold recv_of; rewrite Hst; reflexivity).
        assert (R1 : recv_of rb = c_amount c) by reflexivity.
        cbn [out_of map sumN minted burnt]. unfold ZN. split; lia.
      + apply circuit_breaker_inv in H. destruct H as (_ & -> & ->). split; [reflexivity|]. split; [reflexivity|].
        apply solv_quiet; try reflexivity; intros; reflexivity.
      + (* ResumeContract *)
        apply resume_inv in H. destruct H as (_ & -> & Ho). split; [reflexivity|]. split; [reflexivity|].
        apply solv_quiet; try reflexivity; [intros d; eapply oracle_out; exact Ho | |]; apply oracle_no_mint_burn in Ho; tauto.
      + (* RecoverPendingIbcTransfers *)
        pose proof H as H0. apply (recover_spec va dv av) in H; [| exact HP].
        destruct H as (rcv & ps & d & maxid & Hne0 & _ & Hall & Hnd & Hsel & _ & Hinf & _ & _ & Hcfg & Hst & Hbt & _ & ->).
        cbv zeta in *.
        split; [unfold D_of; rewrite Hcfg; reflexivity|]. split; [unfold L_of; rewrite Hcfg; reflexivity|].
        assert (Hpid : pending_id s' = pending_id s).
        { apply recover_inv in H0. destruct H0 as (? & ? & ? & ? & ? & _ & _ & _ & _ & _ & _ & -> & _). reflexivity. }
        assert (Href : forall p, In p ps -> refundable (p_status p) = true /\ c_denom (p_coin p) = d).
        { intros p Hp. destruct (Hall p Hp) as (Hf & _ & Hd). split; [| exact Hd]. destruct selected as [ids|].
          - destruct Hsel as [_ Hids]. cbn in Hok. apply (Hok (p_seq p) p); [rewrite <- Hids; apply in_map; exact Hp | exact Hf].
          - destruct Hsel as [_ Hr]. apply Hr. exact Hp. }
        destruct HP as (Hsi & _ & _).
        unfold solv_D, solv_L, received_total, pending_total, refundable_total. rewrite Hbt, Hpid, Hinf, Hst.
        pose proof (fold_nremove_nsum (refundable_amount (D_of s)) ps (inflight s) Hsi Hnd (fun p Hp => proj1 (Hall p Hp))) as SD.
        pose proof (fold_nremove_nsum (refundable_amount (L_of s)) ps (inflight s) Hsi Hnd (fun p Hp => proj1 (Hall p Hp))) as SL.
        rewrite (sum_refundable_packets va dv av d (D_of s) ps Href) in SD. rewrite (sum_refundable_packets va dv av d (L_of s) ps Href) in SL.
        cbn [out_of map sumN msg_out sm_msg transfer_sub minted burnt c_amount c_denom].
        destruct (String.eqb d (D_of s)), (String.eqb d (L_of s)); unfold ZN; split; lia.
      + (* FeeWithdraw *)
        apply fee_withdraw_inv in H. destruct H as (t & _ & Hle & _ & -> & ->). split; [reflexivity|]. split; [reflexivity|].
        unfold solv_D, solv_L, received_total, pending_total, refundable_total. cbn [batches pending_id inflight st set_st total_fees set_totals].
        cbn [out_of map sumN msg_out sm_msg plain minted burnt c_amount c_denom]. fold (D_of s). rewrite eqb_refl_str, HneD.
        unfold ZN. split; lia.
    - (* reply *)
      cbn [refund]. destruct (reply s id rr) as [[s' r]|k|site] eqn:H; cbn [is_ok negb fst snd];
        try (split; [reflexivity|]; split; [reflexivity|]; apply solv_quiet; try reflexivity; intros; reflexivity).
      unfold reply in H. destruct (nfind id (waitq s)) as [w|]; [|discriminate]. destruct rr as [seq| | |]; try discriminate.
      injection H as <- <-. split; [reflexivity|]. split; [reflexivity|]. cbn in Hok.
      destruct HP as (Hsi & _ & _).
      unfold solv_D, solv_L, received_total, pending_total, refundable_total. cbn [batches pending_id inflight st set_inflight set_waitq].
      set (np := {| p_seq := seq; p_coin := w_coin w; p_receiver := w_receiver w; p_status := Sent |}).
      pose proof (nsum_ninsert (refundable_amount (D_of s)) (inflight s) seq np Hsi) as SD. rewrite Hok in SD.
      pose proof (nsum_ninsert (refundable_amount (L_of s)) (inflight s) seq np Hsi) as SL. rewrite Hok in SL.
      rewrite (refundable_amount_sent (D_of s) np eq_refl) in SD. rewrite (refundable_amount_sent (L_of s) np eq_refl) in SL.
      cbn [out_of map sumN minted burnt]. unfold ZN. split; lia.
    - (* sudo *)
      destruct HP as (Hsi & Hk & _).
      assert (Hsame : solv_D s s [] 0 0 0 0 /\ solv_L s s [] 0 0) by (apply solv_quiet; try reflexivity; intros; reflexivity).
      destruct m as [ch seq ok | ch seq]; cbn [sudo refund].
      + destruct (String.eqb ch (pc_channel (protocol (cfg s)))) eqn:Ech; cbn [negb].
        2:{ destruct ok; cbn [fst snd is_ok negb]; (split; [reflexivity | split; [reflexivity | exact Hsame]]). }
        destruct (nfind seq (inflight s)) as [p|] eqn:Fp.
        2:{ destruct ok; cbn [fst snd is_ok negb]; (split; [reflexivity | split; [reflexivity | exact Hsame]]). }
        destruct ok; cbn [fst snd is_ok negb]; (split; [reflexivity | split; [reflexivity |]]).
        * (* success: the record of an in-flight packet is dropped *)
          cbn in Hok. specialize (Hok Ech p Fp).
          unfold solv_D, solv_L, received_total, pending_total, refundable_total. cbn [batches pending_id inflight st set_inflight].
          pose proof (nsum_nremove (refundable_amount (D_of s)) (inflight s) seq) as SD. rewrite Fp, (refundable_amount_sent (D_of s) p Hok) in SD.
          pose proof (nsum_nremove (refundable_amount (L_of s)) (inflight s) seq) as SL. rewrite Fp, (refundable_amount_sent (L_of s) p Hok) in SL.
          cbn [out_of map sumN minted burnt]. unfold ZN. split; lia.
        * (* error acknowledgement: refund, the record becomes refundable *)
          unfold solv_D, solv_L, received_total, pending_total, refundable_total. cbn [batches pending_id inflight st set_inflight].
          pose proof (nsum_ninsert (refundable_amount (D_of s)) (inflight s) seq (set_pstatus p AckFailure) Hsi) as SD. rewrite Fp in SD.
          pose proof (nsum_ninsert (refundable_amount (L_of s)) (inflight s) seq (set_pstatus p AckFailure) Hsi) as SL. rewrite Fp in SL.
          assert (V : forall d, refundable_amount d (set_pstatus p AckFailure) = if String.eqb (c_denom (p_coin p)) d then c_amount (p_coin p) else 0) by reflexivity.
          assert (W : forall d, refundable_amount d p = if refundable (p_status p) && String.eqb (c_denom (p_coin p)) d then c_amount (p_coin p) else 0) by reflexivity.
          rewrite V, W in SD, SL.
          cbn [out_of map sumN minted burnt].
          pose proof (HS _ _ Fp) as Hns.
          destruct (p_status p); try congruence; cbn [refundable pstatus_is_sent andb] in *;
            destruct (String.eqb (c_denom (p_coin p)) (D_of s)), (String.eqb (c_denom (p_coin p)) (L_of s)); unfold ZN; split; lia.
      + destruct (String.eqb ch (pc_channel (protocol (cfg s)))) eqn:Ech; cbn [negb].
        2:{ cbn [fst snd is_ok negb]; (split; [reflexivity | split; [reflexivity | exact Hsame]]). }
        destruct (nfind seq (inflight s)) as [p|] eqn:Fp.
        2:{ cbn [fst snd is_ok negb]; (split; [reflexivity | split; [reflexivity | exact Hsame]]). }
        cbn [fst snd is_ok negb]. split; [reflexivity|]. split; [reflexivity|].
        unfold solv_D, solv_L, received_total, pending_total, refundable_total. cbn [batches pending_id inflight st set_inflight].
        pose proof (nsum_ninsert (refundable_amount (D_of s)) (inflight s) seq (set_pstatus p TimedOut) Hsi) as SD. rewrite Fp in SD.
        pose proof (nsum_ninsert (refundable_amount (L_of s)) (inflight s) seq (set_pstatus p TimedOut) Hsi) as SL. rewrite Fp in SL.
          assert (V : forall d, refundable_amount d (set_pstatus p TimedOut) = if String.eqb (c_denom (p_coin p)) d then c_amount (p_coin p) else 0) by reflexivity.
          assert (W : forall d, refundable_amount d p = if refundable (p_status p) && String.eqb (c_denom (p_coin p)) d then c_amount (p_coin p) else 0) by reflexivity.
          rewrite V, W in SD, SL.
          cbn [out_of map sumN minted burnt].
        pose proof (HS _ _ Fp) as Hns.
        destruct (p_status p); try congruence; cbn [refundable pstatus_is_sent andb] in *;
          destruct (String.eqb (c_denom (p_coin p)) (D_of s)), (String.eqb (c_denom (p_coin p)) (L_of s)); unfold ZN; split; lia.
  Qed.
End Solvency2.

Section Solvency3.
  Variable va : string -> string -> bool.
  Variable dv : string -> string -> string -> option string.
  Variable av : string -> bool.
  Notation execute := (execute va dv av).
  Notation apply_call := (Ledger.apply_call va dv av).

  Lemma apply_call_I_packets s c : I_packets s -> I_packets (fst (apply_call s c)).
  Proof.
    intros HI. unfold Ledger.apply_call. destruct c as [e i m | id rr | m].
    - destruct (execute s e i m) as [[s' r]|k|site] eqn:H; cbn [fst]; [| exact HI | exact HI].
      eapply execute_preserves_I_packets; eassumption.
    - destruct (reply s id rr) as [[s' r]|k|site] eqn:H; cbn [fst]; [| exact HI | exact HI].
      eapply reply_preserves_I_packets; eassumption.
    - destruct (sudo s m) as [[s' r]|k|site] eqn:H; cbn [fst]; [| exact HI | exact HI].
      eapply sudo_preserves_I_packets; eassumption.
  Qed.

  Lemma apply_call_I_status s c : I_packets s -> I_status s -> I_status (fst (apply_call s c)).
  Proof.
    intros (Hsi & _ & _) HS. unfold Ledger.apply_call, I_status in *. destruct c as [e i m | id rr | m].
    - destruct (execute s e i m) as [[s' r]|k|site] eqn:H; cbn [fst]; [| exact HS | exact HS].
      assert (Hsub : forall k p, nfind k (inflight s') = Some p -> nfind k (inflight s) = Some p).
      { destruct m;
          try (apply liquid_stake_inv in H; destruct H as (? & ? & ? & _ & _ & _ & _ & _ & _ & _ & _ & _ & _ & _ & _ & _ & _ & _ & _ & Hi & _); rewrite Hi; tauto).
        - apply liquid_unstake_inv in H. destruct H as (? & ? & _ & _ & _ & _ & _ & _ & _ & _ & Hi & _). rewrite Hi. tauto.
        - apply submit_batch_inv in H. destruct H as (? & ? & ? & _ & _ & _ & _ & _ & _ & _ & _ & _ & _ & Hi & _). rewrite Hi. tauto.
        - apply withdraw_inv in H. destruct H as (? & ? & ? & ? & ? & _ & _ & _ & _ & _ & _ & -> & _). tauto.
        - apply add_validator_inv in H. destruct H as (_ & _ & _ & -> & _). tauto.
        - apply remove_validator_inv in H. destruct H as (_ & _ & _ & -> & _). tauto.
        - apply transfer_ownership_inv in H. destruct H as (_ & _ & -> & _). tauto.
        - apply accept_ownership_inv in H. destruct H as (_ & _ & -> & _). tauto.
        - apply revoke_ownership_inv in H. destruct H as (_ & -> & _). tauto.
        - apply update_config_inv in H. destruct H as (? & ? & ? & ? & _ & _ & _ & _ & _ & -> & _). tauto.
        - apply receive_rewards_inv in H. destruct H as (? & ? & ? & _ & _ & _ & _ & _ & _ & _ & _ & _ & _ & _ & _ & Hi & _). rewrite Hi. tauto.
        - apply receive_unstaked_inv in H. destruct H as (? & ? & ? & _ & _ & _ & _ & _ & _ & _ & -> & _). tauto.
        - apply circuit_breaker_inv in H. destruct H as (_ & -> & _). tauto.
        - apply resume_inv in H. destruct H as (_ & -> & _). tauto.
        - apply recover_inv in H. destruct H as (? & ? & ? & ? & ? & _ & _ & _ & _ & _ & _ & -> & _). cbn [inflight set_waitq set_inflight].
          intros k p Hf. eapply fold_nremove_find; [exact Hsi | exact Hf].
        - apply fee_withdraw_inv in H. destruct H as (? & _ & _ & _ & -> & _). tauto. }
      intros k p Hf. eapply HS. apply Hsub. exact Hf.
    - destruct (reply s id rr) as [[s' r]|k|site] eqn:H; cbn [fst]; [| exact HS | exact HS].
      unfold reply in H. destruct (nfind id (waitq s)) as [w|]; [|discriminate]. destruct rr as [seq| | |]; try discriminate.
      injection H as <- _. cbn. intros k p. destruct (N.eq_dec k seq) as [->|Hne].
      + rewrite nfind_ninsert_eq. intros Hx; injection Hx as <-. discriminate.
      + rewrite nfind_ninsert_neq by exact Hne. apply HS.
    - destruct (sudo s m) as [[s' r]|k|site] eqn:H; cbn [fst]; [| exact HS | exact HS].
      unfold sudo in H. destruct m as [ch seq ok | ch seq].
      + destruct (negb _); [injection H as <- _; exact HS|].
        destruct (nfind seq (inflight s)) as [p0|] eqn:F; [| injection H as <- _; exact HS].
        destruct ok; injection H as <- _; cbn; intros k p.
        * intros Hf. apply nfind_nremove_some in Hf; [| exact Hsi]. destruct Hf as [Hf _]. eapply HS. exact Hf.
        * destruct (N.eq_dec k seq) as [->|Hne]; [rewrite nfind_ninsert_eq; intros Hx; injection Hx as <-; discriminate|].
          rewrite nfind_ninsert_neq by exact Hne. apply HS.
      + destruct (negb _); [injection H as <- _; exact HS|].
        destruct (nfind seq (inflight s)) as [p0|] eqn:F; injection H as <- _; [| exact HS]. cbn. intros k p.
        destruct (N.eq_dec k seq) as [->|Hne]; [rewrite nfind_ninsert_eq; intros Hx; injection Hx as <-; discriminate|].
        rewrite nfind_ninsert_neq by exact Hne. apply HS.
  Qed.

  (* ---------- the ghost ledger of the chain side ---------- *)
  Record wallet := { w_balD : Z; w_balL : Z; w_swept : N; w_paid : N }.
  Definition wstep (sw : store * wallet) (c : call) : store * wallet :=
    let '(s, w) := sw in
    let '(s', r) := apply_call s c in
    (s', {| w_balD := (w_balD w + ZN (in_D va dv av s c) + ZN (refund (D_of s) s c) - ZN (out_of (D_of s) r))%Z;
            w_balL := (w_balL w + ZN (in_L va dv av s c) + ZN (refund (L_of s) s c) + ZN (minted r) - ZN (burnt r) - ZN (out_of (L_of s) r))%Z;
            w_swept := w_swept w + Ledger.swept_delta va dv av s c;
            w_paid := w_paid w + paid_delta va dv av s c |}).

  (* the environment assumptions hold for every call of the history, at the state it is applied to *)
  Fixpoint all_ok (sw : store * wallet) (cs : list call) : Prop :=
    match cs with
    | [] => True
    | c :: rest => ok_call (fst sw) c /\ all_ok (wstep sw c) rest
    end.

  Definition Solvent (sw : store * wallet) : Prop :=
    let '(s, w) := sw in
    I_batches s /\ I_packets s /\ I_status s /\ D_of s <> L_of s
    /\ (w_balD w + ZN (w_swept w) + ZN (w_paid w)
        = ZN (received_total s) + ZN (total_fees (st s)) + ZN (refundable_total (D_of s) s))%Z
    /\ (w_balL w = ZN (pending_total s) + ZN (refundable_total (L_of s) s))%Z.

  Lemma Solvent_step sw c : Solvent sw -> ok_call (fst sw) c -> Solvent (wstep sw c).
  Proof.
    destruct sw as [s w]. intros (HB & HP & HS & Hne & ED & EL) Hok. cbn [fst] in Hok. unfold wstep.
    pose proof (call_solvency va dv av s c HB HP HS Hne Hok) as (HD & HL & SD & SL).
    pose proof (Ledger.apply_call_I_batches va dv av s c HB) as HB'.
    pose proof (apply_call_I_packets s c HP) as HP'. pose proof (apply_call_I_status s c HP HS) as HS'.
    destruct (apply_call s c) as [s' r]. cbn [fst snd] in *. unfold Solvent. cbn [w_balD w_balL w_swept w_paid].
    split; [exact HB'|]. split; [exact HP'|]. split; [exact HS'|]. split; [rewrite HD, HL; exact Hne|].
    unfold solv_D, solv_L in SD, SL. rewrite HD, HL. unfold ZN in *. split; lia.
  Qed.

  (* C02 / C03 over whole histories *)
  Theorem solvency sw cs : Solvent sw -> all_ok sw cs -> Solvent (fold_left wstep cs sw).
  Proof.
    revert sw. induction cs as [|c cs IH]; intros sw H Hok; cbn [fold_left]; [exact H|].
    destruct Hok as [Hc Hrest]. apply IH; [apply Solvent_step; assumption | exact Hrest].
  Qed.

  (* a freshly instantiated contract with an empty wallet is solvent *)
  Theorem solvent_init e i m s r :
    instantiate va e i m = Ok (s, r) -> D_of s <> L_of s ->
    Solvent (s, {| w_balD := 0; w_balL := 0; w_swept := 0; w_paid := 0 |}).
  Proof.
    intros H Hne. pose proof (instantiate_I_batches _ _ _ _ _ _ H) as HB. pose proof (instantiate_I_packets _ _ _ _ _ _ H) as HP.
    unfold instantiate in H. inv_ok H. injection H as <- _. unfold Solvent.
    split; [exact HB|]. split; [exact HP|]. split; [intros k p Hf; discriminate|]. split; [exact Hne|]. split; reflexivity.
  Qed.
End Solvency3.
