(* Oracle.v — rates and oracle posts (C15). *)
From MW Require Import Staking.
From MW.Proofs Require Import Tactics Handlers.
Open Scope N_scope.

Lemma from_ratio_some a b q : from_ratio a b = Some q -> b <> 0 /\ q = a * dec_one / b /\ q <= u128_max.
Proof.
  unfold from_ratio. destruct (b =? 0) eqn:E; [discriminate|].
  destruct (a * dec_one / b <=? u128_max) eqn:F; intros H; inversion H. repeat split; lia.
Qed.

Lemma get_rates_spec x r p :
  get_rates x = Some (r, p) ->
  (total_lst x = 0 /\ r = 0 /\ p = 0)
  \/ (total_lst x <> 0 /\ total_native x <> 0
      /\ r = total_native x * dec_one / total_lst x /\ p = total_lst x * dec_one / total_native x).
Proof.
  unfold get_rates. destruct (total_lst x =? 0) eqn:E.
  - intros H; inversion H. left. repeat split; lia.
  - destruct (from_ratio (total_native x) (total_lst x)) as [r'|] eqn:Fr; [|discriminate].
    destruct (from_ratio (total_lst x) (total_native x)) as [p'|] eqn:Fp; [|discriminate].
    intros H; inversion H; subst. apply from_ratio_some in Fr as (? & ? & ?), Fp as (? & ? & ?).
    right. repeat split; try assumption; lia.
Qed.

Definition is_oracle (m : submsg) : bool := match sm_msg m with AOracle _ _ _ _ _ => true | _ => false end.
Definition oracle_posts (r : response) : list submsg := filter is_oracle r.

(* the post expected for a store: none without an oracle, otherwise one message with the store's own rates *)
Definition expected_posts (s : store) (e : env) : option (list submsg) :=
  match pc_oracle (protocol (cfg s)) with
  | None => Some []
  | Some o => match get_rates (st s) with
              | Some (r, p) => Some [plain (AOracle (self e) o (lst_denom (cfg s)) (dec_to_string p) (dec_to_string r))]
              | None => None
              end
  end.

Lemma oracle_msgs_expected s e om : oracle_msgs s e = Ok om -> expected_posts s e = Some om /\ oracle_posts om = om.
Proof.
  unfold oracle_msgs, expected_posts. destruct (pc_oracle (protocol (cfg s))) as [o|]; intros H.
  - inv_ok H. apply of_opt_ok in E. rewrite E. destruct v as [r p]. inversion H; subst. split; reflexivity.
  - inversion H; subst. split; reflexivity.
Qed.

Lemma oracle_msgs_none s e : pc_oracle (protocol (cfg s)) = None -> oracle_msgs s e = Ok [].
Proof. unfold oracle_msgs. intros ->. reflexivity. Qed.

Lemma oracle_posts_app a b : oracle_posts (a ++ b) = (oracle_posts a ++ oracle_posts b)%list.
Proof. unfold oracle_posts. apply filter_app. Qed.

Section OraclePosts.
  Variable va : string -> string -> bool.
  Variable dv : string -> string -> string -> option string.
  Variable av : string -> bool.
  Notation execute := (execute va dv av).

  Definition posting (m : execute_msg) : bool :=
    match m with
    | LiquidStake _ _ _ | SubmitBatch | ReceiveRewards | ResumeContract _ _ _ => true
    | _ => false
    end.

  (* every successful total-changing transaction carries exactly the posts expected for the store it returns *)
  Theorem posts_post_state s e i m s' r :
    posting m = true -> execute s e i m = Ok (s', r) -> expected_posts s' e = Some (oracle_posts r).
  Proof.
    intros Hp H. destruct m; try discriminate Hp.
    - apply liquid_stake_inv in H.
      destruct H as (a & m & om & _ & _ & _ & _ & _ & _ & _ & _ & _ & _ & _ & _ & _ & _ & _ & _ & _ & _ & Ho & Hr).
      apply oracle_msgs_expected in Ho as [Ho Hf]. rewrite Ho. f_equal.
      destruct Hr as [(_ & -> & _) | (_ & -> & _)]; rewrite !oracle_posts_app, Hf; cbn; rewrite ?app_nil_r; reflexivity.
    - apply submit_batch_inv in H.
      destruct H as (b & u & om & _ & _ & _ & _ & _ & _ & _ & _ & _ & _ & _ & _ & _ & _ & _ & Ho & ->).
      apply oracle_msgs_expected in Ho as [Ho Hf]. rewrite Ho. f_equal.
      match goal with |- context[oracle_posts (?x :: om)] => change (oracle_posts (x :: om)) with (oracle_posts ([x] ++ om)) end. rewrite oracle_posts_app, Hf. reflexivity.
    - apply receive_rewards_inv in H.
      destruct H as (c & fee & om & _ & _ & _ & _ & _ & _ & _ & _ & _ & _ & _ & _ & _ & _ & _ & Ho & ->).
      apply oracle_msgs_expected in Ho as [Ho Hf]. rewrite Ho. f_equal.
      rewrite !oracle_posts_app, Hf. destruct (fee_treasury (fees (cfg s))); cbn; rewrite ?app_nil_r; reflexivity.
    - apply resume_inv in H. destruct H as (_ & _ & Ho).
      apply oracle_msgs_expected in Ho as [Ho Hf]. rewrite Ho, Hf. reflexivity.
  Qed.

  (* the State query reports the purchase rate of the same store *)
  Theorem state_query_rate s n l rate po rw fe :
    query s QState = Ok (RState n l rate po rw fe) ->
    exists r, get_rates (st s) = Some (r, rate) /\ n = total_native (st s) /\ l = total_lst (st s).
  Proof.
    cbn [query]. intros H. inv_ok H. apply of_opt_ok in E. destruct v as [r p]. inversion H; subst.
    exists r. repeat split; assumption.
  Qed.
End OraclePosts.
