(* WorldProofs.v — the record table of the contract mirrors the chain's packets at every transaction boundary,
   and the staked asset forwarded toward the staker is located: delivered, in flight, or refunded and still recorded. *)
From MW Require Import Base Wire Staking.
From MW.Proofs Require Import Tactics Handlers Maps Invariant Recovery Ledger.
From MW Require Import World.
Open Scope N_scope.

Definition status_of (st : pstate) : pstatus :=
  match st with Flight => Sent | RefundedAck => AckFailure | RefundedTimeout => TimedOut | Delivered => AckSuccess end.
Definition rec_of (p : wpacket) : option packet :=
  if wp_tracked p
  then Some {| p_seq := wp_seq p; p_coin := wp_coin p; p_receiver := wp_receiver p; p_status := status_of (wp_state p) |}
  else None.
Definition rec_at (k : N) (pk : list wpacket) : option packet :=
  match find_pkt k pk with Some p => rec_of p | None => None end.

(* ---------- lists of packets ---------- *)
Lemma find_pkt_app k a b : find_pkt k (a ++ b) = match find_pkt k a with Some p => Some p | None => find_pkt k b end.
Proof. unfold find_pkt. induction a as [|x a IH]; cbn; [reflexivity|]. destruct (wp_seq x =? k); [reflexivity | exact IH]. Qed.

Lemma find_pkt_none k pk : (forall p, In p pk -> wp_seq p <> k) -> find_pkt k pk = None.
Proof.
  unfold find_pkt. induction pk as [|x pk IH]; intros H; cbn; [reflexivity|].
  destruct (wp_seq x =? k) eqn:E; [exfalso; apply (H x); [left; reflexivity | lia] | apply IH; intros p Hp; apply H; right; exact Hp].
Qed.

Lemma find_pkt_some k pk p : find_pkt k pk = Some p -> In p pk /\ wp_seq p = k.
Proof. unfold find_pkt. intros H. apply find_some in H as [H1 H2]. split; [exact H1 | lia]. Qed.

Lemma find_pkt_in pk p : NoDup (map wp_seq pk) -> In p pk -> find_pkt (wp_seq p) pk = Some p.
Proof.
  unfold find_pkt. induction pk as [|x pk IH]; intros Hnd Hin; [contradiction|]. cbn. inversion Hnd as [|y l Hx Hl]; subst.
  destruct Hin as [->|Hin]; [rewrite N.eqb_refl; reflexivity|].
  destruct (wp_seq x =? wp_seq p) eqn:E; [exfalso; apply Hx; apply in_map_iff; exists p; split; [lia | exact Hin] | apply IH; assumption].
Qed.

Lemma seqs_set_pkt_state seq st tr pk : map wp_seq (set_pkt_state seq st tr pk) = map wp_seq pk.
Proof. unfold set_pkt_state. rewrite map_map. apply map_ext. intros p. destruct (wp_seq p =? seq); reflexivity. Qed.
Lemma seqs_untrack l pk : map wp_seq (untrack l pk) = map wp_seq pk.
Proof. unfold untrack. rewrite map_map. apply map_ext. intros p. destruct (existsb _ l); reflexivity. Qed.

Lemma find_set_pkt_state k seq st tr pk :
  find_pkt k (set_pkt_state seq st tr pk) =
  match find_pkt k pk with
  | Some p => Some (if wp_seq p =? seq
                    then {| wp_seq := wp_seq p; wp_channel := wp_channel p; wp_receiver := wp_receiver p; wp_coin := wp_coin p; wp_state := st; wp_tracked := tr |}
                    else p)
  | None => None
  end.
Proof.
  unfold find_pkt, set_pkt_state. induction pk as [|x pk IH]; cbn; [reflexivity|].
  destruct (wp_seq x =? seq) eqn:E; cbn; destruct (wp_seq x =? k) eqn:F; try rewrite E; try reflexivity; exact IH.
Qed.

Lemma find_untrack k l pk :
  find_pkt k (untrack l pk) =
  match find_pkt k pk with
  | Some p => Some (if existsb (N.eqb (wp_seq p)) l
                    then {| wp_seq := wp_seq p; wp_channel := wp_channel p; wp_receiver := wp_receiver p; wp_coin := wp_coin p; wp_state := wp_state p; wp_tracked := false |}
                    else p)
  | None => None
  end.
Proof.
  unfold find_pkt, untrack. induction pk as [|x pk IH]; cbn; [reflexivity|].
  destruct (existsb (N.eqb (wp_seq x)) l) eqn:E; cbn; destruct (wp_seq x =? k) eqn:F; try rewrite E; try reflexivity; exact IH.
Qed.

Lemma untrack_nil pk : untrack [] pk = pk.
Proof. unfold untrack. induction pk as [|x pk IH]; cbn [map existsb]; [reflexivity | f_equal; exact IH]. Qed.

(* ---------- what a successful execute does to the record table and which transfers it announces ---------- *)
Definition transfers (r : response) : list submsg := filter is_transfer r.
Definition wf_transfer (s : store) (sm : submsg) : Prop :=
  exists rcv c sender t memo,
    sm_msg sm = ATransfer (pc_channel (protocol (cfg s))) rcv c sender t memo /\ sm_reply sm = true
    /\ nfind (sm_id sm) (waitq s) = Some {| w_coin := c; w_receiver := rcv |}.
Definition wf_resp (s : store) (r : response) : Prop :=
  Forall (wf_transfer s) (transfers r) /\ NoDup (map sm_id (transfers r)).

Lemma transfers_app a b : transfers (a ++ b) = (transfers a ++ transfers b)%list.
Proof. unfold transfers. apply filter_app. Qed.

Lemma transfers_none r : (forall sm, In sm r -> is_transfer sm = false) -> transfers r = [].
Proof.
  unfold transfers. induction r as [|x r IH]; intros H; cbn; [reflexivity|].
  rewrite (H x (or_introl eq_refl)). apply IH. intros sm Hs. apply H. right. exact Hs.
Qed.

Lemma wf_resp_nil s r : transfers r = [] -> wf_resp s r.
Proof. intros H. unfold wf_resp. rewrite H. split; constructor. Qed.

Lemma fold_nremove_other (ps : list packet) : forall (m : nmap packet) k,
  ~ In k (map p_seq ps) -> nfind k (fold_left (fun m p => nremove (p_seq p) m) ps m) = nfind k m.
Proof.
  induction ps as [|p ps IH]; intros m k Hk; [reflexivity|]. cbn [fold_left]. rewrite IH.
  - apply nfind_nremove_neq. intros E. apply Hk. left. symmetry. exact E.
  - intros Hin. apply Hk. right. exact Hin.
Qed.

Section Exec.
  Variable va : string -> string -> bool.
  Variable dv : string -> string -> string -> option string.
  Variable av : string -> bool.
  Notation execute := (execute va dv av).

  Lemma oracle_transfers s e om : oracle_msgs s e = Ok om -> transfers om = [].
  Proof. intros H. apply transfers_none. eapply oracle_msgs_no_transfer. exact H. Qed.

  Theorem execute_records_and_transfers s e i m s' r :
    I_packets s -> execute s e i m = Ok (s', r) ->
    (forall k q, nfind k (inflight s') = Some q -> nfind k (inflight s) = Some q)
    /\ wf_resp s' r.
  Proof.
    intros HI H. pose proof HI as (Hs & Hk & Hw).
    assert (Same : inflight s' = inflight s -> forall k q, nfind k (inflight s') = Some q -> nfind k (inflight s) = Some q)
      by (intros E k q; rewrite E; tauto).
    destruct m.
    - (* LiquidStake *)
      apply liquid_stake_inv in H.
      destruct H as (a & mt & om & _ & _ & _ & _ & _ & _ & _ & _ & _ & _ & _ & Hc & _ & _ & _ & _ & Hi & _ & Ho & Hr).
      split; [apply Same; exact Hi|]. apply oracle_transfers in Ho.
      destruct Hr as [(_ & -> & Hwq) | (_ & -> & Hwq)]; unfold wf_resp; rewrite !transfers_app, Ho; cbn [transfers filter is_transfer sm_msg mint_msg plain transfer_sub app].
      + split; [| repeat constructor; intros []].
        constructor; [| constructor]. unfold wf_transfer. cbn [sm_msg sm_reply sm_id transfer_sub]. rewrite Hc, Hwq, nfind_ninsert_eq. eauto 10.
      + split.
        * constructor; [| constructor; [| constructor]]; unfold wf_transfer; cbn [sm_msg sm_reply sm_id transfer_sub]; rewrite Hc, Hwq.
          -- rewrite nfind_ninsert_neq by lia. rewrite nfind_ninsert_eq. eauto 10.
          -- rewrite nfind_ninsert_eq. eauto 10.
        * cbn. constructor; [intros [E|[]]; lia | constructor; [intros [] | constructor]].
    - apply liquid_unstake_inv in H. destruct H as (a & b & _ & _ & _ & -> & _ & _ & _ & _ & Hi & _). split; [apply Same; exact Hi | apply wf_resp_nil; reflexivity].
    - apply submit_batch_inv in H. destruct H as (b & u & om & _ & _ & _ & _ & _ & _ & _ & _ & _ & _ & Hi & _ & _ & _ & _ & Ho & ->).
      split; [apply Same; exact Hi|]. apply wf_resp_nil. apply oracle_transfers in Ho. change (transfers (?x :: om)) with (transfers ([x] ++ om)). rewrite transfers_app, Ho. reflexivity.
    - apply withdraw_inv in H. destruct H as (b & rc & q & am & om & _ & _ & _ & _ & _ & _ & -> & Ho & ->).
      split; [apply Same; reflexivity|]. apply wf_resp_nil. apply oracle_transfers in Ho. change (transfers (?x :: om)) with (transfers ([x] ++ om)). rewrite transfers_app, Ho. reflexivity.
    - apply add_validator_inv in H. destruct H as (_ & _ & _ & -> & ->). split; [apply Same; reflexivity | apply wf_resp_nil; reflexivity].
    - apply remove_validator_inv in H. destruct H as (_ & _ & _ & -> & ->). split; [apply Same; reflexivity | apply wf_resp_nil; reflexivity].
    - apply transfer_ownership_inv in H. destruct H as (_ & _ & -> & ->). split; [apply Same; reflexivity | apply wf_resp_nil; reflexivity].
    - apply accept_ownership_inv in H. destruct H as (_ & _ & -> & ->). split; [apply Same; reflexivity | apply wf_resp_nil; reflexivity].
    - apply revoke_ownership_inv in H. destruct H as (_ & -> & ->). split; [apply Same; reflexivity | apply wf_resp_nil; reflexivity].
    - apply update_config_inv in H. destruct H as (? & ? & ? & ? & _ & _ & _ & _ & _ & -> & ->). split; [apply Same; reflexivity | apply wf_resp_nil; reflexivity].
    - (* ReceiveRewards *)
      apply receive_rewards_inv in H.
      destruct H as (c & fee & om & _ & _ & _ & _ & _ & _ & _ & Hc & _ & _ & _ & _ & Hi & _ & Hwq & Ho & ->).
      split; [apply Same; exact Hi|]. apply oracle_transfers in Ho. unfold wf_resp.
      destruct (fee_treasury (fees (cfg s))); rewrite !transfers_app, Ho; cbn [transfers filter is_transfer sm_msg transfer_sub plain app];
        (split; [| repeat constructor; intros []]); (constructor; [| constructor]); unfold wf_transfer; cbn [sm_msg sm_reply sm_id transfer_sub];
        rewrite Hc, Hwq, nfind_ninsert_eq; eauto 10.
    - apply receive_unstaked_inv in H. destruct H as (c & b & t & _ & _ & _ & _ & _ & _ & _ & -> & ->). split; [apply Same; reflexivity | apply wf_resp_nil; reflexivity].
    - apply circuit_breaker_inv in H. destruct H as (_ & -> & ->). split; [apply Same; reflexivity | apply wf_resp_nil; reflexivity].
    - apply resume_inv in H. destruct H as (_ & -> & Ho). split; [apply Same; reflexivity | apply wf_resp_nil; eapply oracle_transfers; exact Ho].
    - (* Recover *)
      apply (recover_spec va dv av _ _ _ _ _ _ _ _ HI) in H.
      destruct H as (rcv & ps & d & maxid & _ & _ & _ & _ & _ & _ & Hi & _ & Hwq & Hc & _ & _ & _ & ->).
      split.
      + intros k q Hf. rewrite Hi in Hf. apply fold_nremove_find in Hf; [exact Hf | exact Hs].
      + unfold wf_resp. cbn [transfers filter is_transfer sm_msg transfer_sub]. split; [| repeat constructor; intros []].
        constructor; [| constructor]. unfold wf_transfer. cbn [sm_msg sm_reply sm_id transfer_sub]. rewrite Hc, Hwq, nfind_ninsert_eq. eauto 10.
    - apply fee_withdraw_inv in H. destruct H as (t & _ & _ & _ & -> & ->). split; [apply Same; reflexivity | apply wf_resp_nil; reflexivity].
  Qed.
End Exec.

(* ---------- the invariant ---------- *)
Definition CH (s : store) : string := pc_channel (protocol (cfg s)).

Definition M_inv (s : store) (pk : list wpacket) (next : N) : Prop :=
  I_packets s
  /\ (forall k, nfind k (inflight s) = rec_at k pk)
  /\ (forall p, In p pk -> wp_seq p < next)
  /\ NoDup (map wp_seq pk)
  /\ (forall p, In p pk -> wp_tracked p = true -> wp_channel p = CH s)
  /\ (forall p, In p pk -> wp_state p = Delivered -> wp_tracked p = false).
Definition W_inv (w : world) : Prop := M_inv (w_store w) (w_packets w) (w_next w).

Lemma rec_at_app_new k pk p : (forall q, In q pk -> wp_seq q < wp_seq p) ->
  rec_at k (pk ++ [p]) = if k =? wp_seq p then rec_of p else rec_at k pk.
Proof.
  intros Hlt. unfold rec_at. rewrite find_pkt_app. destruct (k =? wp_seq p) eqn:E.
  - assert (k = wp_seq p) by lia. subst k. rewrite find_pkt_none by (intros q Hq; specialize (Hlt q Hq); lia).
    unfold find_pkt. cbn. rewrite N.eqb_refl. reflexivity.
  - destruct (find_pkt k pk); [reflexivity|]. unfold find_pkt. cbn. assert (F : (wp_seq p =? k) = false) by lia. rewrite F. reflexivity.
Qed.

Section Dispatch.
  Variable va : string -> string -> bool.
  Variable dv : string -> string -> string -> option string.
  Variable av : string -> bool.

  Lemma wf_transfer_after_reply s s' id sm :
    wf_transfer s sm -> sm_id sm <> id ->
    inflight s' = inflight s' -> cfg s' = cfg s -> waitq s' = nremove id (waitq s) -> wf_transfer s' sm.
  Proof.
    intros (rcv & c & sender & t & memo & Hm & Hr & Hw) Hne _ Hc Hwq. exists rcv, c, sender, t, memo.
    rewrite Hc. split; [exact Hm|]. split; [exact Hr|]. rewrite Hwq, nfind_nremove_neq by exact Hne. exact Hw.
  Qed.

  (* the chain runs the response: every announced transfer becomes a packet in flight and a Sent record *)
  Lemma dispatch_inv r : forall s pk next s' pk' next',
    M_inv s pk next -> wf_resp s r ->
    dispatch s pk next r = Some (s', pk', next') ->
    M_inv s' pk' next' /\ cfg s' = cfg s /\ st s' = st s /\ batches s' = batches s /\ requests s' = requests s.
  Proof.
    induction r as [|sm r IH]; intros s pk next s' pk' next' HM [Hwf Hnd] H.
    - cbn in H. inversion H; subst. split; [exact HM|]. repeat split; reflexivity.
    - cbn [dispatch] in H.
      destruct (is_transfer sm) eqn:T.
      + (* a transfer *)
        unfold transfers in Hwf, Hnd. cbn [filter] in Hwf, Hnd. rewrite T in Hwf, Hnd. fold (transfers r) in Hwf, Hnd.
        inversion Hwf as [|x l Hsm Hrest]; subst. cbn [map] in Hnd. inversion Hnd as [|y l' Hnotin Hnd']; subst.
        destruct Hsm as (rcv & c & sender & t & memo & Hm & Hr & Hw). rewrite Hm, Hr in H.
        pose proof (reply_spec s (sm_id sm) (ROk next)) as RS. rewrite Hw in RS. rewrite RS in H.
        set (s1 := set_inflight (set_waitq s (nremove (sm_id sm) (waitq s)))
                     (ninsert next {| p_seq := next; p_coin := c; p_receiver := rcv; p_status := Sent |} (inflight s))) in *.
        set (newp := {| wp_seq := next; wp_channel := CH s; wp_receiver := rcv; wp_coin := c; wp_state := Flight; wp_tracked := true |}).
        destruct HM as (HI & H1 & H2 & H3 & H4 & H5).
        assert (HM1 : M_inv s1 (pk ++ [newp]) (next + 1)).
        { unfold M_inv. split; [| split; [| split; [| split; [| split]]]].
          - eapply (reply_preserves_I_packets _ (sm_id sm) (ROk next)); [exact HI | exact RS].
          - intros k. unfold s1. cbn [inflight set_inflight]. rewrite rec_at_app_new by (intros q Hq; cbn; apply H2; exact Hq).
            cbn [wp_seq newp]. destruct (k =? next) eqn:E.
            + assert (k = next) by lia. subst k. rewrite nfind_ninsert_eq. reflexivity.
            + rewrite nfind_ninsert_neq by lia. apply H1.
          - intros p Hp. apply in_app_iff in Hp as [Hp|[<-|[]]]; [specialize (H2 p Hp); lia | cbn; lia].
          - rewrite map_app. cbn. apply NoDup_app_single; [exact H3|]. intros Hin. apply in_map_iff in Hin as (q & Hq & Hin). specialize (H2 q Hin). lia.
          - intros p Hp Ht. apply in_app_iff in Hp as [Hp|[<-|[]]]; [apply H4; assumption | reflexivity].
          - intros p Hp Hd. apply in_app_iff in Hp as [Hp|[<-|[]]]; [apply H5; assumption | discriminate Hd]. }
        assert (Hwf1 : wf_resp s1 r).
        { split; [| exact Hnd']. apply Forall_forall. intros x Hx. rewrite Forall_forall in Hrest.
          apply (wf_transfer_after_reply s s1 (sm_id sm)); [apply Hrest; exact Hx | | reflexivity | reflexivity | reflexivity].
          intros E. apply Hnotin. rewrite <- E. apply in_map. exact Hx. }
        change (CH s) with (pc_channel (protocol (cfg s))) in newp.
        destruct (IH _ _ _ _ _ _ HM1 Hwf1 H) as (A & B & C & D & E).
        split; [exact A|]. split; [rewrite B; reflexivity|]. split; [rewrite C; reflexivity|]. split; [rewrite D; reflexivity | rewrite E; reflexivity].
      + (* not a transfer: nothing for this model *)
        assert (Hwf' : wf_resp s r).
        { unfold wf_resp, transfers in *. cbn [filter] in Hwf, Hnd. rewrite T in Hwf, Hnd. split; assumption. }
        destruct (sm_msg sm) eqn:Msg; try (apply (IH _ _ _ _ _ _ HM Hwf' H)). unfold is_transfer in T. rewrite Msg in T. discriminate.
  Qed.
End Dispatch.

(* ---------- one event ---------- *)
Lemma in_untrack p l pk : In p (untrack l pk) ->
  exists q, In q pk /\ wp_seq p = wp_seq q /\ wp_state p = wp_state q /\ wp_channel p = wp_channel q
            /\ (wp_tracked p = true -> p = q)
            /\ (existsb (N.eqb (wp_seq q)) l = false -> p = q).
Proof.
  unfold untrack. intros H. apply in_map_iff in H as (q & <- & Hq). exists q. split; [exact Hq|].
  destruct (existsb (N.eqb (wp_seq q)) l); cbn; repeat split; try reflexivity; discriminate.
Qed.

Lemma in_set_pkt_state p seq st tr pk : In p (set_pkt_state seq st tr pk) ->
  exists q, In q pk /\ wp_seq p = wp_seq q /\ wp_channel p = wp_channel q
            /\ ((wp_seq q <> seq /\ p = q) \/ (wp_seq q = seq /\ wp_state p = st /\ wp_tracked p = tr)).
Proof.
  unfold set_pkt_state. intros H. apply in_map_iff in H as (q & <- & Hq). exists q. split; [exact Hq|].
  destruct (wp_seq q =? seq) eqn:E; cbn; repeat split; try reflexivity; [right | left]; repeat split; lia.
Qed.

Section Step.
  Variable va : string -> string -> bool.
  Variable dv : string -> string -> string -> option string.
  Variable av : string -> bool.
  Notation execute := (execute va dv av).
  Notation wstep := (wstep va dv av).

  (* the IBC channel of the configuration is not changed by this event *)
  Definition routing_kept (w : world) (ev : wevent) : Prop :=
    match ev with
    | WExec e i m => forall s' r, execute (w_store w) e i m = Ok (s', r) -> CH s' = CH (w_store w)
    | _ => True
    end.

  Lemma exec_inv s pk next e i m s' r :
    M_inv s pk next -> execute s e i m = Ok (s', r) -> CH s' = CH s ->
    M_inv s' (untrack (removed_seqs s s') pk) next /\ wf_resp s' r.
  Proof.
    intros (HI & H1 & H2 & H3 & H4 & H5) H Hch.
    destruct (execute_records_and_transfers va dv av s e i m s' r HI H) as [F1 Hwf]. split; [| exact Hwf].
    unfold M_inv. split; [eapply execute_preserves_I_packets; eassumption|]. split; [| split; [| split; [| split]]].
    - intros k. unfold rec_at. rewrite find_untrack.
      destruct (nfind k (inflight s')) as [q|] eqn:F.
      + pose proof (F1 k q F) as F0. rewrite H1 in F0. unfold rec_at in F0.
        destruct (find_pkt k pk) as [p|] eqn:P; [|discriminate]. apply find_pkt_some in P as [Pin Pk].
        assert (E : existsb (N.eqb (wp_seq p)) (removed_seqs s s') = false).
        { apply not_true_is_false. intros Ex. apply existsb_exists in Ex as (j & Hj & Ej). assert (j = k) by lia. subst j.
          unfold removed_seqs in Hj. apply filter_In in Hj as [_ Hj]. rewrite F in Hj. discriminate. }
        rewrite E. symmetry. exact F0.
      + destruct (find_pkt k pk) as [p|] eqn:P; [|reflexivity]. pose proof P as P0. apply find_pkt_some in P as [Pin Pk].
        destruct (existsb (N.eqb (wp_seq p)) (removed_seqs s s')) eqn:E; [reflexivity|].
        destruct (nfind k (inflight s)) as [q|] eqn:F0.
        * exfalso. apply not_true_iff_false in E. apply E. apply existsb_exists. exists k. split; [| lia].
          unfold removed_seqs. apply filter_In. split; [eapply nfind_key; exact F0 | rewrite F; reflexivity].
        * rewrite H1 in F0. unfold rec_at in F0. rewrite P0 in F0. symmetry. exact F0.
    - intros p Hp. apply in_untrack in Hp as (q & Hq & Es & _). rewrite Es. apply H2. exact Hq.
    - rewrite seqs_untrack. exact H3.
    - intros p Hp Ht. apply in_untrack in Hp as (q & Hq & _ & _ & _ & Heq & _). rewrite (Heq Ht). rewrite Hch. apply H4; [exact Hq | rewrite <- (Heq Ht); exact Ht].
    - intros p Hp Hd. apply in_untrack in Hp as (q & Hq & _ & Est & _ & Heq & _).
      destruct (wp_tracked p) eqn:T; [| reflexivity]. rewrite (Heq eq_refl) in T, Hd. rewrite (H5 q Hq Hd) in T. discriminate.
  Qed.

  Theorem wstep_inv w ev : W_inv w -> routing_kept w ev -> W_inv (wstep w ev).
  Proof.
    intros HW HR. destruct w as [s pk next]. unfold W_inv in *. cbn [w_store w_packets w_next] in *. destruct ev as [e i m | e i m | seq o | m].
    - (* WExec *)
      cbn [World.wstep w_store w_packets w_next].
      destruct (execute s e i m) as [[s' r]|k|site] eqn:H; [| exact HW | exact HW].
      destruct (exec_inv s pk next e i m s' r HW H (HR s' r H)) as [HM Hwf].
      destruct (dispatch s' (untrack (removed_seqs s s') pk) next r) as [[[s'' pk''] nx]|] eqn:D; [| exact HW].
      cbn [w_store w_packets w_next]. eapply dispatch_inv; eassumption.
    - exact HW.
    - (* WRelay *)
      cbn [World.wstep w_store w_packets w_next].
      destruct (find_pkt seq pk) as [p|] eqn:P; [| exact HW]. destruct (wp_state p) eqn:St; try exact HW.
      pose proof P as P0. apply find_pkt_some in P as [Pin Pseq].
      destruct HW as (HI & H1 & H2 & H3 & H4 & H5). pose proof HI as (Hs & Hk & Hwq).
      set (m := match o with OAckOk => SAck (wp_channel p) seq true | OAckErr => SAck (wp_channel p) seq false | OTimeout => STimeout (wp_channel p) seq end).
      set (st' := match o with OAckOk => Delivered | OAckErr => RefundedAck | OTimeout => RefundedTimeout end).
      set (tr' := match o with OAckOk => false | _ => wp_tracked p end).
      pose proof (H1 seq) as R. unfold rec_at in R. rewrite P0 in R. unfold rec_of in R.
      assert (Hsudo : exists s', sudo s m = Ok (s', []) /\ cfg s' = cfg s /\ I_packets s'
                /\ (forall k, nfind k (inflight s') = if k =? seq then (if tr' then Some {| p_seq := seq; p_coin := wp_coin p; p_receiver := wp_receiver p; p_status := status_of st' |} else None) else nfind k (inflight s))).
      { destruct (wp_tracked p) eqn:T.
        - (* recorded: the callback reaches its record *)
          rewrite St in R. cbn [status_of] in R. rewrite Pseq in R.
          assert (Ec : wp_channel p = CH s) by (apply H4; assumption). unfold CH in Ec.
          destruct (ack_spec s seq _ R) as (A1 & A2 & A3). unfold m. rewrite Ec.
          destruct o; [exists (set_inflight s (nremove seq (inflight s))) | eexists | eexists]; (split; [first [exact A1 | exact A2 | exact A3]|]); (split; [reflexivity|]);
            (split; [eapply sudo_preserves_I_packets; [exact HI | first [exact A1 | exact A2 | exact A3]]|]);
            intros k; cbn [inflight set_inflight]; destruct (k =? seq) eqn:E; try (assert (k = seq) by lia; subst k).
          + unfold tr'. apply nfind_nremove_eq. exact Hs.
          + apply nfind_nremove_neq. lia.
          + unfold tr', st'. rewrite nfind_ninsert_eq. reflexivity.
          + apply nfind_ninsert_neq. lia.
          + unfold tr', st'. rewrite nfind_ninsert_eq. reflexivity.
          + apply nfind_ninsert_neq. lia.
        - (* not recorded any more: the callback changes nothing *)
          exists s. split.
          + apply stray_noop. unfold m. destruct o; right; exact R.
          + split; [reflexivity|]. split; [exact HI|]. intros k. destruct (k =? seq) eqn:E; [| reflexivity].
            assert (k = seq) by lia. subst k. unfold tr'. destruct o; exact R. }
      destruct Hsudo as (s' & Hsd & Hc & HI' & Hnf). fold m. rewrite Hsd. cbn [w_store w_packets w_next].
      fold st' tr'. unfold M_inv. split; [exact HI'|]. split; [| split; [| split; [| split]]].
      + intros k. rewrite Hnf. unfold rec_at. rewrite find_set_pkt_state. destruct (k =? seq) eqn:E.
        * assert (k = seq) by lia. subst k. rewrite P0. rewrite Pseq, N.eqb_refl. unfold rec_of. cbn [wp_tracked wp_seq wp_coin wp_receiver wp_state]. reflexivity.
        * rewrite H1. unfold rec_at. destruct (find_pkt k pk) as [q|] eqn:Q; [|reflexivity]. apply find_pkt_some in Q as [_ Qk].
          assert (F : (wp_seq q =? seq) = false) by lia. rewrite F. reflexivity.
      + intros q Hq. apply in_set_pkt_state in Hq as (q0 & Hq0 & Es & _). rewrite Es. apply H2. exact Hq0.
      + rewrite seqs_set_pkt_state. exact H3.
      + intros q Hq Ht. unfold CH. rewrite Hc. fold (CH s). apply in_set_pkt_state in Hq as (q0 & Hq0 & _ & Ech & [[_ ->]|(Eq & _ & Etr)]).
        * apply H4; assumption.
        * rewrite Ech. assert (q0 = p).
          { pose proof (find_pkt_in pk q0 H3 Hq0) as F0. rewrite Eq in F0. rewrite P0 in F0. inversion F0. reflexivity. }
          subst q0. apply H4; [exact Pin|]. rewrite Ht in Etr. unfold tr' in Etr. destruct o; [discriminate | symmetry; exact Etr | symmetry; exact Etr].
      + intros q Hq Hd. apply in_set_pkt_state in Hq as (q0 & Hq0 & _ & _ & [[_ ->]|(Eq & Est & Etr)]).
        * apply H5; assumption.
        * rewrite Etr. rewrite Hd in Est. unfold st' in Est. unfold tr'. destruct o; [reflexivity | discriminate | discriminate].
    - (* WStray *)
      cbn [World.wstep w_store w_packets w_next].
      destruct (match m with SAck ch seq _ | STimeout ch seq => String.eqb ch (pc_channel (protocol (cfg s))) && match nfind seq (inflight s) with Some _ => true | None => false end end) eqn:Hit; [exact HW|].
      assert (Hn : sudo s m = Ok (s, [])).
      { apply stray_noop. destruct m as [ch seq ok | ch seq]; apply andb_false_iff in Hit; destruct Hit as [Hit|Hit].
        - left. intros ->. rewrite String.eqb_refl in Hit. discriminate.
        - right. destruct (nfind seq (inflight s)); [discriminate | reflexivity].
        - left. intros ->. rewrite String.eqb_refl in Hit. discriminate.
        - right. destruct (nfind seq (inflight s)); [discriminate | reflexivity]. }
      rewrite Hn. exact HW.
  Qed.
End Step.

(* ---------- every history ---------- *)
Section History.
  Variable va : string -> string -> bool.
  Variable dv : string -> string -> string -> option string.
  Variable av : string -> bool.
  Notation wstep := (wstep va dv av).
  Notation wrun := (wrun va dv av).

  Fixpoint events_ok (P : world -> wevent -> Prop) (w : world) (evs : list wevent) : Prop :=
    match evs with
    | [] => True
    | ev :: rest => P w ev /\ events_ok P (wstep w ev) rest
    end.

  Lemma world0_inv e i m s r : instantiate va e i m = Ok (s, r) -> W_inv (world0 s).
  Proof.
    intros H. unfold W_inv, world0, M_inv. cbn [w_store w_packets w_next].
    split; [eapply instantiate_I_packets; exact H|]. split.
    - intros k. unfold instantiate in H. inv_ok H. inversion H; subst. reflexivity.
    - split; [intros ? []|]. split; [constructor|]. split; intros ? [].
  Qed.

  Theorem wrun_inv w evs : W_inv w -> events_ok (routing_kept va dv av) w evs -> W_inv (wrun w evs).
  Proof.
    revert w. induction evs as [|ev evs IH]; intros w HW Hok; [exact HW|]. destruct Hok as [H1 H2].
    cbn [World.wrun fold_left]. apply IH; [apply wstep_inv; assumption | exact H2].
  Qed.

  (* readings of the invariant, in the chain's and the contract's own terms *)
  Theorem recorded_until_settled w k q :
    W_inv w -> nfind k (inflight (w_store w)) = Some q ->
    exists p, In p (w_packets w) /\ wp_seq p = k /\ wp_coin p = p_coin q /\ wp_receiver p = p_receiver q
              /\ p_seq q = k /\ p_status q = status_of (wp_state p) /\ wp_state p <> Delivered.
  Proof.
    intros (_ & H1 & _ & _ & _ & H5) F. rewrite H1 in F. unfold rec_at in F. destruct (find_pkt k (w_packets w)) as [p|] eqn:P; [|discriminate].
    apply find_pkt_some in P as [Pin Pk]. unfold rec_of in F. destruct (wp_tracked p) eqn:T; [|discriminate]. inversion F; subst. exists p.
    cbn. repeat split; try assumption; try reflexivity. intros D. rewrite (H5 p Pin D) in T. discriminate.
  Qed.

  Theorem flight_is_recorded w p :
    W_inv w -> In p (w_packets w) -> wp_tracked p = true ->
    nfind (wp_seq p) (inflight (w_store w))
    = Some {| p_seq := wp_seq p; p_coin := wp_coin p; p_receiver := wp_receiver p; p_status := status_of (wp_state p) |}.
  Proof.
    intros (_ & H1 & _ & H3 & _) Pin T. rewrite H1. unfold rec_at. rewrite (find_pkt_in _ _ H3 Pin). unfold rec_of. rewrite T. reflexivity.
  Qed.
End History.

(* ---------- C01: where the forwarded staked asset is ---------- *)
Section Located.
  Variable staker D : string.      (* the native-chain staker and the staked asset's denom on the protocol chain *)

  Definition toward (rcv : string) (c : coin) : bool := String.eqb rcv staker && String.eqb (c_denom c) D.
  (* a packet toward the staker counts while it is delivered, in flight, or refunded and still recorded *)
  Definition weight (p : wpacket) : N :=
    if toward (wp_receiver p) (wp_coin p)
    then match wp_state p with
         | Flight | Delivered => c_amount (wp_coin p)
         | _ => if wp_tracked p then c_amount (wp_coin p) else 0
         end
    else 0.
  Definition located (pk : list wpacket) : N := sumN (map weight pk).

  (* what a response announces toward the staker *)
  Definition tsum (r : response) : N :=
    sumN (map (fun sm => match sm_msg sm with
                         | ATransfer _ rcv c _ _ _ => if sm_reply sm && toward rcv c then c_amount c else 0
                         | _ => 0
                         end) r).

  Lemma located_app a b : located (a ++ b) = located a + located b.
  Proof. unfold located. rewrite map_app. apply sumN_app. Qed.

  Lemma dispatch_located r : forall s pk next s' pk' next',
    dispatch s pk next r = Some (s', pk', next') -> located pk' = located pk + tsum r.
  Proof.
    induction r as [|sm r IH]; intros s pk next s' pk' next' H; cbn [dispatch] in H.
    - inversion H; subst. unfold tsum. cbn. lia.
    - unfold tsum. cbn [map sumN]. fold (tsum r).
      destruct (sm_msg sm) eqn:Msg; try (rewrite (IH _ _ _ _ _ _ H); lia).
      destruct (sm_reply sm) eqn:R; [| rewrite (IH _ _ _ _ _ _ H); cbn; lia].
      destruct (reply s (sm_id sm) (ROk next)) as [[s1 r1]|k|site]; try discriminate.
      rewrite (IH _ _ _ _ _ _ H). rewrite located_app. unfold located at 2. cbn [map sumN]. unfold weight at 1. cbn [wp_receiver wp_coin wp_state].
      cbn [andb]. destruct (toward receiver c); lia.
  Qed.
End Located.

Section Located2.
  Variable staker D : string.
  Notation weight := (weight staker D).
  Notation located := (located staker D).
  Notation toward := (toward staker D).

  (* changing one packet of a list with distinct sequence numbers *)
  Lemma located_change_one (g : wpacket -> wpacket) k pk q d :
    NoDup (map wp_seq pk) -> In q pk -> wp_seq q = k ->
    (forall p, wp_seq p <> k -> g p = p) -> weight (g q) + d = weight q ->
    located (map g pk) + d = located pk.
  Proof.
    unfold located. induction pk as [|x pk IH]; intros Hnd Hin Hk Hg Hw; [contradiction|].
    cbn [map sumN]. inversion Hnd as [|y l Hx Hl]; subst. destruct Hin as [->|Hin].
    - assert (E : map g pk = pk).
      { clear - Hx Hg. induction pk as [|z pk IH]; [reflexivity|]. cbn. rewrite Hg.
        - f_equal. apply IH. intros H. apply Hx. right. exact H.
        - intros E. apply Hx. left. exact E. }
      rewrite E. lia.
    - rewrite (Hg x).
      + specialize (IH Hl Hin eq_refl Hg Hw). lia.
      + intros E. apply Hx. rewrite E. apply in_map. exact Hin.
  Qed.

  Lemma untrack_cons k ks pk : untrack (k :: ks) pk = untrack [k] (untrack ks pk).
  Proof.
    unfold untrack. rewrite map_map. apply map_ext. intros p. cbn [existsb]. 
    destruct (existsb (N.eqb (wp_seq p)) ks) eqn:E; cbn [wp_seq]; destruct (wp_seq p =? k); cbn; reflexivity.
  Qed.

  Lemma untrack_ext l l' pk : (forall k, In k l <-> In k l') -> untrack l pk = untrack l' pk.
  Proof.
    intros H. unfold untrack. apply map_ext. intros p.
    assert (E : existsb (N.eqb (wp_seq p)) l = existsb (N.eqb (wp_seq p)) l').
    { destruct (existsb (N.eqb (wp_seq p)) l) eqn:A; destruct (existsb (N.eqb (wp_seq p)) l') eqn:B; try reflexivity.
      - apply existsb_exists in A as (x & Hx & Ex). apply H in Hx. exfalso. apply not_true_iff_false in B. apply B. apply existsb_exists. eauto.
      - apply existsb_exists in B as (x & Hx & Ex). apply H in Hx. exfalso. apply not_true_iff_false in A. apply A. apply existsb_exists. eauto. }
    rewrite E. reflexivity.
  Qed.

  (* un-tracking the refunded packets named by a list of records lowers [located] by what those records carry toward the staker *)
  Lemma located_untrack (ps : list packet) : forall pk,
    NoDup (map wp_seq pk) -> NoDup (map p_seq ps) ->
    (forall p, In p ps -> exists q, In q pk /\ wp_seq q = p_seq p /\ wp_coin q = p_coin p /\ wp_receiver q = p_receiver p
                                   /\ wp_tracked q = true /\ (wp_state q = RefundedAck \/ wp_state q = RefundedTimeout)) ->
    located (untrack (map p_seq ps) pk)
    + sumN (map (fun p => if toward (p_receiver p) (p_coin p) then c_amount (p_coin p) else 0) ps) = located pk.
  Proof.
    induction ps as [|p ps IH]; intros pk Hnd Hps Hall.
    - cbn. rewrite untrack_nil. lia.
    - cbn [map sumN]. rewrite untrack_cons. inversion Hps as [|y l Hp Hps']; subst.
      assert (IH' := IH pk Hnd Hps' (fun p0 H0 => Hall p0 (or_intror H0))).
      destruct (Hall p (or_introl eq_refl)) as (q & Hq & Es & Ec & Er & Et & Est).
      (* q is untouched by the un-tracking of the others *)
      assert (Hq' : In q (untrack (map p_seq ps) pk)).
      { unfold untrack. apply in_map_iff. exists q. split; [| exact Hq].
        assert (E : existsb (N.eqb (wp_seq q)) (map p_seq ps) = false).
        { apply not_true_iff_false. intros Ex. apply existsb_exists in Ex as (x & Hx & Exq). apply Hp. assert (x = p_seq p) by lia. subst x. exact Hx. }
        rewrite E. reflexivity. }
      pose proof (located_change_one
                    (fun p0 => if existsb (N.eqb (wp_seq p0)) [p_seq p]
                               then {| wp_seq := wp_seq p0; wp_channel := wp_channel p0; wp_receiver := wp_receiver p0; wp_coin := wp_coin p0; wp_state := wp_state p0; wp_tracked := false |}
                               else p0)
                    (p_seq p) (untrack (map p_seq ps) pk) q
                    (if toward (p_receiver p) (p_coin p) then c_amount (p_coin p) else 0)) as L.
      fold (untrack [p_seq p] (untrack (map p_seq ps) pk)) in L.
      rewrite <- IH'. rewrite <- L; [lia | rewrite seqs_untrack; exact Hnd | exact Hq' | exact Es | |].
      + intros p0 Hne. cbn [existsb]. assert (E : (wp_seq p0 =? p_seq p) = false) by lia. rewrite E. reflexivity.
      + cbn [existsb]. rewrite Es, N.eqb_refl. cbn [orb]. unfold WorldProofs.weight. cbn [wp_receiver wp_coin wp_state wp_tracked]. rewrite Er, Ec, Et.
        destruct (toward (p_receiver p) (p_coin p)); [| reflexivity]. destruct Est as [-> | ->]; lia.
  Qed.
End Located2.

(* ---------- what each message announces toward the staker, and which records it removes ---------- *)
Section ExecLocated.
  Variable va : string -> string -> bool.
  Variable dv : string -> string -> string -> option string.
  Variable av : string -> bool.
  Notation execute := (execute va dv av).

  Lemma tsum_app st D a b : tsum st D (a ++ b) = tsum st D a + tsum st D b.
  Proof. unfold tsum. rewrite map_app. apply sumN_app. Qed.

  Lemma oracle_tsum st D s e om : oracle_msgs s e = Ok om -> tsum st D om = 0.
  Proof.
    intros H. apply oracle_msgs_shape in H. destruct (pc_oracle (protocol (cfg s))).
    - destruct H as (r & p & _ & ->). reflexivity.
    - subst. reflexivity.
  Qed.

  Lemma toward_self st D a : toward st D st {| c_denom := D; c_amount := a |} = true.
  Proof. unfold toward. cbn. rewrite !String.eqb_refl. reflexivity. Qed.

  Lemma toward_other_denom st D rcv d a : d <> D -> toward st D rcv {| c_denom := d; c_amount := a |} = false.
  Proof. intros H. unfold toward. cbn. destruct (String.eqb_spec d D); [contradiction|]. apply andb_false_r. Qed.

  Lemma filter_all_false {A} (f : A -> bool) l : (forall x, In x l -> f x = false) -> filter f l = [].
  Proof. induction l as [|x l IH]; intros H; cbn; [reflexivity|]. rewrite (H x (or_introl eq_refl)). apply IH. intros y Hy. apply H. right. exact Hy. Qed.

  Lemma removed_seqs_same s s' : inflight s' = inflight s -> removed_seqs s s' = [].
  Proof.
    intros E. unfold removed_seqs. rewrite E. apply filter_all_false. intros k Hk.
    destruct (nfind k (inflight s)) eqn:F; [reflexivity|]. exfalso. apply nfind_none_notin in F. apply F. exact Hk.
  Qed.
End ExecLocated.

Section ExecLocated2.
  Variable va : string -> string -> bool.
  Variable dv : string -> string -> string -> option string.
  Variable av : string -> bool.
  Notation execute := (execute va dv av).

  (* an admin-forced recovery names refunded transfers only (the contract lets the admin name any; the code comment
     calls that dangerous, C07 states it, and C01's accounting excludes it) *)
  Definition honest (s : store) (m : execute_msg) : Prop :=
    match m with
    | RecoverPendingIbcTransfers _ (Some ids) _ =>
        forall k p, In k ids -> nfind k (inflight s) = Some p -> refundable (p_status p) = true
    | _ => True
    end.
  Definition flights_tracked (pk : list wpacket) : Prop := forall p, In p pk -> wp_state p = Flight -> wp_tracked p = true.

  Lemma flights_tracked_untrack_nil pk : flights_tracked pk -> flights_tracked (untrack [] pk).
  Proof. rewrite untrack_nil. tauto. Qed.

  Theorem execute_located s pk next e i m s' r :
    M_inv s pk next -> flights_tracked pk -> lst_denom (cfg s) <> pc_denom (protocol (cfg s)) -> honest s m ->
    execute s e i m = Ok (s', r) ->
    located (nc_staker (native (cfg s))) (pc_denom (protocol (cfg s))) (untrack (removed_seqs s s') pk)
      + tsum (nc_staker (native (cfg s))) (pc_denom (protocol (cfg s))) r
    = located (nc_staker (native (cfg s))) (pc_denom (protocol (cfg s))) pk + fwd_delta va dv av s (CExec e i m)
    /\ flights_tracked (untrack (removed_seqs s s') pk).
  Proof.
    intros HM HF Hden Hh H.
    set (ST := nc_staker (native (cfg s))). set (D := pc_denom (protocol (cfg s))).
    assert (Hsucc : succeeded va dv av s (CExec e i m) = true) by (unfold succeeded; rewrite H; reflexivity).
    unfold fwd_delta. rewrite Hsucc. cbn [negb].
    assert (Same : inflight s' = inflight s -> forall x, tsum ST D r = x ->
                   located ST D (untrack (removed_seqs s s') pk) + tsum ST D r = located ST D pk + x
                   /\ flights_tracked (untrack (removed_seqs s s') pk)).
    { intros E x Hx. rewrite (removed_seqs_same _ _ E), untrack_nil. split; [lia | exact HF]. }
    destruct m.
    - (* LiquidStake *)
      apply liquid_stake_inv in H.
      destruct H as (a & mt & om & Hp & _ & _ & _ & _ & _ & _ & _ & _ & _ & _ & _ & _ & _ & _ & _ & Hi & _ & Ho & Hr).
      apply Same; [exact Hi|]. rewrite Hp. apply (oracle_tsum ST D) in Ho.
      destruct Hr as [(_ & -> & _) | (_ & -> & _)]; rewrite !tsum_app, Ho; unfold tsum; cbn [map sumN sm_msg sm_reply mint_msg plain transfer_sub andb];
        fold ST D; rewrite toward_self; cbn [c_amount]; [lia|]. rewrite (toward_other_denom ST D _ _ _ Hden). lia.
    - apply liquid_unstake_inv in H. destruct H as (a & b & _ & _ & _ & -> & _ & _ & _ & _ & Hi & _). apply Same; [exact Hi | reflexivity].
    - apply submit_batch_inv in H. destruct H as (b & u & om & _ & _ & _ & _ & _ & _ & _ & _ & _ & _ & Hi & _ & _ & _ & _ & Ho & ->).
      apply Same; [exact Hi|]. apply (oracle_tsum ST D) in Ho. change (tsum ST D (?x :: om)) with (tsum ST D ([x] ++ om)). rewrite tsum_app, Ho. reflexivity.
    - apply withdraw_inv in H. destruct H as (b & rc & q & am & om & _ & _ & _ & _ & _ & _ & -> & Ho & ->).
      apply Same; [reflexivity|]. apply (oracle_tsum ST D) in Ho. change (tsum ST D (?x :: om)) with (tsum ST D ([x] ++ om)). rewrite tsum_app, Ho. reflexivity.
    - apply add_validator_inv in H. destruct H as (_ & _ & _ & -> & ->). apply Same; reflexivity.
    - apply remove_validator_inv in H. destruct H as (_ & _ & _ & -> & ->). apply Same; reflexivity.
    - apply transfer_ownership_inv in H. destruct H as (_ & _ & -> & ->). apply Same; reflexivity.
    - apply accept_ownership_inv in H. destruct H as (_ & _ & -> & ->). apply Same; reflexivity.
    - apply revoke_ownership_inv in H. destruct H as (_ & -> & ->). apply Same; reflexivity.
    - apply update_config_inv in H. destruct H as (? & ? & ? & ? & _ & _ & _ & _ & _ & -> & ->). apply Same; reflexivity.
    - (* ReceiveRewards *)
      apply receive_rewards_inv in H.
      destruct H as (c & fee & om & _ & _ & _ & Hc & Hf & Hle & _ & _ & _ & _ & _ & _ & Hi & _ & _ & Ho & ->).
      apply Same; [exact Hi|]. rewrite Hc. apply mul_ratio_some in Hf as (_ & -> & _). apply (oracle_tsum ST D) in Ho.
      rewrite !tsum_app, Ho. unfold tsum at 1. cbn [map sumN sm_msg sm_reply transfer_sub andb]. fold ST D. rewrite toward_self.
      destruct (fee_treasury (fees (cfg s))); unfold tsum; cbn; lia.
    - apply receive_unstaked_inv in H. destruct H as (c & b & t & _ & _ & _ & _ & _ & _ & _ & -> & ->). apply Same; reflexivity.
    - apply circuit_breaker_inv in H. destruct H as (_ & -> & ->). apply Same; reflexivity.
    - apply resume_inv in H. destruct H as (_ & -> & Ho). apply Same; [reflexivity | eapply oracle_tsum; exact Ho].
    - (* Recover *)
      destruct HM as (HI & H1 & H2 & H3 & H4 & H5). pose proof HI as (Hs & Hk & _).
      apply (recover_spec va dv av _ _ _ _ _ _ _ _ HI) in H.
      destruct H as (rcv & ps & d & maxid & _ & _ & Hps & Hnd & Hsel & _ & Hi & Hgone & _ & _ & _ & _ & _ & ->).
      assert (Hmem : forall k, In k (removed_seqs s s') <-> In k (map p_seq ps)).
      { intros k. unfold removed_seqs. rewrite filter_In. split.
        - intros [Hkey Hn]. destruct (in_dec N.eq_dec k (map p_seq ps)) as [Y|Nn]; [exact Y|]. exfalso.
          rewrite Hi, (fold_nremove_other ps _ _ Nn) in Hn. destruct (nfind k (inflight s)) eqn:F; [discriminate|].
          apply nfind_none_notin in F. contradiction.
        - intros Hin. apply in_map_iff in Hin as (p & <- & Hp). destruct (Hps p Hp) as (Hf & _). split; [eapply nfind_key; exact Hf|].
          rewrite (Hgone p Hp). reflexivity. }
      rewrite (untrack_ext _ _ pk Hmem).
      assert (Href : forall p, In p ps -> refundable (p_status p) = true).
      { cbn [honest] in Hh. destruct selected as [ids|]; [| apply Hsel]. destruct Hsel as [_ Hids]. intros p Hp. destruct (Hps p Hp) as (Hf & _).
        apply (Hh (p_seq p) p); [rewrite <- Hids; apply in_map; exact Hp | exact Hf]. }
      assert (Hq : forall p, In p ps -> exists q, In q pk /\ wp_seq q = p_seq p /\ wp_coin q = p_coin p /\ wp_receiver q = p_receiver p
                                               /\ wp_tracked q = true /\ (wp_state q = RefundedAck \/ wp_state q = RefundedTimeout)).
      { intros p Hp. destruct (Hps p Hp) as (Hf & _). pose proof (Href p Hp) as Rf. rewrite H1 in Hf. unfold rec_at in Hf.
        destruct (find_pkt (p_seq p) pk) as [q|] eqn:Q; [|discriminate]. apply find_pkt_some in Q as [Qin Qs].
        unfold rec_of in Hf. destruct (wp_tracked q) eqn:T; [|discriminate]. injection Hf as Hp'. exists q.
        rewrite <- Hp' in Rf. rewrite <- Hp'. cbn [p_seq p_coin p_receiver p_status] in *. repeat split; try assumption; try reflexivity.
        destruct (wp_state q); cbn in Rf; try discriminate; [left | right]; reflexivity. }
      pose proof (located_untrack ST D ps pk H3 Hnd Hq) as LU.
      assert (Esum : sumN (map (fun p => if toward ST D (p_receiver p) (p_coin p) then c_amount (p_coin p) else 0) ps)
                     = if toward ST D rcv {| c_denom := d; c_amount := packets_total ps |} then packets_total ps else 0).
      { set (b := String.eqb rcv ST && String.eqb d D).
        assert (Eb1 : toward ST D rcv {| c_denom := d; c_amount := packets_total ps |} = b) by reflexivity.
        rewrite Eb1.
        assert (Eb : forall p, In p ps -> toward ST D (p_receiver p) (p_coin p) = b).
        { intros p Hp. destruct (Hps p Hp) as (_ & -> & Hd). unfold toward. rewrite Hd. reflexivity. }
        rewrite (map_ext_in _ (fun q : packet => if b then c_amount (p_coin q) else 0)) by (intros q0 Hq0; rewrite (Eb q0 Hq0); reflexivity).
        unfold packets_total. clear. induction ps as [|p ps IH]; cbn [map sumN]; [destruct b; reflexivity|]. rewrite IH. destruct b; lia. }
      split.
      + unfold tsum. cbn [map sumN sm_msg sm_reply transfer_sub andb c_amount]. fold ST D. rewrite Esum in LU.
        destruct (toward ST D rcv {| c_denom := d; c_amount := packets_total ps |}); lia.
      + intros q Hqin Hfl. apply in_untrack in Hqin as (q0 & Hq0 & Es & Est & _ & _ & Hsame).
        destruct (existsb (N.eqb (wp_seq q0)) (map p_seq ps)) eqn:Ex.
        * (* a named packet is refunded, not in flight *)
          exfalso. apply existsb_exists in Ex as (k & Hk' & Ek). apply in_map_iff in Hk' as (p & Ep & Hp). destruct (Hq p Hp) as (q1 & Hq1 & Es1 & _ & _ & _ & Hst1).
          assert (q1 = q0).
          { pose proof (find_pkt_in pk q1 H3 Hq1) as F1. pose proof (find_pkt_in pk q0 H3 Hq0) as F0.
            assert (Eseq : wp_seq q1 = wp_seq q0) by lia. rewrite Eseq in F1. rewrite F0 in F1. inversion F1. reflexivity. }
          subst q1. rewrite Est in Hfl. destruct Hst1 as [E1|E1]; rewrite E1 in Hfl; discriminate.
        * rewrite (Hsame eq_refl). apply HF; [exact Hq0 | rewrite <- Est; exact Hfl].
    - apply fee_withdraw_inv in H. destruct H as (t & _ & _ & _ & -> & ->). apply Same; reflexivity.
  Qed.
End ExecLocated2.

(* ---------- C01 on the world: every event ---------- *)
Section LocatedStep.
  Variable va : string -> string -> bool.
  Variable dv : string -> string -> string -> option string.
  Variable av : string -> bool.
  Notation execute := (execute va dv av).
  Notation wstep := (wstep va dv av).
  Notation wrun := (wrun va dv av).

  Definition staker_of (s : store) : string := nc_staker (native (cfg s)).
  Definition denom_of (s : store) : string := pc_denom (protocol (cfg s)).

  (* the transaction of this event commits *)
  Definition committed (w : world) (ev : wevent) : bool :=
    match ev with
    | WExec e i m =>
        match execute (w_store w) e i m with
        | Ok (s', r) => match dispatch s' (untrack (removed_seqs (w_store w) s') (w_packets w)) (w_next w) r with Some _ => true | None => false end
        | _ => false
        end
    | _ => false
    end.
  (* staked asset forwarded toward the staker by this event *)
  Definition wfwd (w : world) (ev : wevent) : N :=
    match ev with
    | WExec e i m => if committed w ev then fwd_delta va dv av (w_store w) (CExec e i m) else 0
    | _ => 0
    end.

  (* assumptions about an event, mirroring the exclusions of the world monitor: the routing (channel, staker, denom) is not
     reconfigured, the two denoms differ, and an admin-forced recovery names refunded transfers only *)
  Definition ev_ok (w : world) (ev : wevent) : Prop :=
    match ev with
    | WExec e i m =>
        (forall s' r, execute (w_store w) e i m = Ok (s', r) ->
                      CH s' = CH (w_store w) /\ staker_of s' = staker_of (w_store w) /\ denom_of s' = denom_of (w_store w))
        /\ lst_denom (cfg (w_store w)) <> denom_of (w_store w)
        /\ honest (w_store w) m
    | _ => True
    end.

  Lemma dispatch_flights r : forall s pk next s' pk' next',
    dispatch s pk next r = Some (s', pk', next') -> flights_tracked pk -> flights_tracked pk'.
  Proof.
    induction r as [|sm r IH]; intros s pk next s' pk' next' H HF; cbn [dispatch] in H.
    - inversion H; subst. exact HF.
    - destruct (sm_msg sm) eqn:Msg; try (apply (IH _ _ _ _ _ _ H HF)).
      destruct (sm_reply sm); [| apply (IH _ _ _ _ _ _ H HF)].
      destruct (reply s (sm_id sm) (ROk next)) as [[s1 r1]|k|site]; try discriminate.
      apply (IH _ _ _ _ _ _ H). intros p Hp Hf. apply in_app_iff in Hp as [Hp|[<-|[]]]; [apply HF; assumption | reflexivity].
  Qed.

  Theorem located_step w ev :
    W_inv w -> flights_tracked (w_packets w) -> ev_ok w ev ->
    let ST := staker_of (w_store w) in let D := denom_of (w_store w) in
    located ST D (w_packets (wstep w ev)) = located ST D (w_packets w) + wfwd w ev
    /\ flights_tracked (w_packets (wstep w ev))
    /\ staker_of (w_store (wstep w ev)) = ST /\ denom_of (w_store (wstep w ev)) = D.
  Proof.
    intros HW HF Hok. destruct w as [s pk next]. unfold W_inv in HW. cbn [w_store w_packets w_next] in *. cbv zeta.
    destruct ev as [e i m | e i m | seq o | m].
    - (* WExec *)
      unfold wfwd, committed. cbn [World.wstep w_store w_packets w_next].
      destruct (execute s e i m) as [[s' r]|k|site] eqn:H; try (split; [cbn [w_packets w_store]; lia | split; [exact HF | split; reflexivity]]).
      destruct Hok as (Hr & Hden & Hh). destruct (Hr s' r H) as (Hch & Hst & Hdn).
      destruct (exec_inv va dv av s pk next e i m s' r HW H Hch) as [HM Hwf].
      destruct (execute_located va dv av s pk next e i m s' r HW HF Hden Hh H) as [HL HF'].
      destruct (dispatch s' (untrack (removed_seqs s s') pk) next r) as [[[s'' pk''] nx]|] eqn:Dp; [| split; [cbn [w_packets w_store]; lia | split; [exact HF | split; reflexivity]]].
      cbn [w_store w_packets w_next].
      pose proof (dispatch_located (staker_of s) (denom_of s) r _ _ _ _ _ _ Dp) as DL.
      destruct (dispatch_inv va dv av r _ _ _ _ _ _ HM Hwf Dp) as (_ & Hc & _).
      split; [unfold staker_of, denom_of in *; lia|]. split; [eapply dispatch_flights; eassumption|].
      unfold staker_of, denom_of in *. rewrite Hc. split; assumption.
    - cbn [World.wstep w_store w_packets w_next wfwd]. split; [lia | split; [exact HF | split; reflexivity]].
    - (* WRelay *)
      cbn [World.wstep w_store w_packets w_next wfwd].
      destruct (find_pkt seq pk) as [p|] eqn:P; [| split; [cbn [w_packets w_store]; lia | split; [exact HF | split; reflexivity]]].
      destruct (wp_state p) eqn:St; try (split; [cbn [w_packets w_store]; lia | split; [exact HF | split; reflexivity]]).
      pose proof P as P0. apply find_pkt_some in P as [Pin Pseq].
      destruct HW as (HI & H1 & H2 & H3 & H4 & H5).
      set (m := match o with OAckOk => SAck (wp_channel p) seq true | OAckErr => SAck (wp_channel p) seq false | OTimeout => STimeout (wp_channel p) seq end).
      destruct (sudo s m) as [[s' r]|k|site] eqn:Hs; try (split; [cbn [w_packets w_store]; lia | split; [exact HF | split; reflexivity]]).
      cbn [w_store w_packets w_next].
      pose proof (HF p Pin St) as Tp.
      split; [| split].
      + rewrite N.add_0_r. rewrite <- (N.add_0_r (located _ _ (set_pkt_state _ _ _ _))).
        unfold set_pkt_state. apply (located_change_one _ _ _ seq pk p 0 H3 Pin Pseq).
        * intros q Hne. assert (E : (wp_seq q =? seq) = false) by lia. rewrite E. reflexivity.
        * rewrite Pseq, N.eqb_refl. unfold WorldProofs.weight. cbn [wp_receiver wp_coin wp_state wp_tracked]. rewrite St, Tp.
          destruct (toward _ _ _ _); destruct o; lia.
      + intros q Hq Hfl. apply in_set_pkt_state in Hq as (q0 & Hq0 & _ & _ & [[_ ->]|(_ & Est & _)]).
        * apply HF; assumption.
        * rewrite Hfl in Est. destruct o; discriminate.
      + apply sudo_frame in Hs as (_ & _ & Hc & _). unfold staker_of, denom_of. rewrite Hc. split; reflexivity.
    - (* WStray *)
      cbn [World.wstep w_store w_packets w_next wfwd].
      destruct (match m with SAck ch seq _ | STimeout ch seq => _ end); [split; [cbn [w_packets w_store]; lia | split; [exact HF | split; reflexivity]]|].
      destruct (sudo s m) as [[s' r]|k|site] eqn:Hs; try (split; [cbn [w_packets w_store]; lia | split; [exact HF | split; reflexivity]]).
      cbn [w_store w_packets w_next]. split; [lia|]. split; [exact HF|].
      apply sudo_frame in Hs as (_ & _ & Hc & _). unfold staker_of, denom_of. rewrite Hc. split; reflexivity.
  Qed.

  (* every history from instantiation: what was forwarded toward the staker is delivered, in flight, or refunded and
     still recorded by the contract *)
  Fixpoint total_fwd (w : world) (evs : list wevent) : N :=
    match evs with
    | [] => 0
    | ev :: rest => wfwd w ev + total_fwd (wstep w ev) rest
    end.

  Definition all_ok (w : world) (ev : wevent) : Prop := routing_kept va dv av w ev /\ ev_ok w ev.

  Theorem located_history w evs :
    W_inv w -> flights_tracked (w_packets w) -> events_ok va dv av all_ok w evs ->
    located (staker_of (w_store w)) (denom_of (w_store w)) (w_packets (wrun w evs))
    = located (staker_of (w_store w)) (denom_of (w_store w)) (w_packets w) + total_fwd w evs.
  Proof.
    revert w. induction evs as [|ev evs IH]; intros w HW HF Hok; [cbn; lia|].
    destruct Hok as [[Hr Hev] Hrest]. cbn [World.wrun fold_left total_fwd].
    destruct (located_step w ev HW HF Hev) as (L1 & F1 & S1 & D1). cbv zeta in L1, S1, D1.
    pose proof (wstep_inv va dv av w ev HW Hr) as HW'.
    specialize (IH (wstep w ev) HW' F1 Hrest). rewrite S1, D1 in IH. fold (wrun (wstep w ev) evs). rewrite IH, L1. lia.
  Qed.
End LocatedStep.

(* ---------- the world refines the call-list semantics of Ledger.v, so its whole-history ledger applies ---------- *)
Section Refinement.
  Variable va : string -> string -> bool.
  Variable dv : string -> string -> string -> option string.
  Variable av : string -> bool.
  Notation execute := (execute va dv av).
  Notation wstep := (wstep va dv av).
  Notation wrun := (wrun va dv av).
  Notation step := (Ledger.step va dv av).

  Fixpoint reply_calls (next : N) (r : response) : list call :=
    match r with
    | [] => []
    | sm :: rest =>
        match sm_msg sm with
        | ATransfer _ _ _ _ _ _ => if sm_reply sm then CReply (sm_id sm) (ROk next) :: reply_calls (next + 1) rest else reply_calls next rest
        | _ => reply_calls next rest
        end
    end.

  (* the contract calls a world event consists of (none when its transaction is rolled back) *)
  Definition wcalls (w : world) (ev : wevent) : list call :=
    match ev with
    | WExec e i m =>
        match execute (w_store w) e i m with
        | Ok (s', r) => if committed va dv av w ev then CExec e i m :: reply_calls (w_next w) r else []
        | _ => []
        end
    | WExecRefused _ _ _ => []
    | WRelay seq o =>
        match find_pkt seq (w_packets w) with
        | Some p =>
            match wp_state p with
            | Flight => [CSudo (match o with
                                | OAckOk => SAck (wp_channel p) seq true
                                | OAckErr => SAck (wp_channel p) seq false
                                | OTimeout => STimeout (wp_channel p) seq
                                end)]
            | _ => []
            end
        | None => []
        end
    | WStray m =>
        if match m with
           | SAck ch seq _ | STimeout ch seq =>
               String.eqb ch (pc_channel (protocol (cfg (w_store w))))
               && match nfind seq (inflight (w_store w)) with Some _ => true | None => false end
           end
        then [] else [CSudo m]
    end.

  Definition only_fwd_of_exec (g g' : ghost) (d : N) : Prop := g_fwd g' = g_fwd g + d.

  Lemma step_store s g c : fst (step (s, g) c) = fst (apply_call va dv av s c).
  Proof. unfold Ledger.step. destruct (apply_call va dv av s c). reflexivity. Qed.
  Lemma step_fwd s g c : g_fwd (snd (step (s, g) c)) = g_fwd g + fwd_delta va dv av s c.
  Proof. unfold Ledger.step. destruct (apply_call va dv av s c). reflexivity. Qed.

  Lemma dispatch_refines r : forall s pk next s' pk' next' g,
    dispatch s pk next r = Some (s', pk', next') ->
    fst (fold_left step (reply_calls next r) (s, g)) = s'
    /\ g_fwd (snd (fold_left step (reply_calls next r) (s, g))) = g_fwd g.
  Proof.
    induction r as [|sm r IH]; intros s pk next s' pk' next' g H; cbn [dispatch reply_calls] in *.
    - inversion H; subst. split; reflexivity.
    - destruct (sm_msg sm) eqn:Msg; try (apply (IH _ _ _ _ _ _ g H)).
      destruct (sm_reply sm); [| apply (IH _ _ _ _ _ _ g H)].
      destruct (reply s (sm_id sm) (ROk next)) as [[s1 r1]|k|site] eqn:R; try discriminate.
      cbn [fold_left].
      assert (E : step (s, g) (CReply (sm_id sm) (ROk next)) = (s1, snd (step (s, g) (CReply (sm_id sm) (ROk next))))).
      { rewrite (surjective_pairing (step (s, g) (CReply (sm_id sm) (ROk next)))). f_equal.
        rewrite step_store. unfold apply_call. rewrite R. reflexivity. }
      rewrite E. destruct (IH _ _ _ _ _ _ (snd (step (s, g) (CReply (sm_id sm) (ROk next)))) H) as [A B].
      split; [exact A|]. rewrite B. rewrite step_fwd. unfold fwd_delta. destruct (negb _); cbn; lia.
  Qed.

  Theorem wstep_refines w ev g :
    let sg' := fold_left step (wcalls w ev) (w_store w, g) in
    fst sg' = w_store (wstep w ev) /\ g_fwd (snd sg') = g_fwd g + wfwd va dv av w ev.
  Proof.
    cbv zeta. destruct w as [s pk next]. destruct ev as [e i m | e i m | seq o | m]; cbn [wcalls World.wstep wfwd w_store w_packets w_next].
    - unfold committed. cbn [w_store w_packets w_next].
      destruct (execute s e i m) as [[s' r]|k|site] eqn:H; try (cbn; split; [reflexivity | lia]).
      destruct (dispatch s' (untrack (removed_seqs s s') pk) next r) as [[[s'' pk''] nx]|] eqn:Dp; [| cbn; split; [reflexivity | lia]].
      cbn [fold_left w_store].
      assert (E : step (s, g) (CExec e i m) = (s', snd (step (s, g) (CExec e i m)))).
      { rewrite (surjective_pairing (step (s, g) (CExec e i m))). f_equal. rewrite step_store. unfold apply_call. rewrite H. reflexivity. }
      rewrite E. destruct (dispatch_refines r _ _ _ _ _ _ (snd (step (s, g) (CExec e i m))) Dp) as [A B].
      split; [exact A|]. rewrite B. apply step_fwd.
    - cbn. split; [reflexivity | lia].
    - destruct (find_pkt seq pk) as [p|]; [| cbn; split; [reflexivity | lia]].
      destruct (wp_state p); try (cbn; split; [reflexivity | lia]).
      cbn [fold_left]. set (m := match o with OAckOk => _ | OAckErr => _ | OTimeout => _ end).
      split.
      + rewrite step_store. unfold apply_call. destruct (sudo s m) as [[s' r]|k|site]; reflexivity.
      + rewrite step_fwd. unfold fwd_delta. destruct (negb _); cbn; lia.
    - destruct (match m with SAck ch seq _ | STimeout ch seq => _ end); [cbn; split; [reflexivity | lia]|].
      cbn [fold_left]. split.
      + rewrite step_store. unfold apply_call. destruct (sudo s m) as [[s' r]|k|site]; reflexivity.
      + rewrite step_fwd. unfold fwd_delta. destruct (negb _); cbn; lia.
  Qed.

  (* the ghost counters of Ledger.v carried along a world history *)
  Fixpoint wghost (w : world) (g : ghost) (evs : list wevent) : ghost :=
    match evs with
    | [] => g
    | ev :: rest => wghost (wstep w ev) (snd (fold_left step (wcalls w ev) (w_store w, g))) rest
    end.

  Lemma Led_fold s0 cs : forall sg, Led s0 sg -> Led s0 (fold_left step cs sg).
  Proof. induction cs as [|c cs IH]; intros sg H; [exact H|]. cbn [fold_left]. apply IH. apply Led_step. exact H. Qed.

  Theorem world_ledger s0 w g evs :
    Led s0 (w_store w, g) ->
    Led s0 (w_store (wrun w evs), wghost w g evs)
    /\ g_fwd (wghost w g evs) = g_fwd g + total_fwd va dv av w evs.
  Proof.
    revert w g. induction evs as [|ev evs IH]; intros w g H; cbn [World.wrun fold_left wghost total_fwd]; [split; [exact H | lia]|].
    destruct (wstep_refines w ev g) as [A B]. cbv zeta in A, B.
    assert (H' : Led s0 (w_store (wstep w ev), snd (fold_left step (wcalls w ev) (w_store w, g)))).
    { rewrite <- A. rewrite <- surjective_pairing. apply Led_fold. exact H. }
    destruct (IH (wstep w ev) _ H') as [C D]. split; [exact C|]. rewrite D, B. lia.
  Qed.
End Refinement.
