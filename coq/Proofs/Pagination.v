(* Pagination.v — paging through an ascending map returns every match exactly once, in order (C17). *)
From MW Require Import Staking.
From MW.Proofs Require Import Tactics Maps Invariant.
Open Scope N_scope.

Section Paging.
  Context {A : Type}.
  Implicit Types (m l : nmap A) (f : A -> bool).

  (* the page as key/value pairs; the query returns its values *)
  Definition page_kv m (start_after : option N) (limit : option N) f : nmap A :=
    take_n (opt_default u32_max limit) (filter (fun kv => f (snd kv)) (after_cursor start_after m)).

  Lemma take_n_map {B C} (g : B -> C) n (l : list B) : take_n n (map g l) = map g (take_n n l).
  Proof.
    revert n. induction l as [|x l IH]; intros n; cbn; [reflexivity|]. destruct (n =? 0); [reflexivity|].
    cbn. rewrite IH. reflexivity.
  Qed.
  Lemma filter_map_snd f l : filter f (map snd l) = map snd (filter (fun kv => f (snd kv)) l).
  Proof. induction l as [|[k v] l IH]; cbn; [reflexivity|]. destruct (f v); cbn; rewrite IH; reflexivity. Qed.

  Lemma paginate_values m sa lim f : paginate m sa lim f = map snd (page_kv m sa lim f).
  Proof. unfold paginate, page_kv, nvals. rewrite filter_map_snd, take_n_map. reflexivity. Qed.

  Lemma take_n_firstn {B} n (l : list B) : take_n n l = firstn (N.to_nat n) l.
  Proof.
    revert n. induction l as [|x l IH]; intros n; cbn.
    - destruct (N.to_nat n); reflexivity.
    - destruct (n =? 0) eqn:E.
      + assert (n = 0) by lia. subst. reflexivity.
      + assert (Hn : N.to_nat n = S (N.to_nat (n - 1))) by lia. rewrite Hn. cbn. rewrite IH. reflexivity.
  Qed.

  Lemma firstn_incl {B} n (l : list B) : incl (firstn n l) l.
  Proof.
    revert n. induction l as [|x l IH]; intros n; destruct n; cbn; try (intros z []; fail).
    intros z [<-|Hz]; [left; reflexivity | right; apply (IH n); exact Hz].
  Qed.
  Fixpoint last_opt {B} (l : list B) : option B :=
    match l with [] => None | [x] => Some x | _ :: r => last_opt r end.
  Definition after_key (k : N) l : nmap A := filter (fun kv => k <? fst kv) l.

  Lemma sorted_filter g l : sorted l -> sorted (filter g l).
  Proof.
    induction l as [|[k v] l IH]; cbn; [tauto|]. intros [Hlt Hs].
    destruct (g (k, v)); cbn; [split|]; try (apply IH; exact Hs).
    intros j Hj. apply Hlt. apply in_map_iff in Hj as (x & <- & Hx). apply filter_In in Hx as [Hx _].
    apply in_map. exact Hx.
  Qed.
  Lemma after_key_all k l : (forall j, In j (nkeys l) -> k < j) -> after_key k l = l.
  Proof.
    induction l as [|[j v] l IH]; cbn; [reflexivity|]. intros H.
    assert (Hj : (k <? j) = true) by (specialize (H j (or_introl eq_refl)); lia). rewrite Hj.
    f_equal. apply IH. intros x Hx. apply H. right. exact Hx.
  Qed.

  (* in a strictly ascending list, the entries after the key of the last of the first n are the rest *)
  Lemma after_last_firstn n l k v :
    sorted l -> last_opt (firstn n l) = Some (k, v) -> after_key k l = skipn n l.
  Proof.
    revert n. induction l as [|[k0 v0] l IH]; intros n Hs Hl.
    - destruct n; discriminate.
    - destruct n as [|n]; [discriminate|]. destruct Hs as [Hlt Hs]. cbn [firstn] in Hl.
      destruct (firstn n l) as [|x xs] eqn:Hf.
      + cbn in Hl. injection Hl as <- <-. cbn. rewrite N.ltb_irrefl.
        fold (after_key k0 l). rewrite after_key_all by exact Hlt.
        destruct n; [reflexivity|]. destruct l; [reflexivity | discriminate].
      + assert (Hl' : last_opt (firstn n l) = Some (k, v)).
        { rewrite Hf. cbn in Hl. destruct xs; exact Hl. }
        assert (Hin : In k (nkeys l)).
        { assert (Hx : In (k, v) (firstn n l)).
          { clear - Hl'. induction (firstn n l) as [|y ys IHy]; [discriminate|].
            destruct ys; [cbn in Hl'; injection Hl' as <-; left; reflexivity | right; apply IHy; exact Hl']. }
          apply (in_map fst) in Hx. eapply incl_map with (f := fst); [| exact Hx]. apply firstn_incl. }
        apply Hlt in Hin. cbn. assert (Hk : (k <? k0) = false) by lia. rewrite Hk.
        apply IH; assumption.
  Qed.

  Lemma last_opt_none {B} (l : list B) : last_opt l = None -> l = [].
  Proof. induction l as [|x l IH]; [reflexivity|]. destruct l; [discriminate|]. intros H. apply IH in H. discriminate. Qed.
  Lemma last_opt_In {B} (l : list B) x : last_opt l = Some x -> In x l.
  Proof.
    induction l as [|y l IH]; [discriminate|]. destruct l; [cbn; intros H; injection H as <-; left; reflexivity|].
    intros H. right. apply IH. exact H.
  Qed.

  Lemma filter_comm {B} (p q : B -> bool) (l : list B) : filter p (filter q l) = filter q (filter p l).
  Proof.
    induction l as [|x l IH]; cbn; [reflexivity|].
    destruct (q x) eqn:Q, (p x) eqn:P; cbn; rewrite ?Q, ?P, IH; reflexivity.
  Qed.
  Lemma filter_filter_imp {B} (p q : B -> bool) (l : list B) :
    (forall x, p x = true -> q x = true) -> filter p (filter q l) = filter p l.
  Proof.
    intros H. induction l as [|x l IH]; cbn; [reflexivity|].
    destruct (q x) eqn:Q; cbn; [destruct (p x); rewrite IH; reflexivity|].
    destruct (p x) eqn:P; [apply H in P; congruence | exact IH].
  Qed.

  Definition matches m (c : option N) f : nmap A := filter (fun kv => f (snd kv)) (after_cursor c m).

  Lemma sorted_after_cursor c m : sorted m -> sorted (after_cursor c m).
  Proof. destruct c; cbn; [apply sorted_filter | tauto]. Qed.
  Lemma sorted_matches m c f : sorted m -> sorted (matches m c f).
  Proof. intros H. apply sorted_filter, sorted_after_cursor, H. Qed.

  (* moving the cursor to a key kl that lies after the old cursor: the new matches are the old ones after kl *)
  Lemma matches_advance m c f kl :
    (forall k0, c = Some k0 -> k0 < kl) -> matches m (Some kl) f = after_key kl (matches m c f).
  Proof.
    intros Hc. unfold matches, after_key. rewrite filter_comm. f_equal.
    destruct c as [k0|]; cbn; [| reflexivity].
    symmetry. apply filter_filter_imp. intros [k v] Hk. cbn in *. specialize (Hc k0 eq_refl). lia.
  Qed.

  Lemma in_after_cursor c m k v : In (k, v) (after_cursor c m) -> forall k0, c = Some k0 -> k0 < k.
  Proof. intros H k0 ->. cbn in H. apply filter_In in H as [_ H]. cbn in H. lia. Qed.

  (* iterate: cursor := key of the last item returned; stop on an empty page *)
  Fixpoint pages (fuel : nat) m (cursor : option N) (lim : N) f : nmap A :=
    match fuel with
    | O => []
    | S k =>
        let pg := page_kv m cursor (Some lim) f in
        match last_opt pg with
        | None => []
        | Some (kl, _) => (pg ++ pages k m (Some kl) lim f)%list
        end
    end.

  Theorem pages_cover_exactly_once m start lim f fuel :
    sorted m -> 1 <= lim -> (List.length (matches m start f) < fuel)%nat ->
    pages fuel m start lim f = matches m start f.
  Proof.
    intros Hs Hl. revert start. induction fuel as [|fuel IH]; intros start Hlen; [inversion Hlen|].
    cbn [pages]. unfold page_kv. cbn [opt_default]. fold (matches m start f). rewrite take_n_firstn.
    destruct (last_opt (firstn (N.to_nat lim) (matches m start f))) as [[kl vl]|] eqn:El.
    - pose proof (after_last_firstn _ _ _ _ (sorted_matches m start f Hs) El) as Hrest.
      assert (Hin : In (kl, vl) (matches m start f)).
      { apply last_opt_In in El. eapply firstn_incl. exact El. }
      assert (Hadv : matches m (Some kl) f = skipn (N.to_nat lim) (matches m start f)).
      { rewrite <- Hrest. apply matches_advance. intros k0 Hk0. unfold matches in Hin.
        apply filter_In in Hin as [Hin _]. eapply in_after_cursor; eassumption. }
      rewrite IH.
      + rewrite Hadv. apply firstn_skipn.
      + rewrite Hadv, skipn_length. destruct (matches m start f) as [|x l]; [contradiction|]. cbn [List.length] in *.
        assert (1 <= N.to_nat lim)%nat by lia. lia.
    - apply last_opt_none in El. destruct (matches m start f) as [|x l]; [reflexivity|].
      assert (Hn : N.to_nat lim = S (N.to_nat lim - 1)) by lia. rewrite Hn in El. discriminate.
  Qed.

  (* each page is the first `limit` matches after the exclusive cursor, ascending, without repetition *)
  Theorem page_spec m sa lim f :
    sorted m ->
    page_kv m sa lim f = firstn (N.to_nat (opt_default u32_max lim)) (matches m sa f)
    /\ sorted (page_kv m sa lim f)
    /\ (forall k v, In (k, v) (page_kv m sa lim f) -> nfind k m = Some v /\ f v = true /\ forall k0, sa = Some k0 -> k0 < k).
  Proof.
    intros Hs. unfold page_kv. rewrite take_n_firstn. fold (matches m sa f). split; [reflexivity|]. split.
    - generalize (N.to_nat (opt_default u32_max lim)). pose proof (sorted_matches m sa f Hs) as Hm. revert Hm.
      generalize (matches m sa f). intros l. induction l as [|[k v] l IHl]; intros Hm n; destruct n; cbn; try tauto.
      destruct Hm as [Hlt Hm]. split; [| apply IHl; exact Hm].
      intros j Hj. apply Hlt. apply in_map_iff in Hj as (x & <- & Hx). apply in_map. eapply firstn_incl. exact Hx.
    - intros k v Hin. apply firstn_incl in Hin. unfold matches in Hin. apply filter_In in Hin as [Hin Hf]. cbn in Hf.
      split; [| split; [exact Hf | eapply in_after_cursor; exact Hin]].
      assert (Hm : In (k, v) m) by (destruct sa; cbn in Hin; [apply filter_In in Hin; tauto | exact Hin]).
      clear - Hs Hm. induction m as [|[k' v'] r IH]; [contradiction|]. destruct Hs as [Hlt Hs]. cbn.
      destruct Hm as [Hm|Hm].
      + injection Hm as -> ->. rewrite N.eqb_refl. reflexivity.
      + assert (k' < k) by (apply Hlt; apply (in_map fst) in Hm; exact Hm).
        assert (E : (k =? k') = false) by lia. rewrite E. apply IH; assumption.
  Qed.
End Paging.
