(* NoPanic.v — C16: inside the stated domain no entry point ends in [Panic]. *)
From MW Require Import Base Wire Staking Treasury.
From MW.Proofs Require Import Tactics.
Open Scope N_scope.

(* ---------- the outcome monad ---------- *)
Lemma np_bind {A B} (r : result A) (f : A -> result B) :
  is_panic r = false -> (forall a, r = Ok a -> is_panic (f a) = false) -> is_panic (bind r f) = false.
Proof. destruct r; cbn; intros H K; [apply K; reflexivity | reflexivity | discriminate]. Qed.
Lemma np_of_opt_err {A} (o : option A) e : is_panic (of_opt_err o e) = false.
Proof. destruct o; reflexivity. Qed.
Lemma np_of_opt {A} (o : option A) site : o <> None -> is_panic (of_opt o site) = false.
Proof. destruct o; [reflexivity | congruence]. Qed.

Ltac np_step :=
  match goal with
  | |- is_panic (Ok _) = false => reflexivity
  | |- is_panic (Err _) = false => reflexivity
  | |- is_panic (of_opt_err _ _) = false => apply np_of_opt_err
  | |- is_panic (bind _ _) = false => apply np_bind; [| intros ? ?]
  | |- is_panic (if ?c then _ else _) = false => destruct c eqn:?
  | |- is_panic (match ?x with Some _ => _ | None => _ end) = false => destruct x eqn:?
  | |- is_panic (let '(_, _) := ?x in _) = false => destruct x eqn:?
  | |- is_panic (match ?x with _ => _ end) = false => destruct x eqn:?
  end.
Ltac np := repeat np_step.

(* ---------- treasury ---------- *)
Definition tenv_sane (e : tenv) : Prop := t_now_ns e + T_IBC_TIMEOUT_NS <= u64_max.

Section Treasury.
  Variable va : string -> string -> bool.
  Variable av : string -> bool.

  Lemma route_allowed_nonempty allowed r : route_allowed allowed r = true -> r <> [].
  Proof. destruct r; [discriminate | discriminate]. Qed.

  Theorem tinstantiate_no_panic e sender m : is_panic (tinstantiate av e sender m) = false.
  Proof. unfold tinstantiate. np. Qed.

  Theorem texecute_no_panic s e sender m : tenv_sane e -> is_panic (texecute va av s e sender m) = false.
  Proof.
    intros He. unfold texecute. destruct m.
    - np.
    - np.
    - np.
    - destruct channel; np. apply np_of_opt. unfold add64. unfold tenv_sane in He. destruct (_ <=? _) eqn:E; [discriminate | lia].
    - destruct (String.eqb (t_trader s) sender); [|reflexivity]. destruct (route_allowed (t_routes s) routes) eqn:R; [|reflexivity].
      destruct routes; [discriminate R|]. destruct (String.eqb _ _); reflexivity.
    - destruct (String.eqb (t_trader s) sender); [|reflexivity]. destruct (route_allowed (t_routes s) routes) eqn:R; [|reflexivity].
      apply route_allowed_nonempty in R. destruct (rev routes) eqn:V.
      + exfalso. apply (f_equal (@rev hop)) in V. rewrite rev_involutive in V. cbn in V. congruence.
      + destruct (String.eqb _ _); reflexivity.
    - np.
  Qed.

  Theorem tquery_no_panic s : t_admin s <> None -> is_panic (tquery s) = false.
  Proof. intros H. unfold tquery. np. apply np_of_opt. exact H. Qed.
End Treasury.

(* ---------- staking: the stated domain ---------- *)
From MW.Proofs Require Import Arith Maps Handlers Invariant Ledger.

Definition E27 : N := 1000000000000000000000000000.
Definition RSLACK : N := 1000000.     (* rates the code can represent comfortably: far beyond the stated [10^-3, 10^3] *)

(* exchange rate within [10^-3, 10^3] (no rate when no LST is outstanding) *)
Definition rate_dom (n l : N) : Prop := l = 0 \/ (l <= 1000 * n /\ n <= 1000 * l).
(* what the rate computation needs *)
Definition rate_safe (n l : N) : Prop := l = 0 \/ (0 < n /\ l <= RSLACK * n /\ n <= RSLACK * l).

Lemma rate_dom_safe n l : rate_dom n l -> rate_safe n l.
Proof. unfold rate_dom, rate_safe, RSLACK. intros [H|[H1 H2]]; [left; exact H|]. destruct (N.eq_dec l 0); [left; assumption|]. right. lia. Qed.

Definition dom_env (e : env) : Prop := now_ns e <= 2 ^ 63 /\ (forall t, txi e = Some t -> t < 2 ^ 32).

Definition dom_batch (b : batch) : Prop :=
  b_total b <= E27 /\ b_id b < 2 ^ 63 /\ opt_default 0 (b_count b) < 2 ^ 63
  /\ opt_default 0 (b_time b) * 1000000000 <= u64_max
  /\ (forall x, b_received b = Some x -> x <= E27).

Record dom_state (s : store) : Prop := {
  ds_n : total_native (st s) <= E27;
  ds_l : total_lst (st s) <= E27;
  ds_r : total_reward (st s) <= E27;
  ds_f : total_fees (st s) <= E27;
  ds_rate : rate_dom (total_native (st s)) (total_lst (st s));
  ds_batch_vals : forall b, In b (nvals (batches s)) -> dom_batch b;
  ds_requests : forall r, In r (requests s) -> r_amount r <= E27;
  ds_packets : forall p, In p (nvals (inflight s)) -> c_amount (p_coin p) <= E27;
  ds_keys : forall k, In k (nkeys (inflight s)) -> k < 2 ^ 63;
  ds_count : N.of_nat (List.length (inflight s)) < 2 ^ 32 }.

Lemma ds_batches s (D : dom_state s) k b : nfind k (batches s) = Some b -> dom_batch b.
Proof. intros F. apply (ds_batch_vals s D). apply nfind_In in F. apply (in_map snd) in F. exact F. Qed.

Definition dom_funds (i : info) : Prop := forall c, In c (funds i) -> c_amount c <= E27.

Lemma get_rates_safe x : rate_safe (total_native x) (total_lst x) -> get_rates x <> None.
Proof.
  unfold rate_safe, get_rates, RSLACK. intros [H|(Hn & H1 & H2)].
  - rewrite H. cbn. discriminate.
  - destruct (total_lst x =? 0) eqn:E; [discriminate|].
    unfold from_ratio. assert (E1 : (total_lst x =? 0) = false) by exact E. rewrite E1.
    assert (E2 : (total_native x =? 0) = false) by lia. rewrite E2. cbv zeta.
    assert (A : total_native x * dec_one / total_lst x <= 1000000 * dec_one).
    { apply N.div_le_upper_bound; [lia|]. unfold dec_one. nia. }
    assert (B : total_lst x * dec_one / total_native x <= 1000000 * dec_one).
    { apply N.div_le_upper_bound; [lia|]. unfold dec_one. nia. }
    assert (C : 1000000 * dec_one <= u128_max) by (vm_compute; discriminate).
    destruct (_ <=? u128_max) eqn:F1; [|lia]. destruct (total_lst x * dec_one / total_native x <=? u128_max) eqn:F2; [|lia]. discriminate.
Qed.

Section StakingNP.
  Variable va : string -> string -> bool.
  Variable dv : string -> string -> string -> option string.
  Variable av : string -> bool.
  Notation execute := (execute va dv av).

  Lemma oracle_np s e : rate_safe (total_native (st s)) (total_lst (st s)) -> is_panic (oracle_msgs s e) = false.
  Proof. intros H. unfold oracle_msgs. np. apply np_of_opt. apply get_rates_safe. exact H. Qed.

  Lemma ibc_sub_np s e rcv c id : dom_env e -> is_panic (ibc_sub s e rcv c id) = false.
  Proof.
    intros [He Ht]. unfold ibc_sub.
    assert (B1 : 2 ^ 63 + 1000000000000 <= 2 ^ 64 - 1) by (vm_compute; discriminate).
    assert (B2 : 2 ^ 32 + 2 ^ 63 <= 2 ^ 64 - 1) by (vm_compute; discriminate).
    np; try discriminate;
      try (match goal with Hx : forall t, Some ?n = Some t -> _ |- _ => specialize (Hx _ eq_refl) end);
      apply np_of_opt; unfold add64, IBC_TIMEOUT_NS, u64_max; (destruct (_ <=? _) eqn:E; [discriminate | lia]).
  Qed.

  (* handlers without a panicking operator *)
  Lemma simple_handlers_np s e i :
    (forall v, is_panic (execute_add_validator va s i v) = false)
    /\ (forall v, is_panic (execute_remove_validator va s i v) = false)
    /\ (forall o, is_panic (execute_transfer_ownership av s e i o) = false)
    /\ is_panic (execute_revoke_ownership s i) = false
    /\ is_panic (execute_accept_ownership s e i) = false
    /\ (forall n p f m bp, is_panic (update_config va s i n p f m bp) = false)
    /\ (forall id, is_panic (receive_unstaked_tokens dv s e i id) = false)
    /\ is_panic (circuit_breaker s i) = false
    /\ (forall a, is_panic (fee_withdraw s e i a) = false).
  Proof.
    repeat split; intros;
      unfold execute_add_validator, execute_remove_validator, execute_transfer_ownership, execute_revoke_ownership,
             execute_accept_ownership, update_config, receive_unstaked_tokens, circuit_breaker, fee_withdraw, assert_admin, check_stopped;
      np.
  Qed.

  Lemma req_sum_member b q rs : In q rs -> r_batch q = b -> r_amount q <= req_sum b rs.
  Proof.
    induction rs as [|r rs IH]; intros Hin Hb; [contradiction|]. rewrite req_sum_cons. destruct Hin as [->|Hin].
    - assert (E : (r_batch q =? b) = true) by lia. rewrite E. lia.
    - specialize (IH Hin Hb). lia.
  Qed.

  Lemma resume_np s e i n l r : rate_dom n l -> is_panic (resume_contract s e i n l r) = false.
  Proof.
    intros H. unfold resume_contract, assert_admin. np. apply oracle_np. cbn. apply rate_dom_safe. exact H.
  Qed.

  Lemma withdraw_np s e i id : I_batches s -> I_requests s -> dom_state s -> is_panic (execute_withdraw s e i id) = false.
  Proof.
    intros HB HR D. unfold execute_withdraw, check_stopped.
    destruct (stopped (cfg s)); [reflexivity|]. cbn [bind].
    destruct (nfind id (batches s)) as [b|] eqn:F; [|reflexivity]. cbn [of_opt_err bind].
    destruct (bstatus_eqb (b_status b) Received) eqn:S; [|reflexivity].
    destruct HB as (_ & _ & _ & Hok). destruct (Hok _ _ F) as (Hid & _ & _ & Hst).
    assert (SR : b_status b = Received) by (destruct (b_status b); cbn in S; congruence). rewrite SR in Hst.
    destruct Hst as (_ & _ & Hrecv). destruct (b_received b) as [recv|] eqn:R; [|congruence]. cbn [of_opt bind].
    destruct (find_request (b_id b) (sender i) (requests s)) as [q|] eqn:Q; [|reflexivity]. cbn [of_opt_err bind].
    apply find_request_some in Q as (Qin & Qb & _).
    destruct HR as (Hpos & _ & _ & Hsum). specialize (Hsum _ _ F). destruct (Hpos _ Qin) as [Hq0 _].
    assert (Hle : r_amount q <= b_total b).
    { pose proof (req_sum_member id q (requests s) Qin ltac:(lia)) as M. destruct (id =? pending_id s); lia. }
    destruct (ds_batches s D _ _ F) as (_ & _ & _ & _ & Hrcv). specialize (Hrcv _ R).
    assert (M : mul_ratio recv (r_amount q) (b_total b) = Some (recv * r_amount q / b_total b)).
    { apply mul_ratio_total; [lia|]. assert (recv * r_amount q / b_total b <= recv) by (apply N.div_le_upper_bound; [lia | nia]).
      unfold E27, u128_max in *. lia. }
    rewrite M. cbn [of_opt bind]. apply np_bind; [| intros; reflexivity].
    apply oracle_np. cbn. apply rate_dom_safe. apply (ds_rate s D).
  Qed.

  Lemma unstake_np s e i a : I_batches s -> I_requests s -> dom_state s -> a <= E27 -> is_panic (execute_liquid_unstake s e i a) = false.
  Proof.
    intros HB HR D Ha. unfold execute_liquid_unstake, check_stopped.
    destruct (stopped (cfg s)); [reflexivity|]. cbn [bind].
    destruct HB as (_ & Hp1 & Hall & Hok).
    destruct (nfind (pending_id s) (batches s)) as [b|] eqn:F; [| exfalso; apply (Hall (pending_id s)); [lia | exact F]].
    destruct (ds_batches s D _ _ F) as (Hbt & _ & Hcnt & _).
    assert (A1 : add128 (b_total b) a = Some (b_total b + a)).
    { unfold add128. destruct (_ <=? _) eqn:E; [reflexivity|]. unfold E27, u128_max in *. lia. }
    assert (A2 : add64 (opt_default 0 (b_count b)) 1 = Some (opt_default 0 (b_count b) + 1)).
    { unfold add64. destruct (_ <=? _) eqn:E; [reflexivity|]. unfold u64_max in *. assert (2 ^ 63 + 1 <= 2 ^ 64 - 1) by (vm_compute; discriminate). lia. }
    destruct (find_request (pending_id s) (sender i) (requests s)) as [q|] eqn:Q.
    - apply find_request_some in Q as (Qin & _). pose proof (ds_requests s D _ Qin) as Hq.
      assert (A0 : add128 (r_amount q) a = Some (r_amount q + a)).
      { unfold add128. destruct (_ <=? _) eqn:E; [reflexivity|]. unfold E27, u128_max in *. lia. }
      rewrite A0. cbn [of_opt bind of_opt_err]. rewrite A1. reflexivity.
    - cbn [of_opt bind of_opt_err]. rewrite A1. cbn [of_opt bind]. rewrite A2. reflexivity.
  Qed.

  Lemma submit_np s e : I_batches s -> I_requests s -> dom_state s -> dom_env e -> is_panic (execute_submit_batch s e) = false.
  Proof.
    intros HB HR D He. unfold execute_submit_batch, check_stopped.
    destruct (stopped (cfg s)); [reflexivity|]. cbn [bind].
    destruct (nfind (pending_id s) (batches s)) as [b|] eqn:F; [|reflexivity]. cbn [of_opt_err bind].
    destruct (b_time b) as [t|]; [|reflexivity]. destruct (now_s e <? t); [reflexivity|]. cbn [bind].
    destruct (batch_has_request (pending_id s) (requests s)); [|reflexivity].
    destruct (b_total b <=? total_lst (st s)) eqn:Hle; [|reflexivity].
    destruct (ds_batches s D _ _ F) as (Hbt & Hid & _).
    assert (A : add64 (b_id b) 1 = Some (b_id b + 1)).
    { unfold add64. destruct (b_id b + 1 <=? u64_max) eqn:E; [reflexivity|]. unfold u64_max in *. assert (2 ^ 63 + 1 <= 2 ^ 64 - 1) by (vm_compute; discriminate). lia. }
    rewrite A. cbn [of_opt bind]. destruct (deadline (now_s e) (batch_period (cfg s))) as [nt|]; [|reflexivity]. cbn [of_opt_err bind].
    pose proof (ds_n s D) as Hn. pose proof (ds_l s D) as Hl. pose proof (ds_rate s D) as Hr.
    set (N := total_native (st s)) in *. set (L := total_lst (st s)) in *. set (B := b_total b) in *.
    assert (U : exists u, compute_unbond N L B = Some u /\ (B = 0 -> u = 0) /\ (B <> 0 -> L <> 0 /\ u = N * B / L /\ u <= N)).
    { unfold compute_unbond. destruct (B =? 0) eqn:E0.
      - exists 0. split; [reflexivity|]. split; [reflexivity | lia].
      - assert (L <> 0) by lia. exists (N * B / L). assert (N * B / L <= N) by (apply submit_unbond_le; lia).
        split; [apply mul_ratio_total; [lia | unfold E27, u128_max in *; lia]|]. split; [lia|]. intros _. repeat split; lia. }
    destruct U as (u & -> & U0 & U1). cbn [of_opt bind].
    destruct (deadline (now_s e) (nc_unbonding (native (cfg s)))) as [at_|]; [|reflexivity]. cbn [of_opt_err bind].
    apply np_bind; [| intros; reflexivity]. apply oracle_np. cbn.
    (* the rate after the submission *)
    unfold rate_safe, RSLACK. destruct (N.eq_dec (L - B) 0) as [Z|Z]; [left; exact Z|]. right.
    destruct (N.eq_dec B 0) as [B0|B0].
    - rewrite (U0 B0), B0. replace (N - 0) with N by lia. replace (L - 0) with L in * by lia.
      destruct Hr as [Hr|[H1 H2]]; [lia|]. lia.
    - destruct (U1 B0) as (HL & -> & Hu). destruct Hr as [Hr|[H1 H2]]; [lia|].
      pose proof (N.div_mod (N * B) L HL) as DM. pose proof (N.mod_lt (N * B) L HL) as ML.
      set (q := N * B / L) in *. set (r := (N * B) mod L) in *.
      assert (K1 : (N - q) * L >= N * (L - B)) by nia.
      assert (K2 : (N - q) * L <= N * (L - B) + L) by nia.
      repeat split; nia.
  Qed.

  Lemma add128_small a b : a <= 2 * E27 -> b <= 2 * E27 -> add128 a b = Some (a + b).
  Proof. intros Ha Hb. unfold add128. destruct (a + b <=? u128_max) eqn:E; [reflexivity|]. unfold E27, u128_max in *. lia. Qed.

  (* ReceiveRewards: the reward [a] keeps the rate inside the stated range *)
  Lemma rewards_np s e i :
    dom_state s -> dom_env e -> dom_funds i ->
    (forall c, find_coin (pc_denom (protocol (cfg s))) (funds i) = Some c ->
               rate_dom (total_native (st s) + c_amount c) (total_lst (st s))) ->
    is_panic (receive_rewards dv s e i) = false.
  Proof.
    intros D He Hf Hpost. unfold receive_rewards, check_stopped.
    destruct (stopped (cfg s)); [reflexivity|]. cbn [bind].
    destruct (negb (total_lst (st s) =? 0)) eqn:L0; [|reflexivity].
    destruct (hook_sender_ok dv s (nc_collector (native (cfg s))) i); [|reflexivity].
    destruct (find_coin (pc_denom (protocol (cfg s))) (funds i)) as [c|] eqn:C; [|reflexivity]. cbn [of_opt_err bind].
    specialize (Hpost _ eq_refl).
    assert (Ha : c_amount c <= E27).
    { apply Hf. unfold find_coin in C. apply find_some in C. tauto. }
    destruct (mul_ratio (fee_rate (fees (cfg s))) (c_amount c) FEE_DENOM) as [fee|]; [|reflexivity]. cbn [of_opt_err bind].
    destruct (sub_checked (c_amount c) fee) as [after|] eqn:S; [|reflexivity]. cbn [of_opt_err bind].
    apply sub_checked_some in S as [-> Hfee].
    pose proof (ds_n s D). pose proof (ds_r s D). pose proof (ds_f s D).
    rewrite add128_small by (unfold E27 in *; lia). cbn [of_opt bind].
    rewrite add128_small by (unfold E27 in *; lia). cbn [of_opt bind].
    assert (F : is_panic (match fee_treasury (fees (cfg s)) with
                          | Some _ => Ok (total_fees (st s)) | None => of_opt (add128 (total_fees (st s)) fee) 876 end) = false).
    { destruct (fee_treasury (fees (cfg s))); [reflexivity|]. rewrite add128_small by (unfold E27 in *; lia). reflexivity. }
    apply np_bind; [exact F|]. intros f' _.
    apply np_bind; [apply ibc_sub_np; exact He|]. intros [s2 sub] Hs. apply ibc_sub_ok in Hs as (_ & -> & _).
    apply np_bind; [| intros; reflexivity]. apply oracle_np. cbn.
    unfold rate_safe, RSLACK. right. assert (total_lst (st s) <> 0) by lia.
    pose proof (ds_rate s D) as [R|[R1 R2]]; [contradiction|]. destruct Hpost as [P|[P1 P2]]; [contradiction|].
    repeat split; lia.
  Qed.

  Lemma sub_id_bound e id : dom_env e -> (forall k, id = Some k -> k < 2 ^ 63 + 2 ^ 33) -> sub_id e id < 2 ^ 63 + 2 ^ 33.
  Proof.
    intros [He Ht] Hid. unfold sub_id. destruct id as [k|]; [apply Hid; reflexivity|].
    assert (2 ^ 32 < 2 ^ 33) by (vm_compute; reflexivity). assert (0 < 2 ^ 33) by (vm_compute; reflexivity).
    destruct (txi e) as [t|] eqn:T; [specialize (Ht _ eq_refl); lia | lia].
  Qed.

  (* LiquidStake of [a] base units by a sender whose address carries the protocol prefix *)
  Lemma stake_np s e i a mt tn ex :
    dom_state s -> dom_env e -> a <= E27 ->
    (mt = None -> slen (pc_prefix (protocol (cfg s))) <= slen (sender i)) ->
    is_panic (execute_liquid_stake va s e i a mt tn ex) = false.
  Proof.
    intros D He Ha Hsender. unfold execute_liquid_stake, check_stopped.
    destruct (stopped (cfg s)); [reflexivity|]. cbn [bind].
    apply np_bind.
    { destruct mt; [reflexivity|]. specialize (Hsender eq_refl).
      destruct (slen (sender i) <? slen (pc_prefix (protocol (cfg s)))) eqn:E; [lia|]. destruct (_ =? 39); reflexivity. }
    intros _ _. cbv zeta.
    destruct (va (opt_default (sender i) mt) (nc_prefix (native (cfg s))) || va (opt_default (sender i) mt) (pc_prefix (protocol (cfg s)))); [|reflexivity].
    destruct (pc_min (protocol (cfg s)) <=? a); [|reflexivity].
    pose proof (ds_n s D) as Hn. pose proof (ds_l s D) as Hl. pose proof (ds_r s D) as Hrw. pose proof (ds_f s D) as Hfe. pose proof (ds_rate s D) as Hr.
    set (x := st s) in *.
    (* the state after the sweep: totals (N1, L1) with N1 = 0 -> L1 = 0, and N1 <> 0 -> rate in range *)
    assert (X1 : exists x1,
               (if (total_lst x =? 0) && negb (total_native x =? 0)
                then do f <- of_opt (add128 (total_fees x) (total_native x)) 192; Ok (set_totals x 0 (total_lst x) (total_reward x) f)
                else Ok x) = Ok x1
               /\ total_native x1 <= E27 /\ total_lst x1 <= E27
               /\ (total_native x1 = 0 -> total_lst x1 = 0)
               /\ (total_native x1 <> 0 -> total_lst x1 <= 1000 * total_native x1 /\ total_native x1 <= 1000 * total_lst x1)).
    { destruct ((total_lst x =? 0) && negb (total_native x =? 0)) eqn:SW.
      - rewrite add128_small by (unfold E27 in *; lia). cbn [of_opt bind]. eexists. split; [reflexivity|]. cbn.
        apply andb_true_iff in SW as [S1 S2]. repeat split; try lia.
      - exists x. split; [reflexivity|]. repeat split; try assumption.
        + intros Z. destruct Hr as [Hr|[H1 H2]]; lia.
        + destruct Hr as [Hr|[H1 H2]]; [|lia]. apply andb_false_iff in SW. destruct SW as [SW|SW]; lia.
        + destruct Hr as [Hr|[H1 H2]]; [|lia]. apply andb_false_iff in SW. destruct SW as [SW|SW]; lia. }
    destruct X1 as (x1 & -> & Hn1 & Hl1 & Z1 & R1). cbn [bind].
    set (N1 := total_native x1) in *. set (L1 := total_lst x1) in *.
    assert (M : exists m, compute_mint N1 L1 a = Some m /\ m <= 1000 * a
                          /\ (m <> 0 -> rate_safe (N1 + a) (L1 + m))).
    { unfold compute_mint. destruct (N1 =? 0) eqn:E0.
      - exists a. split; [reflexivity|]. split; [lia|]. intros Hm. assert (L1 = 0) by (apply Z1; lia).
        unfold rate_safe, RSLACK. right. lia.
      - assert (HN : N1 <> 0) by lia. destruct (R1 HN) as [Ra Rb].
        pose proof (N.div_mod (L1 * a) N1 HN) as DM. pose proof (N.mod_lt (L1 * a) N1 HN) as ML.
        set (q := L1 * a / N1) in *. set (r := (L1 * a) mod N1) in *.
        assert (Q1 : q <= 1000 * a) by nia.
        exists q. split; [apply mul_ratio_total; [lia | unfold E27, u128_max in *; lia]|]. split; [exact Q1|].
        intros Hq. unfold rate_safe, RSLACK. right. assert (Q2 : a <= 2000 * q) by nia. repeat split; lia. }
    destruct M as (m & -> & Hm & Hrate). cbn [of_opt bind].
    destruct (negb (m =? 0)) eqn:M0; [|reflexivity].
    destruct (match ex with Some ex0 => ex0 <=? m | None => true end); [|reflexivity].
    apply np_bind; [apply ibc_sub_np; exact He|]. intros [s1 stake_sub] Hs1. apply ibc_sub_ok in Hs1 as (-> & -> & _).
    assert (A1 : add128 N1 a = Some (N1 + a)) by (apply add128_small; unfold E27 in *; lia).
    assert (A2 : add128 L1 m = Some (L1 + m)).
    { unfold add128. destruct (L1 + m <=? u128_max) eqn:E; [reflexivity|]. unfold E27, u128_max in *. lia. }
    rewrite A1. cbn [of_opt bind]. rewrite A2. cbn [of_opt bind].
    apply np_bind; [apply oracle_np; cbn; apply Hrate; lia|]. intros om _.
    destruct (if _ && _ then _ else _); [reflexivity|].
    assert (A3 : add64 (sm_id (transfer_sub s e (sub_id e None) (nc_staker (native (cfg s))) {| c_denom := pc_denom (protocol (cfg s)); c_amount := a |} (now_ns e + IBC_TIMEOUT_NS))) 1
                 = Some (sub_id e None + 1)).
    { cbn [transfer_sub sm_id]. pose proof (sub_id_bound e None He ltac:(discriminate)) as B. unfold add64.
      destruct (sub_id e None + 1 <=? u64_max) eqn:E; [reflexivity|]. unfold u64_max in *.
      assert (2 ^ 63 + 2 ^ 33 + 1 <= 2 ^ 64 - 1) by (vm_compute; discriminate). lia. }
    rewrite A3. cbn [of_opt bind].
    apply np_bind; [apply ibc_sub_np; exact He|]. intros [s3 lst_sub] _. reflexivity.
  Qed.

  (* ---------- forced / permissionless recovery ---------- *)
  Lemma take_n_sub {A} n (l : list A) : incl (take_n n l) l /\ (List.length (take_n n l) <= List.length l)%nat.
  Proof.
    revert n. induction l as [|x l IH]; intros n; cbn; [split; [apply incl_refl | lia]|].
    destruct (n =? 0); [split; [intros y Hy; contradiction | cbn; lia]|]. destruct (IH (n - 1)) as [I L].
    split; [intros y [->|Hy]; [left; reflexivity | right; apply I; exact Hy] | cbn; lia].
  Qed.

  Lemma filter_len {A} (f : A -> bool) l : (List.length (filter f l) <= List.length l)%nat.
  Proof. induction l as [|x l IH]; cbn; [lia|]. destruct (f x); cbn; lia. Qed.

  Lemma paginate_sub {A} (m : nmap A) lim f :
    incl (paginate m None lim f) (nvals m) /\ (List.length (paginate m None lim f) <= List.length m)%nat.
  Proof.
    unfold paginate, after_cursor. destruct (take_n_sub (opt_default u32_max lim) (filter f (nvals m))) as [I L].
    split.
    - intros y Hy. apply I in Hy. apply filter_In in Hy. tauto.
    - pose proof (filter_len f (nvals m)) as FL. unfold nvals in *. rewrite map_length in FL. lia.
  Qed.

  Lemma load_selected_sub ids (m : nmap packet) rcv : forall acc ps,
    load_selected ids m rcv acc = Ok ps ->
    (forall p, In p ps -> In p acc \/ In p (nvals m)) /\ List.length ps = (List.length acc + List.length ids)%nat.
  Proof.
    induction ids as [|k ids IH]; intros acc ps H; cbn in H.
    - inversion H; subst. split; [intros p Hp; left; apply in_rev; exact Hp | rewrite rev_length; cbn; lia].
    - destruct (nfind k m) as [p|] eqn:F; [|discriminate]. destruct (negb _); [discriminate|]. destruct (existsb _ acc); [discriminate|].
      apply IH in H as [I L]. split.
      + intros q Hq. destruct (I q Hq) as [[->|Ha]|Hm]; [right | left; exact Ha | right; exact Hm].
        apply nfind_In in F. unfold nvals. apply (in_map snd) in F. exact F.
      + cbn in *. lia.
  Qed.

  Lemma sum_packets_small ps : forall acc,
    (forall p, In p ps -> c_amount (p_coin p) <= E27) ->
    acc + N.of_nat (List.length ps) * E27 <= u128_max -> sum_packets ps acc <> None.
  Proof.
    induction ps as [|p ps IH]; intros acc Hp Hb; cbn [sum_packets]; [discriminate|].
    assert (Ha : c_amount (p_coin p) <= E27) by (apply Hp; left; reflexivity).
    cbn [List.length] in Hb. rewrite Nat2N.inj_succ in Hb.
    unfold add128. destruct (acc + c_amount (p_coin p) <=? u128_max) eqn:E; [| nia].
    apply IH; [intros q Hq; apply Hp; right; exact Hq | nia].
  Qed.

  Lemma nlast_key_in {A} (m : nmap A) k : nlast_key m = Some k -> In k (nkeys m).
  Proof.
    induction m as [|[j v] m IH]; cbn; [discriminate|]. destruct m as [|kv m'].
    - intros H; inversion H; left; reflexivity.
    - intros H. right. apply IH. exact H.
  Qed.

  Lemma recover_np s e i sel rcvo page :
    dom_state s -> dom_env e -> (forall ids, sel = Some ids -> N.of_nat (List.length ids) < 2 ^ 32) ->
    is_panic (recover va s e i sel rcvo page) = false.
  Proof.
    intros D He Hsel. unfold recover.
    apply np_bind; [destruct sel; [unfold assert_admin; destruct (is_admin s (sender i)); reflexivity | reflexivity]|]. intros _ _.
    apply np_bind; [destruct rcvo; [destruct (va _ _); reflexivity | reflexivity]|]. intros rcv _.
    set (PS := match sel with Some ids => load_selected ids (inflight s) rcv [] | None => Ok _ end).
    assert (HPS : is_panic PS = false /\ forall ps, PS = Ok ps ->
               (forall p, In p ps -> In p (nvals (inflight s))) /\ N.of_nat (List.length ps) < 2 ^ 32).
    { unfold PS. destruct sel as [ids|].
      - split.
        + clear. generalize (@nil packet). induction ids as [|k ids IH]; intros acc; cbn; [reflexivity|].
          destruct (nfind k (inflight s)); [|reflexivity]. destruct (negb _); [reflexivity|]. destruct (existsb _ acc); [reflexivity|]. apply IH.
        + intros ps H. apply load_selected_sub in H as [I L]. split.
          * intros p Hp. destruct (I p Hp) as [[]|Hm]. exact Hm.
          * rewrite L. cbn. apply Hsel. reflexivity.
      - split; [reflexivity|]. intros ps H. inversion H; subst.
        destruct (paginate_sub (inflight s) (if page then Some PAGE_SIZE else None) (fun p => String.eqb (p_receiver p) rcv && refundable (p_status p))) as [I L].
        split; [intros p Hp; apply I; exact Hp|]. pose proof (ds_count s D). lia. }
    destruct HPS as [HP1 HP2]. apply np_bind; [exact HP1|]. intros ps Hps. destruct (HP2 _ Hps) as [Hin Hlen].
    destruct ps as [|p0 rest]; [reflexivity|].
    destruct (forallb _ rest); [|reflexivity].
    assert (NE : inflight s <> []).
    { intros Z. specialize (Hin p0 (or_introl eq_refl)). rewrite Z in Hin. contradiction. }
    destruct (nlast_key_some (inflight s) NE) as [maxid HM]. rewrite HM. cbn [of_opt bind].
    apply np_bind.
    { apply np_of_opt. apply sum_packets_small; [intros p Hp; apply (ds_packets s D); apply Hin; exact Hp|].
      assert (2 ^ 32 * E27 <= u128_max) by (vm_compute; discriminate). nia. }
    intros total _.
    pose proof (ds_keys s D _ (nlast_key_in _ _ HM)) as HK.
    assert (A : add64 maxid 1 = Some (maxid + 1)).
    { unfold add64. destruct (maxid + 1 <=? u64_max) eqn:E; [reflexivity|]. unfold u64_max in *. assert (2 ^ 63 + 1 <= 2 ^ 64 - 1) by (vm_compute; discriminate). lia. }
    rewrite A. cbn [of_opt bind].
    apply np_bind; [apply ibc_sub_np; exact He|]. intros [s2 sub] _. reflexivity.
  Qed.

  (* ---------- reply, sudo ---------- *)
  Lemma reply_np s id rr : is_panic (reply s id rr) = false.
  Proof. unfold reply. np. Qed.
  Lemma sudo_np s m : is_panic (sudo s m) = false.
  Proof. unfold sudo. destruct m; np. Qed.

  (* ---------- queries ---------- *)
  Lemma batch_to_response_np b : dom_batch b -> is_panic (batch_to_response b) = false.
  Proof. intros (_ & _ & _ & Ht & _). unfold batch_to_response. cbv zeta. destruct (u64_max <? _) eqn:E; [lia | reflexivity]. Qed.

  Lemma map_result_np (l : list batch) : (forall b, In b l -> dom_batch b) -> is_panic (map_result batch_to_response l) = false.
  Proof.
    induction l as [|b l IH]; intros H; cbn [map_result]; [reflexivity|].
    apply np_bind; [apply batch_to_response_np; apply H; left; reflexivity|]. intros y _.
    apply np_bind; [apply IH; intros c Hc; apply H; right; exact Hc|]. intros; reflexivity.
  Qed.

  Lemma paginate_incl {A} (m : nmap A) sa lim f : incl (paginate m sa lim f) (nvals m).
  Proof.
    unfold paginate. intros y Hy. apply (proj1 (take_n_sub _ _)) in Hy. apply filter_In in Hy as [Hy _].
    unfold after_cursor in Hy. destruct sa as [k|]; [|exact Hy]. unfold nvals in *. apply in_map_iff in Hy as (kv & <- & Hk).
    apply filter_In in Hk as [Hk _]. apply in_map. exact Hk.
  Qed.

  Theorem query_no_panic s q : dom_state s -> is_panic (query s q) = false.
  Proof.
    intros D. destruct q; cbn [query]; try reflexivity.
    - apply np_bind; [| intros; reflexivity]. apply np_of_opt. apply get_rates_safe. apply rate_dom_safe. apply (ds_rate s D).
    - destruct (nfind id (batches s)) as [b|] eqn:F; [|reflexivity]. cbn [of_opt_err bind].
      apply np_bind; [apply batch_to_response_np; eapply ds_batches; eassumption | intros; reflexivity].
    - apply np_bind; [| intros; reflexivity]. apply map_result_np. intros b Hb. apply (ds_batch_vals s D). eapply paginate_incl. exact Hb.
    - apply np_bind; [| intros; reflexivity]. apply map_result_np. intros b Hb. apply in_flat_map in Hb as (k & _ & Hb).
      destruct (nfind k (batches s)) as [c|] eqn:F; [|contradiction]. destruct Hb as [<-|[]]. eapply ds_batches; eassumption.
    - destruct (nfind (pending_id s) (batches s)) as [b|] eqn:F; [|reflexivity]. cbn [of_opt_err bind].
      apply np_bind; [apply batch_to_response_np; eapply ds_batches; eassumption | intros; reflexivity].
  Qed.

  (* ---------- instantiate ---------- *)
  Theorem instantiate_no_panic e i m : is_panic (instantiate va e i m) = false.
  Proof. unfold instantiate. np. Qed.

  (* ---------- execute ---------- *)
  (* the part of the domain that concerns the message *)
  Definition dom_call (s : store) (i : info) (m : execute_msg) : Prop :=
    match m with
    | LiquidStake mt _ _ => mt = None -> slen (pc_prefix (protocol (cfg s))) <= slen (sender i)
    | ReceiveRewards =>
        forall c, find_coin (pc_denom (protocol (cfg s))) (funds i) = Some c ->
                  rate_dom (total_native (st s) + c_amount c) (total_lst (st s))
    | ResumeContract n l _ => rate_dom n l
    | RecoverPendingIbcTransfers _ sel _ => forall ids, sel = Some ids -> N.of_nat (List.length ids) < 2 ^ 32
    | _ => True
    end.

  Lemma must_pay_dom i d a : dom_funds i -> must_pay i d = Ok a -> a <= E27.
  Proof.
    unfold must_pay, dom_funds. intros Hf H. destruct (funds i) as [|c [|c2 r]]; try discriminate.
    destruct (c_amount c =? 0); [discriminate|]. destruct (String.eqb _ _); [|discriminate]. inversion H; subst. apply Hf. left; reflexivity.
  Qed.

  Theorem execute_no_panic s e i m :
    I_batches s -> I_requests s -> dom_state s -> dom_env e -> dom_funds i -> dom_call s i m -> is_panic (execute s e i m) = false.
  Proof.
    intros HB HR D He Hf Hc. pose proof (simple_handlers_np s e i) as (S1 & S2 & S3 & S4 & S5 & S6 & S7 & S8 & S9).
    destruct m; cbn [Staking.execute].
    - apply np_bind; [unfold must_pay; np|]. intros a Ha. apply stake_np; [exact D | exact He | eapply must_pay_dom; eassumption | exact Hc].
    - apply np_bind; [unfold must_pay; np|]. intros a Ha. apply unstake_np; [exact HB | exact HR | exact D | eapply must_pay_dom; eassumption].
    - apply submit_np; assumption.
    - apply withdraw_np; assumption.
    - apply S1.
    - apply S2.
    - apply S3.
    - apply S5.
    - apply S4.
    - apply S6.
    - apply rewards_np; assumption.
    - apply S7.
    - apply S8.
    - apply resume_np. exact Hc.
    - apply recover_np; assumption.
    - apply S9.
  Qed.

  (* ---------- the invariants the theorem assumes hold in every reachable state ---------- *)
  Notation apply_call := (Ledger.apply_call va dv av).
  Definition after (s0 : store) (cs : list Ledger.call) : store := fold_left (fun s c => fst (apply_call s c)) cs s0.

  Lemma instantiate_I_requests e i m s r : instantiate va e i m = Ok (s, r) -> I_requests s.
  Proof.
    unfold instantiate. intros H. inv_ok H. inversion H; subst; clear H. unfold I_requests. cbn.
    split; [intros ? []|]. split; [constructor|]. split; [exact I|].
    intros k b. destruct (k =? 1) eqn:Ek1; [|discriminate]. intros Hb; injection Hb as <-. reflexivity.
  Qed.

  Lemma apply_call_invs s c : I_batches s /\ I_requests s -> I_batches (fst (apply_call s c)) /\ I_requests (fst (apply_call s c)).
  Proof.
    intros [HB HR]. split; [apply Ledger.apply_call_I_batches; exact HB|].
    unfold Ledger.apply_call. destruct c as [e i m | id rr | m].
    - destruct (execute s e i m) as [[s' r]|k|site] eqn:H; cbn [fst]; [| exact HR | exact HR].
      eapply execute_preserves_I_requests; eassumption.
    - destruct (reply s id rr) as [[s' r]|k|site] eqn:H; cbn [fst]; [| exact HR | exact HR].
      apply reply_frame in H as (F1 & F2 & _). eapply I_requests_frame; eassumption.
    - destruct (sudo s m) as [[s' r]|k|site] eqn:H; cbn [fst]; [| exact HR | exact HR].
      apply sudo_frame in H as (F1 & F2 & _). eapply I_requests_frame; eassumption.
  Qed.

  Theorem reachable_invariants e0 i0 m0 s0 r0 cs :
    instantiate va e0 i0 m0 = Ok (s0, r0) -> I_batches (after s0 cs) /\ I_requests (after s0 cs).
  Proof.
    intros H. assert (H0 : I_batches s0 /\ I_requests s0) by (split; [eapply instantiate_I_batches | eapply instantiate_I_requests]; eassumption).
    clear H. revert s0 H0. induction cs as [|c cs IH]; intros s0 H0; [exact H0|]. cbn [after fold_left]. apply IH. apply apply_call_invs. exact H0.
  Qed.

  (* the stated domain is inhabited by the state right after instantiation *)
  Theorem instantiate_in_domain e i m s r : instantiate va e i m = Ok (s, r) -> dom_state s.
  Proof.
    unfold instantiate. intros H. inv_ok H.
    repeat match goal with Hs : of_opt_err _ _ = Ok _ |- _ => apply of_opt_err_ok in Hs end.
    match goal with Hd : deadline _ _ = Some ?t |- _ => pose proof (deadline_fits _ _ _ Hd) as Ht end.
    assert (P1 : 1 < 2 ^ 63) by (change 1 with (2 ^ 0); apply N.pow_lt_mono_r; lia).
    assert (P2 : 0 < 2 ^ 63) by lia.
    assert (P3 : 0 < 2 ^ 32) by (assert (2 ^ 0 <= 2 ^ 32) by (apply N.pow_le_mono_r; lia); change (2 ^ 0) with 1 in *; lia).
    inversion H; subst; clear H. constructor; cbn.
    - unfold E27; lia.
    - unfold E27; lia.
    - unfold E27; lia.
    - unfold E27; lia.
    - left. reflexivity.
    - intros bb [<-|[]]. unfold dom_batch. cbn. split; [unfold E27; lia|]. split; [exact P1|]. split; [exact P2|]. split; [exact Ht|]. discriminate.
    - intros ? [].
    - intros ? [].
    - intros ? [].
    - exact P3.
  Qed.
End StakingNP.

(* ---------- migrations ---------- *)
From MW Require Import Migrate.
Theorem migrate_no_panic va ms msg : is_panic (migrate va ms msg) = false.
Proof. unfold migrate. np; destruct msg; np. Qed.
Theorem tmigrate_no_panic s : is_panic (tmigrate s) = false.
Proof. unfold tmigrate. np. Qed.

(* the treasury always has an admin, so its Config query never hits the expect() *)
Theorem treasury_admin_forever va av e0 sender0 m0 s0 r0 (calls : list (tenv * string * texecute_msg)) :
  tinstantiate av e0 sender0 m0 = Ok (s0, r0) ->
  t_admin (fold_left (fun s c => match texecute va av s (fst (fst c)) (snd (fst c)) (snd c) with Ok (s', _) => s' | _ => s end) calls s0) <> None.
Proof.
  intros H.
  assert (H0 : t_admin s0 <> None).
  { unfold tinstantiate in H. inv_ok H. inversion H; subst. cbn. discriminate. }
  clear H. revert s0 H0. induction calls as [|[[e sender] m] calls IH]; intros s0 H0; [exact H0|].
  cbn [fold_left fst snd]. apply IH.
  destruct (texecute va av s0 e sender m) as [[s' r]|k|site] eqn:X; [| exact H0 | exact H0].
  unfold texecute in X. destruct m; inv_ok X;
    try (inversion X; subst; cbn; assumption).
  - destruct (t_pending_owner s0) as [p|]; [|discriminate]. destruct (String.eqb p sender); [|discriminate]. inversion X; subst. cbn. discriminate.
  - destruct channel; inv_ok X; inversion X; subst; assumption.
  - destruct routes; [discriminate|]. inv_ok X. inversion X; subst. assumption.
  - destruct (rev routes); [discriminate|]. inv_ok X. inversion X; subst. assumption.
Qed.
