(* NoPanic.v — C16: inside the stated domain no entry point ends in [Panic]. *)
From MW Require Import Base Wire Staking Treasury.
From MW.Proofs Require Import Tactics.
Open Scope N_scope.

(* ---------- the outcome monad ---------- *)
Lemma np_bind {A B} (r : result A) (f : A -> result B) :
  is_panic r = false -> (forall a, r = Ok a -> is_panic (f a) = false) -> is_panic (bind r f) = false.
Proof. destruct r; cbn; intros H K; [apply K; reflexivity | reflexivity | discriminate]. Qed.
Lemma np_of_opt_err {A} (o : option A) e : is_panic (of_opt_err o e) = false.
Proof. destruct o; reflexivity. Qed.
Lemma np_of_opt {A} (o : option A) site : o <> None -> is_panic (of_opt o site) = false.
Proof. destruct o; [reflexivity | congruence]. Qed.

Ltac np_step :=
  match goal with
  | |- is_panic (Ok _) = false => reflexivity
  | |- is_panic (Err _) = false => reflexivity
  | |- is_panic (of_opt_err _ _) = false => apply np_of_opt_err
  | |- is_panic (bind _ _) = false => apply np_bind; [| intros ? ?]
  | |- is_panic (if ?c then _ else _) = false => destruct c eqn:?
  | |- is_panic (match ?x with Some _ => _ | None => _ end) = false => destruct x eqn:?
  | |- is_panic (let '(_, _) := ?x in _) = false => destruct x eqn:?
  end.
Ltac np := repeat np_step.

(* ---------- treasury ---------- *)
Definition tenv_sane (e : tenv) : Prop := t_now_ns e + T_IBC_TIMEOUT_NS <= u64_max.

Section Treasury.
  Variable va : string -> string -> bool.
  Variable av : string -> bool.

  Lemma route_allowed_nonempty allowed r : route_allowed allowed r = true -> r <> [].
  Proof. destruct r; [discriminate | discriminate]. Qed.

  Theorem tinstantiate_no_panic e sender m : is_panic (tinstantiate av e sender m) = false.
  Proof. unfold tinstantiate. np. Qed.

  Theorem texecute_no_panic s e sender m : tenv_sane e -> is_panic (texecute va av s e sender m) = false.
  Proof.
    intros He. unfold texecute. destruct m; np.
    - apply np_of_opt. unfold add64. unfold tenv_sane in He. destruct (_ <=? _) eqn:E; [discriminate | lia].
    - destruct routes; [discriminate | np].
    - match goal with H : route_allowed _ _ = true |- _ => apply route_allowed_nonempty in H end.
      destruct (rev routes) eqn:R; [| np].
      exfalso. apply (f_equal (@rev hop)) in R. rewrite rev_involutive in R. cbn in R. congruence.
  Qed.

  Theorem tquery_no_panic s : t_admin s <> None -> is_panic (tquery s) = false.
  Proof. intros H. unfold tquery. np. apply np_of_opt. exact H. Qed.
End Treasury.
