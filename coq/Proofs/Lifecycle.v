(* Lifecycle.v — unstake batch lifecycle and timing (C06). *)
From MW Require Import Staking.
From MW.Proofs Require Import Tactics Arith Handlers Maps Invariant Authz.
Open Scope N_scope.

Definition rank (x : bstatus) : N := match x with Pending => 0 | Submitted => 1 | Received => 2 end.

(* consequences of the invariant, in the words of the property *)
Lemma one_pending_highest s :
  I_batches s ->
  (exists b, nfind (pending_id s) (batches s) = Some b /\ b_status b = Pending /\ b_time b <> None)
  /\ (forall k b, nfind k (batches s) = Some b -> b_id b = k /\ 1 <= k <= pending_id s /\ (b_status b = Pending <-> k = pending_id s))
  /\ (forall k, 1 <= k <= pending_id s -> nfind k (batches s) <> None).
Proof.
  intros (Hs & Hp & Hall & Hok). split; [| split].
  - destruct (nfind (pending_id s) (batches s)) as [b|] eqn:E; [| exfalso; apply (Hall (pending_id s)); [lia | exact E]].
    exists b. destruct (Hok _ _ E) as (_ & _ & Hpd & Hsh). assert (Hst : b_status b = Pending) by (apply Hpd; reflexivity).
    rewrite Hst in Hsh. repeat split; tauto.
  - intros k b E. destruct (Hok _ _ E) as (H1 & H2 & H3 & _). repeat split; try tauto; lia.
  - exact Hall.
Qed.

Section Lifecycle.
  Variable va : string -> string -> bool.
  Variable dv : string -> string -> string -> option string.
  Variable av : string -> bool.
  Notation execute := (execute va dv av).

  (* one transition: every existing batch keeps its id, never moves backwards, and keeps its expected
     amount once set; the only status changes are Pending->Submitted (SubmitBatch, the pending batch) and
     Submitted->Received (ReceiveUnstakedTokens) *)
  Theorem step_monotone s e i m s' r :
    I_batches s -> execute s e i m = Ok (s', r) ->
    forall k b, nfind k (batches s) = Some b ->
    exists b', nfind k (batches s') = Some b' /\ b_id b' = b_id b /\ rank (b_status b) <= rank (b_status b')
               /\ (b_expected b <> None -> b_expected b' = b_expected b)
               /\ (b_status b' <> b_status b ->
                   (m = SubmitBatch /\ k = pending_id s /\ b_status b' = Submitted)
                   \/ (m = ReceiveUnstakedTokens k /\ b_status b = Submitted /\ b_status b' = Received)).
  Proof.
    intros HI H k b Hk.
    pose proof (exec_frame_batches va dv av s e i m s' r H) as Hf.
    assert (Hsame : frame_batches s s' -> exists b', nfind k (batches s') = Some b' /\ b_id b' = b_id b
              /\ rank (b_status b) <= rank (b_status b') /\ (b_expected b <> None -> b_expected b' = b_expected b)
              /\ (b_status b' <> b_status b -> (m = SubmitBatch /\ k = pending_id s /\ b_status b' = Submitted)
                   \/ (m = ReceiveUnstakedTokens k /\ b_status b = Submitted /\ b_status b' = Received))).
    { intros [Hb _]. rewrite Hb. exists b. repeat split; try assumption; try lia. intros Hne. congruence. }
    destruct m; try (apply Hsame; exact Hf).
    - (* LiquidUnstake: only total / count of the pending batch change *)
      apply liquid_unstake_inv in H. destruct H as (a & bp & _ & _ & Hbp & _ & _ & _ & _ & _ & _ & _ & _ & Hm).
      assert (Hbs : exists c, batches s' = ninsert (pending_id s)
                 {| b_id := b_id bp; b_total := b_total bp + a; b_expected := b_expected bp; b_received := b_received bp;
                    b_count := c; b_time := b_time bp; b_status := b_status bp |} (batches s)).
      { destruct (find_request _ _ _); destruct Hm as [_ ->]; eexists; reflexivity. }
      destruct Hbs as (c & ->). destruct (N.eq_dec k (pending_id s)) as [->|Hne].
      + rewrite Hk in Hbp. injection Hbp as <-. rewrite nfind_ninsert_eq. eexists. split; [reflexivity|]. cbn.
        repeat split; try lia. intros Hne; congruence.
      + rewrite nfind_ninsert_neq by exact Hne. exists b. repeat split; try assumption; try lia. intros Hne'; congruence.
    - (* SubmitBatch *)
      apply submit_batch_inv in H.
      destruct H as (bp & u & om & _ & Hbp & _ & _ & _ & _ & _ & _ & _ & _ & _ & _ & _ & _ & -> & _).
      destruct HI as (_ & _ & _ & Hok). destruct (Hok _ _ Hbp) as (Hbid & _ & Hpend & Hsh).
      assert (Hst : b_status bp = Pending) by (apply Hpend; reflexivity). rewrite Hst in Hsh.
      rewrite Hbid. destruct (N.eq_dec k (pending_id s)) as [->|Hne].
      + rewrite Hk in Hbp. injection Hbp as <-. rewrite nfind_ninsert_eq. eexists. split; [reflexivity|]. cbn.
        rewrite Hst. cbn. split; [congruence|]. split; [lia|]. split; [intros Hx; exfalso; apply Hx; tauto|].
        intros _. left. repeat split.
      + rewrite nfind_ninsert_neq by exact Hne.
        assert (Hne2 : k <> pending_id s + 1) by (destruct (Hok _ _ Hk) as (_ & ? & _); lia).
        rewrite nfind_ninsert_neq by exact Hne2. exists b. repeat split; try assumption; try lia. intros Hx; congruence.
    - (* ReceiveUnstakedTokens *)
      apply receive_unstaked_inv in H. destruct H as (c & bx & t & _ & _ & _ & Hbx & Hst & _ & _ & -> & _).
      destruct HI as (_ & _ & _ & Hok). destruct (Hok _ _ Hbx) as (Hbid & _). cbn. rewrite Hbid.
      destruct (N.eq_dec k batch_id) as [->|Hne].
      + rewrite Hk in Hbx. injection Hbx as <-. rewrite nfind_ninsert_eq. eexists. split; [reflexivity|]. cbn.
        rewrite Hst. cbn. split; [congruence|]. split; [lia|]. split; [reflexivity|]. intros _. right. repeat split.
      + rewrite nfind_ninsert_neq by exact Hne. exists b. repeat split; try assumption; try lia. intros Hx; congruence.
  Qed.

  (* SubmitBatch: decided exactly by "pending batch non-empty and its deadline reached" (for every caller) *)
  Definition submit_ready (s : store) (e : env) : Prop :=
    batch_has_request (pending_id s) (requests s) = true
    /\ exists b t, nfind (pending_id s) (batches s) = Some b /\ b_time b = Some t /\ t <= now_s e.

  Theorem submit_decision s e i :
    I_batches s -> stopped (cfg s) = false ->
    (forall b, nfind (pending_id s) (batches s) = Some b -> b_total b <= total_lst (st s)) ->
    match execute s e i SubmitBatch with
    | Ok (s', r) =>
        submit_ready s e
        /\ pending_id s' = pending_id s + 1
        /\ exists nb, nfind (pending_id s + 1) (batches s') = Some nb
                      /\ nb = new_batch (pending_id s + 1) (now_s e + batch_period (cfg s))
    | Err k => ~ submit_ready s e \/ k = EOverflow
    | Panic _ => True
    end.
  Proof.
    intros HI Hrun Hl.
    destruct (execute s e i SubmitBatch) as [[s' r]|k|site] eqn:H; [| | exact I].
    - apply submit_batch_inv in H.
      destruct H as (b & u & om & _ & Hb & (t & Ht & Hle) & Hreq & _ & _ & _ & _ & _ & _ & _ & _ & _ & Hp & Hbs & _).
      destruct HI as (_ & _ & _ & Hok). destruct (Hok _ _ Hb) as (Hbid & _).
      split; [split; [exact Hreq | exists b, t; repeat split; assumption]|].
      rewrite Hp, Hbs, Hbid. split; [reflexivity|]. eexists. split; [| reflexivity].
      rewrite nfind_ninsert_neq by lia. apply nfind_ninsert_eq.
    - (* an error: walk through the checks in order *)
      cbn [Staking.execute] in H. unfold execute_submit_batch, check_stopped in H. rewrite Hrun in H. cbn [bind] in H.
      destruct (one_pending_highest s HI) as ((b & Hb & Hst & Hbt) & _ & _).
      rewrite Hb in H. cbn [of_opt_err bind] in H.
      destruct (b_time b) as [t|] eqn:Ht; [| contradiction].
      destruct (now_s e <? t) eqn:Hlt.
      { left. intros (_ & b2 & t2 & Hb2 & Ht2 & Hle). rewrite Hb in Hb2. injection Hb2 as <-. rewrite Ht in Ht2. injection Ht2 as <-. lia. }
      cbn [bind] in H.
      destruct (batch_has_request (pending_id s) (requests s)) eqn:Hreq.
      2:{ left. intros (Hr & _). congruence. }
      specialize (Hl b Hb). assert (Hle : (b_total b <=? total_lst (st s)) = true) by lia. rewrite Hle in H.
      (* everything after the checks is arithmetic: only overflow errors or panics remain *)
      right.
      repeat match type of H with
      | bind (of_opt ?o ?st) _ = Err _ => destruct o; cbn [of_opt bind] in H; [| discriminate H]
      | bind (of_opt_err ?o ?ee) _ = Err _ => destruct o; cbn [of_opt_err bind] in H; [| injection H as <-; reflexivity]
      end.
      unfold oracle_msgs in H.
      match type of H with context[match ?x with Some _ => _ | None => Ok [] end] => destruct x end;
        cbn [bind] in H; [| discriminate].
      match type of H with bind (bind (of_opt ?o _) _) _ = _ => destruct o as [[? ?]|]; cbn in H; discriminate end.
  Qed.

  (* a batch becomes Received only through ReceiveUnstakedTokens by the ibc-hooks account of the staker,
     carrying the staked asset, no earlier than the time recorded at submission *)
  Theorem received_only_via_staker s e i m s' r k b b' :
    I_batches s -> execute s e i m = Ok (s', r) ->
    nfind k (batches s) = Some b -> nfind k (batches s') = Some b' ->
    b_status b <> Received -> b_status b' = Received ->
    m = ReceiveUnstakedTokens k
    /\ hook_of dv s (nc_staker (native (cfg s))) = Some (sender i)
    /\ b_status b = Submitted
    /\ (exists c, find_coin (pc_denom (protocol (cfg s))) (funds i) = Some c /\ b_received b' = Some (c_amount c))
    /\ (exists t, b_time b = Some t /\ t <= now_s e)
    /\ b_expected b' = b_expected b.
  Proof.
    intros HI H Hk Hk' Hn Hr.
    destruct (step_monotone s e i m s' r HI H k b Hk) as (b2 & Hb2 & _ & _ & _ & Hchg).
    rewrite Hk' in Hb2. injection Hb2 as <-.
    destruct Hchg as [(_ & _ & Hx) | (-> & Hsub & _)]; [congruence | congruence |].
    apply receive_unstaked_inv in H. destruct H as (c & bx & t & _ & Hhook & Hc & Hbx & _ & Ht & Hle & -> & _).
    rewrite Hk in Hbx. injection Hbx as <-.
    destruct HI as (_ & _ & _ & Hok). destruct (Hok _ _ Hk) as (Hbid & _).
    cbn in Hk'. rewrite Hbid, nfind_ninsert_eq in Hk'. injection Hk' as <-. cbn.
    repeat split; try assumption.
    - apply hook_sender_ok_true. exact Hhook.
    - exists c. split; [exact Hc | reflexivity].
    - exists t. split; assumption.
  Qed.

  (* the deadline recorded at submission is submission time + one unbonding period *)
  Theorem submitted_deadline s e i s' r :
    I_batches s -> execute s e i SubmitBatch = Ok (s', r) ->
    exists b', nfind (pending_id s) (batches s') = Some b' /\ b_status b' = Submitted
               /\ b_time b' = Some (now_s e + nc_unbonding (native (cfg s))) /\ b_expected b' <> None.
  Proof.
    intros HI H. apply submit_batch_inv in H.
    destruct H as (b & u & om & _ & Hb & _ & _ & _ & _ & _ & _ & _ & _ & _ & _ & _ & _ & -> & _).
    destruct HI as (_ & _ & _ & Hok). destruct (Hok _ _ Hb) as (Hbid & _). rewrite Hbid, nfind_ninsert_eq.
    eexists. split; [reflexivity|]. cbn. repeat split. discriminate.
  Qed.
End Lifecycle.
