(* Queries.v — what the paginated queries return (C17). *)
From MW Require Import Staking.
From MW.Proofs Require Import Tactics Maps Invariant Pagination.
Open Scope N_scope.

Lemma map_result_ok {A B} (f : A -> result B) l rs :
  map_result f l = Ok rs -> List.length rs = List.length l /\ forall n a, nth_error l n = Some a -> exists b, nth_error rs n = Some b /\ f a = Ok b.
Proof.
  revert rs. induction l as [|x l IH]; cbn; intros rs H.
  - injection H as <-. split; [reflexivity|]. intros [|n] a Ha; discriminate.
  - inv_ok H. injection H as <-. match goal with Hl : map_result f l = Ok ?ys |- _ => destruct (IH ys Hl) as [Hlen Hn] end.
    split; [cbn; rewrite Hlen; reflexivity|]. intros [|n] a Ha; cbn in *.
    + injection Ha as <-. eexists. split; [reflexivity | eassumption].
    + apply Hn. exact Ha.
Qed.

Lemma batch_to_response_ok b rsp :
  batch_to_response b = Ok rsp ->
  br_id rsp = b_id b /\ br_total rsp = b_total b /\ br_status rsp = b_status b
  /\ br_expected rsp = opt_default 0 (b_expected b) /\ br_received rsp = opt_default 0 (b_received b).
Proof.
  unfold batch_to_response. destruct (u64_max <? _); [discriminate|]. intros H; injection H as <-. repeat split.
Qed.

Definition status_filter (st : option bstatus) (b : batch) : bool :=
  match st with Some x => bstatus_eqb (b_status b) x | None => true end.

(* Batches: the responses are, item by item, the renderings of the page of the batches map *)
Theorem query_batches_spec s sa lim st rs :
  query s (QBatches sa lim st) = Ok (RBatches rs) ->
  map_result batch_to_response (map snd (page_kv (batches s) sa lim (status_filter st))) = Ok rs.
Proof.
  cbn [query]. intros H. inv_ok H. injection H as <-. rewrite <- paginate_values. assumption.
Qed.

Theorem query_ibc_queue_spec s sa lim ps :
  query s (QIbcQueue sa lim) = Ok (RIbcQueue ps) -> ps = map snd (page_kv (inflight s) sa lim (fun _ => true)).
Proof. cbn [query]. intros H. injection H as <-. apply paginate_values. Qed.

(* BatchesByIds: exactly the existing requested batches, in request order *)
Definition existing (s : store) (ids : list N) : list batch :=
  flat_map (fun k => match nfind k (batches s) with Some b => [b] | None => [] end) ids.
Theorem query_by_ids_spec s ids rs :
  query s (QBatchesByIds ids) = Ok (RBatches rs) -> map_result batch_to_response (existing s ids) = Ok rs.
Proof. cbn [query]. intros H. inv_ok H. injection H as <-. assumption. Qed.
Lemma existing_spec s ids b :
  In b (existing s ids) <-> exists k, In k ids /\ nfind k (batches s) = Some b.
Proof.
  unfold existing. rewrite in_flat_map. split.
  - intros (k & Hk & Hb). exists k. split; [exact Hk|]. destruct (nfind k (batches s)); [destruct Hb as [<-|[]]; reflexivity | contradiction].
  - intros (k & Hk & Hb). exists k. split; [exact Hk|]. rewrite Hb. left. reflexivity.
Qed.

(* UnstakeRequests: exactly that user's open requests over all batches, with current amounts, one per batch,
   ascending by batch *)
Theorem query_requests_spec s u rs :
  query s (QUnstakeRequests u) = Ok (RRequests rs) ->
  rs = filter (fun r => String.eqb (r_user r) u) (requests s).
Proof. cbn [query]. intros H. injection H as <-. reflexivity. Qed.

Lemma user_requests_sorted s u :
  I_requests s ->
  let rs := filter (fun r => String.eqb (r_user r) u) (requests s) in
  batch_sorted rs /\ NoDup (map r_batch rs) /\ (forall r, In r rs <-> In r (requests s) /\ r_user r = u).
Proof.
  intros (_ & Hnd & Hsort & _) rs. split; [apply batch_sorted_filter; exact Hsort|]. split.
  - subst rs. induction (requests s) as [|x l IH]; cbn; [constructor|].
    inversion Hnd as [|y l' Hx Hnd']; subst. destruct Hsort as [_ Hs'].
    destruct (String.eqb (r_user x) u) eqn:E; cbn; [| apply IH; assumption].
    constructor; [| apply IH; assumption]. intros Hin. apply in_map_iff in Hin as (q & Hq & Hin).
    apply filter_In in Hin as [Hin Hu]. apply String.eqb_eq in E, Hu. apply Hx. apply in_map_iff. exists q.
    split; [unfold req_key; congruence | exact Hin].
  - intros r. subst rs. rewrite filter_In. rewrite String.eqb_eq. reflexivity.
Qed.

(* AllUnstakeRequests / AllUnstakeRequestsV2: the by-user index in key order.  Without a cursor and a limit: every open
   request exactly once (a permutation of the request table), ordered by (length of user, user, batch id). *)
From Coq Require Import Permutation Sorted.

Lemma rinsert_perm r l : Permutation (rinsert r l) (r :: l).
Proof.
  induction l as [|x t IH]; cbn; [apply Permutation_refl|].
  destruct (req_index_le r x); [apply Permutation_refl|].
  eapply perm_trans; [apply perm_skip; exact IH | apply perm_swap].
Qed.
Lemma by_user_index_perm l : Permutation (by_user_index l) l.
Proof.
  induction l as [|x t IH]; cbn; [constructor|].
  eapply perm_trans; [apply rinsert_perm | apply perm_skip; exact IH].
Qed.

Lemma string_compare_refl a : String.compare a a = Eq.
Proof.
  induction a as [|c a IH]; cbn; [reflexivity|].
  unfold Ascii.compare. rewrite N.compare_refl. exact IH.
Qed.
Lemma req_index_le_total a b : req_index_le a b = false -> req_index_le b a = true.
Proof.
  unfold req_index_le. cbv zeta.
  destruct (slen (r_user a) <? slen (r_user b)) eqn:E1; [discriminate|].
  destruct (slen (r_user b) <? slen (r_user a)) eqn:E2; [reflexivity|].
  rewrite (String.compare_antisym (r_user a) (r_user b)).
  destruct (String.compare (r_user b) (r_user a)) eqn:C; cbn; try discriminate; try reflexivity.
  intros H. apply N.leb_gt in H. apply N.leb_le. lia.
Qed.

Lemma rinsert_sorted r l :
  Sorted (fun a b => req_index_le a b = true) l -> Sorted (fun a b => req_index_le a b = true) (rinsert r l).
Proof.
  induction l as [|x t IH]; cbn; intros H.
  - constructor; constructor.
  - destruct (req_index_le r x) eqn:E.
    + constructor; [exact H | constructor; exact E].
    + inversion H as [|? ? Ht Hx]; subst. constructor; [apply IH; exact Ht|].
      destruct t as [|y t']; cbn.
      * constructor. apply req_index_le_total. exact E.
      * destruct (req_index_le r y); constructor; [apply req_index_le_total; exact E|].
        inversion Hx; assumption.
Qed.
Lemma by_user_index_sorted l : Sorted (fun a b => req_index_le a b = true) (by_user_index l).
Proof. induction l as [|x t IH]; cbn; [constructor | apply rinsert_sorted; exact IH]. Qed.

Theorem query_all_requests_spec s sa lim rs :
  (query s (QAllRequests sa lim) = Ok (RRequests rs) \/ query s (QAllRequestsV2 sa lim) = Ok (RRequests rs)) ->
  rs = all_requests (requests s) sa lim.
Proof. cbn [query]. intros [H|H]; injection H as <-; reflexivity. Qed.

Lemma take_n_all {A} (l : list A) n : N.of_nat (List.length l) <= n -> take_n n l = l.
Proof.
  revert n. induction l as [|x t IH]; intros n H; cbn [take_n]; [reflexivity|].
  cbn [List.length] in H. destruct (n =? 0) eqn:E; [apply N.eqb_eq in E; lia|].
  f_equal. apply IH. apply N.eqb_neq in E. lia.
Qed.

Theorem all_requests_complete rs :
  N.of_nat (List.length rs) <= u32_max ->
  Permutation (all_requests rs None None) rs
  /\ Sorted (fun a b => req_index_le a b = true) (all_requests rs None None).
Proof.
  intros H. unfold all_requests. cbn [opt_default after_index_cursor].
  rewrite take_n_all.
  - split; [apply by_user_index_perm | apply by_user_index_sorted].
  - rewrite (Permutation_length (by_user_index_perm rs)). exact H.
Qed.
