(* HookSender.v — the ibc-hooks intermediate-sender derivation (C09): specification and injectivity. *)
From MW Require Import Staking Crypto.
From MW.Proofs Require Import Tactics Validation.
Open Scope N_scope.

(* ---------- bits ---------- *)
Lemma In_range n a : a < N.of_nat n -> In a (map N.of_nat (seq 0 n)).
Proof. intros H. apply in_map_iff. exists (N.to_nat a). split; [lia | apply in_seq; lia]. Qed.

Lemma byte_bits_val b : b < 256 -> bits_val (byte_bits b) = b.
Proof.
  intros H.
  assert (Hall : forallb (fun x => bits_val (byte_bits x) =? x) (map N.of_nat (seq 0 256)) = true) by (vm_compute; reflexivity).
  rewrite forallb_forall in Hall. specialize (Hall b (In_range 256 b H)). lia.
Qed.
Lemma byte_bits_inj a b : a < 256 -> b < 256 -> byte_bits a = byte_bits b -> a = b.
Proof. intros Ha Hb H. rewrite <- (byte_bits_val a Ha), <- (byte_bits_val b Hb), H. reflexivity. Qed.
Lemma byte_bits_length b : List.length (byte_bits b) = 8%nat.
Proof. reflexivity. Qed.

Lemma bits_val5_inj l1 l2 : List.length l1 = 5%nat -> List.length l2 = 5%nat -> bits_val l1 = bits_val l2 -> l1 = l2.
Proof.
  destruct l1 as [|a1 [|b1 [|c1 [|d1 [|e1 [|]]]]]]; try discriminate.
  destruct l2 as [|a2 [|b2 [|c2 [|d2 [|e2 [|]]]]]]; try discriminate.
  intros _ _. destruct a1, b1, c1, d1, e1, a2, b2, c2, d2, e2; vm_compute; intros H; try reflexivity; discriminate.
Qed.

Lemma chunk5_lengths_aux n : forall l, (List.length l <= n)%nat -> forall c, In c (chunk5 l) -> List.length c = 5%nat.
Proof.
  induction n as [|n IH]; intros l Hl.
  - destruct l; [intros c [] | cbn in Hl; lia].
  - destruct l as [|a [|b [|c [|d [|e r]]]]]; cbn; intros x Hx;
      try (destruct Hx as [<-|[]]; reflexivity); try contradiction.
    destruct Hx as [<-|Hx]; [reflexivity|]. apply (IH r); [cbn in Hl; lia | exact Hx].
Qed.
Lemma chunk5_lengths l : forall c, In c (chunk5 l) -> List.length c = 5%nat.
Proof. apply (chunk5_lengths_aux (List.length l)). lia. Qed.

Lemma chunk5_inj_aux n : forall l1 l2, (List.length l1 <= n)%nat -> List.length l1 = List.length l2 -> chunk5 l1 = chunk5 l2 -> l1 = l2.
Proof.
  induction n as [|n IH]; intros l1 l2 Hn Hlen H.
  - destruct l1; [destruct l2; [reflexivity | discriminate] | cbn in Hn; lia].
  - destruct l1 as [|a1 [|b1 [|c1 [|d1 [|e1 r1]]]]];
      destruct l2 as [|a2 [|b2 [|c2 [|d2 [|e2 r2]]]]]; cbn in Hlen; try discriminate Hlen; cbn in H;
      try (injection H; intros; subst; reflexivity); try reflexivity.
    injection H as -> -> -> -> -> Hr. f_equal. f_equal. f_equal. f_equal. f_equal.
    apply IH; [cbn in Hn; lia | lia | exact Hr].
Qed.
Lemma chunk5_inj l1 l2 : List.length l1 = List.length l2 -> chunk5 l1 = chunk5 l2 -> l1 = l2.
Proof. apply (chunk5_inj_aux (List.length l1)). lia. Qed.

Lemma app_inj_length {A} (a1 : list A) : forall a2 b1 b2, List.length a1 = List.length a2 -> (a1 ++ b1 = a2 ++ b2)%list -> a1 = a2 /\ b1 = b2.
Proof.
  induction a1 as [|x a1 IH]; intros [|y a2] b1 b2 Hl H; cbn in *; try discriminate; [split; [reflexivity | exact H]|].
  injection H as -> H. apply IH in H; [| lia]. destruct H as [-> ->]. split; reflexivity.
Qed.
Lemma flat_map_bits_inj bs1 : forall bs2,
  List.length bs1 = List.length bs2 -> (forall b, In b bs1 -> b < 256) -> (forall b, In b bs2 -> b < 256) ->
  flat_map byte_bits bs1 = flat_map byte_bits bs2 -> bs1 = bs2.
Proof.
  induction bs1 as [|a bs1 IH]; intros [|b bs2] Hlen H1 H2 H; try discriminate; [reflexivity|].
  cbn [flat_map] in H. apply app_inj_length in H; [| reflexivity]. destruct H as [Hab Hrest].
  apply byte_bits_inj in Hab; [| apply H1; left; reflexivity | apply H2; left; reflexivity]. subst. f_equal.
  apply IH; [cbn in Hlen; lia | intros x Hx; apply H1; right; exact Hx | intros x Hx; apply H2; right; exact Hx | exact Hrest].
Qed.

Lemma map_inj_on {A B} (f : A -> B) (P : A -> Prop) l1 : forall l2,
  (forall x y, P x -> P y -> f x = f y -> x = y) -> (forall x, In x l1 -> P x) -> (forall x, In x l2 -> P x) ->
  map f l1 = map f l2 -> l1 = l2.
Proof.
  induction l1 as [|a l1 IH]; intros [|b l2] Hf H1 H2 H; try discriminate; [reflexivity|].
  cbn in H. injection H as Hab Hr. f_equal.
  - apply Hf; [apply H1; left; reflexivity | apply H2; left; reflexivity | exact Hab].
  - apply IH; [exact Hf | intros x Hx; apply H1; right; exact Hx | intros x Hx; apply H2; right; exact Hx | exact Hr].
Qed.

Lemma flat_map_bits_length bs : List.length (flat_map byte_bits bs) = (8 * List.length bs)%nat.
Proof. induction bs as [|b bs IH]; [reflexivity|]. cbn [flat_map]. rewrite app_length, IH, byte_bits_length. cbn [List.length]. lia. Qed.

Theorem to_base32_inj bs1 bs2 :
  List.length bs1 = List.length bs2 -> (forall b, In b bs1 -> b < 256) -> (forall b, In b bs2 -> b < 256) ->
  to_base32 bs1 = to_base32 bs2 -> bs1 = bs2.
Proof.
  intros Hlen H1 H2 H. unfold to_base32 in H.
  apply (map_inj_on bits_val (fun c => List.length c = 5%nat)) in H.
  - apply chunk5_inj in H; [| rewrite !flat_map_bits_length; lia]. apply flat_map_bits_inj; assumption.
  - intros x y Hx Hy. apply bits_val5_inj; assumption.
  - apply chunk5_lengths.
  - apply chunk5_lengths.
Qed.

(* ---------- SHA-256 output shape ---------- *)
Lemma round_length st kw : List.length st = 8%nat -> List.length (round st kw) = 8%nat.
Proof.
  destruct st as [|a [|b [|c [|d [|e [|f [|g [|h [|]]]]]]]]]; cbn; try discriminate. intros _. reflexivity.
Qed.
Lemma fold_round_length l st : List.length st = 8%nat -> List.length (fold_left round l st) = 8%nat.
Proof. revert st. induction l as [|kw l IH]; cbn; intros st H; [exact H|]. apply IH, round_length, H. Qed.
Lemma map2_length f a b : List.length (map2 f a b) = Nat.min (List.length a) (List.length b).
Proof. revert b. induction a as [|x a IH]; intros [|y b]; cbn; try reflexivity. rewrite IH. reflexivity. Qed.
Lemma compress_length h blk : List.length h = 8%nat -> List.length (compress h blk) = 8%nat.
Proof. intros H. unfold compress. rewrite map2_length, fold_round_length by exact H. rewrite H. reflexivity. Qed.
Lemma fold_compress_length bl h : List.length h = 8%nat -> List.length (fold_left compress bl h) = 8%nat.
Proof. revert h. induction bl as [|b bl IH]; cbn; intros h H; [exact H|]. apply IH, compress_length, H. Qed.

Lemma word_bytes_spec w : List.length (word_bytes w) = 4%nat /\ forall b, In b (word_bytes w) -> b < 256.
Proof.
  split; [reflexivity|]. unfold word_bytes. intros b Hb. cbn in Hb.
  repeat (destruct Hb as [<-|Hb]; [apply N.mod_lt; lia|]). contradiction.
Qed.
Lemma flat_map_word_bytes ws :
  List.length (flat_map word_bytes ws) = (4 * List.length ws)%nat /\ forall b, In b (flat_map word_bytes ws) -> b < 256.
Proof.
  induction ws as [|w ws [IH1 IH2]]; [split; [reflexivity | intros ? []]|]. cbn [flat_map]. split.
  - rewrite app_length, IH1. cbn. lia.
  - intros b Hb. apply in_app_iff in Hb as [Hb|Hb]; [apply (word_bytes_spec w); exact Hb | apply IH2; exact Hb].
Qed.
Theorem sha256_bytes_shape msg : List.length (sha256_bytes msg) = 32%nat /\ forall b, In b (sha256_bytes msg) -> b < 256.
Proof.
  unfold sha256_bytes. destruct (flat_map_word_bytes (fold_left compress (blocks (S (List.length (be_words (sha_pad msg)))) (be_words (sha_pad msg))) sha_H0)) as [H1 H2].
  split; [| exact H2]. rewrite H1, fold_compress_length; reflexivity.
Qed.

(* ---------- bech32 encoding is injective in the data for a fixed prefix ---------- *)
Lemma b32_char_inj a b : a < 32 -> b < 32 -> b32_char a = b32_char b -> a = b.
Proof.
  intros Ha Hb H.
  assert (Hall : forallb (fun x => forallb (fun y => implb (Ascii.eqb (b32_char x) (b32_char y)) (x =? y))
                                     (map N.of_nat (seq 0 32))) (map N.of_nat (seq 0 32)) = true) by (vm_compute; reflexivity).
  rewrite forallb_forall in Hall. specialize (Hall a (In_range 32 a Ha)). rewrite forallb_forall in Hall.
  specialize (Hall b (In_range 32 b Hb)). rewrite H, Ascii.eqb_refl in Hall. cbn in Hall. lia.
Qed.
Lemma bytes_str_inj l1 : forall l2, (forall b, In b l1 -> b < 256) -> (forall b, In b l2 -> b < 256) -> bytes_str l1 = bytes_str l2 -> l1 = l2.
Proof.
  induction l1 as [|a l1 IH]; intros [|b l2] H1 H2 H; cbn in H; try discriminate; [reflexivity|].
  injection H as Hab Hr. f_equal.
  - rewrite <- (code_ascii_of_N a), <- (code_ascii_of_N b), Hab; [reflexivity | apply H2; left; reflexivity | apply H1; left; reflexivity].
  - apply IH; [intros x Hx; apply H1; right; exact Hx | intros x Hx; apply H2; right; exact Hx | exact Hr].
Qed.
Lemma code_lt c : code c < 256.
Proof. unfold code. apply N_ascii_bounded. Qed.

Lemma append_inv_head p : forall a b, (p ++ a = p ++ b)%string -> a = b.
Proof. induction p as [|c p IH]; cbn; intros a b H; [exact H|]. injection H as H. apply IH. exact H. Qed.

Lemma checksum_spec h d c : List.length (b32_checksum h d c) = 6%nat /\ forall v, In v (b32_checksum h d c) -> v < 32.
Proof.
  split; [reflexivity|]. unfold b32_checksum. intros v Hv. apply in_map_iff in Hv as (i & <- & _).
  assert (H : N.land (N.shiftr (N.lxor (polymod (hrp_expand h ++ d ++ [0; 0; 0; 0; 0; 0])) c) (5 * (5 - i))) 31 = (N.shiftr (N.lxor (polymod (hrp_expand h ++ d ++ [0; 0; 0; 0; 0; 0])) c) (5 * (5 - i))) mod 2 ^ 5)
    by (change 31 with (N.ones 5); apply N.land_ones).
  rewrite H. apply N.mod_lt. discriminate.
Qed.

Theorem b32_encode_inj p d1 d2 c a :
  List.length d1 = List.length d2 -> (forall v, In v d1 -> v < 32) -> (forall v, In v d2 -> v < 32) ->
  b32_encode p d1 c = Some a -> b32_encode p d2 c = Some a -> d1 = d2.
Proof.
  intros Hlen H1 H2. unfold b32_encode. destruct (check_hrp p) as [cs|]; [|discriminate].
  set (h := match cs with CUpper => lowercase p | _ => p end).
  intros E1 E2. injection E1 as E1. injection E2 as E2. rewrite <- E2 in E1. clear E2.
  apply append_inv_head in E1. change (append "1" ?x) with (String "1"%char x) in E1. injection E1 as E1.
  destruct (checksum_spec h d1 c) as [L1 B1], (checksum_spec h d2 c) as [L2 B2].
  apply bytes_str_inj in E1.
  - apply (map_inj_on (fun v => code (b32_char v)) (fun v => v < 32)) in E1.
    + apply app_inj_length in E1; [tauto | exact Hlen].
    + intros x y Hx Hy Hxy. apply b32_char_inj; [exact Hx | exact Hy|].
      rewrite <- (ascii_N_embedding (b32_char x)), <- (ascii_N_embedding (b32_char y)). unfold code in Hxy. rewrite Hxy. reflexivity.
    + intros v Hv. apply in_app_iff in Hv as [Hv|Hv]; [apply H1 | apply B1]; exact Hv.
    + intros v Hv. apply in_app_iff in Hv as [Hv|Hv]; [apply H2 | apply B2]; exact Hv.
  - intros b Hb. apply in_map_iff in Hb as (v & <- & _). apply code_lt.
  - intros b Hb. apply in_map_iff in Hb as (v & <- & _). apply code_lt.
Qed.

(* ---------- the derivation ---------- *)
(* conversion hints: never evaluate the hash / checksum functions while comparing terms *)
Strategy 1000 [sha256_bytes sha256 to_base32 polymod b32_checksum compress].
Strategy expand [derive address_hash].
Lemma bits_val5_lt l : List.length l = 5%nat -> bits_val l < 32.
Proof.
  destruct l as [|a [|b [|c [|d [|e [|]]]]]]; try discriminate. intros _.
  destruct a, b, c, d, e; vm_compute; reflexivity.
Qed.
Lemma to_base32_lt bs v : In v (to_base32 bs) -> v < 32.
Proof. unfold to_base32. intros H. apply in_map_iff in H as (c & <- & Hc). apply bits_val5_lt. eapply chunk5_lengths. exact Hc. Qed.

Lemma chunk5_length_aux n : forall l1 l2, (List.length l1 <= n)%nat -> List.length l1 = List.length l2 ->
  List.length (chunk5 l1) = List.length (chunk5 l2).
Proof.
  induction n as [|n IH]; intros l1 l2 Hn Hl.
  - destruct l1; [destruct l2; [reflexivity | discriminate] | cbn in Hn; lia].
  - destruct l1 as [|a1 [|b1 [|c1 [|d1 [|e1 r1]]]]];
      destruct l2 as [|a2 [|b2 [|c2 [|d2 [|e2 r2]]]]]; cbn in Hl; try discriminate Hl; try reflexivity.
    cbn [chunk5 List.length]. f_equal. apply IH; [cbn in Hn; lia | lia].
Qed.
Lemma to_base32_length bs1 bs2 : List.length bs1 = List.length bs2 -> List.length (to_base32 bs1) = List.length (to_base32 bs2).
Proof.
  intros H. unfold to_base32. rewrite !map_length. apply (chunk5_length_aux (List.length (flat_map byte_bits bs1))); [lia|].
  rewrite !flat_map_bits_length. lia.
Qed.

Definition no_slash (s : string) : bool := str_forall (fun ch => negb (Ascii.eqb ch "/"%char)) s.
Lemma split_at_slash c1 : forall c2 s1 s2,
  no_slash c1 = true -> no_slash c2 = true -> (c1 ++ "/" ++ s1 = c2 ++ "/" ++ s2)%string -> c1 = c2 /\ s1 = s2.
Proof.
  induction c1 as [|a c1 IH]; intros [|b c2] s1 s2 N1 N2 H; cbn in *.
  - injection H as H. split; [reflexivity | exact H].
  - injection H as Ha _. subst b. apply andb_true_iff in N2 as [N2 _]. cbn in N2. discriminate.
  - injection H as Ha _. subst a. apply andb_true_iff in N1 as [N1 _]. cbn in N1. discriminate.
  - injection H as -> H. apply andb_true_iff in N1 as [_ N1], N2 as [_ N2].
    destruct (IH c2 s1 s2 N1 N2 H) as [-> ->]. split; reflexivity.
Qed.
Lemma str_forall_app f a b : str_forall f (a ++ b)%string = str_forall f a && str_forall f b.
Proof. induction a as [|c a IH]; cbn; [reflexivity|]. rewrite IH, andb_assoc. reflexivity. Qed.
Lemma str_forall_weaken (f g : ascii -> bool) s : (forall c, f c = true -> g c = true) -> str_forall f s = true -> str_forall g s = true.
Proof.
  intros H. induction s as [|c s IH]; cbn; [tauto|]. intros Hs. apply andb_true_iff in Hs as [H1 H2]. rewrite (H c H1), (IH H2). reflexivity.
Qed.
Lemma valid_channel_no_slash c : valid_channel c = true -> no_slash c = true.
Proof.
  intros H. apply channel_ok in H as (ds & -> & _ & Hd & _). unfold no_slash. rewrite str_forall_app.
  apply andb_true_iff. split; [reflexivity|]. eapply str_forall_weaken; [| exact Hd].
  intros ch Hc. unfold is_digit in Hc. destruct (Ascii.eqb ch "/") eqn:E; [| reflexivity].
  apply Ascii.eqb_eq in E. subst. vm_compute in Hc. discriminate.
Qed.

Lemma str_bytes_inj s1 : forall s2, str_bytes s1 = str_bytes s2 -> s1 = s2.
Proof.
  induction s1 as [|a s1 IH]; intros [|b s2] H; cbn in H; try discriminate; [reflexivity|].
  injection H as Hab Hr. f_equal; [| apply IH; exact Hr].
  rewrite <- (ascii_N_embedding a), <- (ascii_N_embedding b). unfold code in Hab. rewrite Hab. reflexivity.
Qed.

(* the specification transcribed from the ibc-hooks keeper:
   bech32(prefix, SHA-256(SHA-256("ibc-wasm-hook-intermediary") || "<channel>/<sender>")) *)
Definition hook_account_spec (prefix channel sender : string) : option string :=
  b32_encode prefix
    (to_base32 (sha256_bytes (sha256 "ibc-wasm-hook-intermediary" ++ str_bytes (channel ++ "/" ++ sender)%string)))
    BECH32_CONST.

Theorem derive_spec ch snd pfx : derive ch snd pfx = hook_account_spec pfx ch snd.
Proof. reflexivity. Qed.

Theorem derive_total ch snd pfx : wf_prefix pfx -> exists a, derive ch snd pfx = Some a.
Proof.
  intros (Hl & Hc & Hu). unfold derive, b32_encode, check_hrp.
  assert (E1 : (slen pfx =? 0) || (83 <? slen pfx) = false) by lia. rewrite E1.
  change (fun c => (33 <=? code c) && (code c <=? 126)) with valid_hrp_char. rewrite Hc, Hu. cbn [negb].
  rewrite andb_false_r. eexists. reflexivity.
Qed.

Lemma derive_core (th : list N) (k1 k2 pfx a : string) :
  b32_encode pfx (to_base32 (sha256_bytes (th ++ str_bytes k1))) BECH32_CONST = Some a ->
  b32_encode pfx (to_base32 (sha256_bytes (th ++ str_bytes k2))) BECH32_CONST = Some a ->
  k1 = k2 \/ (exists x y, x <> y /\ sha256_bytes x = sha256_bytes y).
Proof.
  intros D1 D2.
  remember (th ++ str_bytes k1)%list as x eqn:Ex. remember (th ++ str_bytes k2)%list as y eqn:Ey.
  destruct (sha256_bytes_shape x) as [Lx Bx], (sha256_bytes_shape y) as [Ly By].
  assert (Hb : to_base32 (sha256_bytes x) = to_base32 (sha256_bytes y)).
  { eapply b32_encode_inj; [| | | exact D1 | exact D2].
    - apply to_base32_length. rewrite Lx, Ly. reflexivity.
    - apply to_base32_lt.
    - apply to_base32_lt. }
  apply to_base32_inj in Hb; [| rewrite Lx, Ly; reflexivity | exact Bx | exact By].
  destruct (list_eq_dec N.eq_dec x y) as [Heq|Hne]; [left | right; exists x, y; split; assumption].
  subst x y. apply app_inv_head in Heq. apply str_bytes_inj in Heq. exact Heq.
Qed.

(* distinct (channel, sender) pairs accepted by validation never map to the same account -- unless
   two different byte strings with the same SHA-256 digest are exhibited *)
Theorem derive_injective c1 s1 c2 s2 pfx a :
  valid_channel c1 = true -> valid_channel c2 = true ->
  derive c1 s1 pfx = Some a -> derive c2 s2 pfx = Some a ->
  (c1 = c2 /\ s1 = s2) \/ (exists x y, x <> y /\ sha256_bytes x = sha256_bytes y).
Proof.
  intros V1 V2 D1 D2. unfold derive, address_hash in D1, D2.
  generalize dependent (sha256 SENDER_PREFIX). intros th D1 D2.
  destruct (derive_core th (c1 ++ "/" ++ s1)%string (c2 ++ "/" ++ s2)%string pfx a D1 D2) as [Heq|Hc];
    [left | right; exact Hc].
  apply split_at_slash in Heq; [exact Heq | apply valid_channel_no_slash; exact V1 | apply valid_channel_no_slash; exact V2].
Qed.
