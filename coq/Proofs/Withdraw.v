(* Withdraw.v — pro-rata, at-most-once withdrawal (C05). *)
From MW Require Import Staking.
From MW.Proofs Require Import Tactics Arith Handlers Maps Invariant.
Open Scope N_scope.

(* payouts of any set of requests whose amounts sum to at most the batch total never exceed what was received *)
Lemma payouts_bounded (R T : N) (rs : list N) :
  T <> 0 -> sumN rs <= T -> sumN (map (fun r => R * r / T) rs) <= R.
Proof.
  intros HT Hs.
  assert (H : sumN (map (fun r => R * r / T) rs) * T <= R * sumN rs).
  { clear Hs. induction rs as [|x rs IH]; cbn [map sumN]; [lia|].
    pose proof (div_mul_le (R * x) T HT). nia. }
  assert (sumN (map (fun r => R * r / T) rs) * T <= R * T) by nia.
  nia.
Qed.

Lemma find_request_remove_same b u rs :
  NoDup (map req_key rs) -> find_request b u (remove_request b u rs) = None.
Proof.
  intros _. unfold find_request, remove_request. induction rs as [|x rs IH]; cbn; [reflexivity|].
  destruct ((r_batch x =? b) && String.eqb (r_user x) u) eqn:E; cbn; [exact IH|]. rewrite E. exact IH.
Qed.
Lemma find_request_remove_other b u b2 u2 rs :
  (b, u) <> (b2, u2) -> find_request b2 u2 (remove_request b u rs) = find_request b2 u2 rs.
Proof.
  intros Hne. unfold find_request, remove_request. induction rs as [|x rs IH]; cbn; [reflexivity|].
  destruct ((r_batch x =? b) && String.eqb (r_user x) u) eqn:E1; cbn.
  - destruct ((r_batch x =? b2) && String.eqb (r_user x) u2) eqn:E2; [| exact IH].
    exfalso. apply Hne. apply andb_true_iff in E1 as [A1 A2], E2 as [B1 B2].
    apply String.eqb_eq in A2, B2. f_equal; [lia | congruence].
  - destruct ((r_batch x =? b2) && String.eqb (r_user x) u2); [reflexivity | exact IH].
Qed.

Section Withdraw.
  Variable va : string -> string -> bool.
  Variable dv : string -> string -> string -> option string.
  Variable av : string -> bool.
  Notation execute := (execute va dv av).

  (* exact effect of a successful Withdraw *)
  Theorem withdraw_spec s e i id s' r :
    execute s e i (Withdraw id) = Ok (s', r) ->
    exists b R q om,
      stopped (cfg s) = false /\ nfind id (batches s) = Some b /\ b_status b = Received /\ b_received b = Some R
      /\ find_request (b_id b) (sender i) (requests s) = Some q /\ b_total b <> 0
      /\ r = plain (ASend (self e) (sender i)
                     {| c_denom := pc_denom (protocol (cfg s)); c_amount := R * r_amount q / b_total b |}) :: om
      /\ oracle_msgs s' e = Ok om
      /\ s' = set_requests s (remove_request (b_id b) (sender i) (requests s)).
  Proof.
    intros H. apply withdraw_inv in H. destruct H as (b & R & q & amount & om & Hs & Hb & Hst & HR & Hq & Ha & -> & Ho & ->).
    apply mul_ratio_some in Ha as (HT & -> & _). exists b, R, q, om. repeat split; assumption.
  Qed.

  (* accounts without a request in that batch receive nothing (the call fails) *)
  Theorem withdraw_needs_request s e i id b :
    nfind id (batches s) = Some b -> find_request (b_id b) (sender i) (requests s) = None ->
    forall s' r, execute s e i (Withdraw id) <> Ok (s', r).
  Proof.
    intros Hb Hq s' r H. apply withdraw_inv in H. destruct H as (b2 & R & q & amount & om & _ & Hb2 & _ & _ & Hq2 & _).
    rewrite Hb in Hb2. injection Hb2 as <-. congruence.
  Qed.

  (* at most once: after a successful withdrawal the same account cannot withdraw from that batch again *)
  Theorem withdraw_at_most_once s e i id s' r :
    I_requests s -> execute s e i (Withdraw id) = Ok (s', r) ->
    forall e' fs s'' r'', execute s' e' {| sender := sender i; funds := fs |} (Withdraw id) <> Ok (s'', r'').
  Proof.
    intros (_ & Hnd & _) H e' fs s'' r'' H2.
    apply withdraw_inv in H. destruct H as (b & R & q & amount & om & _ & Hb & _ & _ & _ & _ & -> & _).
    eapply withdraw_needs_request in H2; [exact H2 | exact Hb |]. cbn. apply find_request_remove_same. exact Hnd.
  Qed.

  (* independence of order and timing: another account's withdrawal (or the same account's withdrawal from
     another batch) leaves the batch record and this account's request untouched, hence the payout *)
  Theorem withdraw_independent s e i id s' r :
    execute s e i (Withdraw id) = Ok (s', r) ->
    batches s' = batches s
    /\ forall b, nfind id (batches s) = Some b ->
       forall b2 u2, (b_id b, sender i) <> (b2, u2) -> find_request b2 u2 (requests s') = find_request b2 u2 (requests s).
  Proof.
    intros H. apply withdraw_inv in H. destruct H as (b & R & q & amount & om & _ & Hb & _ & _ & _ & _ & -> & _).
    split; [reflexivity|]. intros b0 Hb0 b2 u2 Hne. rewrite Hb in Hb0. injection Hb0 as <-. cbn.
    apply find_request_remove_other. exact Hne.
  Qed.

  (* repeated unstakes by one account accumulate into one request; the pending total grows by the same amount *)
  Theorem unstake_accumulates s e i s' r :
    execute s e i LiquidUnstake = Ok (s', r) ->
    exists a b,
      must_pay i (lst_denom (cfg s)) = Ok a /\ nfind (pending_id s) (batches s) = Some b
      /\ match find_request (pending_id s) (sender i) (requests s) with
         | Some q => requests s' = add_to_request (pending_id s) (sender i) a (requests s)
         | None => requests s' = (requests s ++ [{| r_batch := pending_id s; r_user := sender i; r_amount := a |}])%list
         end
      /\ exists b', nfind (pending_id s) (batches s') = Some b' /\ b_total b' = b_total b + a.
  Proof.
    intros H. apply liquid_unstake_inv in H. destruct H as (a & b & Hp & _ & Hb & _ & _ & _ & _ & _ & _ & _ & _ & Hm).
    exists a, b. split; [exact Hp|]. split; [exact Hb|].
    destruct (find_request (pending_id s) (sender i) (requests s)); destruct Hm as [Hr ->]; (split; [exact Hr|]);
      rewrite nfind_ninsert_eq; eexists; split; reflexivity.
  Qed.

  (* in every reachable store the pending batch total is the sum of its requests, every other batch total
     bounds the sum of its still-open requests, hence (payouts_bounded) the open payouts of a Received batch
     never add up to more than was received *)
  Theorem batch_total_is_sum s :
    I_requests s ->
    forall k b, nfind k (batches s) = Some b ->
      (k = pending_id s -> req_sum k (requests s) = b_total b) /\ req_sum k (requests s) <= b_total b.
  Proof.
    intros (_ & _ & _ & Hsum) k b Hb. specialize (Hsum _ _ Hb). destruct (k =? pending_id s) eqn:E.
    - split; [intros _; exact Hsum | lia].
    - split; [intros ->; lia | exact Hsum].
  Qed.

  Theorem open_payouts_bounded s k b R :
    I_requests s -> nfind k (batches s) = Some b -> b_total b <> 0 ->
    sumN (map (fun a => R * a / b_total b) (map r_amount (filter (fun r => r_batch r =? k) (requests s)))) <= R.
  Proof.
    intros HI Hb HT. apply payouts_bounded; [exact HT|].
    destruct (batch_total_is_sum s HI k b Hb) as [_ H]. exact H.
  Qed.
End Withdraw.
