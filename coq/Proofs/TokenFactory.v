(* TokenFactory.v — C19: the token-factory messages of both builds, against the target chains' message definitions. *)
From MW Require Import Base Wire Staking.
From MW.Proofs Require Import Tactics Handlers Validation.
From MW.Proto Require Import Codec Sample CodecProofs.
Open Scope N_scope.

(* ---------- the target chains' definitions (osmosis tokenfactory v1beta1, miniwasm tokenfactory v1, cosmos Coin) ---------- *)
Definition fstr (tag : N) (name : string) : fdesc := {| fd_tag := tag; fd_name := name; fd_kind := KString; fd_label := LSingular; fd_ref := "" |}.
Definition fcoin (tag : N) (name : string) : fdesc :=
  {| fd_tag := tag; fd_name := name; fd_kind := KMsg; fd_label := LOptional; fd_ref := "cosmos.base.v1beta1.Coin" |}.
Definition tf_name (b : backend) (m : string) : string :=
  (match b with Osmosis => "osmosis.tokenfactory.v1beta1." | Miniwasm => "miniwasm.tokenfactory.v1." end ++ m)%string.
Definition tf_spec (b : backend) : schema :=
  [ ("cosmos.base.v1beta1.Coin", [fstr 1 "denom"; fstr 2 "amount"]);
    (tf_name b "MsgCreateDenom", [fstr 1 "sender"; fstr 2 "subdenom"]);
    (tf_name b "MsgMint", [fstr 1 "sender"; fcoin 2 "amount"; fstr 3 "mint_to_address"]);
    (tf_name b "MsgBurn", match b with
                          | Osmosis => [fstr 1 "sender"; fcoin 2 "amount"; fstr 3 "burn_from_address"]
                          | Miniwasm => [fstr 1 "sender"; fcoin 2 "amount"]
                          end) ]%string.

Definition tf_url (b : backend) (m : string) : string := ("/" ++ tf_name b m)%string.

Lemma tf_pkg_url b m : (tf_pkg b ++ m)%string = tf_url b m.
Proof. destruct b; reflexivity. Qed.

(* ---------- bytes: the renderer emits the canonical encoding of the typed value ---------- *)
Lemma f_string_enc tag s : s <> EmptyString -> f_string tag s = enc_fval tag (FBytes s).
Proof. intros H. unfold f_string. destruct s; [congruence | reflexivity]. Qed.

Definition coin_val (c : coin) : mval := [(1, FBytes (c_denom c)); (2, FBytes (N_to_string (c_amount c)))].

Lemma N_to_string_nonempty n : N_to_string n <> EmptyString.
Proof. unfold N_to_string. destruct (N.to_uint n); cbn; discriminate. Qed.

(* ---------- sizes: nothing the contract can hold reaches 2^64 bytes ---------- *)
Definition small (s : string) : Prop := slen s < 2 ^ 32.

Lemma slen_app a b : slen (a ++ b)%string = slen a + slen b.
Proof. unfold slen. rewrite str_length_app. lia. Qed.

Lemma varint_fuel_len f : forall n, (String.length (varint_fuel f n) <= f)%nat.
Proof.
  induction f as [|f IH]; intros n; [cbn; lia|]. rewrite varint_fuel_unfold.
  destruct (n <? 128); cbn [String.length]; [lia|]. specialize (IH (n / 128)). lia.
Qed.

Lemma size_nat_le64 n : n < 2 ^ 64 -> (N.size_nat n <= 64)%nat.
Proof.
  intros H. destruct n as [|p]; [cbn; lia|].
  assert (E : N.of_nat (N.size_nat (N.pos p)) = N.size (N.pos p)).
  { cbn. induction p as [p IH|p IH|]; cbn [Pos.size_nat Pos.size]; try reflexivity; rewrite Nat2N.inj_succ, IH; lia. }
  pose proof (N.size_le (N.pos p)) as L.
  assert (N.size (N.pos p) < 66).
  { apply (N.pow_lt_mono_r_iff 2); [lia|]. change (2 ^ 66) with (4 * 2 ^ 64). lia. }
  assert (N.size (N.pos p) <= 64 \/ N.size (N.pos p) = 65) as [C|C] by lia; [lia|].
  rewrite C in L. change (2 ^ 65) with (2 * 2 ^ 64) in L. lia.
Qed.

Lemma slen_varint n : n < 2 ^ 64 -> slen (varint n) <= 65.
Proof.
  intros H. unfold varint, slen. pose proof (varint_fuel_len (S (N.size_nat n)) n). pose proof (size_nat_le64 n H). lia.
Qed.

Lemma slen_len_delim tag s : tag < 2 ^ 60 -> slen s < 2 ^ 63 -> slen (len_delim tag s) <= 130 + slen s.
Proof.
  intros Ht Hs. unfold len_delim, key. rewrite !slen_app.
  assert (tag * 8 + 2 < 2 ^ 64) by (change (2 ^ 64) with (2 ^ 60 * 16); lia).
  assert (slen s < 2 ^ 64) by (change (2 ^ 64) with (2 * 2 ^ 63); lia).
  pose proof (slen_varint (tag * 8 + 2)). pose proof (slen_varint (slen s)). lia.
Qed.

(* ---------- typed values of the three messages ---------- *)
Definition create_val (sender sub : string) : mval := [(1, FBytes sender); (2, FBytes sub)].
Definition mint_val (sender : string) (c : coin) (to : string) : mval := [(1, FBytes sender); (2, FMsg (coin_val c)); (3, FBytes to)].
Definition burn_val (b : backend) (sender : string) (c : coin) (from : string) : mval :=
  match b with
  | Osmosis => [(1, FBytes sender); (2, FMsg (coin_val c)); (3, FBytes from)]
  | Miniwasm => [(1, FBytes sender); (2, FMsg (coin_val c))]
  end.

Definition stargate_bytes (m : cmsg) : string := match m with CStargate _ b => b | _ => EmptyString end.
Definition stargate_url (m : cmsg) : string := match m with CStargate u _ => u | _ => EmptyString end.

Lemma append_nil_r' s : (s ++ "")%string = s.
Proof. apply append_nil_r. Qed.

Lemma enc_coin_val c : c_denom c <> EmptyString -> enc_coin c = encode (coin_val c).
Proof.
  intros H. unfold enc_coin, encode, coin_val. cbn [map concat_str fst snd].
  rewrite (f_string_enc 1 _ H), (f_string_enc 2 _ (N_to_string_nonempty _)), append_nil_r. reflexivity.
Qed.

Theorem render_create b sender sub :
  sender <> EmptyString -> sub <> EmptyString ->
  render b (ACreateDenom sender sub) = CStargate (tf_url b "MsgCreateDenom") (encode (create_val sender sub)).
Proof.
  intros H1 H2. cbn [render]. rewrite tf_pkg_url. f_equal. unfold encode, create_val. cbn [map concat_str fst snd].
  rewrite (f_string_enc 1 _ H1), (f_string_enc 2 _ H2), append_nil_r. reflexivity.
Qed.

Theorem render_mint b sender c to :
  sender <> EmptyString -> to <> EmptyString -> c_denom c <> EmptyString ->
  render b (AMint sender c to) = CStargate (tf_url b "MsgMint") (encode (mint_val sender c to)).
Proof.
  intros H1 H2 H3. cbn [render]. rewrite tf_pkg_url. f_equal. unfold encode, mint_val. cbn [map concat_str fst snd].
  rewrite (f_string_enc 1 _ H1), (f_string_enc 3 _ H2), append_nil_r, (enc_coin_val c H3). reflexivity.
Qed.

Theorem render_burn b sender c from :
  sender <> EmptyString -> from <> EmptyString -> c_denom c <> EmptyString ->
  render b (ABurn sender c from) = CStargate (tf_url b "MsgBurn") (encode (burn_val b sender c from)).
Proof.
  intros H1 H2 H3. cbn [render]. rewrite tf_pkg_url. f_equal. unfold encode, burn_val.
  destruct b; cbn [map concat_str fst snd]; rewrite (f_string_enc 1 _ H1), ?(f_string_enc 3 _ H2), !append_nil_r, (enc_coin_val c H3); reflexivity.
Qed.

(* ---------- the values are values of the target chain's message types ---------- *)
Lemma small_lt64 s : small s -> slen s < 2 ^ 64.
Proof. unfold small. intros H. assert (2 ^ 32 < 2 ^ 64) by (apply N.pow_lt_mono_r; lia). lia. Qed.

Lemma coin_typed b c : small (c_denom c) -> small (N_to_string (c_amount c)) -> typed (tf_spec b) 1 "cosmos.base.v1beta1.Coin" (coin_val c).
Proof.
  intros H1 H2. cbn [typed]. eexists. split; [destruct b; reflexivity|].
  repeat constructor; cbn [fst snd to_rec to_wire valid_wire]; try lia; apply small_lt64; assumption.
Qed.

Lemma coin_bytes_bound c : small (c_denom c) -> small (N_to_string (c_amount c)) -> slen (encode (coin_val c)) < 2 ^ 34.
Proof.
  unfold small. intros H1 H2. unfold encode, coin_val. cbn [map concat_str fst snd enc_fval]. rewrite !slen_app.
  assert (P : 2 ^ 32 < 2 ^ 63) by (apply N.pow_lt_mono_r; lia).
  assert (Q : 1 < 2 ^ 60) by (change 1 with (2 ^ 0); apply N.pow_lt_mono_r; lia).
  assert (Q2 : 2 < 2 ^ 60) by (change 2 with (2 ^ 1) at 1; apply N.pow_lt_mono_r; lia).
  pose proof (slen_len_delim 1 (c_denom c) Q ltac:(lia)). pose proof (slen_len_delim 2 (N_to_string (c_amount c)) Q2 ltac:(lia)).
  change (slen "") with 0. change (2 ^ 34) with (4 * 2 ^ 32). lia.
Qed.

Definition small_coin (c : coin) : Prop := small (c_denom c) /\ small (N_to_string (c_amount c)).

Lemma coin_record_valid tag c : 1 <= tag -> tag < 2 ^ 60 -> small_coin c -> valid_record (tag, WLen (encode (coin_val c))).
Proof.
  intros H1 H2 [Hd Ha]. unfold valid_record, valid_wire. cbn [fst snd]. repeat split; try assumption.
  pose proof (coin_bytes_bound c Hd Ha). assert (2 ^ 34 < 2 ^ 64) by (apply N.pow_lt_mono_r; lia). lia.
Qed.

Lemma typed_intro Sc dep name d m :
  lookup_msg Sc name = Some d ->
  Forall (fun tv => valid_record (to_rec tv) /\ field_typed (typed Sc dep) d (fst tv) (snd tv)) m ->
  typed Sc (S dep) name m.
Proof. intros H1 H2. exists d. split; assumption. Qed.

Lemma str_field_ok (sub : string -> mval -> Prop) d tag name s :
  lookup_field d tag = Some (fstr tag name) -> small s -> 1 <= tag -> tag < 2 ^ 60 ->
  valid_record (to_rec (tag, FBytes s)) /\ field_typed sub d (fst (tag, FBytes s)) (snd (tag, FBytes s)).
Proof.
  intros L Hs H1 H2. split.
  - unfold valid_record, valid_wire. cbn [fst snd to_rec to_wire]. repeat split; try assumption. apply small_lt64; exact Hs.
  - unfold field_typed. cbn [fst snd]. rewrite L. left. reflexivity.
Qed.

Lemma coin_field_ok b d tag name c :
  lookup_field d tag = Some (fcoin tag name) -> small_coin c -> 1 <= tag -> tag < 2 ^ 60 ->
  valid_record (to_rec (tag, FMsg (coin_val c))) /\ field_typed (typed (tf_spec b) 1) d (fst (tag, FMsg (coin_val c))) (snd (tag, FMsg (coin_val c))).
Proof.
  intros L Hc H1 H2. split.
  - cbn [to_rec to_wire fst snd]. apply coin_record_valid; assumption.
  - unfold field_typed. cbn [fst snd]. rewrite L. split; [reflexivity|]. split; [reflexivity|]. destruct Hc. apply coin_typed; assumption.
Qed.

Lemma create_typed b sender sub : small sender -> small sub -> typed (tf_spec b) 2 (tf_name b "MsgCreateDenom") (create_val sender sub).
Proof.
  intros H1 H2. apply (typed_intro _ 1 _ [fstr 1 "sender"; fstr 2 "subdenom"]%string); [destruct b; reflexivity|].
  constructor; [eapply str_field_ok; [reflexivity | assumption | lia | reflexivity]|].
  constructor; [eapply str_field_ok; [reflexivity | assumption | lia | reflexivity]|]. constructor.
Qed.

Lemma mint_typed b sender c to :
  small sender -> small to -> small_coin c -> typed (tf_spec b) 2 (tf_name b "MsgMint") (mint_val sender c to).
Proof.
  intros H1 H2 H3. apply (typed_intro _ 1 _ [fstr 1 "sender"; fcoin 2 "amount"; fstr 3 "mint_to_address"]%string); [destruct b; reflexivity|].
  constructor; [eapply str_field_ok; [reflexivity | assumption | lia | reflexivity]|].
  constructor; [eapply coin_field_ok; [reflexivity | assumption | lia | reflexivity]|].
  constructor; [eapply str_field_ok; [reflexivity | assumption | lia | reflexivity]|]. constructor.
Qed.

Lemma burn_typed b sender c from :
  small sender -> small from -> small_coin c -> typed (tf_spec b) 2 (tf_name b "MsgBurn") (burn_val b sender c from).
Proof.
  intros H1 H2 H3. destruct b.
  - apply (typed_intro _ 1 _ [fstr 1 "sender"; fcoin 2 "amount"; fstr 3 "burn_from_address"]%string); [reflexivity|].
    constructor; [eapply str_field_ok; [reflexivity | assumption | lia | reflexivity]|].
    constructor; [eapply coin_field_ok; [reflexivity | assumption | lia | reflexivity]|].
    constructor; [eapply str_field_ok; [reflexivity | assumption | lia | reflexivity]|]. constructor.
  - apply (typed_intro _ 1 _ [fstr 1 "sender"; fcoin 2 "amount"]%string); [reflexivity|].
    constructor; [eapply str_field_ok; [reflexivity | assumption | lia | reflexivity]|].
    constructor; [eapply coin_field_ok; [reflexivity | assumption | lia | reflexivity]|]. constructor.
Qed.

(* the emitted bytes decode, under the target chain's definition, to exactly the sender/holder, denom and amount *)
Theorem create_decodes b sender sub :
  small sender -> small sub ->
  decode (tf_spec b) 2 (tf_name b "MsgCreateDenom") (encode (create_val sender sub)) = Some (create_val sender sub).
Proof. intros H1 H2. apply typed_roundtrip. apply create_typed; assumption. Qed.

Theorem mint_decodes b sender c to :
  small sender -> small to -> small_coin c ->
  decode (tf_spec b) 2 (tf_name b "MsgMint") (encode (mint_val sender c to)) = Some (mint_val sender c to).
Proof. intros H1 H2 H3. apply typed_roundtrip. apply mint_typed; assumption. Qed.

Theorem burn_decodes b sender c from :
  small sender -> small from -> small_coin c ->
  decode (tf_spec b) 2 (tf_name b "MsgBurn") (encode (burn_val b sender c from)) = Some (burn_val b sender c from).
Proof. intros H1 H2 H3. apply typed_roundtrip. apply burn_typed; assumption. Qed.

(* ---------- every message that is not a token-factory message renders identically in both builds ---------- *)
Definition is_tf (m : amsg) : bool := match m with ACreateDenom _ _ | AMint _ _ _ | ABurn _ _ _ => true | _ => false end.
Theorem render_backend_independent m : is_tf m = false -> render Osmosis m = render Miniwasm m.
Proof. destruct m; cbn; intros H; try discriminate; reflexivity. Qed.

(* ---------- which calls emit token-factory messages, and with what ---------- *)
From MW.Proofs Require Import Ledger Invariant.

Definition tfs (r : response) : list amsg := filter is_tf (map sm_msg r).
Lemma tfs_app (a b : response) : tfs (a ++ b)%list = (tfs a ++ tfs b)%list.
Proof. unfold tfs. rewrite map_app, filter_app. reflexivity. Qed.

Section Calls.
  Variable va : string -> string -> bool.
  Variable dv : string -> string -> string -> option string.
  Variable av : string -> bool.
  Notation execute := (execute va dv av).
  Notation apply_call := (apply_call va dv av).

  Lemma oracle_no_tf s e om : oracle_msgs s e = Ok om -> tfs om = [].
  Proof.
    intros H. apply oracle_msgs_shape in H. destruct (pc_oracle (protocol (cfg s))).
    - destruct H as (r & p & _ & ->). reflexivity.
    - subst. reflexivity.
  Qed.

  Theorem instantiate_creates_denom e i m s r :
    instantiate va e i m = Ok (s, r) ->
    r = [plain (ACreateDenom (self e) (im_lst m))]
    /\ lst_denom (cfg s) = ("factory/" ++ self e ++ "/" ++ im_lst m)%string
    /\ 3 < slen (im_lst m) /\ total_lst (st s) = 0.
  Proof.
    unfold instantiate. intros H. inv_ok H.
    repeat match goal with Hs : of_opt_err _ _ = Ok _ |- _ => apply of_opt_err_ok in Hs end.
    match goal with Hd : validate_denom _ = Some _ |- _ => apply denom_ok in Hd as (-> & Hd1 & Hd2) end.
    injection H as <- <-. cbn. repeat split; assumption.
  Qed.

  (* one call: the LST denom never changes; only a successful stake mints, only a successful batch submission burns,
     and the amount is exactly the change of the contract's LST total *)
  Theorem call_token_factory s c :
    let s' := fst (apply_call s c) in
    let r := snd (apply_call s c) in
    lst_denom (cfg s') = lst_denom (cfg s)
    /\ match c with
       | CExec e i (LiquidStake _ _ _) =>
           tfs r = [] \/
           exists m, tfs r = [AMint (self e) {| c_denom := lst_denom (cfg s); c_amount := m |} (self e)]
                     /\ m <> 0 /\ total_lst (st s') = total_lst (swept (st s)) + m
       | CExec e i SubmitBatch =>
           tfs r = [] \/
           exists b, nfind (pending_id s) (batches s) = Some b
                     /\ tfs r = [ABurn (self e) {| c_denom := lst_denom (cfg s); c_amount := b_total b |} (self e)]
                     /\ b_total b <= total_lst (st s) /\ total_lst (st s') = total_lst (st s) - b_total b
       | _ => tfs r = []
       end.
  Proof.
    unfold Ledger.apply_call. cbv zeta.
    destruct c as [e i m | id rr | m].
    - destruct (execute s e i m) as [[s' r]|k|site] eqn:H; cbn [fst snd].
      2,3: split; [reflexivity|]; destruct m; try reflexivity; left; reflexivity.
      destruct m.
      + apply liquid_stake_inv in H.
        destruct H as (a & mt & om & Hp & _ & _ & _ & _ & Hm & Hm0 & _ & Hst & Hn & Hl & Hc & _ & _ & _ & _ & _ & _ & Ho & Hr).
        split; [rewrite Hc; reflexivity|]. right. exists mt. apply oracle_no_tf in Ho.
        split; [| split; [exact Hm0 | rewrite Hst; reflexivity]].
        destruct Hr as [(_ & -> & _) | (_ & -> & _)]; rewrite !tfs_app, Ho; reflexivity.
      + apply liquid_unstake_inv in H. destruct H as (a & b & _ & _ & _ & -> & Hc & _). split; [rewrite Hc; reflexivity | reflexivity].
      + apply submit_batch_inv in H.
        destruct H as (b & u & om & _ & Hb & _ & _ & Hle & Hu & Hst & Hc & _ & _ & _ & _ & _ & _ & Hbs & Ho & ->).
        split; [rewrite Hc; reflexivity|]. right. exists b. apply oracle_no_tf in Ho.
        split; [exact Hb|]. split; [| split; [exact Hle | rewrite Hst; reflexivity]].
        match goal with |- tfs (?x :: om) = _ => change (x :: om) with ([x] ++ om)%list end. rewrite tfs_app, Ho. reflexivity.
      + apply withdraw_inv in H. destruct H as (b & rc & q & am & om & _ & _ & _ & _ & _ & _ & -> & Ho & ->).
        apply oracle_no_tf in Ho. split; [reflexivity|].
        match goal with |- tfs (?x :: om) = _ => change (x :: om) with ([x] ++ om)%list end. rewrite tfs_app, Ho. reflexivity.
      + apply add_validator_inv in H. destruct H as (_ & _ & _ & -> & ->). split; reflexivity.
      + apply remove_validator_inv in H. destruct H as (_ & _ & _ & -> & ->). split; reflexivity.
      + apply transfer_ownership_inv in H. destruct H as (_ & _ & -> & ->). split; reflexivity.
      + apply accept_ownership_inv in H. destruct H as (_ & _ & -> & ->). split; reflexivity.
      + apply revoke_ownership_inv in H. destruct H as (_ & -> & ->). split; reflexivity.
      + apply update_config_inv in H. destruct H as (? & ? & ? & ? & _ & _ & _ & _ & _ & -> & ->). split; reflexivity.
      + apply receive_rewards_inv in H.
        destruct H as (c & fee & om & _ & _ & _ & Hc & Hf & Hle & Hst & Hcf & _ & _ & _ & _ & _ & _ & _ & Ho & ->).
        apply oracle_no_tf in Ho. split; [rewrite Hcf; reflexivity|]. rewrite !tfs_app, Ho.
        destruct (fee_treasury (fees (cfg s))); reflexivity.
      + apply receive_unstaked_inv in H. destruct H as (c & b & t & _ & _ & _ & _ & _ & _ & _ & -> & ->). split; reflexivity.
      + apply circuit_breaker_inv in H. destruct H as (_ & -> & ->). split; reflexivity.
      + apply resume_inv in H. destruct H as (_ & -> & Ho). apply oracle_no_tf in Ho. split; [reflexivity | exact Ho].
      + apply recover_inv in H. destruct H as (? & ? & ? & ? & ? & _ & _ & _ & _ & _ & _ & -> & ->). split; reflexivity.
      + apply fee_withdraw_inv in H. destruct H as (t & _ & _ & _ & -> & ->). split; reflexivity.
    - destruct (reply s id rr) as [[s' r]|k|site] eqn:H; cbn [fst snd]; try (split; reflexivity).
      unfold reply in H. destruct (nfind id (waitq s)); [|discriminate]. destruct rr; try discriminate; injection H as <- <-; split; reflexivity.
    - destruct (sudo s m) as [[s' r]|k|site] eqn:H; cbn [fst snd]; try (split; reflexivity).
      unfold sudo in H. destruct m.
      + destruct (negb _); [injection H as <- <-; split; reflexivity|]. destruct (nfind seq (inflight s)); [destruct success|]; injection H as <- <-; split; reflexivity.
      + destruct (negb _); [injection H as <- <-; split; reflexivity|]. destruct (nfind seq (inflight s)); injection H as <- <-; split; reflexivity.
  Qed.
End Calls.

(* ---------- every history ---------- *)
Section History.
  Variable va : string -> string -> bool.
  Variable dv : string -> string -> string -> option string.
  Variable av : string -> bool.
  Notation apply_call := (apply_call va dv av).

  Definition after (s0 : store) (cs : list call) : store := fold_left (fun s c => fst (apply_call s c)) cs s0.

  Theorem denom_fixed_forever e0 i0 m0 s0 r0 cs :
    instantiate va e0 i0 m0 = Ok (s0, r0) ->
    lst_denom (cfg (after s0 cs)) = ("factory/" ++ self e0 ++ "/" ++ im_lst m0)%string.
  Proof.
    intros H. apply instantiate_creates_denom in H as (_ & Hd & _). revert s0 Hd.
    induction cs as [|c cs IH]; intros s0 Hd; [exact Hd|]. cbn [after fold_left]. apply IH.
    pose proof (call_token_factory va dv av s0 c) as [Hc _]. cbv zeta in Hc. rewrite Hc. exact Hd.
  Qed.
End History.
