(* TreasuryProofs.v — trader-only swaps on allow-listed routes, admin-only spending (C13). *)
From MW Require Import Treasury.
From MW.Proofs Require Import Tactics.
Open Scope N_scope.

Lemma hop_eqb_eq a b : hop_eqb a b = true <-> a = b.
Proof.
  unfold hop_eqb. destruct a as [p1 i1 o1], b as [p2 i2 o2]; cbn. split.
  - intros H. apply andb_true_iff in H as [H H3]. apply andb_true_iff in H as [H1 H2].
    apply String.eqb_eq in H2, H3. assert (p1 = p2) by lia. subst. reflexivity.
  - intros H; injection H as -> -> ->. rewrite N.eqb_refl, !String.eqb_refl. reflexivity.
Qed.
Lemma route_eqb_eq a b : route_eqb a b = true <-> a = b.
Proof.
  revert b. induction a as [|x a IH]; intros [|y b]; cbn; try (split; [discriminate | discriminate]); [tauto|].
  rewrite andb_true_iff, hop_eqb_eq, IH. split; [intros [-> ->]; reflexivity | intros H; injection H as -> ->; tauto].
Qed.
Lemma route_allowed_spec allowed r : route_allowed allowed r = true <-> r <> [] /\ In r allowed.
Proof.
  unfold route_allowed. destruct r as [|h r]; [split; [discriminate | intros [H _]; congruence]|].
  rewrite existsb_exists. split.
  - intros (a & Ha & He). apply route_eqb_eq in He. subst. split; [discriminate | exact Ha].
  - intros [_ H]. exists (h :: r). split; [exact H | apply route_eqb_eq; reflexivity].
Qed.

Section T.
  Variable va : string -> string -> bool.
  Variable av : string -> bool.
  Notation texecute := (texecute va av).

  Theorem swap_in_spec s e who routes tin min_out s' r :
    texecute s e who (TSwapExactAmountIn routes tin min_out) = Ok (s', r) ->
    who = t_trader s /\ routes <> [] /\ In routes (t_routes s)
    /\ (exists h rest, routes = h :: rest /\ h_in h = c_denom tin)
    /\ s' = s /\ r = [plain (ASwapIn (t_self e) routes tin min_out)].
  Proof.
    cbn [Treasury.texecute]. intros H. inv_ok H.
    match goal with Hs : String.eqb _ _ = true |- _ => apply String.eqb_eq in Hs end.
    match goal with Hr : route_allowed _ _ = true |- _ => apply route_allowed_spec in Hr as [Hne Hin] end.
    destruct routes as [|h rest]; [discriminate|]. inv_ok H.
    match goal with Hd : String.eqb (h_in h) _ = true |- _ => apply String.eqb_eq in Hd end.
    injection H as <- <-. repeat split; try assumption; try congruence. exists h, rest. split; [reflexivity | assumption].
  Qed.

  Theorem swap_out_spec s e who routes tout max_in s' r :
    texecute s e who (TSwapExactAmountOut routes tout max_in) = Ok (s', r) ->
    who = t_trader s /\ routes <> [] /\ In routes (t_routes s)
    /\ (exists h rest, rev routes = h :: rest /\ h_out h = c_denom tout)
    /\ s' = s /\ r = [plain (ASwapOut (t_self e) routes tout max_in)].
  Proof.
    cbn [Treasury.texecute]. intros H. inv_ok H.
    match goal with Hs : String.eqb _ _ = true |- _ => apply String.eqb_eq in Hs end.
    match goal with Hr : route_allowed _ _ = true |- _ => apply route_allowed_spec in Hr as [Hne Hin] end.
    destruct (rev routes) as [|h rest] eqn:Er; [discriminate|]. inv_ok H.
    match goal with Hd : String.eqb (h_out h) _ = true |- _ => apply String.eqb_eq in Hd end.
    injection H as <- <-. repeat split; try assumption; try congruence. exists h, rest. split; [reflexivity | assumption].
  Qed.

  (* prefixes, suffixes, reorderings and concatenations of allowed routes are refused unless themselves listed *)
  Theorem unlisted_route_refused s e who routes c lim :
    ~ In routes (t_routes s) ->
    (forall s' r, texecute s e who (TSwapExactAmountIn routes c lim) <> Ok (s', r))
    /\ (forall s' r, texecute s e who (TSwapExactAmountOut routes c lim) <> Ok (s', r)).
  Proof.
    intros Hn. split; intros s' r H.
    - apply swap_in_spec in H. tauto.
    - apply swap_out_spec in H. tauto.
  Qed.

  Theorem spend_spec s e who amount receiver channel s' r :
    texecute s e who (TSpendFunds amount receiver channel) = Ok (s', r) ->
    t_admin s = Some who /\ s' = s
    /\ match channel with
       | None => va receiver T_LOCAL_PREFIX = true /\ r = [plain (ABankSend receiver amount)]
       | Some ch => va receiver T_REMOTE_PREFIX = true
                    /\ r = [plain (ATransfer ch receiver amount (t_self e) (t_now_ns e + T_IBC_TIMEOUT_NS) (ibc_memo (t_self e)))]
       end.
  Proof.
    cbn [Treasury.texecute]. intros H. inv_ok H.
    match goal with Ha : t_is_admin _ _ = true |- _ =>
      unfold t_is_admin in Ha; destruct (t_admin s) as [a|]; cbn in Ha; [apply String.eqb_eq in Ha; subst a | discriminate] end.
    destruct channel as [ch|]; inv_ok H.
    - match goal with Hs : of_opt _ _ = Ok _ |- _ => apply of_opt_ok in Hs; apply add64_some in Hs as [-> _] end.
      injection H as <- <-. repeat split; assumption.
    - injection H as <- <-. repeat split; assumption.
  Qed.

  Theorem tupdate_spec s e who trader routes s' r :
    texecute s e who (TUpdateConfig trader routes) = Ok (s', r) ->
    t_admin s = Some who /\ r = []
    /\ t_admin s' = t_admin s /\ t_pending_owner s' = t_pending_owner s /\ t_owner_min_time s' = t_owner_min_time s
    /\ t_version s' = t_version s
    /\ match trader with Some x => av x = true /\ t_trader s' = x | None => t_trader s' = t_trader s end
    /\ match routes with Some x => t_routes s' = x | None => t_routes s' = t_routes s end.
  Proof.
    cbn [Treasury.texecute]. intros H. inv_ok H.
    match goal with Ha : t_is_admin _ _ = true |- _ =>
      unfold t_is_admin in Ha; destruct (t_admin s) as [a|]; cbn in Ha; [apply String.eqb_eq in Ha; subst a | discriminate] end.
    injection H as <- <-. cbn. repeat split.
    - destruct trader as [x|].
      + match goal with Hs : (if av x then _ else _) = Ok _ |- _ => destruct (av x) eqn:Hv; [injection Hs as <-; split; reflexivity | discriminate] end.
      + match goal with Hs : Ok _ = Ok _ |- _ => injection Hs as <-; reflexivity end.
    - destruct routes; reflexivity.
  Qed.
End T.
