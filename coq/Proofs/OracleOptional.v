(* OracleOptional.v — C15: whatever succeeds with an oracle configured succeeds without one, with the same effects
   and the same messages except the oracle post. *)
From MW Require Import Base Wire Staking.
From MW.Proofs Require Import Tactics Handlers.
Open Scope N_scope.

Definition no_oracle_p (p : protocol_cfg) : protocol_cfg :=
  {| pc_prefix := pc_prefix p; pc_channel := pc_channel p; pc_denom := pc_denom p; pc_min := pc_min p; pc_oracle := None |}.
Definition drop_cfg (c : config) : config :=
  {| native := native c; protocol := no_oracle_p (protocol c); fees := fees c; lst_denom := lst_denom c;
     monitors := monitors c; batch_period := batch_period c; stopped := stopped c |}.
(* the same store with no oracle address configured *)
Definition drop (s : store) : store := set_cfg s (drop_cfg (cfg s)).
Definition is_oracle (sm : submsg) : bool := match sm_msg sm with AOracle _ _ _ _ _ => true | _ => false end.
Definition non_oracle (r : response) : response := filter (fun sm => negb (is_oracle sm)) r.

Ltac simp_drop :=
  cbn [drop set_cfg set_st set_admin set_batches set_pending_id set_requests set_inflight set_waitq
       cfg st admin batches pending_id requests inflight waitq version
       drop_cfg no_oracle_p native protocol fees lst_denom monitors batch_period stopped set_stopped set_validators
       pc_prefix pc_channel pc_denom pc_min pc_oracle] in *.
Ltac replay :=
  repeat match goal with
    | E : ?x = Ok _ |- context[?x] => rewrite E; cbn [bind]
    | E : ?x = Some _ |- context[?x] => rewrite E
    | C : ?c = true |- context[if ?c then _ else _] => rewrite C; cbn [bind]
    | C : ?c = false |- context[if ?c then _ else _] => rewrite C; cbn [bind]
    end.

Section OO.
  Variable va : string -> string -> bool.
  Variable dv : string -> string -> string -> option string.
  Variable av : string -> bool.
  Notation execute := (execute va dv av).

  Lemma oracle_only s e om : oracle_msgs s e = Ok om -> non_oracle om = [].
  Proof. intros H. apply oracle_msgs_shape in H. destruct (pc_oracle _); [destruct H as (? & ? & _ & ->)|subst]; reflexivity. Qed.

  Lemma non_oracle_app a b : non_oracle (a ++ b) = (non_oracle a ++ non_oracle b)%list.
  Proof. unfold non_oracle. apply filter_app. Qed.

  Lemma non_oracle_cons x r : non_oracle (x :: r) = ((if is_oracle x then [] else [x]) ++ non_oracle r)%list.
  Proof. unfold non_oracle. cbn [filter]. destruct (is_oracle x); reflexivity. Qed.

  Lemma ibc_sub_drop s e rcv c id s1 sm :
    ibc_sub s e rcv c id = Ok (s1, sm) -> ibc_sub (drop s) e rcv c id = Ok (drop s1, sm) /\ is_oracle sm = false.
  Proof.
    intros H. unfold ibc_sub in *. inv_ok H. simp_drop. replay.
    destruct (nfind _ (waitq s)); [discriminate|]. inversion H; subst. split; reflexivity.
  Qed.

  Ltac finish H :=
    unfold oracle_msgs; simp_drop; cbn [bind];
    inversion H; subst; clear H;
    repeat (rewrite non_oracle_app || rewrite non_oracle_cons);
    repeat match goal with Ho : oracle_msgs _ _ = Ok ?om |- _ => rewrite (oracle_only _ _ _ Ho); clear Ho end;
    try reflexivity; try (f_equal; f_equal; reflexivity).

  Lemma submit_drop s e s' r :
    execute_submit_batch s e = Ok (s', r) -> execute_submit_batch (drop s) e = Ok (drop s', non_oracle r).
  Proof.
    intros H. unfold execute_submit_batch, check_stopped in *. inv_ok H. simp_drop. replay. finish H.
  Qed.

  Lemma withdraw_drop s e i id s' r :
    execute_withdraw s e i id = Ok (s', r) -> execute_withdraw (drop s) e i id = Ok (drop s', non_oracle r).
  Proof.
    intros H. unfold execute_withdraw, check_stopped in *. inv_ok H. simp_drop. replay. finish H.
  Qed.

  Lemma resume_drop s e i n l rw s' r :
    resume_contract s e i n l rw = Ok (s', r) -> resume_contract (drop s) e i n l rw = Ok (drop s', non_oracle r).
  Proof.
    intros H. unfold resume_contract, assert_admin, is_admin in *. inv_ok H. simp_drop. replay. finish H.
  Qed.

  Lemma unstake_drop s e i a s' r :
    execute_liquid_unstake s e i a = Ok (s', r) -> execute_liquid_unstake (drop s) e i a = Ok (drop s', non_oracle r).
  Proof.
    intros H. unfold execute_liquid_unstake, check_stopped in *. inv_ok H. simp_drop. replay. finish H.
  Qed.

  Lemma simple_drop s e i :
    (forall v s' r, execute_add_validator va s i v = Ok (s', r) -> execute_add_validator va (drop s) i v = Ok (drop s', non_oracle r))
    /\ (forall v s' r, execute_remove_validator va s i v = Ok (s', r) -> execute_remove_validator va (drop s) i v = Ok (drop s', non_oracle r))
    /\ (forall o s' r, execute_transfer_ownership av s e i o = Ok (s', r) -> execute_transfer_ownership av (drop s) e i o = Ok (drop s', non_oracle r))
    /\ (forall s' r, execute_revoke_ownership s i = Ok (s', r) -> execute_revoke_ownership (drop s) i = Ok (drop s', non_oracle r))
    /\ (forall s' r, execute_accept_ownership s e i = Ok (s', r) -> execute_accept_ownership (drop s) e i = Ok (drop s', non_oracle r))
    /\ (forall id s' r, receive_unstaked_tokens dv s e i id = Ok (s', r) -> receive_unstaked_tokens dv (drop s) e i id = Ok (drop s', non_oracle r))
    /\ (forall s' r, circuit_breaker s i = Ok (s', r) -> circuit_breaker (drop s) i = Ok (drop s', non_oracle r))
    /\ (forall a s' r, fee_withdraw s e i a = Ok (s', r) -> fee_withdraw (drop s) e i a = Ok (drop s', non_oracle r)).
  Proof.
    repeat split; intros *; intros H;
      unfold execute_add_validator, execute_remove_validator, execute_transfer_ownership, execute_revoke_ownership,
             execute_accept_ownership, receive_unstaked_tokens, circuit_breaker, fee_withdraw, assert_admin, is_admin, check_stopped, hook_sender_ok in *.
    - inv_ok H. simp_drop. replay. finish H.
    - inv_ok H. simp_drop. replay. finish H.
    - inv_ok H. simp_drop. replay. finish H.
    - inv_ok H. simp_drop. replay. finish H.
    - inv_ok H. simp_drop. replay. destruct (pending_owner (st s)) as [p|]; [|discriminate]. destruct (String.eqb p (sender i)); [|discriminate]. finish H.
    - inv_ok H. simp_drop. replay. finish H.
    - inv_ok H. simp_drop. replay. finish H.
    - inv_ok H. simp_drop. replay. finish H.
  Qed.

  Lemma rewards_drop s e i s' r :
    receive_rewards dv s e i = Ok (s', r) -> receive_rewards dv (drop s) e i = Ok (drop s', non_oracle r).
  Proof.
    intros H. unfold receive_rewards, check_stopped, hook_sender_ok in *. inv_ok H.
    match goal with Hs : ibc_sub _ _ _ _ _ = Ok ?p |- _ => destruct p as [s2 sub]; pose proof (ibc_sub_drop _ _ _ _ _ _ _ Hs) as [Hd Hno] end.
    inv_ok H. simp_drop. replay.
    match goal with |- context[ibc_sub ?x _ _ _ _] => change x with (drop (set_st s (set_totals (st s) v3 (total_lst (st s)) v4 v5))) end.
    rewrite Hd. cbn [bind]. unfold oracle_msgs at 1.
    assert (Z : pc_oracle (protocol (cfg (drop s2))) = None) by reflexivity. rewrite Z. cbn [bind].
    inversion H; subst; clear H. repeat (rewrite non_oracle_app || rewrite non_oracle_cons).
    match goal with Ho : oracle_msgs _ _ = Ok ?om |- _ => rewrite (oracle_only _ _ _ Ho) end. rewrite Hno.
    destruct (fee_treasury (fees (cfg s))); reflexivity.
  Qed.

  Lemma stake_drop s e i a mt tn ex s' r :
    execute_liquid_stake va s e i a mt tn ex = Ok (s', r) ->
    execute_liquid_stake va (drop s) e i a mt tn ex = Ok (drop s', non_oracle r).
  Proof.
    intros H. unfold execute_liquid_stake, check_stopped in *. inv_ok H.
    match goal with Hs : ibc_sub s _ _ _ None = Ok ?p |- _ => destruct p as [s1 sub1]; pose proof (ibc_sub_drop _ _ _ _ _ _ _ Hs) as [Hd1 Hno1] end.
    inv_ok H. simp_drop. replay.
    unfold oracle_msgs at 1. cbn [bind].
    match goal with |- context[pc_oracle (protocol (cfg ?x))] => assert (Z : pc_oracle (protocol (cfg x)) = None) by reflexivity; rewrite Z; clear Z end.
    cbn [bind].
    match goal with Ho : oracle_msgs _ _ = Ok ?om |- _ => pose proof (oracle_only _ _ _ Ho) as Hom end.
    destruct (if va (opt_default (sender i) mt) (nc_prefix (native (cfg s))) && va (opt_default (sender i) mt) (pc_prefix (protocol (cfg s)))
              then negb (opt_default false tn) else va (opt_default (sender i) mt) (pc_prefix (protocol (cfg s)))).
    - inversion H; subst; clear H. repeat (rewrite non_oracle_app || rewrite non_oracle_cons). rewrite Hom, Hno1. reflexivity.
    - inv_ok H.
      match goal with Hs : ibc_sub _ _ _ _ (Some _) = Ok ?p |- _ => destruct p as [s3 sub3]; pose proof (ibc_sub_drop _ _ _ _ _ _ _ Hs) as [Hd3 Hno3] end.
      replay.
      match goal with |- context[ibc_sub ?x e ?rc ?c (Some ?k)] =>
        match type of Hd3 with ibc_sub (drop ?y) _ _ _ _ = _ => change x with (drop y) end end.
      rewrite Hd3. cbn [bind].
      inversion H; subst; clear H. repeat (rewrite non_oracle_app || rewrite non_oracle_cons). rewrite Hom, Hno1, Hno3. reflexivity.
  Qed.

  Lemma recover_drop s e i sel rcvo page s' r :
    recover va s e i sel rcvo page = Ok (s', r) -> recover va (drop s) e i sel rcvo page = Ok (drop s', non_oracle r).
  Proof.
    intros H. unfold recover, assert_admin, is_admin in *. inv_ok H. simp_drop. replay.
    match goal with Hp : _ = Ok ?ps |- _ => match type of ps with list packet => destruct ps as [|p0 rest]; [discriminate|] end end.
    inv_ok H.
    match goal with Hs : ibc_sub _ _ _ _ (Some _) = Ok ?p |- _ => destruct p as [s2 sub]; pose proof (ibc_sub_drop _ _ _ _ _ _ _ Hs) as [Hd Hno] end.
    replay.
    match goal with |- context[ibc_sub ?x e _ _ (Some _)] =>
      match type of Hd with ibc_sub (drop ?y) _ _ _ _ = _ => change x with (drop y) end end.
    rewrite Hd. cbn [bind]. inversion H; subst; clear H. repeat (rewrite non_oracle_app || rewrite non_oracle_cons). rewrite Hno. reflexivity.
  Qed.

  (* UpdateConfig without a protocol section (the section that carries the oracle address) *)
  Lemma update_config_drop s i n f m bp s' r :
    update_config va s i n None f m bp = Ok (s', r) -> update_config va (drop s) i n None f m bp = Ok (drop s', non_oracle r).
  Proof.
    intros H. unfold update_config, assert_admin, is_admin in *. inv_ok H.
    match goal with E1 : Ok (protocol (cfg s)) = Ok ?v |- _ => inversion E1; subst v; clear E1 end.
    unfold validate_fee in *. simp_drop. replay. cbn [bind]. simp_drop. replay. finish H.
  Qed.

  Definition sets_protocol (m : execute_msg) : bool :=
    match m with UpdateConfig _ (Some _) _ _ _ => true | _ => false end.

  Theorem oracle_optional s e i m s' r :
    sets_protocol m = false ->
    execute s e i m = Ok (s', r) -> execute (drop s) e i m = Ok (drop s', non_oracle r).
  Proof.
    intros Hm H. pose proof (simple_drop s e i) as (S1 & S2 & S3 & S4 & S5 & S7 & S8 & S9).
    destruct m; cbn [Staking.execute] in *.
    - inv_ok H. simp_drop. replay. apply stake_drop. exact H.
    - inv_ok H. simp_drop. replay. apply unstake_drop. exact H.
    - apply submit_drop. exact H.
    - apply withdraw_drop. exact H.
    - apply S1. exact H.
    - apply S2. exact H.
    - apply S3. exact H.
    - apply S5. exact H.
    - apply S4. exact H.
    - destruct p; [discriminate Hm|]. apply update_config_drop. exact H.
    - apply rewards_drop. exact H.
    - apply S7. exact H.
    - apply S8. exact H.
    - apply resume_drop. exact H.
    - apply recover_drop. exact H.
    - apply S9. exact H.
  Qed.
End OO.
