(* Maps.v — lemmas about the sorted association lists of Base.v. *)
From MW Require Import Base.
From MW.Proofs Require Import Tactics.
Open Scope N_scope.

Section NMapLemmas.
  Context {A : Type}.
  Implicit Types m : nmap A.

  Fixpoint sorted m : Prop :=
    match m with
    | [] => True
    | (k, _) :: r => (forall k', In k' (nkeys r) -> k < k') /\ sorted r
    end.

  Lemma nfind_In k v m : nfind k m = Some v -> In (k, v) m.
  Proof.
    induction m as [|[k' v'] r IH]; cbn; [discriminate|].
    destruct (k =? k') eqn:E; intros H.
    - inversion H; subst. apply N.eqb_eq in E. subst. left; reflexivity.
    - right. apply IH. exact H.
  Qed.
  Lemma nfind_key k v m : nfind k m = Some v -> In k (nkeys m).
  Proof. intros H. apply nfind_In in H. apply (in_map fst) in H. exact H. Qed.
  Lemma nfind_none_notin k m : nfind k m = None -> ~ In k (nkeys m).
  Proof.
    induction m as [|[k' v'] r IH]; cbn; [tauto|].
    destruct (k =? k') eqn:E; [discriminate|]. intros H [Hk|Hk]; [lia | apply IH; assumption].
  Qed.
  Lemma notin_nfind_none k m : ~ In k (nkeys m) -> nfind k m = None.
  Proof.
    induction m as [|[k' v'] r IH]; cbn; [reflexivity|]. intros H.
    destruct (k =? k') eqn:E; [exfalso; apply H; left; lia|]. apply IH. tauto.
  Qed.

  Lemma nfind_ninsert_eq k v m : nfind k (ninsert k v m) = Some v.
  Proof.
    induction m as [|[k' v'] r IH]; cbn; [rewrite N.eqb_refl; reflexivity|].
    destruct (k <? k') eqn:E1; cbn; [rewrite N.eqb_refl; reflexivity|].
    destruct (k =? k') eqn:E2; cbn; [rewrite N.eqb_refl; reflexivity|].
    rewrite E2. exact IH.
  Qed.
  Lemma nfind_ninsert_neq k j v m : j <> k -> nfind j (ninsert k v m) = nfind j m.
  Proof.
    intros Hne. induction m as [|[k' v'] r IH]; cbn.
    - destruct (j =? k) eqn:E; [lia | reflexivity].
    - destruct (k <? k') eqn:E1; cbn.
      + destruct (j =? k) eqn:E; [lia | reflexivity].
      + destruct (k =? k') eqn:E2; cbn.
        * destruct (j =? k) eqn:E; [lia|]. destruct (j =? k') eqn:E3; [lia | reflexivity].
        * destruct (j =? k'); [reflexivity | exact IH].
  Qed.
  Lemma nfind_nremove_neq k j m : j <> k -> nfind j (nremove k m) = nfind j m.
  Proof.
    intros Hne. induction m as [|[k' v'] r IH]; cbn; [reflexivity|].
    destruct (k =? k') eqn:E; cbn.
    - destruct (j =? k') eqn:E2; [lia | reflexivity].
    - destruct (j =? k'); [reflexivity | exact IH].
  Qed.
  Lemma nfind_nremove_eq k m : sorted m -> nfind k (nremove k m) = None.
  Proof.
    induction m as [|[k' v'] r IH]; cbn; [reflexivity|]. intros [Hlt Hs].
    destruct (k =? k') eqn:E; cbn.
    - apply notin_nfind_none. intros Hin. apply Hlt in Hin. lia.
    - rewrite E. apply IH. exact Hs.
  Qed.

  Lemma nkeys_ninsert k v m j : In j (nkeys (ninsert k v m)) <-> j = k \/ In j (nkeys m).
  Proof.
    induction m as [|[k' v'] r IH]; cbn; [intuition|].
    destruct (k <? k') eqn:E1; cbn; [intuition|].
    destruct (k =? k') eqn:E2; cbn.
    - assert (k = k') by lia. subst. intuition.
    - rewrite IH. intuition.
  Qed.
  Lemma nkeys_nremove_sub k m j : In j (nkeys (nremove k m)) -> In j (nkeys m).
  Proof.
    induction m as [|[k' v'] r IH]; cbn; [tauto|].
    destruct (k =? k'); cbn; [tauto|]. intros [H|H]; [left; exact H | right; apply IH; exact H].
  Qed.
  Lemma nkeys_nremove k m j : sorted m -> (In j (nkeys (nremove k m)) <-> j <> k /\ In j (nkeys m)).
  Proof.
    induction m as [|[k' v'] r IH]; cbn; [tauto|]. intros [Hlt Hs].
    destruct (k =? k') eqn:E; cbn.
    - assert (k = k') by lia. subst k'. split.
      + intros H. split; [| right; exact H]. apply Hlt in H. lia.
      + intros [Hne [H|H]]; [congruence | exact H].
    - rewrite (IH Hs). split.
      + intros [H|[H1 H2]]; [subst; split; [lia | left; reflexivity] | split; [exact H1 | right; exact H2]].
      + intros [H1 [H|H]]; [left; exact H | right; split; assumption].
  Qed.

  Lemma sorted_ninsert k v m : sorted m -> sorted (ninsert k v m).
  Proof.
    induction m as [|[k' v'] r IH]; cbn; [tauto|]. intros [Hlt Hs].
    destruct (k <? k') eqn:E1; cbn.
    - split; [| split; assumption]. intros j [Hj|Hj]; [cbn in Hj; lia | apply Hlt in Hj; lia].
    - destruct (k =? k') eqn:E2; cbn.
      + assert (k = k') by lia. subst. split; assumption.
      + split; [| apply IH; exact Hs]. intros j Hj. apply nkeys_ninsert in Hj as [->|Hj]; [lia | apply Hlt; exact Hj].
  Qed.
  Lemma sorted_nremove k m : sorted m -> sorted (nremove k m).
  Proof.
    induction m as [|[k' v'] r IH]; cbn; [tauto|]. intros [Hlt Hs].
    destruct (k =? k'); cbn; [exact Hs|]. split; [| apply IH; exact Hs].
    intros j Hj. apply Hlt. apply nkeys_nremove_sub in Hj. exact Hj.
  Qed.

  Lemma sorted_nodup m : sorted m -> NoDup (nkeys m).
  Proof.
    induction m as [|[k v] r IH]; cbn; [constructor|]. intros [Hlt Hs]. constructor; [| apply IH; exact Hs].
    intros Hin. apply Hlt in Hin. lia.
  Qed.

  Lemma nlast_key_max m k : sorted m -> nlast_key m = Some k -> forall j, In j (nkeys m) -> j <= k.
  Proof.
    induction m as [|[k0 v0] r IH]; [discriminate|]. intros [Hlt Hs] H j Hj.
    destruct r as [|[k1 v1] r'].
    - cbn in *. inversion H; subst. destruct Hj as [->|[]]. lia.
    - change (nlast_key ((k0, v0) :: (k1, v1) :: r')) with (nlast_key ((k1, v1) :: r')) in H.
      destruct Hj as [<-|Hj].
      + assert (k0 < k1) by (apply Hlt; left; reflexivity).
        assert (k1 <= k) by (apply (IH Hs H); left; reflexivity). cbn. lia.
      + apply (IH Hs H). exact Hj.
  Qed.
  Lemma nlast_key_some m : m <> [] -> exists k, nlast_key m = Some k.
  Proof.
    induction m as [|[k0 v0] r IH]; [congruence|]. intros _.
    destruct r as [|[k1 v1] r']; [exists k0; reflexivity|].
    destruct IH as [k Hk]; [discriminate|]. exists k. exact Hk.
  Qed.
End NMapLemmas.

(* ---------- sums over a map ---------- *)
Section NSum.
  Context {A : Type}.
  Variable f : A -> N.
  Definition nsum (m : nmap A) : N := sumN (map (fun kv => f (snd kv)) m).

  Lemma nsum_ninsert (m : nmap A) k v :
    sorted m -> nsum (ninsert k v m) + match nfind k m with Some v0 => f v0 | None => 0 end = nsum m + f v.
  Proof.
    unfold nsum. induction m as [|[k' v'] r IH]; cbn; [intros _; lia|]. intros [Hlt Hs].
    destruct (k <? k') eqn:E1; cbn.
    - assert (E : (k =? k') = false) by lia. rewrite E.
      rewrite (notin_nfind_none k r); [lia|]. intros Hin. apply Hlt in Hin. lia.
    - destruct (k =? k') eqn:E2; cbn; [lia|]. specialize (IH Hs). lia.
  Qed.
  Lemma nsum_nremove (m : nmap A) k :
    nsum (nremove k m) + match nfind k m with Some v0 => f v0 | None => 0 end = nsum m.
  Proof.
    unfold nsum. induction m as [|[k' v'] r IH]; cbn; [lia|].
    destruct (k =? k') eqn:E; cbn; [lia|]. lia.
  Qed.
End NSum.
