(* between transactions no submission is left waiting for its reply *)
From MW Require Import Base Wire Staking World.
From MW.Proofs Require Import Tactics Handlers Maps Invariant Recovery Ledger WorldProofs.
Open Scope N_scope.

Definition clear (ids : list N) (wq : nmap waiting) : nmap waiting := fold_left (fun m k => nremove k m) ids wq.

Section WQ.
  Variable va : string -> string -> bool.
  Variable dv : string -> string -> string -> option string.
  Variable av : string -> bool.
  Notation execute := (execute va dv av).

  Lemma nremove_ninsert_nil {A} k (v : A) : nremove k (ninsert k v []) = [].
  Proof. cbn. rewrite N.eqb_refl. reflexivity. Qed.

  Lemma clear_two {A} k (v1 v2 : A) : fold_left (fun m j => nremove j m) [k; k + 1] (ninsert (k + 1) v2 (ninsert k v1 [])) = [].
  Proof.
    cbn [ninsert fold_left]. assert (E2 : (k + 1 <? k) = false) by lia. assert (E1 : (k + 1 =? k) = false) by lia. rewrite E2, E1.
    cbn [ninsert nremove]. rewrite N.eqb_refl. cbn [nremove]. rewrite N.eqb_refl. reflexivity.
  Qed.

  Lemma execute_waitq s e i m s' r :
    I_packets s -> waitq s = [] -> execute s e i m = Ok (s', r) -> clear (map sm_id (transfers r)) (waitq s') = [].
  Proof.
    intros HI Hw H.
    assert (Same : waitq s' = waitq s -> transfers r = [] -> clear (map sm_id (transfers r)) (waitq s') = [])
      by (intros E T; rewrite E, T, Hw; reflexivity).
    destruct m.
    - apply liquid_stake_inv in H.
      destruct H as (a & mt & om & _ & _ & _ & _ & _ & _ & _ & _ & _ & _ & _ & _ & _ & _ & _ & _ & _ & _ & Ho & Hr).
      apply oracle_transfers in Ho.
      destruct Hr as [(_ & -> & Hwq) | (_ & -> & Hwq)]; rewrite !transfers_app, Ho, Hwq, Hw;
        cbn [transfers filter is_transfer sm_msg mint_msg plain transfer_sub app map sm_id clear fold_left].
      + apply nremove_ninsert_nil.
      + unfold clear. apply clear_two.
    - apply liquid_unstake_inv in H. destruct H as (a & b & _ & _ & _ & -> & _ & _ & _ & _ & _ & Hq & _). apply Same; [exact Hq | reflexivity].
    - apply submit_batch_inv in H. destruct H as (b & u & om & _ & _ & _ & _ & _ & _ & _ & _ & _ & _ & _ & Hq & _ & _ & _ & Ho & ->).
      apply Same; [exact Hq|]. apply oracle_transfers in Ho. change (transfers (?x :: om)) with (transfers ([x] ++ om)). rewrite transfers_app, Ho. reflexivity.
    - apply withdraw_inv in H. destruct H as (b & rc & q & am & om & _ & _ & _ & _ & _ & _ & -> & Ho & ->).
      apply Same; [reflexivity|]. apply oracle_transfers in Ho. change (transfers (?x :: om)) with (transfers ([x] ++ om)). rewrite transfers_app, Ho. reflexivity.
    - apply add_validator_inv in H. destruct H as (_ & _ & _ & -> & ->). apply Same; reflexivity.
    - apply remove_validator_inv in H. destruct H as (_ & _ & _ & -> & ->). apply Same; reflexivity.
    - apply transfer_ownership_inv in H. destruct H as (_ & _ & -> & ->). apply Same; reflexivity.
    - apply accept_ownership_inv in H. destruct H as (_ & _ & -> & ->). apply Same; reflexivity.
    - apply revoke_ownership_inv in H. destruct H as (_ & -> & ->). apply Same; reflexivity.
    - apply update_config_inv in H. destruct H as (? & ? & ? & ? & _ & _ & _ & _ & _ & -> & ->). apply Same; reflexivity.
    - apply receive_rewards_inv in H.
      destruct H as (c & fee & om & _ & _ & _ & _ & _ & _ & _ & _ & _ & _ & _ & _ & _ & _ & Hwq & Ho & ->).
      apply oracle_transfers in Ho.
      destruct (fee_treasury (fees (cfg s))); rewrite !transfers_app, Ho, Hwq, Hw; cbn [transfers filter is_transfer sm_msg transfer_sub plain app map sm_id clear fold_left];
        apply nremove_ninsert_nil.
    - apply receive_unstaked_inv in H. destruct H as (c & b & t & _ & _ & _ & _ & _ & _ & _ & -> & ->). apply Same; reflexivity.
    - apply circuit_breaker_inv in H. destruct H as (_ & -> & ->). apply Same; reflexivity.
    - apply resume_inv in H. destruct H as (_ & -> & Ho). apply Same; [reflexivity | eapply oracle_transfers; exact Ho].
    - apply (recover_spec va dv av _ _ _ _ _ _ _ _ HI) in H.
      destruct H as (rcv & ps & d & maxid & _ & _ & _ & _ & _ & _ & _ & _ & Hwq & _ & _ & _ & _ & ->).
      rewrite Hwq, Hw. cbn [transfers filter is_transfer sm_msg transfer_sub map sm_id clear fold_left]. apply nremove_ninsert_nil.
    - apply fee_withdraw_inv in H. destruct H as (t & _ & _ & _ & -> & ->). apply Same; reflexivity.
  Qed.

  Lemma dispatch_waitq r : forall s pk next s' pk' next',
    wf_resp s r -> dispatch s pk next r = Some (s', pk', next') -> waitq s' = clear (map sm_id (transfers r)) (waitq s).
  Proof.
    induction r as [|sm r IH]; intros s pk next s' pk' next' Hwf H; cbn [dispatch] in H.
    - inversion H; subst. reflexivity.
    - destruct (is_transfer sm) eqn:T.
      + unfold transfers. cbn [filter]. rewrite T. fold (transfers r). cbn [map clear fold_left]. fold (clear (map sm_id (transfers r)) (nremove (sm_id sm) (waitq s))).
        destruct Hwf as [Hwf Hnd]. unfold transfers in Hwf, Hnd. cbn [filter] in Hwf, Hnd. rewrite T in Hwf, Hnd. fold (transfers r) in Hwf, Hnd.
        inversion Hwf as [|x l Hsm Hrest]; subst. cbn [map] in Hnd. inversion Hnd as [|y l' Hnotin Hnd']; subst.
        destruct Hsm as (rcv & c & sender & t & memo & Hm & Hr & Hw). rewrite Hm, Hr in H.
        pose proof (reply_spec s (sm_id sm) (ROk next)) as RS. rewrite Hw in RS. rewrite RS in H.
        set (s1 := set_inflight (set_waitq s (nremove (sm_id sm) (waitq s))) _) in *.
        assert (Hwf1 : wf_resp s1 r).
        { split; [| exact Hnd']. apply Forall_forall. intros x Hx. rewrite Forall_forall in Hrest.
          apply (wf_transfer_after_reply s s1 (sm_id sm)); [apply Hrest; exact Hx | | reflexivity | reflexivity | reflexivity].
          intros E. apply Hnotin. rewrite <- E. apply in_map. exact Hx. }
        rewrite (IH _ _ _ _ _ _ Hwf1 H). reflexivity.
      + assert (Hwf' : wf_resp s r).
        { destruct Hwf as [A B]. unfold wf_resp, transfers in *. cbn [filter] in A, B. rewrite T in A, B. split; assumption. }
        unfold transfers. cbn [filter]. rewrite T. fold (transfers r).
        destruct (sm_msg sm) eqn:Msg; try (apply (IH _ _ _ _ _ _ Hwf' H)). unfold is_transfer in T. rewrite Msg in T. discriminate.
  Qed.

  (* every event leaves the reply table empty *)
  Theorem wstep_waitq w ev :
    W_inv w -> routing_kept va dv av w ev -> waitq (w_store w) = [] -> waitq (w_store (wstep va dv av w ev)) = [].
  Proof.
    intros HW HR Hq. destruct w as [s pk next]. unfold W_inv in HW. cbn [w_store w_packets w_next] in *.
    destruct ev as [e i m | e i m | seq o | m]; cbn [World.wstep w_store w_packets w_next].
    - destruct (execute s e i m) as [[s' r]|k|site] eqn:H; [| exact Hq | exact Hq].
      destruct (exec_inv va dv av s pk next e i m s' r HW H (HR s' r H)) as [HM Hwf].
      destruct (dispatch s' (untrack (removed_seqs s s') pk) next r) as [[[s'' pk''] nx]|] eqn:Dp; [| exact Hq].
      cbn [w_store]. rewrite (dispatch_waitq r _ _ _ _ _ _ Hwf Dp). apply (execute_waitq s e i m s' r); [apply HW | exact Hq | exact H].
    - exact Hq.
    - destruct (find_pkt seq pk) as [p|]; [| exact Hq]. destruct (wp_state p); try exact Hq.
      match goal with |- context[sudo s ?m] => destruct (sudo s m) as [[s' r]|k|site] eqn:Hs end; try exact Hq.
      cbn [w_store]. apply sudo_frame in Hs as (_ & _ & _ & _ & _ & Hw). rewrite Hw. exact Hq.
    - destruct (match m with SAck ch seq _ | STimeout ch seq => _ end); [exact Hq|].
      destruct (sudo s m) as [[s' r]|k|site] eqn:Hs; try exact Hq.
      cbn [w_store]. apply sudo_frame in Hs as (_ & _ & _ & _ & _ & Hw). rewrite Hw. exact Hq.
  Qed.

  Theorem wrun_waitq w evs :
    W_inv w -> events_ok va dv av (routing_kept va dv av) w evs -> waitq (w_store w) = [] ->
    waitq (w_store (wrun va dv av w evs)) = [].
  Proof.
    revert w. induction evs as [|ev evs IH]; intros w HW Hok Hq; [exact Hq|]. destruct Hok as [H1 H2].
    cbn [World.wrun fold_left]. apply IH; [apply wstep_inv; assumption | exact H2 | apply wstep_waitq; assumption].
  Qed.
End WQ.
