(* Invariant.v — the reachable-store invariant of the staking contract (batches, requests, packets) and its
   preservation by every entry point. *)
From MW Require Import Staking.
From MW.Proofs Require Import Tactics Arith Handlers Maps.
Open Scope N_scope.

Definition batch_ok (p k : N) (b : batch) : Prop :=
  b_id b = k /\ 1 <= k <= p
  /\ (k = p <-> b_status b = Pending)
  /\ match b_status b with
     | Pending => b_time b <> None /\ b_expected b = None /\ b_received b = None
     | Submitted => b_time b <> None /\ b_expected b <> None /\ b_received b = None
     | Received => b_time b = None /\ b_expected b <> None /\ b_received b <> None
     end.

Definition I_batches (s : store) : Prop :=
  sorted (batches s) /\ 1 <= pending_id s
  /\ (forall k, 1 <= k <= pending_id s -> nfind k (batches s) <> None)
  /\ (forall k b, nfind k (batches s) = Some b -> batch_ok (pending_id s) k b).

Definition req_sum (b : N) (rs : list request) : N :=
  sumN (map r_amount (filter (fun r => r_batch r =? b) rs)).
Arguments req_sum : simpl never.
Definition req_key (r : request) : N * string := (r_batch r, r_user r).
Fixpoint batch_sorted (rs : list request) : Prop :=
  match rs with
  | [] => True
  | r :: rest => (forall q, In q rest -> r_batch r <= r_batch q) /\ batch_sorted rest
  end.

Definition I_requests (s : store) : Prop :=
  (forall r, In r (requests s) -> r_amount r <> 0 /\ 1 <= r_batch r <= pending_id s)
  /\ NoDup (map req_key (requests s))
  /\ batch_sorted (requests s)
  /\ (forall k b, nfind k (batches s) = Some b ->
        if k =? pending_id s then req_sum k (requests s) = b_total b else req_sum k (requests s) <= b_total b).

Definition I_packets (s : store) : Prop :=
  sorted (inflight s) /\ (forall k p, nfind k (inflight s) = Some p -> p_seq p = k) /\ sorted (waitq s).

Definition Inv (s : store) : Prop := I_batches s /\ I_requests s /\ I_packets s /\ admin s <> None.

(* ---------- request list lemmas ---------- *)
Lemma find_request_some b u rs q :
  find_request b u rs = Some q -> In q rs /\ r_batch q = b /\ r_user q = u.
Proof.
  unfold find_request. intros H. apply find_some in H as [Hin Hc].
  apply andb_true_iff in Hc as [H1 H2]. apply String.eqb_eq in H2. repeat split; [assumption | lia | assumption].
Qed.
Lemma find_request_none b u rs :
  find_request b u rs = None -> ~ In (b, u) (map req_key rs).
Proof.
  unfold find_request. intros H Hin. apply in_map_iff in Hin as (q & Hk & Hq).
  apply (find_none _ _ H) in Hq. unfold req_key in Hk. inversion Hk; subst.
  rewrite N.eqb_refl, String.eqb_refl in Hq. discriminate.
Qed.

Lemma sumN_app l1 l2 : sumN (l1 ++ l2) = sumN l1 + sumN l2.
Proof. induction l1 as [|x l IH]; cbn [sumN app]; [reflexivity | rewrite IH; lia]. Qed.
Lemma req_sum_app b rs1 rs2 : req_sum b (rs1 ++ rs2) = req_sum b rs1 + req_sum b rs2.
Proof. unfold req_sum. rewrite filter_app, map_app. apply sumN_app. Qed.
Lemma req_sum_cons b r rs : req_sum b (r :: rs) = (if r_batch r =? b then r_amount r else 0) + req_sum b rs.
Proof. unfold req_sum. cbn. destruct (r_batch r =? b); reflexivity. Qed.

Lemma req_sum_remove_le b k u rs : req_sum b (remove_request k u rs) <= req_sum b rs.
Proof.
  induction rs as [|r rs IH]; cbn; [lia|]. fold (remove_request k u rs).
  destruct (negb ((r_batch r =? k) && String.eqb (r_user r) u)); rewrite ?req_sum_cons; destruct (r_batch r =? b); lia.
Qed.
Lemma req_sum_remove_other b k u rs : b <> k -> req_sum b (remove_request k u rs) = req_sum b rs.
Proof.
  intros Hne. induction rs as [|r rs IH]; cbn; [reflexivity|]. fold (remove_request k u rs).
  destruct ((r_batch r =? k) && String.eqb (r_user r) u) eqn:E; cbn; rewrite ?req_sum_cons, IH; [|reflexivity].
  apply andb_true_iff in E as [E _]. destruct (r_batch r =? b) eqn:F; [lia | reflexivity].
Qed.
Lemma In_remove_request q k u rs : In q (remove_request k u rs) -> In q rs.
Proof. unfold remove_request. intros H. apply filter_In in H. tauto. Qed.

Lemma add_to_request_id k u a rs : ~ In (k, u) (map req_key rs) -> add_to_request k u a rs = rs.
Proof.
  induction rs as [|q rs IH]; cbn; [reflexivity|]. fold (add_to_request k u a rs). intros Hx.
  destruct ((r_batch q =? k) && String.eqb (r_user q) u) eqn:F.
  - exfalso. apply Hx. left. apply andb_true_iff in F as [F1 F2]. apply String.eqb_eq in F2.
    unfold req_key. f_equal; [lia | assumption].
  - f_equal. apply IH. intros H. apply Hx. right. exact H.
Qed.
Lemma req_sum_add b k u a rs :
  NoDup (map req_key rs) -> In (k, u) (map req_key rs) ->
  req_sum b (add_to_request k u a rs) = req_sum b rs + (if k =? b then a else 0).
Proof.
  induction rs as [|r rs IH]; cbn; [tauto|]. intros Hnd Hin. inversion Hnd as [|x l Hx Hnd']; subst.
  fold (add_to_request k u a rs).
  destruct ((r_batch r =? k) && String.eqb (r_user r) u) eqn:E.
  - apply andb_true_iff in E as [E1 E2]. apply String.eqb_eq in E2.
    assert (Hk : req_key r = (k, u)) by (unfold req_key; f_equal; [lia | assumption]).
    assert (Hid : add_to_request k u a rs = rs) by (apply add_to_request_id; rewrite <- Hk; exact Hx).
    rewrite Hid, !req_sum_cons. cbn [r_batch r_amount].
    assert (r_batch r = k) by lia. subst k. destruct (r_batch r =? b); lia.
  - rewrite !req_sum_cons, IH; [lia | assumption |].
    destruct Hin as [Hin|Hin]; [| exact Hin]. exfalso. unfold req_key in Hin. inversion Hin; subst.
    rewrite N.eqb_refl, String.eqb_refl in E. discriminate.
Qed.
Lemma add_to_request_keys k u a rs : map req_key (add_to_request k u a rs) = map req_key rs.
Proof.
  induction rs as [|r rs IH]; cbn; [reflexivity|]. fold (add_to_request k u a rs). rewrite IH.
  destruct ((r_batch r =? k) && String.eqb (r_user r) u); reflexivity.
Qed.
Lemma In_add_to_request q k u a rs :
  In q (add_to_request k u a rs) -> exists q0, In q0 rs /\ r_batch q = r_batch q0 /\ r_user q = r_user q0
                                               /\ (r_amount q = r_amount q0 \/ r_amount q = r_amount q0 + a).
Proof.
  unfold add_to_request. intros H. apply in_map_iff in H as (q0 & Hq & Hin). exists q0. split; [exact Hin|].
  destruct ((r_batch q0 =? k) && String.eqb (r_user q0) u); subst q; cbn; repeat split; auto.
Qed.

Lemma batch_sorted_app rs r :
  batch_sorted rs -> (forall q, In q rs -> r_batch q <= r_batch r) -> batch_sorted (rs ++ [r]).
Proof.
  induction rs as [|x rs IH]; cbn; [tauto|]. intros [H1 H2] Hle. split.
  - intros q Hq. apply in_app_iff in Hq as [Hq|[<-|[]]]; [apply H1; exact Hq | apply Hle; left; reflexivity].
  - apply IH; [exact H2 | intros q Hq; apply Hle; right; exact Hq].
Qed.
Lemma batch_sorted_filter f rs : batch_sorted rs -> batch_sorted (filter f rs).
Proof.
  induction rs as [|x rs IH]; cbn; [tauto|]. intros [H1 H2]. destruct (f x); cbn; [split|]; try (apply IH; exact H2).
  intros q Hq. apply filter_In in Hq as [Hq _]. apply H1. exact Hq.
Qed.
Lemma batch_sorted_map_keys f rs :
  (forall r, r_batch (f r) = r_batch r) -> batch_sorted rs -> batch_sorted (map f rs).
Proof.
  intros Hf. induction rs as [|x rs IH]; cbn; [tauto|]. intros [H1 H2]. split; [| apply IH; exact H2].
  intros q Hq. apply in_map_iff in Hq as (q0 & <- & Hq0). rewrite !Hf. apply H1. exact Hq0.
Qed.
Lemma NoDup_app_single {A} (l : list A) x : NoDup l -> ~ In x l -> NoDup (l ++ [x]).
Proof.
  induction l as [|y l IH]; cbn; intros Hnd Hx; [constructor; [tauto | constructor]|].
  inversion Hnd as [|z l' Hy Hnd']; subst. constructor.
  - intros Hin. apply in_app_iff in Hin as [Hin|[<-|[]]]; [contradiction | apply Hx; left; reflexivity].
  - apply IH; [exact Hnd' | intros Hin; apply Hx; right; exact Hin].
Qed.
Lemma NoDup_filter_map {A B} (g : A -> B) (f : A -> bool) (l : list A) : NoDup (map g l) -> NoDup (map g (filter f l)).
Proof.
  induction l as [|x l IH]; cbn; [tauto|]. intros H. inversion H as [|y l' Hx Hnd]; subst.
  destruct (f x); cbn; [constructor|]; try (apply IH; exact Hnd).
  intros Hin. apply Hx. apply in_map_iff in Hin as (z & Hz & Hin). apply in_map_iff. exists z. split; [exact Hz|].
  apply filter_In in Hin. tauto.
Qed.

(* ---------- preservation ---------- *)
Lemma must_pay_pos i d a : must_pay i d = Ok a -> a <> 0.
Proof.
  unfold must_pay. destruct (funds i) as [|c [|]]; try discriminate.
  destruct (c_amount c =? 0) eqn:E; [discriminate|]. destruct (String.eqb _ _); [|discriminate].
  intros H; inversion H; subst. lia.
Qed.

Lemma fold_nremove_sorted {A} (ps : list packet) (m : nmap A) :
  sorted m -> sorted (fold_left (fun m p => nremove (p_seq p) m) ps m).
Proof. revert m. induction ps as [|p ps IH]; cbn; intros m H; [exact H|]. apply IH. apply sorted_nremove. exact H. Qed.

Lemma nfind_nremove_some {A} k j (m : nmap A) v : sorted m -> nfind k (nremove j m) = Some v -> nfind k m = Some v /\ k <> j.
Proof.
  intros Hs H. destruct (N.eq_dec k j) as [->|Hne].
  - rewrite nfind_nremove_eq in H by exact Hs. discriminate.
  - rewrite nfind_nremove_neq in H by exact Hne. split; assumption.
Qed.
Lemma fold_nremove_find (ps : list packet) (m : nmap packet) k v :
  sorted m -> nfind k (fold_left (fun m p => nremove (p_seq p) m) ps m) = Some v -> nfind k m = Some v.
Proof.
  revert m. induction ps as [|p ps IH]; cbn; intros m Hs H; [exact H|].
  apply IH in H; [| apply sorted_nremove; exact Hs]. apply nfind_nremove_some in H; [tauto | exact Hs].
Qed.

Definition frame_batches (s s' : store) : Prop := batches s' = batches s /\ pending_id s' = pending_id s.
Definition frame_requests (s s' : store) : Prop := requests s' = requests s.

Section Preservation.
  Variable va : string -> string -> bool.
  Variable dv : string -> string -> string -> option string.
  Variable av : string -> bool.
  Notation execute := (execute va dv av).

  (* which messages touch batches / requests at all *)
  Lemma exec_frame_batches s e i m s' r :
    execute s e i m = Ok (s', r) ->
    match m with LiquidUnstake | SubmitBatch | ReceiveUnstakedTokens _ => True | _ => frame_batches s s' end.
  Proof.
    intros H. unfold frame_batches. destruct m; try exact I.
    - apply liquid_stake_inv in H. destruct H as (a & m & om & _ & _ & _ & _ & _ & _ & _ & _ & _ & _ & _ & _ & _ & Hb & Hp & _). tauto.
    - apply withdraw_inv in H. destruct H as (b & rc & q & am & om & _ & _ & _ & _ & _ & _ & -> & _). split; reflexivity.
    - apply add_validator_inv in H. destruct H as (_ & _ & _ & -> & _). split; reflexivity.
    - apply remove_validator_inv in H. destruct H as (_ & _ & _ & -> & _). split; reflexivity.
    - apply transfer_ownership_inv in H. destruct H as (_ & _ & -> & _). split; reflexivity.
    - apply accept_ownership_inv in H. destruct H as (_ & _ & -> & _). split; reflexivity.
    - apply revoke_ownership_inv in H. destruct H as (_ & -> & _). split; reflexivity.
    - apply update_config_inv in H. destruct H as (? & ? & ? & ? & _ & _ & _ & _ & _ & -> & _). split; reflexivity.
    - apply receive_rewards_inv in H. destruct H as (c & fee & om & _ & _ & _ & _ & _ & _ & _ & _ & _ & Hb & Hp & _). tauto.
    - apply circuit_breaker_inv in H. destruct H as (_ & -> & _). split; reflexivity.
    - apply resume_inv in H. destruct H as (_ & -> & _). split; reflexivity.
    - apply recover_inv in H. destruct H as (? & ? & ? & ? & ? & _ & _ & _ & _ & _ & _ & -> & _). split; reflexivity.
    - apply fee_withdraw_inv in H. destruct H as (t & _ & _ & _ & -> & _). split; reflexivity.
  Qed.

  Lemma exec_frame_requests s e i m s' r :
    execute s e i m = Ok (s', r) ->
    match m with LiquidUnstake | Withdraw _ => True | _ => frame_requests s s' end.
  Proof.
    intros H. unfold frame_requests. destruct m; try exact I.
    - apply liquid_stake_inv in H. destruct H as (a & m & om & _ & _ & _ & _ & _ & _ & _ & _ & _ & _ & _ & _ & _ & _ & _ & Hr & _). exact Hr.
    - apply submit_batch_inv in H. destruct H as (b & u & om & _ & _ & _ & _ & _ & _ & _ & _ & _ & Hr & _). exact Hr.
    - apply add_validator_inv in H. destruct H as (_ & _ & _ & -> & _). reflexivity.
    - apply remove_validator_inv in H. destruct H as (_ & _ & _ & -> & _). reflexivity.
    - apply transfer_ownership_inv in H. destruct H as (_ & _ & -> & _). reflexivity.
    - apply accept_ownership_inv in H. destruct H as (_ & _ & -> & _). reflexivity.
    - apply revoke_ownership_inv in H. destruct H as (_ & -> & _). reflexivity.
    - apply update_config_inv in H. destruct H as (? & ? & ? & ? & _ & _ & _ & _ & _ & -> & _). reflexivity.
    - apply receive_rewards_inv in H. destruct H as (c & fee & om & _ & _ & _ & _ & _ & _ & _ & _ & _ & _ & _ & Hr & _). exact Hr.
    - apply receive_unstaked_inv in H. destruct H as (c & b & t & _ & _ & _ & _ & _ & _ & _ & -> & _). reflexivity.
    - apply circuit_breaker_inv in H. destruct H as (_ & -> & _). reflexivity.
    - apply resume_inv in H. destruct H as (_ & -> & _). reflexivity.
    - apply recover_inv in H. destruct H as (? & ? & ? & ? & ? & _ & _ & _ & _ & _ & _ & -> & _). reflexivity.
    - apply fee_withdraw_inv in H. destruct H as (t & _ & _ & _ & -> & _). reflexivity.
  Qed.
End Preservation.

Lemma I_batches_frame s s' : frame_batches s s' -> I_batches s -> I_batches s'.
Proof. intros [Hb Hp]. unfold I_batches. rewrite Hb, Hp. tauto. Qed.

Lemma batch_ok_same_shape p k b b' :
  batch_ok p k b -> b_id b' = b_id b -> b_status b' = b_status b -> b_time b' = b_time b ->
  b_expected b' = b_expected b -> b_received b' = b_received b -> batch_ok p k b'.
Proof. unfold batch_ok. intros H -> -> -> -> ->. exact H. Qed.

(* replacing an existing batch by one that is still well-formed for its key *)
Lemma I_batches_update s s' k b b' :
  I_batches s -> nfind k (batches s) = Some b -> batch_ok (pending_id s) k b' ->
  batches s' = ninsert k b' (batches s) -> pending_id s' = pending_id s -> I_batches s'.
Proof.
  intros (Hs & Hp & Hall & Hok) Hk Hb' Hbs Hps. unfold I_batches. rewrite Hbs, Hps.
  split; [apply sorted_ninsert; exact Hs|]. split; [exact Hp|]. split.
  - intros j Hj. destruct (N.eq_dec j k) as [->|Hne].
    + rewrite nfind_ninsert_eq. discriminate.
    + rewrite nfind_ninsert_neq by exact Hne. apply Hall. exact Hj.
  - intros j bj. destruct (N.eq_dec j k) as [->|Hne].
    + rewrite nfind_ninsert_eq. intros H; injection H as <-. exact Hb'.
    + rewrite nfind_ninsert_neq by exact Hne. apply Hok.
Qed.

Lemma I_batches_submit s s' b b'' nb :
  I_batches s -> nfind (pending_id s) (batches s) = Some b ->
  b_id b'' = b_id b -> b_status b'' = Submitted -> b_time b'' <> None -> b_expected b'' <> None ->
  b_received b'' = b_received b ->
  b_id nb = b_id b + 1 -> b_status nb = Pending -> b_time nb <> None -> b_expected nb = None -> b_received nb = None ->
  pending_id s' = b_id b + 1 ->
  batches s' = ninsert (b_id b) b'' (ninsert (b_id b + 1) nb (batches s)) ->
  I_batches s'.
Proof.
  intros (Hs & Hp & Hall & Hok) Hb Hid Hst Ht He Hr Nid Nst Nt Ne Nr Hps Hbs.
  destruct (Hok _ _ Hb) as (Hbid & _ & Hpend & Hshape).
  assert (Hbp : b_status b = Pending) by (apply Hpend; reflexivity). rewrite Hbp in Hshape.
  destruct Hshape as (_ & _ & Hrn).
  unfold I_batches. rewrite Hbs, Hps, Hbid.
  split; [apply sorted_ninsert, sorted_ninsert; exact Hs|]. split; [lia|]. split.
  - intros j Hj. destruct (N.eq_dec j (pending_id s)) as [->|Hne].
    + rewrite nfind_ninsert_eq. discriminate.
    + rewrite nfind_ninsert_neq by exact Hne. destruct (N.eq_dec j (pending_id s + 1)) as [->|Hne2].
      * rewrite nfind_ninsert_eq. discriminate.
      * rewrite nfind_ninsert_neq by exact Hne2. apply Hall. lia.
  - intros j bj. destruct (N.eq_dec j (pending_id s)) as [->|Hne].
    + rewrite nfind_ninsert_eq. intros H; injection H as <-. unfold batch_ok. rewrite Hid, Hst, Hr, Hrn.
      repeat split; try assumption; try lia; intros; try discriminate; lia.
    + rewrite nfind_ninsert_neq by exact Hne. destruct (N.eq_dec j (pending_id s + 1)) as [->|Hne2].
      * rewrite nfind_ninsert_eq. intros H; injection H as <-. unfold batch_ok. rewrite Nid, Nst, Ne, Nr, Hbid.
        repeat split; try assumption; try lia; intros; reflexivity.
      * rewrite nfind_ninsert_neq by exact Hne2. intros H. destruct (Hok _ _ H) as (Hjid & Hjr & Hjp & Hjs).
        unfold batch_ok. split; [exact Hjid|]. split; [lia|]. split; [| exact Hjs].
        split; [intros Hj; lia | intros Hpd; apply Hjp in Hpd; contradiction].
Qed.

Section Preservation2.
  Variable va : string -> string -> bool.
  Variable dv : string -> string -> string -> option string.
  Variable av : string -> bool.
  Notation execute := (execute va dv av).

  Theorem execute_preserves_I_batches s e i m s' r :
    I_batches s -> execute s e i m = Ok (s', r) -> I_batches s'.
  Proof.
    intros HI H. pose proof (exec_frame_batches va dv av s e i m s' r H) as Hf.
    destruct m; try (eapply I_batches_frame; eassumption).
    - (* LiquidUnstake *)
      apply liquid_unstake_inv in H. destruct H as (a & b & _ & _ & Hb & _ & _ & _ & _ & Hp & _ & _ & _ & Hm).
      destruct HI as (Hs & Hp1 & Hall & Hok). pose proof (Hok _ _ Hb) as Hbok.
      destruct (find_request (pending_id s) (sender i) (requests s)); destruct Hm as [_ Hbs];
        (eapply I_batches_update; [split; [exact Hs | split; [exact Hp1 | split; [exact Hall | exact Hok]]] | exact Hb | | exact Hbs | exact Hp]);
        eapply batch_ok_same_shape; try exact Hbok; reflexivity.
    - (* SubmitBatch *)
      apply submit_batch_inv in H.
      destruct H as (b & u & om & _ & Hb & _ & _ & _ & _ & _ & _ & _ & _ & _ & _ & _ & Hp & Hbs & _).
      eapply I_batches_submit; try exact HI; try exact Hb; try exact Hbs; try exact Hp; cbn; try reflexivity; discriminate.
    - (* ReceiveUnstakedTokens *)
      apply receive_unstaked_inv in H. destruct H as (c & b & t & _ & _ & _ & Hb & Hst & Ht & _ & -> & _).
      pose proof HI as (Hs & Hp1 & Hall & Hok). destruct (Hok _ _ Hb) as (Hbid & Hr & Hpend & Hshape).
      rewrite Hst in Hshape. destruct Hshape as (_ & He & _).
      eapply I_batches_update; [exact HI | exact Hb | | cbn; rewrite Hbid; reflexivity | reflexivity].
      unfold batch_ok. cbn. rewrite Hst in Hpend. repeat split; try assumption; try lia; try discriminate.
      + intros Hk. apply Hpend in Hk. discriminate.
  Qed.
End Preservation2.

Lemma reply_frame s id rr s' r :
  reply s id rr = Ok (s', r) ->
  frame_batches s s' /\ frame_requests s s' /\ cfg s' = cfg s /\ st s' = st s /\ admin s' = admin s.
Proof.
  unfold reply. destruct (nfind id (waitq s)); [|discriminate]. destruct rr; try discriminate.
  intros H; inversion H; subst. repeat split.
Qed.
Lemma sudo_frame s m s' r :
  sudo s m = Ok (s', r) ->
  frame_batches s s' /\ frame_requests s s' /\ cfg s' = cfg s /\ st s' = st s /\ admin s' = admin s /\ waitq s' = waitq s.
Proof.
  unfold sudo. destruct m.
  - destruct (negb _); [intros H; inversion H; subst; repeat split|].
    destruct (nfind seq (inflight s)); [|intros H; inversion H; subst; repeat split].
    destruct success; intros H; inversion H; subst; repeat split.
  - destruct (negb _); [intros H; inversion H; subst; repeat split|].
    destruct (nfind seq (inflight s)); intros H; inversion H; subst; repeat split.
Qed.

Lemma instantiate_I_batches va e i m s r : instantiate va e i m = Ok (s, r) -> I_batches s.
Proof.
  unfold instantiate. intros H. inv_ok H. inversion H; subst; clear H. unfold I_batches. cbn.
  split; [split; [intros ? []| exact I]|]. split; [lia|]. split.
  - intros k Hk. assert (k = 1) by lia. subst. cbn. discriminate.
  - intros k b. destruct (k =? 1) eqn:Ek1; [|discriminate]. intros Hb; injection Hb as <-.
    assert (k = 1) by lia. subst. unfold batch_ok. cbn. repeat split; try lia; try discriminate; reflexivity.
Qed.

(* ---------- requests ---------- *)
Section Preservation3.
  Variable va : string -> string -> bool.
  Variable dv : string -> string -> string -> option string.
  Variable av : string -> bool.
  Notation execute := (execute va dv av).

  Lemma I_requests_frame s s' :
    frame_batches s s' -> frame_requests s s' -> I_requests s -> I_requests s'.
  Proof. intros [Hb Hp] Hr. unfold I_requests, frame_requests in *. rewrite Hb, Hp, Hr. tauto. Qed.

  Lemma req_sum_none b rs : (forall r, In r rs -> r_batch r <> b) -> req_sum b rs = 0.
  Proof.
    induction rs as [|x rs IH]; intros H; [reflexivity|]. rewrite req_sum_cons, IH by (intros q Hq; apply H; right; exact Hq).
    destruct (r_batch x =? b) eqn:E; [exfalso; apply (H x); [left; reflexivity | lia] | reflexivity].
  Qed.

  Theorem execute_preserves_I_requests s e i m s' r :
    I_batches s -> I_requests s -> execute s e i m = Ok (s', r) -> I_requests s'.
  Proof.
    intros HB HI H.
    pose proof (exec_frame_batches va dv av s e i m s' r H) as Hfb.
    pose proof (exec_frame_requests va dv av s e i m s' r H) as Hfr.
    destruct HI as (Hpos & Hnd & Hsort & Hsum).
    destruct HB as (Bs & Bp & Ball & Bok).
    destruct m; try (apply (I_requests_frame s s' Hfb Hfr); exact (conj Hpos (conj Hnd (conj Hsort Hsum)))).
    - (* LiquidUnstake *)
      pose proof H as H0. apply liquid_unstake_inv in H.
      destruct H as (a & b & Hpay & _ & Hb & _ & _ & _ & _ & Hp & _ & _ & _ & Hm).
      apply must_pay_pos in Hpay.
      unfold I_requests. rewrite Hp.
      destruct (find_request (pending_id s) (sender i) (requests s)) as [q|] eqn:Fq; destruct Hm as [Hrq Hbs]; rewrite Hrq, Hbs.
      + apply find_request_some in Fq as (Hqin & Hqb & Hqu).
        assert (Hkin : In (pending_id s, sender i) (map req_key (requests s))).
        { apply in_map_iff. exists q. split; [unfold req_key; rewrite Hqb, Hqu; reflexivity | exact Hqin]. }
        split; [| split; [| split]].
        * intros x Hx. apply In_add_to_request in Hx as (x0 & Hx0 & Hxb & _ & Hxa). destruct (Hpos _ Hx0) as [P1 P2].
          rewrite Hxb. split; [destruct Hxa as [->| ->]; lia | exact P2].
        * rewrite add_to_request_keys. exact Hnd.
        * unfold add_to_request. apply batch_sorted_map_keys; [| exact Hsort].
          intros x. destruct ((r_batch x =? pending_id s) && String.eqb (r_user x) (sender i)); reflexivity.
        * intros k bk. rewrite (req_sum_add k _ _ _ _ Hnd Hkin).
          destruct (N.eq_dec k (pending_id s)) as [->|Hne].
          -- rewrite nfind_ninsert_eq. intros Hx; injection Hx as <-. rewrite !N.eqb_refl. cbn.
             specialize (Hsum _ _ Hb). rewrite N.eqb_refl in Hsum. lia.
          -- rewrite nfind_ninsert_neq by exact Hne. intros Hx. specialize (Hsum _ _ Hx).
             assert (E1 : (k =? pending_id s) = false) by lia. assert (E2 : (pending_id s =? k) = false) by lia.
             rewrite E1 in *. rewrite E2. lia.
      + split; [| split; [| split]].
        * intros x Hx. apply in_app_iff in Hx as [Hx|[<-|[]]]; [apply Hpos; exact Hx|]. cbn. split; [exact Hpay | lia].
        * rewrite map_app. cbn. apply NoDup_app_single; [exact Hnd | apply find_request_none; exact Fq].
        * apply batch_sorted_app; [exact Hsort|]. intros x Hx. cbn. apply Hpos in Hx. lia.
        * intros k bk. rewrite req_sum_app, req_sum_cons. cbn [r_batch r_amount].
          change (req_sum k []) with 0.
          destruct (N.eq_dec k (pending_id s)) as [->|Hne].
          -- rewrite nfind_ninsert_eq. intros Hx; injection Hx as <-. rewrite !N.eqb_refl. cbn.
             specialize (Hsum _ _ Hb). rewrite N.eqb_refl in Hsum. lia.
          -- rewrite nfind_ninsert_neq by exact Hne. intros Hx. specialize (Hsum _ _ Hx).
             assert (E1 : (k =? pending_id s) = false) by lia. assert (E2 : (pending_id s =? k) = false) by lia.
             rewrite E1 in *. rewrite E2. lia.
    - (* SubmitBatch *)
      apply submit_batch_inv in H.
      destruct H as (b & u & om & _ & Hb & _ & _ & _ & _ & _ & _ & _ & Hrq & _ & _ & _ & Hp & Hbs & _).
      destruct (Bok _ _ Hb) as (Hbid & _).
      unfold I_requests. rewrite Hrq, Hp, Hbs, Hbid.
      split; [intros x Hx; destruct (Hpos _ Hx); split; [assumption | lia]|].
      split; [exact Hnd|]. split; [exact Hsort|].
      intros k bk. destruct (N.eq_dec k (pending_id s)) as [->|Hne].
      + rewrite nfind_ninsert_eq. intros Hx; injection Hx as <-. cbn [b_total].
        assert (E : (pending_id s =? pending_id s + 1) = false) by lia. rewrite E.
        specialize (Hsum _ _ Hb). rewrite N.eqb_refl in Hsum. lia.
      + rewrite nfind_ninsert_neq by exact Hne. destruct (N.eq_dec k (pending_id s + 1)) as [->|Hne2].
        * rewrite nfind_ninsert_eq. intros Hx; injection Hx as <-. rewrite N.eqb_refl. cbn.
          apply req_sum_none. intros x Hx. apply Hpos in Hx. lia.
        * rewrite nfind_ninsert_neq by exact Hne2. intros Hx. specialize (Hsum _ _ Hx).
          assert (E1 : (k =? pending_id s) = false) by lia. assert (E2 : (k =? pending_id s + 1) = false) by lia.
          rewrite E1 in Hsum. rewrite E2. exact Hsum.
    - (* Withdraw *)
      apply withdraw_inv in H. destruct H as (b & rc & q & am & om & _ & Hb & Hst & _ & _ & _ & -> & _).
      destruct (Bok _ _ Hb) as (Hbid & _ & Hpend & _).
      assert (Hnp : b_id b <> pending_id s).
      { rewrite Hbid. intros Heq. apply Hpend in Heq. rewrite Hst in Heq. discriminate. }
      unfold I_requests. cbn.
      split; [intros x Hx; apply Hpos; eapply In_remove_request; exact Hx|].
      split; [unfold remove_request; apply NoDup_filter_map; exact Hnd|].
      split; [unfold remove_request; apply batch_sorted_filter; exact Hsort|].
      intros k bk Hx. specialize (Hsum _ _ Hx). destruct (k =? pending_id s) eqn:E.
      + rewrite req_sum_remove_other by lia. exact Hsum.
      + pose proof (req_sum_remove_le k (b_id b) (sender i) (requests s)). lia.
    - (* ReceiveUnstakedTokens: the batch record changes, totals do not *)
      apply receive_unstaked_inv in H. destruct H as (c & b & t & _ & _ & _ & Hb & _ & _ & _ & -> & _).
      destruct (Bok _ _ Hb) as (Hbid & _).
      unfold I_requests. cbn. split; [exact Hpos|]. split; [exact Hnd|]. split; [exact Hsort|].
      intros k bk. rewrite Hbid. destruct (N.eq_dec k batch_id) as [->|Hne].
      + rewrite nfind_ninsert_eq. intros Hx; injection Hx as <-. cbn. exact (Hsum _ _ Hb).
      + rewrite nfind_ninsert_neq by exact Hne. apply Hsum.
  Qed.
End Preservation3.
