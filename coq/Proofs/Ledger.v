(* Ledger.v — whole-history accounting identities at the contract level (C01, C03), for every sequence of
   entry-point calls (successful or not) from any store.  Ghost counters are functions of the calls and of the
   contract's own responses, never of hidden state. *)
From MW Require Import Staking.
From MW.Proofs Require Import Tactics Arith Handlers Maps Invariant Oracle.
Open Scope N_scope.

Inductive call :=
| CExec (e : env) (i : info) (m : execute_msg)
| CReply (id : N) (rr : reply_result)
| CSudo (m : sudo_msg).

Section Ledger.
  Variable va : string -> string -> bool.
  Variable dv : string -> string -> string -> option string.
  Variable av : string -> bool.
  Notation execute := (execute va dv av).

  (* a failed call persists nothing *)
  Definition apply_call (s : store) (c : call) : store * response :=
    match (match c with
           | CExec e i m => execute s e i m
           | CReply id rr => reply s id rr
           | CSudo m => sudo s m
           end) with
    | Ok (s', r) => (s', r)
    | _ => (s, [])
    end.
  Definition succeeded (s : store) (c : call) : bool :=
    match c with
    | CExec e i m => is_ok (execute s e i m)
    | CReply id rr => is_ok (reply s id rr)
    | CSudo m => is_ok (sudo s m)
    end.

  (* ---------- ghost deltas ---------- *)
  (* staked asset forwarded toward the staker by this call: the stake itself, or the reward net of the fee *)
  Definition fwd_delta (s : store) (c : call) : N :=
    if negb (succeeded s c) then 0 else
    match c with
    | CExec e i (LiquidStake _ _ _) =>
        match must_pay i (pc_denom (protocol (cfg s))) with Ok a => a | _ => 0 end
    | CExec e i ReceiveRewards =>
        match find_coin (pc_denom (protocol (cfg s))) (funds i) with
        | Some c0 => c_amount c0 - fee_rate (fees (cfg s)) * c_amount c0 / FEE_DENOM
        | None => 0
        end
    | _ => 0
    end.
  (* set aside for the batch submitted by this call *)
  Definition aside_delta (s : store) (c : call) : N :=
    match c with
    | CExec e i SubmitBatch =>
        match execute s e i SubmitBatch with
        | Ok (s', _) => match nfind (pending_id s) (batches s') with
                        | Some b => opt_default 0 (b_expected b)
                        | None => 0
                        end
        | _ => 0
        end
    | _ => 0
    end.
  (* ownerless stake swept to the fee balance by this call *)
  Definition swept_delta (s : store) (c : call) : N :=
    if negb (succeeded s c) then 0 else
    match c with
    | CExec e i (LiquidStake _ _ _) => if sweeps (st s) then total_native (st s) else 0
    | _ => 0
    end.
  (* re-basing by ResumeContract (signed) *)
  Definition adjN_delta (s : store) (c : call) : Z :=
    if negb (succeeded s c) then 0%Z else
    match c with
    | CExec e i (ResumeContract n _ _) => (Z.of_N n - Z.of_N (total_native (st s)))%Z
    | _ => 0%Z
    end.
  Definition adjL_delta (s : store) (c : call) : Z :=
    if negb (succeeded s c) then 0%Z else
    match c with
    | CExec e i (ResumeContract _ l _) => (Z.of_N l - Z.of_N (total_lst (st s)))%Z
    | _ => 0%Z
    end.
  (* LST minted / burnt by the token-factory messages of this call's response *)
  Definition minted (r : response) : N :=
    sumN (map (fun sm => match sm_msg sm with AMint _ c _ => c_amount c | _ => 0 end) r).
  Definition burnt (r : response) : N :=
    sumN (map (fun sm => match sm_msg sm with ABurn _ c _ => c_amount c | _ => 0 end) r).

  Record ghost := { g_fwd : N; g_aside : N; g_swept : N; g_adjN : Z; g_adjL : Z; g_minted : N; g_burnt : N }.
  Definition g0 : ghost := {| g_fwd := 0; g_aside := 0; g_swept := 0; g_adjN := 0%Z; g_adjL := 0%Z; g_minted := 0; g_burnt := 0 |}.
  Definition step (sg : store * ghost) (c : call) : store * ghost :=
    let '(s, g) := sg in
    let '(s', r) := apply_call s c in
    (s', {| g_fwd := g_fwd g + fwd_delta s c; g_aside := g_aside g + aside_delta s c;
            g_swept := g_swept g + swept_delta s c; g_adjN := (g_adjN g + adjN_delta s c)%Z;
            g_adjL := (g_adjL g + adjL_delta s c)%Z; g_minted := g_minted g + minted r; g_burnt := g_burnt g + burnt r |}).
  Definition run (s0 : store) (cs : list call) : store * ghost := fold_left step cs (s0, g0).

  (* ---------- one call ---------- *)
  Lemma minted_app a b : minted (a ++ b) = minted a + minted b.
  Proof. unfold minted. rewrite map_app. apply sumN_app. Qed.
  Lemma burnt_app a b : burnt (a ++ b) = burnt a + burnt b.
  Proof. unfold burnt. rewrite map_app. apply sumN_app. Qed.
  Lemma oracle_no_mint_burn s e om : oracle_msgs s e = Ok om -> minted om = 0 /\ burnt om = 0.
  Proof.
    intros H. apply oracle_msgs_shape in H. destruct (pc_oracle (protocol (cfg s))).
    - destruct H as (r & p & _ & ->). split; reflexivity.
    - subst. split; reflexivity.
  Qed.

  Definition ZN (x : N) : Z := Z.of_N x.

  Ltac quiet H := (* a handler that leaves the totals alone and emits neither mint nor burn *)
    cbn [fst snd]; split; cbn; lia.

  Lemma call_ledger s c :
    I_batches s ->
    let s' := fst (apply_call s c) in
    let r := snd (apply_call s c) in
    (* staked total *)
    (ZN (total_native (st s')) + ZN (aside_delta s c) + ZN (swept_delta s c)
       = ZN (total_native (st s)) + ZN (fwd_delta s c) + adjN_delta s c)%Z
    (* LST total vs. token-factory messages *)
    /\ (ZN (total_lst (st s')) + ZN (burnt r) = ZN (total_lst (st s)) + ZN (minted r) + adjL_delta s c)%Z.
  Proof.
    intros HI.
    unfold apply_call, fwd_delta, aside_delta, swept_delta, adjN_delta, adjL_delta, succeeded, ZN. cbv zeta.
    destruct c as [e i m | id rr | m].
    - destruct (execute s e i m) as [[s' r]|k|site] eqn:H; cbn [is_ok negb fst snd].
      2,3: destruct m; rewrite ?H; split; cbn; lia.
      destruct m; cbn [fst snd]; rewrite ?H.
      + (* LiquidStake *)
        apply liquid_stake_inv in H.
        destruct H as (a & mt & om & Hp & _ & _ & _ & _ & Hm & _ & _ & Hst & Hn & Hl & _ & _ & _ & _ & _ & _ & _ & Ho & Hr).
        rewrite Hp, Hst. cbn [total_native total_lst set_totals]. apply oracle_no_mint_burn in Ho as [Om Ob].
        assert (Hmb : minted r = mt /\ burnt r = 0).
        { destruct Hr as [(_ & -> & _) | (_ & -> & _)]; rewrite !minted_app, !burnt_app, Om, Ob; cbn; split; lia. }
        destruct Hmb as [-> ->]. unfold swept. destruct (sweeps (st s)); cbn [total_native total_lst set_totals]; split; lia.
      + apply liquid_unstake_inv in H. destruct H as (a & b & _ & _ & _ & -> & _ & -> & _). split; cbn; lia.
      + (* SubmitBatch *)
        apply submit_batch_inv in H.
        destruct H as (b & u & om & _ & Hb & _ & _ & Hle & Hu & Hst & _ & _ & _ & _ & _ & _ & _ & Hbs & Ho & ->).
        destruct HI as (_ & _ & _ & Hok). destruct (Hok _ _ Hb) as (Hbid & _).
        rewrite Hst, Hbs, Hbid, nfind_ninsert_eq. cbn [total_native total_lst set_totals b_expected opt_default].
        apply oracle_no_mint_burn in Ho as [Om Ob]. apply compute_unbond_spec in Hu.
        assert (Hun : u <= total_native (st s)).
        { destruct Hu as [[_ ->]|(_ & Hl0 & -> & _)]; [lia | apply submit_unbond_le; assumption]. }
        match goal with |- context[burnt (?x :: om)] => change (burnt (x :: om)) with (burnt ([x] ++ om)); change (minted (x :: om)) with (minted ([x] ++ om)) end.
        rewrite burnt_app, minted_app, Om, Ob. cbn. split; lia.
      + apply withdraw_inv in H. destruct H as (b & rc & q & am & om & _ & _ & _ & _ & _ & _ & -> & Ho & ->).
        apply oracle_no_mint_burn in Ho as [Om Ob].
        match goal with |- context[burnt (?x :: om)] => change (burnt (x :: om)) with (burnt ([x] ++ om)); change (minted (x :: om)) with (minted ([x] ++ om)) end.
        rewrite burnt_app, minted_app, Om, Ob. split; cbn; lia.
      + apply add_validator_inv in H. destruct H as (_ & _ & _ & -> & ->). split; cbn; lia.
      + apply remove_validator_inv in H. destruct H as (_ & _ & _ & -> & ->). split; cbn; lia.
      + apply transfer_ownership_inv in H. destruct H as (_ & _ & -> & ->). split; cbn; lia.
      + apply accept_ownership_inv in H. destruct H as (_ & _ & -> & ->). split; cbn; lia.
      + apply revoke_ownership_inv in H. destruct H as (_ & -> & ->). split; cbn; lia.
      + apply update_config_inv in H. destruct H as (? & ? & ? & ? & _ & _ & _ & _ & _ & -> & ->). split; cbn; lia.
      + (* ReceiveRewards *)
        apply receive_rewards_inv in H.
        destruct H as (c & fee & om & _ & _ & _ & Hc & Hf & Hle & Hst & _ & _ & _ & _ & _ & _ & _ & _ & Ho & ->).
        rewrite Hc, Hst. cbn [total_native total_lst set_totals]. apply mul_ratio_some in Hf as (_ & -> & _).
        apply oracle_no_mint_burn in Ho as [Om Ob]. rewrite !minted_app, !burnt_app, Om, Ob.
        destruct (fee_treasury (fees (cfg s))); cbn; split; lia.
      + apply receive_unstaked_inv in H. destruct H as (c & b & t & _ & _ & _ & _ & _ & _ & _ & -> & ->). split; cbn; lia.
      + apply circuit_breaker_inv in H. destruct H as (_ & -> & ->). split; cbn; lia.
      + (* ResumeContract *)
        apply resume_inv in H. destruct H as (_ & -> & Ho). apply oracle_no_mint_burn in Ho as [Om Ob]. rewrite Om, Ob.
        cbn. split; lia.
      + apply recover_inv in H. destruct H as (? & ? & ? & ? & ? & _ & _ & _ & _ & _ & _ & -> & ->). split; cbn; lia.
      + apply fee_withdraw_inv in H. destruct H as (t & _ & _ & _ & -> & ->). split; cbn; lia.
    - destruct (reply s id rr) as [[s' r]|k|site] eqn:H; cbn [is_ok negb fst snd]; try (split; cbn; lia).
      pose proof (reply_frame _ _ _ _ _ H) as (_ & _ & _ & Hst & _). rewrite Hst.
      unfold reply in H. destruct (nfind id (waitq s)); [|discriminate]. destruct rr; try discriminate. injection H as _ <-. split; cbn; lia.
    - destruct (sudo s m) as [[s' r]|k|site] eqn:H; cbn [is_ok negb fst snd]; try (split; cbn; lia).
      pose proof (sudo_frame _ _ _ _ H) as (_ & _ & _ & Hst & _). rewrite Hst.
      assert (r = []) as ->.
      { unfold sudo in H. destruct m.
        - destruct (negb _); [injection H as _ <-; reflexivity|]. destruct (nfind seq (inflight s)); [destruct success|]; injection H as _ <-; reflexivity.
        - destruct (negb _); [injection H as _ <-; reflexivity|]. destruct (nfind seq (inflight s)); injection H as _ <-; reflexivity. }
      split; cbn; lia.
  Qed.

  Lemma apply_call_I_batches s c : I_batches s -> I_batches (fst (apply_call s c)).
  Proof.
    intros HI. unfold apply_call. destruct c as [e i m | id rr | m].
    - destruct (execute s e i m) as [[s' r]|k|site] eqn:H; cbn [fst]; [| exact HI | exact HI].
      eapply execute_preserves_I_batches; eassumption.
    - destruct (reply s id rr) as [[s' r]|k|site] eqn:H; cbn [fst]; [| exact HI | exact HI].
      eapply I_batches_frame; [| exact HI]. eapply reply_frame; exact H.
    - destruct (sudo s m) as [[s' r]|k|site] eqn:H; cbn [fst]; [| exact HI | exact HI].
      eapply I_batches_frame; [| exact HI]. eapply sudo_frame; exact H.
  Qed.

  Definition Led (s0 : store) (sg : store * ghost) : Prop :=
    let '(s, g) := sg in
    I_batches s
    /\ (ZN (total_native (st s)) + ZN (g_aside g) + ZN (g_swept g) = ZN (total_native (st s0)) + ZN (g_fwd g) + g_adjN g)%Z
    /\ (ZN (total_lst (st s)) + ZN (g_burnt g) = ZN (total_lst (st s0)) + ZN (g_minted g) + g_adjL g)%Z.

  Lemma Led_step s0 sg c : Led s0 sg -> Led s0 (step sg c).
  Proof.
    destruct sg as [s g]. intros (HI & HN & HL). unfold step.
    pose proof (call_ledger s c HI) as [CN CL]. pose proof (apply_call_I_batches s c HI) as HI'.
    destruct (apply_call s c) as [s' r]. cbn [fst snd] in *. unfold Led. cbn [g_fwd g_aside g_swept g_adjN g_adjL g_minted g_burnt].
    split; [exact HI'|]. unfold ZN in *. split; lia.
  Qed.

  (* C01 / C03, whole histories: any sequence of execute / reply / sudo calls, successful or refused, by
     anybody, at any block times, from any store that satisfies the batch invariant (in particular from a
     freshly instantiated one) *)
  Theorem ledger s0 cs :
    I_batches s0 ->
    let '(s, g) := run s0 cs in
    (ZN (total_native (st s)) + ZN (g_aside g) + ZN (g_swept g) = ZN (total_native (st s0)) + ZN (g_fwd g) + g_adjN g)%Z
    /\ (ZN (total_lst (st s)) + ZN (g_burnt g) = ZN (total_lst (st s0)) + ZN (g_minted g) + g_adjL g)%Z.
  Proof.
    intros HI. unfold run.
    assert (H0 : Led s0 (s0, g0)) by (unfold Led, g0, ZN; cbn [g_fwd g_aside g_swept g_adjN g_adjL g_minted g_burnt]; split; [exact HI | split; lia]).
    revert H0. generalize (s0, g0). induction cs as [|c cs IH]; intros sg H; cbn [fold_left].
    - destruct sg as [s g]. destruct H as (_ & A & B). split; assumption.
    - apply IH. apply Led_step. exact H.
  Qed.

  (* what the forwarded amount is, message-wise: a successful LiquidStake / ReceiveRewards carries, as its
     reply-tracked sub-message, an IBC transfer of exactly that amount of the staked asset to the staker *)
  Theorem forwarded_is_sent s e i m s' r :
    execute s e i m = Ok (s', r) ->
    match m with
    | LiquidStake _ _ _ | ReceiveRewards =>
        In (transfer_sub s e (sub_id e None) (nc_staker (native (cfg s)))
              {| c_denom := pc_denom (protocol (cfg s)); c_amount := fwd_delta s (CExec e i m) |} (now_ns e + IBC_TIMEOUT_NS)) r
    | _ => True
    end.
  Proof.
    intros H. destruct m; try exact I; unfold fwd_delta, succeeded; rewrite H; cbn [is_ok negb].
    - apply liquid_stake_inv in H.
      destruct H as (a & mt & om & Hp & _ & _ & _ & _ & _ & _ & _ & _ & _ & _ & _ & _ & _ & _ & _ & _ & _ & _ & Hr).
      rewrite Hp. destruct Hr as [(_ & -> & _) | (_ & -> & _)]; apply in_or_app; right; apply in_or_app; right; apply in_or_app; left; left; reflexivity.
    - apply receive_rewards_inv in H.
      destruct H as (c & fee & om & _ & _ & _ & Hc & Hf & _ & _ & _ & _ & _ & _ & _ & _ & _ & _ & _ & ->).
      rewrite Hc. apply mul_ratio_some in Hf as (_ & -> & _). apply in_or_app. right. apply in_or_app. left. left. reflexivity.
  Qed.
End Ledger.
