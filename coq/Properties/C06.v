(* C06 — unstake batch lifecycle and timing. *)
From MW Require Import Staking.
From MW.Proofs Require Import Tactics Handlers Maps Invariant Authz Lifecycle.
From MW.Properties Require C08.
Open Scope N_scope.

(* the batch invariant holds after instantiation and is preserved by every entry point, hence in every
   reachable store: sorted ids, ids exactly 1..pending, exactly the pending id is Pending, and the
   per-status shape of the record (deadline / expected / received present or absent) *)
Theorem C06_invariant_init : forall va e i m s r, instantiate va e i m = Ok (s, r) -> I_batches s.
Proof. exact instantiate_I_batches. Qed.
Print Assumptions C06_invariant_init.

Theorem C06_invariant_execute : forall va dv av s e i m s' r,
  I_batches s -> execute va dv av s e i m = Ok (s', r) -> I_batches s'.
Proof. exact execute_preserves_I_batches. Qed.
Print Assumptions C06_invariant_execute.

Theorem C06_invariant_reply_sudo :
  (forall s id rr s' r, I_batches s -> reply s id rr = Ok (s', r) -> I_batches s')
  /\ (forall s m s' r, I_batches s -> sudo s m = Ok (s', r) -> I_batches s').
Proof.
  split; intros.
  - eapply I_batches_frame; [| eassumption]. eapply reply_frame; eassumption.
  - eapply I_batches_frame; [| eassumption]. eapply sudo_frame; eassumption.
Qed.
Print Assumptions C06_invariant_reply_sudo.

(* exactly one pending batch, it has the highest id, ids are 1..pending without gaps *)
Theorem C06_one_pending_highest : forall s,
  I_batches s ->
  (exists b, nfind (pending_id s) (batches s) = Some b /\ b_status b = Pending /\ b_time b <> None)
  /\ (forall k b, nfind k (batches s) = Some b -> b_id b = k /\ 1 <= k <= pending_id s /\ (b_status b = Pending <-> k = pending_id s))
  /\ (forall k, 1 <= k <= pending_id s -> nfind k (batches s) <> None).
Proof. exact one_pending_highest. Qed.
Print Assumptions C06_one_pending_highest.

(* a batch only ever moves Pending -> Submitted -> Received, keeps its id, and its expected amount never
   changes once recorded; the only status changes are those two, by those two messages *)
Theorem C06_monotone : forall va dv av s e i m s' r,
  I_batches s -> execute va dv av s e i m = Ok (s', r) ->
  forall k b, nfind k (batches s) = Some b ->
  exists b', nfind k (batches s') = Some b' /\ b_id b' = b_id b /\ rank (b_status b) <= rank (b_status b')
             /\ (b_expected b <> None -> b_expected b' = b_expected b)
             /\ (b_status b' <> b_status b ->
                 (m = SubmitBatch /\ k = pending_id s /\ b_status b' = Submitted)
                 \/ (m = ReceiveUnstakedTokens k /\ b_status b = Submitted /\ b_status b' = Received)).
Proof. exact step_monotone. Qed.
Print Assumptions C06_monotone.

(* while running (and with the LST total covering the batch, a consequence of C03), SubmitBatch by ANY caller
   succeeds exactly when the pending batch is non-empty and its deadline has been reached, opening batch
   pending+1, empty, due one batch period later; the only other outcomes are u64 overflow of a period
   addition (typed error) and arithmetic panics *)
Theorem C06_submit_decision : forall va dv av s e i,
  I_batches s -> stopped (cfg s) = false ->
  (forall b, nfind (pending_id s) (batches s) = Some b -> b_total b <= total_lst (st s)) ->
  match execute va dv av s e i SubmitBatch with
  | Ok (s', r) =>
      submit_ready s e
      /\ pending_id s' = pending_id s + 1
      /\ exists nb, nfind (pending_id s + 1) (batches s') = Some nb
                    /\ nb = new_batch (pending_id s + 1) (now_s e + batch_period (cfg s))
  | Err k => ~ submit_ready s e \/ k = EOverflow
  | Panic _ => True
  end.
Proof. exact submit_decision. Qed.
Print Assumptions C06_submit_decision.

Theorem C06_submitted_deadline : forall va dv av s e i s' r,
  I_batches s -> execute va dv av s e i SubmitBatch = Ok (s', r) ->
  exists b', nfind (pending_id s) (batches s') = Some b' /\ b_status b' = Submitted
             /\ b_time b' = Some (now_s e + nc_unbonding (native (cfg s))) /\ b_expected b' <> None.
Proof. exact submitted_deadline. Qed.
Print Assumptions C06_submitted_deadline.

(* Received only through a staked-asset payment by the authenticated staker, not before the recorded deadline *)
Theorem C06_received_only_via_staker : forall va dv av s e i m s' r k b b',
  I_batches s -> execute va dv av s e i m = Ok (s', r) ->
  nfind k (batches s) = Some b -> nfind k (batches s') = Some b' ->
  b_status b <> Received -> b_status b' = Received ->
  m = ReceiveUnstakedTokens k
  /\ hook_of dv s (nc_staker (native (cfg s))) = Some (sender i)
  /\ b_status b = Submitted
  /\ (exists c, find_coin (pc_denom (protocol (cfg s))) (funds i) = Some c /\ b_received b' = Some (c_amount c))
  /\ (exists t, b_time b = Some t /\ t <= now_s e)
  /\ b_expected b' = b_expected b.
Proof. exact received_only_via_staker. Qed.
Print Assumptions C06_received_only_via_staker.

Example C06_example : I_batches C08.ex_store.
Proof.
  unfold I_batches. cbn. split; [split; [intros ? [] | exact I]|]. split; [lia|]. split.
  - intros k Hk. assert (k = 1) by lia. subst. cbn. discriminate.
  - intros k b. destruct (k =? 1) eqn:E; [|discriminate]. intros Hb; injection Hb as <-.
    assert (k = 1) by lia. subst. unfold batch_ok. cbn. repeat split; try lia; try discriminate; reflexivity.
Qed.
