(* C11 — protocol fee accounting on rewards. *)
From MW Require Import Staking.
From MW.Proofs Require Import Tactics Arith Handlers Fees.
From MW.Gen Require Import Consts.
Open Scope N_scope.

(* the denominator in the source is the one of the model (regenerated from execute.rs on every run) *)
Theorem C11_denominator : src_fee_denominator = FEE_DENOM /\ FEE_DENOM = 100000.
Proof. split; reflexivity. Qed.
Print Assumptions C11_denominator.

Theorem C11_reward : forall va dv av s e i s' r,
  execute va dv av s e i ReceiveRewards = Ok (s', r) ->
  exists reward fee restaked om,
    let D := pc_denom (protocol (cfg s)) in
    let x := st s in
    total_lst x <> 0
    /\ (exists c, find_coin D (funds i) = Some c /\ c_amount c = reward)
    /\ fee = fee_rate (fees (cfg s)) * reward / FEE_DENOM
    /\ fee <= reward /\ restaked = reward - fee /\ fee + restaked = reward
    /\ total_native (st s') = total_native x + restaked
    /\ total_lst (st s') = total_lst x
    /\ total_reward (st s') = total_reward x + reward
    /\ oracle_msgs s' e = Ok om
    /\ match fee_treasury (fees (cfg s)) with
       | None => total_fees (st s') = total_fees x + fee
                 /\ r = (om ++ [transfer_sub s e (sub_id e None) (nc_staker (native (cfg s)))
                                 {| c_denom := D; c_amount := restaked |} (now_ns e + IBC_TIMEOUT_NS)])%list
       | Some t => total_fees (st s') = total_fees x
                   /\ r = (om ++ [transfer_sub s e (sub_id e None) (nc_staker (native (cfg s)))
                                   {| c_denom := D; c_amount := restaked |} (now_ns e + IBC_TIMEOUT_NS)]
                              ++ [plain (ABankSend t {| c_denom := D; c_amount := fee |})])%list
       end.
Proof. exact reward_spec. Qed.
Print Assumptions C11_reward.

Theorem C11_refused_without_lst : forall va dv av s e i,
  total_lst (st s) = 0 -> forall s' r, execute va dv av s e i ReceiveRewards <> Ok (s', r).
Proof. exact reward_refused_without_lst. Qed.
Print Assumptions C11_refused_without_lst.

Theorem C11_fee_never_exceeds_reward : forall va dv av s e i s' r,
  execute va dv av s e i ReceiveRewards = Ok (s', r) ->
  forall c, find_coin (pc_denom (protocol (cfg s))) (funds i) = Some c ->
  fee_rate (fees (cfg s)) * c_amount c / FEE_DENOM <= c_amount c.
Proof. exact reward_refused_when_fee_exceeds. Qed.
Print Assumptions C11_fee_never_exceeds_reward.

Theorem C11_fee_withdraw : forall va dv av s e i a s' r,
  execute va dv av s e i (FeeWithdraw a) = Ok (s', r) ->
  exists t,
    admin s = Some (sender i) /\ a <= total_fees (st s) /\ fee_treasury (fees (cfg s)) = Some t
    /\ total_fees (st s') = total_fees (st s) - a
    /\ total_native (st s') = total_native (st s) /\ total_lst (st s') = total_lst (st s)
    /\ total_reward (st s') = total_reward (st s)
    /\ r = [plain (ASend (self e) t {| c_denom := pc_denom (protocol (cfg s)); c_amount := a |})].
Proof. exact fee_withdraw_spec. Qed.
Print Assumptions C11_fee_withdraw.

Example C11_example : 10000 * 123456 / FEE_DENOM = 12345 /\ 12345 + (123456 - 12345) = 123456.
Proof. vm_compute. split; reflexivity. Qed.
