(* C14 — only well-formed configuration is ever accepted; updates are sectional.
   validate_address is instantiated with the Crypto model of bech32 (as the correspondence check runs it). *)
From MW Require Import Staking Crypto.
From MW.Proofs Require Import Tactics Handlers Validation.
Open Scope N_scope.

(* an accepted prefix: 1..83 bytes in 33..126, not mixed-case; what is stored is its lower-casing, a valid
   lower-case BIP-173 human-readable part, and a fixpoint of the validation *)
Theorem C14_prefix : forall h p,
  validate_address_prefix h = Some p ->
  1 <= slen h <= 83 /\ str_forall valid_hrp_char h = true
  /\ (str_exists is_lower h && str_exists is_upper h = false)
  /\ p = lowercase h /\ wf_prefix p.
Proof. exact prefix_ok. Qed.
Print Assumptions C14_prefix.

(* an accepted address is a checksum-valid bech32 string whose (lower-cased) human-readable part is the prefix.
   Recorded as observed, not demanded by the property text: the Bech32m constant is accepted as well. *)
Theorem C14_address : forall a p,
  valid_addr a p = true ->
  (exists d c, b32_decode a = Some (p, d, c) /\ (c = BECH32_CONST \/ c = BECH32M_CONST))
  /\ str_exists is_upper p = false.
Proof. exact address_ok. Qed.
Print Assumptions C14_address.

Theorem C14_address_list : forall l p,
  validate_addresses valid_addr l p [] = true -> (forall a, In a l -> valid_addr a p = true) /\ NoDup l.
Proof. intros l p H. apply validate_addresses_spec in H as [Ha Hn]. split; [intros a Hin; apply Ha; exact Hin | exact Hn]. Qed.
Print Assumptions C14_address_list.

(* the channel is channel-<n>: decimal digits only, at least one, fitting 64 bits *)
Theorem C14_channel : forall c,
  valid_channel c = true ->
  exists ds, c = ("channel-" ++ ds)%string /\ ds <> EmptyString /\ str_forall is_digit ds = true /\ digits_value ds 0 <= u64_max.
Proof. exact channel_ok. Qed.
Print Assumptions C14_channel.

Theorem C14_ibc_denom : forall d d', validate_ibc_denom d = Some d' -> d' = d /\ exists r, d = ("ibc/" ++ r)%string /\ slen r = 64.
Proof. exact ibc_denom_ok. Qed.
Print Assumptions C14_ibc_denom.
Theorem C14_denom : forall d d', validate_denom d = Some d' -> d' = d /\ 3 < slen d /\ str_forall is_alpha d = true.
Proof. exact denom_ok. Qed.
Print Assumptions C14_denom.

(* sections: what is STORED is well-formed (stored prefixes are the normalised ones, and every stored address
   validates under the stored prefix of its section; no validator or monitor twice) *)
Theorem C14_native_section : forall u n, validate_native valid_addr u = Some n -> wf_native n /\ nc_unbonding n = un_unbonding u.
Proof. exact native_cfg_wf. Qed.
Print Assumptions C14_native_section.
Theorem C14_protocol_section : forall u p,
  validate_protocol valid_addr u = Some p -> wf_protocol p /\ pc_min p = up_min u /\ pc_oracle p = up_oracle u.
Proof. exact protocol_cfg_wf. Qed.
Print Assumptions C14_protocol_section.
Theorem C14_fee_section : forall u p f, validate_fee valid_addr u p = Some f -> wf_fee f p /\ fee_rate f = uf_rate u.
Proof. exact fee_cfg_wf. Qed.
Print Assumptions C14_fee_section.

Theorem C14_instantiate : forall e i m s r,
  instantiate valid_addr e i m = Ok (s, r) ->
  wf_config (cfg s)
  /\ (exists sub, lst_denom (cfg s) = ("factory/" ++ self e ++ "/" ++ sub)%string /\ 3 < slen sub /\ str_forall is_alpha sub = true)
  /\ stopped (cfg s) = true /\ batch_period (cfg s) = im_batch_period m.
Proof. exact instantiate_wf. Qed.
Print Assumptions C14_instantiate.

Theorem C14_update_config_sectional : forall dv av s e i n p f m bp s' r,
  execute valid_addr dv av s e i (UpdateConfig n p f m bp) = Ok (s', r) ->
  admin s = Some (sender i) /\ r = []
  /\ st s' = st s /\ admin s' = admin s /\ batches s' = batches s /\ pending_id s' = pending_id s
  /\ requests s' = requests s /\ inflight s' = inflight s /\ waitq s' = waitq s /\ version s' = version s
  /\ lst_denom (cfg s') = lst_denom (cfg s) /\ stopped (cfg s') = stopped (cfg s)
  /\ (n = None -> native (cfg s') = native (cfg s))
  /\ (p = None -> protocol (cfg s') = protocol (cfg s))
  /\ (f = None -> fees (cfg s') = fees (cfg s))
  /\ (m = None -> monitors (cfg s') = monitors (cfg s))
  /\ (bp = None -> batch_period (cfg s') = batch_period (cfg s))
  /\ (forall x, bp = Some x -> batch_period (cfg s') = x)
  /\ (n <> None -> wf_native (native (cfg s')))
  /\ (p <> None -> wf_protocol (protocol (cfg s')))
  /\ (f <> None -> wf_fee (fees (cfg s')) (protocol (cfg s')))
  /\ (m <> None -> NoDup (monitors (cfg s')) /\ forall x, In x (monitors (cfg s')) -> valid_addr x (pc_prefix (protocol (cfg s'))) = true).
Proof. exact update_config_sectional. Qed.
Print Assumptions C14_update_config_sectional.

Theorem C14_add_validator : forall dv av s e i v s' r,
  execute valid_addr dv av s e i (AddValidator v) = Ok (s', r) ->
  admin s = Some (sender i) /\ valid_addr v (nc_valprefix (native (cfg s))) = true
  /\ ~ In v (nc_validators (native (cfg s)))
  /\ nc_validators (native (cfg s')) = (nc_validators (native (cfg s)) ++ [v])%list
  /\ s' = set_cfg s (set_validators (cfg s) (nc_validators (native (cfg s)) ++ [v])) /\ r = [].
Proof. exact add_validator_spec. Qed.
Print Assumptions C14_add_validator.

Theorem C14_remove_validator : forall dv av s e i v s' r,
  execute valid_addr dv av s e i (RemoveValidator v) = Ok (s', r) ->
  admin s = Some (sender i) /\ valid_addr v (nc_valprefix (native (cfg s))) = true
  /\ In v (nc_validators (native (cfg s)))
  /\ nc_validators (native (cfg s')) = remove_first_str v (nc_validators (native (cfg s)))
  /\ s' = set_cfg s (set_validators (cfg s) (remove_first_str v (nc_validators (native (cfg s))))) /\ r = [].
Proof. exact remove_validator_spec. Qed.
Print Assumptions C14_remove_validator.

Theorem C14_remove_exactly : forall v l,
  NoDup l -> In v l -> NoDup (remove_first_str v l) /\ (forall x, In x (remove_first_str v l) <-> In x l /\ x <> v).
Proof. exact (remove_first_str_spec (fun _ _ _ => None) (fun _ => true)). Qed.
Print Assumptions C14_remove_exactly.

Example C14_example :
  validate_address_prefix "OSMO" = Some "osmo"%string /\ validate_address_prefix "OsMo" = None
  /\ valid_channel "channel-17" = true /\ valid_channel "channel-+5" = false /\ valid_channel "channel-" = false
  /\ valid_addr "osmo12z558dm3ew6avgjdj07mfslx80rp9sh8nt7q3w" "osmo" = true
  /\ valid_addr "osmo12z558dm3ew6avgjdj07mfslx80rp9sh8nt7q3x" "osmo" = false.
Proof. vm_compute. repeat split; reflexivity. Qed.

(* every supplied section of an accepted UpdateConfig is applied: the stored section is the validated form of the supplied
   one, and the fields that are stored verbatim carry the supplied values *)
Theorem C14_supplied_sections_are_applied : forall va dv av s e i n p f m bp s' r,
  execute va dv av s e i (UpdateConfig n p f m bp) = Ok (s', r) ->
  (forall u, n = Some u -> validate_native va u = Some (native (cfg s'))
                           /\ nc_staker (native (cfg s')) = un_staker u /\ nc_collector (native (cfg s')) = un_collector u
                           /\ nc_validators (native (cfg s')) = un_validators u /\ nc_unbonding (native (cfg s')) = un_unbonding u)
  /\ (forall u, p = Some u -> validate_protocol va u = Some (protocol (cfg s'))
                              /\ pc_channel (protocol (cfg s')) = up_channel u /\ pc_min (protocol (cfg s')) = up_min u
                              /\ pc_oracle (protocol (cfg s')) = up_oracle u)
  /\ (forall u, f = Some u -> fee_rate (fees (cfg s')) = uf_rate u /\ fee_treasury (fees (cfg s')) = uf_treasury u)
  /\ (forall l, m = Some l -> monitors (cfg s') = l)
  /\ (forall x, bp = Some x -> batch_period (cfg s') = x).
Proof. exact update_config_applies. Qed.
Print Assumptions C14_supplied_sections_are_applied.
