(* C19 — Token-factory messages are correct for the target chain in both build variants.
   [backend] is the build (Osmosis = default features, Miniwasm = the miniwasm feature); the handlers are one function for
   both builds and only [render] looks at the backend. *)
From MW Require Import Base Wire Staking.
From MW.Proofs Require Import Handlers Ledger TokenFactory.
From MW.Proto Require Import Codec Sample CodecProofs.
From MW.Gen Require Import Consts Schema RefSchema.
Open Scope N_scope.

(* --- bytes and type URLs, for both builds and all senders, denoms, amounts --- *)
Theorem C19_create_denom_message : forall b sender sub,
  sender <> EmptyString -> sub <> EmptyString -> small sender -> small sub ->
  render b (ACreateDenom sender sub) = CStargate (tf_url b "MsgCreateDenom") (encode (create_val sender sub))
  /\ decode (tf_spec b) 2 (tf_name b "MsgCreateDenom") (encode (create_val sender sub)) = Some [(1, FBytes sender); (2, FBytes sub)].
Proof. intros b sender sub H1 H2 H3 H4. split; [apply render_create; assumption | apply create_decodes; assumption]. Qed.
Print Assumptions C19_create_denom_message.

Theorem C19_mint_message : forall b sender c to,
  sender <> EmptyString -> to <> EmptyString -> c_denom c <> EmptyString -> small sender -> small to -> small_coin c ->
  render b (AMint sender c to) = CStargate (tf_url b "MsgMint") (encode (mint_val sender c to))
  /\ decode (tf_spec b) 2 (tf_name b "MsgMint") (encode (mint_val sender c to))
     = Some [(1, FBytes sender); (2, FMsg [(1, FBytes (c_denom c)); (2, FBytes (N_to_string (c_amount c)))]); (3, FBytes to)].
Proof. intros b sender c to H1 H2 H3 H4 H5 H6. split; [apply render_mint; assumption | apply mint_decodes; assumption]. Qed.
Print Assumptions C19_mint_message.

Theorem C19_burn_message : forall b sender c from,
  sender <> EmptyString -> from <> EmptyString -> c_denom c <> EmptyString -> small sender -> small from -> small_coin c ->
  render b (ABurn sender c from) = CStargate (tf_url b "MsgBurn") (encode (burn_val b sender c from))
  /\ decode (tf_spec b) 2 (tf_name b "MsgBurn") (encode (burn_val b sender c from)) = Some (burn_val b sender c from).
Proof. intros b sender c from H1 H2 H3 H4 H5 H6. split; [apply render_burn; assumption | apply burn_decodes; assumption]. Qed.
Print Assumptions C19_burn_message.

(* --- which calls emit them, with what --- *)
Theorem C19_instantiate_creates_the_denom : forall va e i m s r,
  instantiate va e i m = Ok (s, r) ->
  r = [plain (ACreateDenom (self e) (im_lst m))]
  /\ lst_denom (cfg s) = ("factory/" ++ self e ++ "/" ++ im_lst m)%string /\ 3 < slen (im_lst m) /\ total_lst (st s) = 0.
Proof. exact instantiate_creates_denom. Qed.
Print Assumptions C19_instantiate_creates_the_denom.

Theorem C19_only_stake_mints_only_submit_burns : forall va dv av s c,
  let s' := fst (apply_call va dv av s c) in
  let r := snd (apply_call va dv av s c) in
  lst_denom (cfg s') = lst_denom (cfg s)
  /\ match c with
     | CExec e i (LiquidStake _ _ _) =>
         tfs r = [] \/
         exists m, tfs r = [AMint (self e) {| c_denom := lst_denom (cfg s); c_amount := m |} (self e)]
                   /\ m <> 0 /\ total_lst (st s') = total_lst (swept (st s)) + m
     | CExec e i SubmitBatch =>
         tfs r = [] \/
         exists b, nfind (pending_id s) (batches s) = Some b
                   /\ tfs r = [ABurn (self e) {| c_denom := lst_denom (cfg s); c_amount := b_total b |} (self e)]
                   /\ b_total b <= total_lst (st s) /\ total_lst (st s') = total_lst (st s) - b_total b
     | _ => tfs r = []
     end.
Proof. exact call_token_factory. Qed.
Print Assumptions C19_only_stake_mints_only_submit_burns.

Theorem C19_denom_is_factory_contract_subdenom_forever : forall va dv av e0 i0 m0 s0 r0 cs,
  instantiate va e0 i0 m0 = Ok (s0, r0) ->
  lst_denom (cfg (after va dv av s0 cs)) = ("factory/" ++ self e0 ++ "/" ++ im_lst m0)%string.
Proof. exact denom_fixed_forever. Qed.
Print Assumptions C19_denom_is_factory_contract_subdenom_forever.

(* --- the two builds differ in nothing else --- *)
Theorem C19_builds_agree_elsewhere : forall m, is_tf m = false -> render Osmosis m = render Miniwasm m.
Proof. exact render_backend_independent. Qed.
Print Assumptions C19_builds_agree_elsewhere.

(* --- the message definitions used above are the ones in the sources (regenerated tables) --- *)
Definition spec_matches (S spec : schema) : bool :=
  forallb (fun nd => match lookup_msg S (fst nd) with
                     | Some d => msg_compat (snd nd) d && msg_compat d (snd nd)
                                 && (N.of_nat (List.length d) =? N.of_nat (List.length (snd nd)))
                     | None => false
                     end) spec.
Theorem C19_miniwasm_definitions_are_the_bindings : spec_matches gen_schema (tf_spec Miniwasm) = true.
Proof. vm_compute. reflexivity. Qed.
Print Assumptions C19_miniwasm_definitions_are_the_bindings.

Theorem C19_osmosis_definitions_are_osmosis_std : spec_matches ref_schema (tf_spec Osmosis) = true.
Proof. vm_compute. reflexivity. Qed.
Print Assumptions C19_osmosis_definitions_are_osmosis_std.

Theorem C19_source_type_urls :
  src_tf_miniwasm_urls = (tf_url Miniwasm "MsgCreateDenom" ++ "," ++ tf_url Miniwasm "MsgMint" ++ "," ++ tf_url Miniwasm "MsgBurn")%string
  /\ src_tf_osmosis_types = "MsgBurn,MsgCreateDenom,MsgMint"%string
  /\ src_lst_denom_format = "factory/{0}/{1}"%string.
Proof. repeat split; reflexivity. Qed.
Print Assumptions C19_source_type_urls.
