(* C03 — LST supply integrity and exact delivery of minted tokens (contract level, whole call histories, and at the end
   the supply equation along every history of the world model of World.v). *)
From MW Require Import Staking World.
From MW.Proofs Require Import Tactics Handlers.
From MW.Proofs Require Import Invariant Ledger WorldProofs.
Open Scope N_scope.

(* A successful LiquidStake: one mint of m to the contract itself, the stake forwarded to the staker, and
   exactly one delivery of exactly m LST — a bank send to a protocol-chain recipient or an IBC transfer to a
   native-chain recipient (the flag decides when the address is valid on both) — and nothing else carries LST;
   the LST total grows by exactly m *)
Theorem C03_delivery : forall va dv av s e i mt tn ex s' r,
  execute va dv av s e i (LiquidStake mt tn ex) = Ok (s', r) ->
  exists a m om,
    let D := pc_denom (protocol (cfg s)) in
    let addr := opt_default (sender i) mt in
    let sid := sub_id e None in
    let timeout := now_ns e + IBC_TIMEOUT_NS in
    let stake_sub := transfer_sub s e sid (nc_staker (native (cfg s))) {| c_denom := D; c_amount := a |} timeout in
    let lstc := {| c_denom := lst_denom (cfg s); c_amount := m |} in
    must_pay i D = Ok a
    /\ m <> 0
    /\ total_lst (st s') = total_lst (swept (st s)) + m
    /\ oracle_msgs s' e = Ok om
    /\ (va addr (nc_prefix (native (cfg s))) || va addr (pc_prefix (protocol (cfg s))) = true)
    /\ ((stake_to_protocol va s addr tn = true
         /\ r = ([mint_msg s e m] ++ om ++ [stake_sub] ++ [plain (ASend (self e) addr lstc)])%list)
        \/ (stake_to_protocol va s addr tn = false
            /\ r = ([mint_msg s e m] ++ om ++ [stake_sub] ++ [transfer_sub s e (sid + 1) addr lstc timeout])%list)).
Proof.
  intros va dv av s e i mt tn ex s' r H.
  destruct (liquid_stake_inv va dv av s e i mt tn ex s' r H)
    as (a & m & om & Hp & _ & _ & Hv & _ & _ & Hnz & _ & Hst & _ & _ & _ & _ & _ & _ & _ & _ & _ & Ho & Hr).
  exists a, m, om. cbv zeta. rewrite Hst. cbn.
  repeat (split; [assumption || reflexivity|]).
  destruct Hr as [(P & R & _) | (P & R & _)]; [left | right]; split; assumption.
Qed.
Print Assumptions C03_delivery.

(* the classification of the recipient: protocol-chain delivery iff the address is valid under the protocol
   prefix and (it is not also valid under the native prefix, or the caller did not ask for the native chain) *)
Theorem C03_classification : forall va s addr tn,
  stake_to_protocol va s addr tn = true <->
  (va addr (pc_prefix (protocol (cfg s))) = true
   /\ (va addr (nc_prefix (native (cfg s))) = false \/ tn <> Some true)).
Proof.
  intros va s addr tn. unfold stake_to_protocol.
  destruct (va addr (nc_prefix (native (cfg s)))), (va addr (pc_prefix (protocol (cfg s)))), tn as [[|]|]; cbn;
    intuition (try discriminate; try congruence).
Qed.
Print Assumptions C03_classification.

(* a sender whose address is not <protocol prefix> + 39 characters must name a recipient *)
Theorem C03_contract_sender_must_name_recipient : forall va dv av s e i tn ex s' r,
  execute va dv av s e i (LiquidStake None tn ex) = Ok (s', r) ->
  slen (sender i) = slen (pc_prefix (protocol (cfg s))) + 39.
Proof.
  intros va dv av s e i tn ex s' r H.
  destruct (liquid_stake_inv va dv av s e i None tn ex s' r H) as (a & m & om & _ & _ & Hn & _).
  apply Hn. reflexivity.
Qed.
Print Assumptions C03_contract_sender_must_name_recipient.

(* SubmitBatch burns exactly the batch total, from the contract's own balance, and lowers the LST total by it *)
Theorem C03_burn : forall va dv av s e i s' r,
  execute va dv av s e i SubmitBatch = Ok (s', r) ->
  exists b om,
    nfind (pending_id s) (batches s) = Some b
    /\ b_total b <= total_lst (st s)
    /\ total_lst (st s') = total_lst (st s) - b_total b
    /\ oracle_msgs s' e = Ok om
    /\ r = plain (ABurn (self e) {| c_denom := lst_denom (cfg s); c_amount := b_total b |} (self e)) :: om.
Proof.
  intros va dv av s e i s' r H.
  destruct (submit_batch_inv va dv av s e i s' r H) as (b & u & om & _ & Hb & _ & _ & Hle & _ & Hst & _ & _ & _ & _ & _ & _ & _ & _ & Ho & Hr).
  exists b, om. rewrite Hst. cbn. repeat split; assumption.
Qed.
Print Assumptions C03_burn.

(* ---------- whole histories ---------- *)
From MW.Proofs Require Import Maps Invariant Recovery Ledger Solvency.

(* LST total + burnt = initial LST total + minted + re-basing, where minted / burnt are the amounts of the
   token-factory messages the contract actually emitted: the circulating supply follows the State total *)
Theorem C03_supply : forall va dv av s0 cs,
  I_batches s0 ->
  let '(s, g) := run va dv av s0 cs in
  (Z.of_N (total_lst (st s)) + Z.of_N (g_burnt g) = Z.of_N (total_lst (st s0)) + Z.of_N (g_minted g) + g_adjL g)%Z.
Proof.
  intros va dv av s0 cs HI. pose proof (ledger va dv av s0 cs HI) as H.
  destruct (run va dv av s0 cs) as [s g]. destruct H as [_ H]. exact H.
Qed.
Print Assumptions C03_supply.

(* the contract's own LST holdings = pending batch total + refunded LST transfers awaiting re-send
   (ghost wallet and assumptions as in C02) *)
Theorem C03_holdings : forall va dv av sw cs,
  Solvent sw -> all_ok va dv av sw cs ->
  let '(s, w) := fold_left (wstep va dv av) cs sw in
  (w_balL w = Z.of_N (pending_total s) + Z.of_N (refundable_total (L_of s) s))%Z.
Proof.
  intros va dv av sw cs H Hok. pose proof (solvency va dv av sw cs H Hok) as HS.
  destruct (fold_left (wstep va dv av) cs sw) as [s w]. destruct HS as (_ & _ & _ & _ & _ & E). exact E.
Qed.
Print Assumptions C03_holdings.

(* the same supply equation along every history of the world model (World.v): the token factory executes exactly the mint
   and burn messages of committed transactions, so the circulating supply is minted - burnt of the world's ghost *)
Theorem C03_world_supply : forall va dv av e i m s r evs,
  instantiate va e i m = Ok (s, r) ->
  let w := wrun va dv av (world0 s) evs in
  let g := wghost va dv av (world0 s) g0 evs in
  (Z.of_N (total_lst (st (w_store w))) + Z.of_N (g_burnt g) = Z.of_N (g_minted g) + g_adjL g)%Z.
Proof.
  intros va dv av e i m s r evs H. cbv zeta.
  assert (HI : I_batches s) by (eapply instantiate_I_batches; exact H).
  assert (H0 : Led s (w_store (world0 s), g0)).
  { unfold Led, g0, ZN. cbn. split; [exact HI | split; lia]. }
  destruct (world_ledger va dv av s (world0 s) g0 evs H0) as [(_ & _ & A) _].
  assert (L0 : total_lst (st s) = 0).
  { unfold instantiate in H. inv_ok H. inversion H; subst. reflexivity. }
  unfold ZN in A. rewrite L0 in A. cbn [world0 w_store] in *. lia.
Qed.
Print Assumptions C03_world_supply.

(* the contract's own LST holdings along every history of the world model: pending batch + refunded LST deliveries
   awaiting re-send (assumptions of C02_world_solvency) *)
From MW.Proofs Require Import WorldSolvency.
Theorem C03_world_holdings : forall va dv av e i m s r evs,
  instantiate va e i m = Ok (s, r) -> D_of s <> L_of s -> events_ok va dv av (exec_ok va dv av) (world0 s) evs ->
  let w := World.wrun va dv av (world0 s) evs in
  let wal := wwallet va dv av (world0 s) {| w_balD := 0; w_balL := 0; w_swept := 0; w_paid := 0 |} evs in
  (w_balL wal = Z.of_N (pending_total (w_store w)) + Z.of_N (refundable_total (L_of (w_store w)) (w_store w)))%Z.
Proof.
  intros va dv av e i m s r evs H Hne Hok. cbv zeta.
  assert (HS : Solvent (w_store (world0 s), {| w_balD := 0; w_balL := 0; w_swept := 0; w_paid := 0 |})).
  { cbn [world0 w_store]. eapply solvent_init; eassumption. }
  pose proof (world_solvency va dv av (world0 s) _ evs (world0_inv va e i m s r H) HS Hok) as (_ & _ & _ & _ & _ & E). exact E.
Qed.
Print Assumptions C03_world_holdings.
