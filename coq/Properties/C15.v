(* C15 — placeholder until the theorems are written (pipeline bring-up). *)
From MW Require Import Staking.
