(* C15 — rates posted to the oracle are the post-transaction rates; the oracle is optional. *)
From MW Require Import Staking.
From MW.Proofs Require Import OracleOptional Tactics Handlers Oracle.
Open Scope N_scope.

(* rates as 18-decimal fixed point: redemption = floor(N*10^18/L), purchase = floor(L*10^18/N); (0,0) when L = 0 *)
Theorem C15_rates : forall x r p,
  get_rates x = Some (r, p) ->
  (total_lst x = 0 /\ r = 0 /\ p = 0)
  \/ (total_lst x <> 0 /\ total_native x <> 0
      /\ r = total_native x * 10 ^ 18 / total_lst x /\ p = total_lst x * 10 ^ 18 / total_native x).
Proof. exact get_rates_spec. Qed.
Print Assumptions C15_rates.

(* what must be posted for a store: nothing without an oracle; with oracle o exactly one
   MsgExecuteContract(o) carrying the LST denom and the rates of that very store *)
Theorem C15_expected_posts : forall s e,
  expected_posts s e =
  match pc_oracle (protocol (cfg s)) with
  | None => Some []
  | Some o => match get_rates (st s) with
              | Some (r, p) => Some [plain (AOracle (self e) o (lst_denom (cfg s)) (dec_to_string p) (dec_to_string r))]
              | None => None
              end
  end.
Proof. reflexivity. Qed.
Print Assumptions C15_expected_posts.

(* every successful transaction that changes the totals (LiquidStake, SubmitBatch, ReceiveRewards,
   ResumeContract) emits, among its messages, exactly the posts expected for the store it RETURNS *)
Theorem C15_posts_post_state : forall va dv av s e i m s' r,
  posting m = true -> execute va dv av s e i m = Ok (s', r) -> expected_posts s' e = Some (oracle_posts r).
Proof. exact posts_post_state. Qed.
Print Assumptions C15_posts_post_state.

(* the State query reports the purchase rate of the same store *)
Theorem C15_state_query : forall s n l rate po rw fe,
  query s QState = Ok (RState n l rate po rw fe) ->
  exists r, get_rates (st s) = Some (r, rate) /\ n = total_native (st s) /\ l = total_lst (st s).
Proof. exact state_query_rate. Qed.
Print Assumptions C15_state_query.

(* without an oracle the posting step cannot fail and posts nothing *)
Theorem C15_no_oracle_no_post : forall s e, pc_oracle (protocol (cfg s)) = None -> oracle_msgs s e = Ok [].
Proof. exact oracle_msgs_none. Qed.
Print Assumptions C15_no_oracle_no_post.

(* oracle optional: whatever succeeds with an oracle configured succeeds on the same store without one, with the same
   resulting store (less the oracle address) and the same messages except the oracle post. The only message excluded is
   an UpdateConfig that carries a protocol section, i.e. the message that sets the oracle address itself. *)
Theorem C15_oracle_optional : forall va dv av s e i m s' r,
  sets_protocol m = false ->
  execute va dv av s e i m = Ok (s', r) ->
  execute va dv av (drop s) e i m = Ok (drop s', non_oracle r).
Proof. exact oracle_optional. Qed.
Print Assumptions C15_oracle_optional.

Example C15_example_first_stake :
  get_rates {| total_native := 1000; total_lst := 1000; total_reward := 0; total_fees := 0; pending_owner := None; owner_min_time := None |}
  = Some (10 ^ 18, 10 ^ 18) /\ dec_to_string (10 ^ 18) = "1"%string
  /\ dec_to_string (2 * 10 ^ 18 / 3) = "0.666666666666666666"%string.
Proof. vm_compute. repeat split; reflexivity. Qed.
