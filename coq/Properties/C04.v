(* C04 — exchange-rate fairness: floor rounding, no dilution, no rounding profit.
   Only statements here; every proof is a lemma of MW.Proofs closed by [exact]. *)
From MW Require Import Staking.
From MW.Proofs Require Import Tactics Arith Handlers.
Open Scope N_scope.

(* the pure helpers: floor(amount * totalLST / totalStaked), 1:1 when nothing is staked *)
Theorem C04_mint_floor : forall tn tl a m,
  compute_mint tn tl a = Some m ->
  (tn = 0 /\ m = a) \/ (tn <> 0 /\ m = tl * a / tn /\ m <= u128_max).
Proof. exact compute_mint_spec. Qed.
Print Assumptions C04_mint_floor.

Theorem C04_mint_defined : forall tn tl a,
  tn <> 0 -> tl * a / tn <= u128_max -> compute_mint tn tl a = Some (tl * a / tn).
Proof. exact compute_mint_total. Qed.
Print Assumptions C04_mint_defined.

Theorem C04_unbond_floor : forall tn tl b u,
  compute_unbond tn tl b = Some u ->
  (b = 0 /\ u = 0) \/ (b <> 0 /\ tl <> 0 /\ u = tn * b / tl /\ u <= u128_max).
Proof. exact compute_unbond_spec. Qed.
Print Assumptions C04_unbond_floor.

(* LiquidStake: a successful call mints exactly compute_mint of the (post-sweep) totals, never zero,
   at least the expected amount, only for amounts at or above the minimum; the totals grow by exactly
   the paid and the minted amount *)
Theorem C04_stake : forall va dv av s e i mt tn ex s' r,
  execute va dv av s e i (LiquidStake mt tn ex) = Ok (s', r) ->
  exists a m,
    must_pay i (pc_denom (protocol (cfg s))) = Ok a
    /\ pc_min (protocol (cfg s)) <= a
    /\ compute_mint (total_native (swept (st s))) (total_lst (swept (st s))) a = Some m
    /\ m <> 0
    /\ (forall x, ex = Some x -> x <= m)
    /\ total_native (st s') = total_native (swept (st s)) + a
    /\ total_lst (st s') = total_lst (swept (st s)) + m
    /\ In (mint_msg s e m) r.
Proof.
  intros va dv av s e i mt tn ex s' r H.
  destruct (liquid_stake_inv va dv av s e i mt tn ex s' r H) as (a & m & om & Hp & _ & _ & _ & Hmin & Hm & Hnz & Hex & Hst & _ & _ & _ & _ & _ & _ & _ & _ & _ & _ & Hr).
  exists a, m. rewrite Hst. cbn.
  repeat (split; [assumption || reflexivity|]).
  destruct Hr as [(_ & -> & _) | (_ & -> & _)]; left; reflexivity.
Qed.
Print Assumptions C04_stake.

(* SubmitBatch sets aside floor(totalStaked * batchLST / totalLST) *)
Theorem C04_submit : forall va dv av s e i s' r,
  execute va dv av s e i SubmitBatch = Ok (s', r) ->
  exists b u,
    nfind (pending_id s) (batches s) = Some b
    /\ compute_unbond (total_native (st s)) (total_lst (st s)) (b_total b) = Some u
    /\ b_total b <= total_lst (st s)
    /\ nfind (b_id b) (batches s') <> None
    /\ total_native (st s') = total_native (st s) - u
    /\ total_lst (st s') = total_lst (st s) - b_total b.
Proof.
  intros va dv av s e i s' r H.
  destruct (submit_batch_inv va dv av s e i s' r H) as (b & u & om & _ & Hb & _ & _ & Hle & Hu & Hst & _ & _ & _ & _ & _ & _ & _ & Hbs & _).
  exists b, u. rewrite Hst, Hbs. cbn.
  repeat (split; [assumption || reflexivity|]).
  split; [| split; reflexivity].
  clear. generalize (ninsert (b_id b + 1) (new_batch (b_id b + 1) (now_s e + batch_period (cfg s))) (batches s)).
  intros m. induction m as [|[k v] m IH]; cbn.
  - rewrite N.eqb_refl. discriminate.
  - destruct (b_id b <? k) eqn:E1; cbn; [rewrite N.eqb_refl; discriminate|].
    destruct (b_id b =? k) eqn:E2; cbn; [rewrite N.eqb_refl; discriminate|].
    rewrite E2. exact IH.
Qed.
Print Assumptions C04_submit.

(* neither operation lowers the redemption rate (staked per LST) of the remaining holders *)
Theorem C04_stake_rate_mono : forall N L a m, N <> 0 -> m = L * a / N -> N * (L + m) <= (N + a) * L.
Proof. exact stake_rate_mono. Qed.
Print Assumptions C04_stake_rate_mono.

Theorem C04_submit_rate_mono : forall N L b u, L <> 0 -> b <= L -> u = N * b / L -> N * (L - b) <= (N - u) * L.
Proof. exact submit_rate_mono. Qed.
Print Assumptions C04_submit_rate_mono.

(* staking and then immediately unstaking never returns more than was paid in:
   stake a at totals (N, L) minting m; the batch B contains those m tokens (and possibly others);
   submission sets aside u = floor((N+a) * B / (L+m)); the staker's share floor(u * m / B) is at most a *)
Theorem C04_no_round_trip_profit : forall N L a m B,
  0 < B -> m <= B -> B <= L + m ->
  (N = 0 -> m = a) -> (N <> 0 -> m = L * a / N) ->
  ((N + a) * B / (L + m)) * m / B <= a.
Proof. exact no_round_trip_profit. Qed.
Print Assumptions C04_no_round_trip_profit.

(* non-vacuity: the figures of the repository's own unit test, and an inexact division *)
Example C04_example_mint : compute_mint 2000000000 1800000000 100000000 = Some 90000000.
Proof. vm_compute. reflexivity. Qed.
Example C04_example_floor : compute_mint 3 7 11 = Some 25 /\ compute_unbond 10 3 2 = Some 6.
Proof. vm_compute. split; reflexivity. Qed.
