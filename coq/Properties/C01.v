(* C01 — staked-asset accounting is fully backed (whole histories, contract level with ghost counters).
   The ghost counters are functions of the calls and of the contract's own responses:
     fwd   = sum of the staked asset forwarded toward the staker by successful LiquidStake (the payment) and
             ReceiveRewards (the reward net of the fee) -- each is carried by a reply-tracked IBC transfer of
             exactly that amount to the configured staker (C01_forwarded_is_sent);
     aside = sum of the expected amounts recorded by successful SubmitBatch;
     swept = ownerless stake moved to the fee balance by LiquidStake (only when LST = 0 and staked > 0);
     adjN  = signed re-basing by ResumeContract.
   Where the forwarded tokens ARE (delivered / in flight / refunded and still recorded) is a statement about the
   chain: C01_located below proves it over the world model of World.v (transactions are atomic, every transfer the
   contract emits becomes a packet and a reply, settlements reach the contract through sudo) -- those chain semantics
   are assumed, and exercised by the chain simulator and the world monitor. The "Hence" about the staker's native
   balance needs the native chain's ledger and stays a monitor. *)
From MW Require Import Base Wire Staking World.
From MW.Proofs Require Import Tactics Handlers Maps Invariant Ledger WorldProofs.
Open Scope N_scope.

(* for every sequence of execute / reply / sudo calls (successful or refused, by any sender, at any block time,
   under any configuration updates) from any store satisfying the batch invariant:
      staked total + set aside + swept = initial staked total + forwarded + re-basing *)
Theorem C01_ledger : forall va dv av s0 cs,
  I_batches s0 ->
  let '(s, g) := run va dv av s0 cs in
  (Z.of_N (total_native (st s)) + Z.of_N (g_aside g) + Z.of_N (g_swept g)
   = Z.of_N (total_native (st s0)) + Z.of_N (g_fwd g) + g_adjN g)%Z.
Proof.
  intros va dv av s0 cs HI. pose proof (ledger va dv av s0 cs HI) as H.
  destruct (run va dv av s0 cs) as [s g]. destruct H as [H _]. exact H.
Qed.
Print Assumptions C01_ledger.

(* from a fresh instantiation the initial staked total is 0 and the batch invariant holds *)
Theorem C01_from_instantiate : forall va e i m s r,
  instantiate va e i m = Ok (s, r) -> I_batches s /\ total_native (st s) = 0.
Proof.
  intros va e i m s r H. split; [eapply instantiate_I_batches; exact H|].
  unfold instantiate in H. inv_ok H. injection H as <- _. reflexivity.
Qed.
Print Assumptions C01_from_instantiate.

Theorem C01_forwarded_is_sent : forall va dv av s e i m s' r,
  execute va dv av s e i m = Ok (s', r) ->
  match m with
  | LiquidStake _ _ _ | ReceiveRewards =>
      In (transfer_sub s e (sub_id e None) (nc_staker (native (cfg s)))
            {| c_denom := pc_denom (protocol (cfg s)); c_amount := fwd_delta va dv av s (CExec e i m) |} (now_ns e + IBC_TIMEOUT_NS)) r
  | _ => True
  end.
Proof. exact forwarded_is_sent. Qed.
Print Assumptions C01_forwarded_is_sent.

(* the per-call deltas, spelled out (what each ghost counts) *)
Theorem C01_deltas : forall va dv av s c,
  fwd_delta va dv av s c =
    (if negb (succeeded va dv av s c) then 0 else
     match c with
     | CExec e i (LiquidStake _ _ _) => match must_pay i (pc_denom (protocol (cfg s))) with Ok a => a | _ => 0 end
     | CExec e i ReceiveRewards =>
         match find_coin (pc_denom (protocol (cfg s))) (funds i) with
         | Some c0 => c_amount c0 - fee_rate (fees (cfg s)) * c_amount c0 / FEE_DENOM
         | None => 0
         end
     | _ => 0
     end)
  /\ swept_delta va dv av s c =
    (if negb (succeeded va dv av s c) then 0 else
     match c with CExec e i (LiquidStake _ _ _) => if sweeps (st s) then total_native (st s) else 0 | _ => 0 end).
Proof. intros. split; reflexivity. Qed.
Print Assumptions C01_deltas.

(* --- the world: the contract inside a chain that executes its transfers, relays them and calls back --- *)
(* For every history of transactions (committed or rolled back), relays with any outcome in any order and stray
   callbacks, in which the routing (channel, staker, staked-asset denom) is not reconfigured and admin-forced recoveries
   name refunded transfers only: the packets toward the staker that are delivered or in flight, plus those refunded and
   still recorded by the contract (awaiting re-send), add up to exactly what successful LiquidStake and ReceiveRewards
   calls forwarded. *)
Theorem C01_located : forall va dv av w evs,
  W_inv w -> flights_tracked (w_packets w) -> events_ok va dv av (all_ok va dv av) w evs ->
  located (staker_of (w_store w)) (denom_of (w_store w)) (w_packets (wrun va dv av w evs))
  = located (staker_of (w_store w)) (denom_of (w_store w)) (w_packets w) + total_fwd va dv av w evs.
Proof. exact located_history. Qed.
Print Assumptions C01_located.

Theorem C01_located_from_instantiate : forall va dv av e i m s r evs,
  instantiate va e i m = Ok (s, r) -> events_ok va dv av (all_ok va dv av) (world0 s) evs ->
  located (staker_of s) (denom_of s) (w_packets (wrun va dv av (world0 s) evs)) = total_fwd va dv av (world0 s) evs.
Proof.
  intros va dv av e i m s r evs H Hok.
  pose proof (located_history va dv av (world0 s) evs (world0_inv va e i m s r H) (fun p Hp => match Hp with end) Hok) as L.
  cbn [world0 w_store w_packets] in L. exact L.
Qed.
Print Assumptions C01_located_from_instantiate.

(* a history that meets the hypotheses: a stake of 700, an error acknowledgement (refund), a permissionless recovery,
   a success acknowledgement -- 700 forwarded, 700 located (delivered), staked total 700 *)
Open Scope string_scope.
Definition ex_va : string -> string -> bool := fun _ _ => true.
Definition ex_dv : string -> string -> string -> option string := fun _ _ _ => None.
Definition ex_av : string -> bool := fun _ => true.
Definition ex_wstore : store :=
  {| cfg := {| native := {| nc_prefix := "celestia"; nc_valprefix := "celestiavaloper"; nc_denom := "utia";
                            nc_validators := ["v1"%string]; nc_unbonding := 100; nc_staker := "staker"; nc_collector := "coll" |};
               protocol := {| pc_prefix := "osmo"; pc_channel := "channel-0"; pc_denom := "ibc/x"; pc_min := 1; pc_oracle := None |};
               fees := {| fee_rate := 0; fee_treasury := None |}; lst_denom := "lst"; monitors := ["mon"%string];
               batch_period := 10; stopped := false |};
     st := {| total_native := 0; total_lst := 0; total_reward := 0; total_fees := 0; pending_owner := None; owner_min_time := None |};
     admin := Some "admin"%string; batches := [(1, new_batch 1 10)]; pending_id := 1; requests := []; inflight := [];
     waitq := []; version := ("staking"%string, "1.1.0"%string) |}.
Definition ex_env (t : N) : env := {| now_ns := t; txi := None; self := "me" |}.
Definition ex_user : string := "osmo1aaaaaaaaaaaaaaaaaaaaaaaaaaaaaaaaaaaaaa".
Definition ex_events : list wevent :=
  [ WExec (ex_env 5) {| sender := ex_user; funds := [{| c_denom := "ibc/x"; c_amount := 700 |}] |} (LiquidStake None None None);
    WRelay 1 OAckErr;
    WExec (ex_env 9) {| sender := ex_user; funds := [] |} (RecoverPendingIbcTransfers None None None);
    WRelay 2 OAckOk ].
Example C01_world_example :
  W_inv (world0 ex_wstore) /\ events_ok ex_va ex_dv ex_av (all_ok ex_va ex_dv ex_av) (world0 ex_wstore) ex_events
  /\ located "staker" "ibc/x" (w_packets (wrun ex_va ex_dv ex_av (world0 ex_wstore) ex_events)) = 700
  /\ total_fwd ex_va ex_dv ex_av (world0 ex_wstore) ex_events = 700
  /\ total_native (st (w_store (wrun ex_va ex_dv ex_av (world0 ex_wstore) ex_events))) = 700.
Proof.
  split.
  { unfold W_inv, world0, M_inv, I_packets. cbn. repeat split; try constructor; try (intros ? []); try reflexivity; intros; discriminate. }
  split; [| vm_compute; repeat split; reflexivity].
  unfold ex_events. cbn [events_ok]. unfold all_ok.
  assert (T : forall w e i m,
             (forall s' r, execute ex_va ex_dv ex_av (w_store w) e i m = Ok (s', r) ->
                           CH s' = CH (w_store w) /\ staker_of s' = staker_of (w_store w) /\ denom_of s' = denom_of (w_store w)) ->
             lst_denom (cfg (w_store w)) <> denom_of (w_store w) -> honest (w_store w) m ->
             routing_kept ex_va ex_dv ex_av w (WExec e i m) /\ ev_ok ex_va ex_dv ex_av w (WExec e i m)).
  { intros w e i m A B C. split; [intros s' r H; apply (A s' r H) | split; [exact A | split; [exact B | exact C]]]. }
  split; [apply T; [intros s' r H; vm_compute in H; inversion H; subst; vm_compute; repeat split; reflexivity | vm_compute; discriminate | exact I]|].
  split; [split; exact I|].
  split; [apply T; [intros s' r H; vm_compute in H; inversion H; subst; vm_compute; repeat split; reflexivity | vm_compute; discriminate | exact I]|].
  split; [split; exact I | exact I].
Qed.
Print Assumptions C01_world_example.

(* the property's first sentence on the world: at every point of every history (under the hypotheses of C01_located) the
   staked total equals the staked asset located toward the staker -- delivered, in flight, or refunded and still recorded --
   minus what was set aside for submitted batches and swept to fees, plus the admin's re-basing *)
Theorem C01_world_accounting : forall va dv av e i m s r evs,
  instantiate va e i m = Ok (s, r) -> events_ok va dv av (all_ok va dv av) (world0 s) evs ->
  let w := wrun va dv av (world0 s) evs in
  let g := wghost va dv av (world0 s) g0 evs in
  (Z.of_N (total_native (st (w_store w))) + Z.of_N (g_aside g) + Z.of_N (g_swept g)
   = Z.of_N (located (staker_of s) (denom_of s) (w_packets w)) + g_adjN g)%Z.
Proof.
  intros va dv av e i m s r evs H Hok. cbv zeta.
  assert (HI : I_batches s) by (eapply instantiate_I_batches; exact H).
  assert (H0 : Led s (w_store (world0 s), g0)).
  { unfold Led, g0, ZN. cbn. split; [exact HI | split; lia]. }
  destruct (world_ledger va dv av s (world0 s) g0 evs H0) as [(_ & A & _) B].
  pose proof (located_history va dv av (world0 s) evs (world0_inv va e i m s r H) (fun p Hp => match Hp with end) Hok) as L.
  cbn [world0 w_store w_packets] in L. unfold located in L at 2. cbn in L.
  assert (N0 : total_native (st s) = 0).
  { unfold instantiate in H. inv_ok H. inversion H; subst. reflexivity. }
  unfold ZN in A. rewrite N0 in A. cbn [g_fwd g0] in B. rewrite B in A. cbn [world0 w_store] in *. lia.
Qed.
Print Assumptions C01_world_accounting.
