(* C01 — staked-asset accounting is fully backed (whole histories, contract level with ghost counters).
   The ghost counters are functions of the calls and of the contract's own responses:
     fwd   = sum of the staked asset forwarded toward the staker by successful LiquidStake (the payment) and
             ReceiveRewards (the reward net of the fee) -- each is carried by a reply-tracked IBC transfer of
             exactly that amount to the configured staker (C01_forwarded_is_sent);
     aside = sum of the expected amounts recorded by successful SubmitBatch;
     swept = ownerless stake moved to the fee balance by LiquidStake (only when LST = 0 and staked > 0);
     adjN  = signed re-basing by ResumeContract.
   Where the forwarded tokens ARE (delivered / in flight / refunded) is a statement about the chain; it is
   checked on the chain simulator by the world monitor and is the part of DESIGN section 6 C01 not yet proved. *)
From MW Require Import Staking.
From MW.Proofs Require Import Tactics Handlers Maps Invariant Ledger.
Open Scope N_scope.

(* for every sequence of execute / reply / sudo calls (successful or refused, by any sender, at any block time,
   under any configuration updates) from any store satisfying the batch invariant:
      staked total + set aside + swept = initial staked total + forwarded + re-basing *)
Theorem C01_ledger : forall va dv av s0 cs,
  I_batches s0 ->
  let '(s, g) := run va dv av s0 cs in
  (Z.of_N (total_native (st s)) + Z.of_N (g_aside g) + Z.of_N (g_swept g)
   = Z.of_N (total_native (st s0)) + Z.of_N (g_fwd g) + g_adjN g)%Z.
Proof.
  intros va dv av s0 cs HI. pose proof (ledger va dv av s0 cs HI) as H.
  destruct (run va dv av s0 cs) as [s g]. destruct H as [H _]. exact H.
Qed.
Print Assumptions C01_ledger.

(* from a fresh instantiation the initial staked total is 0 and the batch invariant holds *)
Theorem C01_from_instantiate : forall va e i m s r,
  instantiate va e i m = Ok (s, r) -> I_batches s /\ total_native (st s) = 0.
Proof.
  intros va e i m s r H. split; [eapply instantiate_I_batches; exact H|].
  unfold instantiate in H. inv_ok H. injection H as <- _. reflexivity.
Qed.
Print Assumptions C01_from_instantiate.

Theorem C01_forwarded_is_sent : forall va dv av s e i m s' r,
  execute va dv av s e i m = Ok (s', r) ->
  match m with
  | LiquidStake _ _ _ | ReceiveRewards =>
      In (transfer_sub s e (sub_id e None) (nc_staker (native (cfg s)))
            {| c_denom := pc_denom (protocol (cfg s)); c_amount := fwd_delta va dv av s (CExec e i m) |} (now_ns e + IBC_TIMEOUT_NS)) r
  | _ => True
  end.
Proof. exact forwarded_is_sent. Qed.
Print Assumptions C01_forwarded_is_sent.

(* the per-call deltas, spelled out (what each ghost counts) *)
Theorem C01_deltas : forall va dv av s c,
  fwd_delta va dv av s c =
    (if negb (succeeded va dv av s c) then 0 else
     match c with
     | CExec e i (LiquidStake _ _ _) => match must_pay i (pc_denom (protocol (cfg s))) with Ok a => a | _ => 0 end
     | CExec e i ReceiveRewards =>
         match find_coin (pc_denom (protocol (cfg s))) (funds i) with
         | Some c0 => c_amount c0 - fee_rate (fees (cfg s)) * c_amount c0 / FEE_DENOM
         | None => 0
         end
     | _ => 0
     end)
  /\ swept_delta va dv av s c =
    (if negb (succeeded va dv av s c) then 0 else
     match c with CExec e i (LiquidStake _ _ _) => if sweeps (st s) then total_native (st s) else 0 | _ => 0 end).
Proof. intros. split; reflexivity. Qed.
Print Assumptions C01_deltas.
