(* C09 — cross-chain sender authentication follows the ibc-hooks derivation. *)
From MW Require Import Staking Crypto.
From MW.Proofs Require Import Tactics Handlers Authz Validation HookSender.
From MW.Gen Require Import Consts.
Open Scope N_scope.

Theorem C09_sender_prefix : src_sender_prefix = SENDER_PREFIX /\ SENDER_PREFIX = "ibc-wasm-hook-intermediary"%string.
Proof. split; reflexivity. Qed.
Print Assumptions C09_sender_prefix.

(* the contract's derivation IS the ibc-hooks one, for all channels, senders and prefixes *)
Theorem C09_derive_spec : forall ch snd pfx,
  derive ch snd pfx =
  b32_encode pfx
    (to_base32 (sha256_bytes (sha256 "ibc-wasm-hook-intermediary" ++ str_bytes (ch ++ "/" ++ snd)%string))) BECH32_CONST.
Proof. exact derive_spec. Qed.
Print Assumptions C09_derive_spec.

(* the account accepted for ReceiveRewards / ReceiveUnstakedTokens is exactly that account of the configured
   channel and the configured collector / staker, under the configured protocol prefix *)
Theorem C09_accepted_sender : forall va av s e i s' r,
  (execute va derive av s e i ReceiveRewards = Ok (s', r) ->
     derive (pc_channel (protocol (cfg s))) (nc_collector (native (cfg s))) (pc_prefix (protocol (cfg s))) = Some (sender i))
  /\ (forall id, execute va derive av s e i (ReceiveUnstakedTokens id) = Ok (s', r) ->
     derive (pc_channel (protocol (cfg s))) (nc_staker (native (cfg s))) (pc_prefix (protocol (cfg s))) = Some (sender i)).
Proof.
  intros va av s e i s' r. split.
  - intros H. apply (authz va derive av) in H. exact H.
  - intros id H. apply (authz va derive av) in H. exact H.
Qed.
Print Assumptions C09_accepted_sender.

(* for every prefix accepted by validation the derivation is defined *)
Theorem C09_derive_total : forall ch snd pfx, wf_prefix pfx -> exists a, derive ch snd pfx = Some a.
Proof. exact derive_total. Qed.
Print Assumptions C09_derive_total.

(* distinct (channel, sender) pairs with validated channels never map to the same account, short of an
   explicit SHA-256 collision (two different byte strings with equal digests): collision resistance itself
   cannot be a theorem *)
Theorem C09_derive_injective : forall c1 s1 c2 s2 pfx a,
  valid_channel c1 = true -> valid_channel c2 = true ->
  derive c1 s1 pfx = Some a -> derive c2 s2 pfx = Some a ->
  (c1 = c2 /\ s1 = s2) \/ (exists x y, x <> y /\ sha256_bytes x = sha256_bytes y).
Proof. exact derive_injective. Qed.
Print Assumptions C09_derive_injective.

(* the building blocks: bit regrouping and bech32 encoding lose nothing, digests are 32 bytes *)
Theorem C09_to_base32_injective : forall bs1 bs2,
  List.length bs1 = List.length bs2 -> (forall b, In b bs1 -> b < 256) -> (forall b, In b bs2 -> b < 256) ->
  to_base32 bs1 = to_base32 bs2 -> bs1 = bs2.
Proof. exact to_base32_inj. Qed.
Print Assumptions C09_to_base32_injective.
Theorem C09_sha256_shape : forall msg, List.length (sha256_bytes msg) = 32%nat /\ forall b, In b (sha256_bytes msg) -> b < 256.
Proof. exact sha256_bytes_shape. Qed.
Print Assumptions C09_sha256_shape.

(* test vectors: FIPS 180-4 ("abc", the empty string, the 56-byte two-block message) and BIP-173 *)
Example C09_sha256_abc :
  sha256 "abc" = [186; 120; 22; 191; 143; 1; 207; 234; 65; 65; 64; 222; 93; 174; 34; 35; 176; 3; 97; 163; 150; 23; 122; 156; 180; 16; 255; 97; 242; 0; 21; 173].
Proof. vm_compute. reflexivity. Qed.
Example C09_sha256_empty :
  sha256 "" = [227; 176; 196; 66; 152; 252; 28; 20; 154; 251; 244; 200; 153; 111; 185; 36; 39; 174; 65; 228; 100; 155; 147; 76; 164; 149; 153; 27; 120; 82; 184; 85].
Proof. vm_compute. reflexivity. Qed.
Example C09_sha256_two_blocks :
  sha256 "abcdbcdecdefdefgefghfghighijhijkijkljklmklmnlmnomnopnopq" =
  [36; 141; 106; 97; 210; 6; 56; 184; 229; 192; 38; 147; 12; 62; 96; 57; 163; 60; 228; 89; 100; 255; 33; 103; 246; 236; 237; 212; 25; 219; 6; 193].
Proof. vm_compute. reflexivity. Qed.
Example C09_bech32_vectors :
  b32_decode "A12UEL5L" = Some ("a"%string, [], 1)
  /\ b32_decode "abcdef1qpzry9x8gf2tvdw0s3jn54khce6mua7lmqqqxw" =
     Some ("abcdef"%string, [0;1;2;3;4;5;6;7;8;9;10;11;12;13;14;15;16;17;18;19;20;21;22;23;24;25;26;27;28;29;30;31], 1)
  /\ b32_decode "A12UEL5l" = None.
Proof. vm_compute. repeat split; reflexivity. Qed.

(* across a re-configuration: after an accepted UpdateConfig that supplies both the native and the protocol section, the
   only account whose ReceiveRewards / ReceiveUnstakedTokens can succeed is the one derived from the SUPPLIED channel and
   the SUPPLIED collector / staker (dv is the derivation function; C09_derive_spec characterises the concrete one) *)
Theorem C09_reconfigured_sender : forall va dv av s e i un up f m bp s1 r1 e2 i2 s2 r2,
  execute va dv av s e i (UpdateConfig (Some un) (Some up) f m bp) = Ok (s1, r1) ->
  (execute va dv av s1 e2 i2 ReceiveRewards = Ok (s2, r2) ->
     dv (up_channel up) (un_collector un) (pc_prefix (protocol (cfg s1))) = Some (sender i2))
  /\ (forall id, execute va dv av s1 e2 i2 (ReceiveUnstakedTokens id) = Ok (s2, r2) ->
     dv (up_channel up) (un_staker un) (pc_prefix (protocol (cfg s1))) = Some (sender i2)).
Proof. exact reconfigured_hook_sender. Qed.
Print Assumptions C09_reconfigured_sender.
