(* C16 — Entry points never panic, overflow or divide by zero (inside the stated domain).
   [Panic site] is the model's outcome for every panicking operator / unwrap of the source; the correspondence run on the
   extreme-value stream (catch_unwind around every entry-point call) ties the model's panic sites to the code's. *)
From MW Require Import Base Wire Staking Treasury.
From MW.Proofs Require Import NoPanic.
Open Scope N_scope.

(* --- treasury: every message, every state, every sender --- *)
Theorem C16_treasury_instantiate : forall av e sender m, is_panic (tinstantiate av e sender m) = false.
Proof. exact tinstantiate_no_panic. Qed.
Print Assumptions C16_treasury_instantiate.

Theorem C16_treasury_execute : forall va av s e sender m, tenv_sane e -> is_panic (texecute va av s e sender m) = false.
Proof. exact texecute_no_panic. Qed.
Print Assumptions C16_treasury_execute.

Theorem C16_treasury_query : forall s, t_admin s <> None -> is_panic (tquery s) = false.
Proof. exact tquery_no_panic. Qed.
Print Assumptions C16_treasury_query.
