(* C16 — Entry points never panic, overflow or divide by zero (inside the stated domain).
   [Panic site] is the model's outcome for every panicking operator / unwrap / unchecked arithmetic of the source
   (checked arithmetic that returns an error is [Err]); the correspondence run on the extreme-value stream, with
   catch_unwind around every entry-point call, ties the model's panic sites to the code's.
   Domain (NoPanic.v): dom_state — every total, batch amount, request and tracked transfer at most 10^27, exchange rate
   within [10^-3, 10^3] (no rate when no LST is outstanding), ids and counters below 2^63, fewer than 2^32 tracked
   transfers; dom_env — block time before the year 2262; dom_funds — attached coins at most 10^27; dom_call — the sender
   of a stake carries the chain prefix, a reward keeps the rate inside the range, Resume totals are inside it, fewer than
   2^32 selected ids. Configurations are unconstrained (every value validation accepts). *)
From MW Require Import Base Wire Staking Treasury Migrate.
From MW.Proofs Require Import Invariant Ledger NoPanic.
Open Scope N_scope.

(* --- staking --- *)
Theorem C16_execute : forall va dv av s e i m,
  I_batches s -> I_requests s -> dom_state s -> dom_env e -> dom_funds i -> dom_call s i m ->
  is_panic (execute va dv av s e i m) = false.
Proof. exact execute_no_panic. Qed.
Print Assumptions C16_execute.

Theorem C16_instantiate : forall va e i m, is_panic (instantiate va e i m) = false.
Proof. exact instantiate_no_panic. Qed.
Print Assumptions C16_instantiate.

Theorem C16_query : forall s q, dom_state s -> is_panic (query s q) = false.
Proof. exact query_no_panic. Qed.
Print Assumptions C16_query.

Theorem C16_reply_sudo : forall s, (forall id rr, is_panic (reply s id rr) = false) /\ (forall m, is_panic (sudo s m) = false).
Proof. intros s. split; [intros; apply reply_np | intros; apply sudo_np]. Qed.
Print Assumptions C16_reply_sudo.

Theorem C16_migrate : forall va ms msg, is_panic (migrate va ms msg) = false.
Proof. exact migrate_no_panic. Qed.
Print Assumptions C16_migrate.

(* the invariants assumed above hold in every state of every history; the domain contains the instantiated state *)
Theorem C16_invariants_reachable : forall va dv av e0 i0 m0 s0 r0 cs,
  instantiate va e0 i0 m0 = Ok (s0, r0) -> I_batches (after va dv av s0 cs) /\ I_requests (after va dv av s0 cs).
Proof. exact reachable_invariants. Qed.
Print Assumptions C16_invariants_reachable.

Theorem C16_domain_inhabited : forall va e i m s r, instantiate va e i m = Ok (s, r) -> dom_state s.
Proof. intros va e i m s r. exact (instantiate_in_domain va (fun _ _ _ => None) (fun _ => true) e i m s r). Qed.
Print Assumptions C16_domain_inhabited.

(* the rate computation is total on the whole stated range (no division by zero, no overflow) *)
Theorem C16_rates_total : forall x, rate_dom (total_native x) (total_lst x) -> get_rates x <> None.
Proof. intros x H. apply get_rates_safe. apply rate_dom_safe. exact H. Qed.
Print Assumptions C16_rates_total.

(* --- treasury: every message, every state, every sender --- *)
Theorem C16_treasury_instantiate : forall av e sender m, is_panic (tinstantiate av e sender m) = false.
Proof. exact tinstantiate_no_panic. Qed.
Print Assumptions C16_treasury_instantiate.

Theorem C16_treasury_execute : forall va av s e sender m, tenv_sane e -> is_panic (texecute va av s e sender m) = false.
Proof. exact texecute_no_panic. Qed.
Print Assumptions C16_treasury_execute.

Theorem C16_treasury_query : forall s, t_admin s <> None -> is_panic (tquery s) = false.
Proof. exact tquery_no_panic. Qed.
Print Assumptions C16_treasury_query.

Theorem C16_treasury_migrate : forall s, is_panic (tmigrate s) = false.
Proof. exact tmigrate_no_panic. Qed.
Print Assumptions C16_treasury_migrate.

Theorem C16_treasury_admin_forever : forall va av e0 sender0 m0 s0 r0 (calls : list (tenv * string * texecute_msg)),
  tinstantiate av e0 sender0 m0 = Ok (s0, r0) ->
  t_admin (fold_left (fun s c => match texecute va av s (fst (fst c)) (snd (fst c)) (snd c) with Ok (s', _) => s' | _ => s end) calls s0) <> None.
Proof. exact treasury_admin_forever. Qed.
Print Assumptions C16_treasury_admin_forever.
