(* C20 — Protobuf bindings are wire-compatible and type URLs are canonical.
   The tables gen_schema / gen_type_urls / gen_modtree are regenerated from /repo's prost sources on every run; ref_schema
   from osmosis-std (the independently generated Cosmos/IBC bindings in the cargo registry); baseline_schema is pinned. *)
From MW.Proto Require Import Codec Sample CodecProofs.
From MW.Gen Require Import Schema RefSchema ProtoTables.
From MW.Baseline Require Import BaselineSchema.
Open Scope N_scope.

(* --- the codec, for every schema, message type, nesting depth and value --- *)
Theorem C20_varint_roundtrip : forall n rest, n < 2 ^ 64 -> decode_varint VARINT_MAX_BYTES (varint n ++ rest) = Some (n, rest).
Proof. exact varint_roundtrip. Qed.
Print Assumptions C20_varint_roundtrip.

Theorem C20_wire_roundtrip : forall rs, Forall valid_record rs -> parse (enc_records rs) = Some rs.
Proof. exact parse_roundtrip. Qed.
Print Assumptions C20_wire_roundtrip.

Theorem C20_encode_decode_identity : forall Sc depth name m, typed Sc depth name m -> decode Sc depth name (encode m) = Some m.
Proof. exact typed_roundtrip. Qed.
Print Assumptions C20_encode_decode_identity.

Theorem C20_typedb_sound : forall Sc depth name m, typedb Sc depth name m = true -> typed Sc depth name m.
Proof. exact typedb_sound. Qed.
Print Assumptions C20_typedb_sound.

(* every one of the bindings' message types has a value with its fields populated that meets the hypotheses above
   (non-vacuity, for each type), and the round trip on it computes *)
Theorem C20_every_type_inhabited :
  forallb (fun nd => typedb gen_schema 5 (fst nd) (sample gen_schema 4 1 (fst nd))) gen_schema = true.
Proof. vm_compute. reflexivity. Qed.
Print Assumptions C20_every_type_inhabited.

(* --- the regenerated tables --- *)
Theorem C20_schema_wf : schema_wf gen_schema = true.
Proof. vm_compute. reflexivity. Qed.
Print Assumptions C20_schema_wf.

(* field numbers, wire types, cardinalities and names agree with the independently generated bindings on every shared
   message, and with the pinned baseline on every message (in both directions, so a renumbered field is caught) *)
Theorem C20_reference_compat : schema_compat gen_schema ref_schema = true.
Proof. vm_compute. reflexivity. Qed.
Print Assumptions C20_reference_compat.

Theorem C20_baseline_compat : schema_compat gen_schema baseline_schema = true /\ schema_compat baseline_schema gen_schema = true.
Proof. split; vm_compute; reflexivity. Qed.
Print Assumptions C20_baseline_compat.

(* nothing the pinned description has is lost: every message is still bound, and every field of it is still decoded at
   its tag (a field or oneof alternative the bindings stop dispatching is dropped silently when decoding) *)
Theorem C20_baseline_retained : schema_covers gen_schema baseline_schema = true.
Proof. vm_compute. reflexivity. Qed.
Print Assumptions C20_baseline_retained.
Theorem C20_retained_meaning : forall (S R : schema) n r g,
  schema_covers S R = true -> In (n, r) R -> In g r ->
  exists d f, lookup_msg S n = Some d /\ lookup_field d (fd_tag g) = Some f.
Proof. exact schema_covers_spec. Qed.
Print Assumptions C20_retained_meaning.

Theorem C20_compat_meaning : forall (S R : schema) n d r f g,
  schema_compat S R = true -> In (n, d) S -> lookup_msg R n = Some r -> In f d ->
  (lookup_field r (fd_tag f) = Some g -> same_wire f g) /\ (lookup_name r (fd_name f) = Some g -> fd_tag f = fd_tag g).
Proof. intros S R n d r f g H1 H2 H3 H4. split; [exact (schema_compat_spec S R n d r f g H1 H2 H3 H4) | exact (schema_compat_names S R n d r f g H1 H2 H3 H4)]. Qed.
Print Assumptions C20_compat_meaning.

(* equal values yield byte-identical encodings: the encoder reads nothing but the value's tags and payloads *)
Theorem C20_encoding_schema_independent : forall (S R : schema) depth name m,
  typed S depth name m -> typed R depth name m -> decode S depth name (encode m) = decode R depth name (encode m).
Proof. intros S R depth name m H1 H2. rewrite (typed_roundtrip S _ _ _ H1), (typed_roundtrip R _ _ _ H2). reflexivity. Qed.
Print Assumptions C20_encoding_schema_independent.

(* --- type URLs and the module tree --- *)
Definition url_ok (e : string * string * string) : bool :=
  let '(_, fq, url) := e in negb (String.eqb fq "") && String.eqb url (canonical_url fq).
Theorem C20_type_urls_canonical : forallb url_ok gen_type_urls = true.
Proof. vm_compute. reflexivity. Qed.
Print Assumptions C20_type_urls_canonical.

(* every enumeration's default as the bindings see it (prost: the first declared variant) is protobuf's default, the
   value 0 -- otherwise a field holding the first variant is omitted on the wire and an absent field reads as it *)
Theorem C20_enum_defaults_are_zero : forallb (fun e => snd e =? 0) gen_enum_first = true.
Proof. vm_compute. reflexivity. Qed.
Print Assumptions C20_enum_defaults_are_zero.

(* no field of the bindings carries an explicit default value (proto3 has none: a field is omitted exactly when it holds
   the zero value of its type) *)
Theorem C20_no_explicit_defaults : gen_explicit_defaults = [].
Proof. reflexivity. Qed.
Print Assumptions C20_no_explicit_defaults.

Theorem C20_module_tree_mirrors_packages : forallb (fun e => String.eqb (fst e) (snd e)) gen_modtree = true.
Proof. vm_compute. reflexivity. Qed.
Print Assumptions C20_module_tree_mirrors_packages.

Theorem C20_any_roundtrip : forall Sc depth name url m,
  typed Sc depth name m -> from_any Sc depth name url (to_any url (encode m)) = Some m.
Proof. exact any_roundtrip. Qed.
Print Assumptions C20_any_roundtrip.

Theorem C20_any_rejects_mismatch : forall Sc depth name url a, any_url a <> url -> from_any Sc depth name url a = None.
Proof. exact any_mismatch. Qed.
Print Assumptions C20_any_rejects_mismatch.
