(* C07 — outbound IBC transfers are tracked and recovered without loss or duplication (contract level, and at the end of
   this file the correspondence between the chain's packet table and the contract's records over whole histories of
   the world model of World.v, whose chain semantics -- atomic transactions, a reply per accepted transfer, sudo
   callbacks for settlements -- are assumed). *)
From MW Require Import Staking World.
From MW.Proofs Require Import Tactics Handlers Maps Invariant Pagination Recovery WorldProofs WaitQ.
From MW.Gen Require Import Consts.
Open Scope N_scope.

Theorem C07_constants : src_recover_page_size = PAGE_SIZE /\ src_staking_ibc_timeout_ns = IBC_TIMEOUT_NS.
Proof. split; reflexivity. Qed.
Print Assumptions C07_constants.

(* the packet-table invariant (sorted by sequence, each record stored under its own sequence) holds after
   instantiation and is preserved by execute / reply / sudo *)
Theorem C07_invariant :
  (forall va e i m s r, instantiate va e i m = Ok (s, r) -> I_packets s)
  /\ (forall va dv av s e i m s' r, I_packets s -> execute va dv av s e i m = Ok (s', r) -> I_packets s')
  /\ (forall s id rr s' r, I_packets s -> reply s id rr = Ok (s', r) -> I_packets s')
  /\ (forall s m s' r, I_packets s -> sudo s m = Ok (s', r) -> I_packets s').
Proof.
  split; [exact instantiate_I_packets|]. split; [exact execute_preserves_I_packets|].
  split; [exact reply_preserves_I_packets | exact sudo_preserves_I_packets].
Qed.
Print Assumptions C07_invariant.

(* RecoverPendingIbcTransfers: one sub-message — an IBC transfer of (denom, sum of the selected amounts) to the
   requested receiver (default: the staker), asking for a reply; the selected packets are a non-empty,
   duplicate-free set of recorded packets of that receiver and that denom; without an explicit selection they
   are exactly the first <= 10 (paginated) or all refundable packets of the receiver in sequence order, none of
   them still in flight; an explicit selection requires the admin; all of them are removed, the new transfer
   is announced under a fresh reply id; nothing else changes *)
Theorem C07_recover : forall va dv av s e i pg sel rcvo s' r,
  I_packets s ->
  execute va dv av s e i (RecoverPendingIbcTransfers pg sel rcvo) = Ok (s', r) ->
  exists rcv ps d maxid,
    let total := packets_total ps in
    let c := {| c_denom := d; c_amount := total |} in
    ps <> []
    /\ (match rcvo with Some x => va x (nc_prefix (native (cfg s))) = true /\ rcv = x | None => rcv = nc_staker (native (cfg s)) end)
    /\ (forall p, In p ps -> nfind (p_seq p) (inflight s) = Some p /\ p_receiver p = rcv /\ c_denom (p_coin p) = d)
    /\ NoDup (map p_seq ps)
    /\ match sel with
       | Some ids => admin s = Some (sender i) /\ map p_seq ps = ids
       | None => ps = paginate (inflight s) None (if opt_default false pg then Some PAGE_SIZE else None) (recover_filter rcv)
                 /\ (forall p, In p ps -> refundable (p_status p) = true)
       end
    /\ nlast_key (inflight s) = Some maxid
    /\ inflight s' = fold_left (fun m p => nremove (p_seq p) m) ps (inflight s)
    /\ (forall p, In p ps -> nfind (p_seq p) (inflight s') = None)
    /\ waitq s' = ninsert (maxid + 1) {| w_coin := c; w_receiver := rcv |} (waitq s)
    /\ cfg s' = cfg s /\ st s' = st s /\ batches s' = batches s /\ requests s' = requests s
    /\ r = [transfer_sub s e (maxid + 1) rcv c (now_ns e + IBC_TIMEOUT_NS)].
Proof. exact recover_spec. Qed.
Print Assumptions C07_recover.

Theorem C07_stray_noop : forall s m,
  match m with
  | SAck ch seq _ | STimeout ch seq => ch <> pc_channel (protocol (cfg s)) \/ nfind seq (inflight s) = None
  end -> sudo s m = Ok (s, []).
Proof. exact stray_noop. Qed.
Print Assumptions C07_stray_noop.

Theorem C07_ack : forall s seq p,
  nfind seq (inflight s) = Some p ->
  sudo s (SAck (pc_channel (protocol (cfg s))) seq true) = Ok (set_inflight s (nremove seq (inflight s)), [])
  /\ sudo s (SAck (pc_channel (protocol (cfg s))) seq false) = Ok (set_inflight s (ninsert seq (set_pstatus p AckFailure) (inflight s)), [])
  /\ sudo s (STimeout (pc_channel (protocol (cfg s))) seq) = Ok (set_inflight s (ninsert seq (set_pstatus p TimedOut) (inflight s)), []).
Proof. exact ack_spec. Qed.
Print Assumptions C07_ack.

Theorem C07_reply : forall s id rr,
  match nfind id (waitq s), rr with
  | Some w, ROk seq =>
      reply s id rr = Ok (set_inflight (set_waitq s (nremove id (waitq s)))
                            (ninsert seq {| p_seq := seq; p_coin := w_coin w; p_receiver := w_receiver w; p_status := Sent |} (inflight s)), [])
  | _, _ => exists k, reply s id rr = Err k
  end.
Proof. exact reply_spec. Qed.
Print Assumptions C07_reply.

Theorem C07_transfers_have_callback_and_timeout : forall va dv av s e i m s' r,
  execute va dv av s e i m = Ok (s', r) -> forall sm, In sm r -> is_transfer sm = true -> well_formed_transfer s e sm.
Proof. exact transfers_have_callback_and_timeout. Qed.
Print Assumptions C07_transfers_have_callback_and_timeout.

(* --- the world --- *)
(* W_inv: at every transaction boundary the contract's record table is exactly the image of the chain's packets that
   are still tracked (a packet stops being tracked by its success acknowledgement or by a recovery that names it): same
   sequence, coin and receiver; Sent while in flight, AckFailure / TimedOut once refunded; sequences are unique. It holds
   after instantiation and is kept by every event as long as the channel is not reconfigured. *)
Theorem C07_world_invariant : forall va dv av e i m s r evs,
  instantiate va e i m = Ok (s, r) -> events_ok va dv av (routing_kept va dv av) (world0 s) evs ->
  W_inv (wrun va dv av (world0 s) evs).
Proof. intros va dv av e i m s r evs H Hok. apply wrun_inv; [eapply world0_inv; exact H | exact Hok]. Qed.
Print Assumptions C07_world_invariant.

(* every record stands for a packet of the chain that has not been delivered, with the same coin and receiver *)
Theorem C07_record_has_packet : forall w k q,
  W_inv w -> nfind k (inflight (w_store w)) = Some q ->
  exists p, In p (w_packets w) /\ wp_seq p = k /\ wp_coin p = p_coin q /\ wp_receiver p = p_receiver q
            /\ p_seq q = k /\ p_status q = status_of (wp_state p) /\ wp_state p <> Delivered.
Proof. exact recorded_until_settled. Qed.
Print Assumptions C07_record_has_packet.

(* every tracked packet is recorded, with the status that matches its fate *)
Theorem C07_packet_is_recorded : forall w p,
  W_inv w -> In p (w_packets w) -> wp_tracked p = true ->
  nfind (wp_seq p) (inflight (w_store w))
  = Some {| p_seq := wp_seq p; p_coin := wp_coin p; p_receiver := wp_receiver p; p_status := status_of (wp_state p) |}.
Proof. exact flight_is_recorded. Qed.
Print Assumptions C07_packet_is_recorded.

(* a transaction one of whose messages the chain refuses leaves the world as it was *)
Theorem C07_refused_transaction_changes_nothing : forall va dv av w e i m, wstep va dv av w (WExecRefused e i m) = w.
Proof. reflexivity. Qed.
Print Assumptions C07_refused_transaction_changes_nothing.

(* between transactions no submission is left waiting for its reply: every transfer a committed transaction announced has
   been answered (and recorded), and a transaction whose transfer is refused does not commit at all *)
Theorem C07_no_dangling_submission : forall va dv av e i m s r evs,
  instantiate va e i m = Ok (s, r) -> events_ok va dv av (routing_kept va dv av) (world0 s) evs ->
  waitq (w_store (wrun va dv av (world0 s) evs)) = [].
Proof.
  intros va dv av e i m s r evs H Hok. apply wrun_waitq; [eapply world0_inv; exact H | exact Hok|].
  cbn [world0 w_store]. unfold instantiate in H. inv_ok H. inversion H; subst. reflexivity.
Qed.
Print Assumptions C07_no_dangling_submission.
