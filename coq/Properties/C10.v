(* C10 — circuit breaker halts all value-moving user operations. *)
From MW Require Import Staking.
From MW.Proofs Require Import Tactics Handlers Authz.
From MW.Properties Require Import C08.
Open Scope N_scope.

Theorem C10_instantiate_halted : forall va e i m s r,
  instantiate va e i m = Ok (s, r) -> stopped (cfg s) = true.
Proof. exact instantiate_halted. Qed.
Print Assumptions C10_instantiate_halted.

(* while halted the six value-moving messages return a typed error (never Ok, never a panic),
   for every store, sender, funds and argument; an error persists nothing *)
Theorem C10_halted_blocks : forall va dv av s e i m,
  stopped (cfg s) = true -> value_moving m = true -> exists k, execute va dv av s e i m = Err k.
Proof. exact halted_blocks. Qed.
Print Assumptions C10_halted_blocks.

Theorem C10_value_moving_list : forall m,
  value_moving m = true <->
  match m with
  | LiquidStake _ _ _ | LiquidUnstake | SubmitBatch | Withdraw _ | ReceiveRewards | ReceiveUnstakedTokens _ => True
  | _ => False
  end.
Proof. intros m. destruct m; cbn; intuition discriminate. Qed.
Print Assumptions C10_value_moving_list.

(* halting: admin or a monitor; the resulting store is the old one with only the flag set; no messages *)
Theorem C10_breaker_spec : forall va dv av s e i s' r,
  execute va dv av s e i CircuitBreaker = Ok (s', r) ->
  (admin s = Some (sender i) \/ In (sender i) (monitors (cfg s)))
  /\ s' = set_cfg s (set_stopped (cfg s) true) /\ r = [].
Proof. exact breaker_spec. Qed.
Print Assumptions C10_breaker_spec.

(* ... and conversely the admin and ANY configured monitor can halt, in every state *)
Theorem C10_any_monitor_can_halt : forall va dv av s e i,
  (admin s = Some (sender i) \/ In (sender i) (monitors (cfg s))) ->
  execute va dv av s e i CircuitBreaker = Ok (set_cfg s (set_stopped (cfg s) true), []).
Proof. exact breaker_complete. Qed.
Print Assumptions C10_any_monitor_can_halt.

(* resuming: admin only; exactly the three totals are replaced and the flag cleared; every other
   field (fees, owner hand-over, config, batches, requests, packets) is the old one;
   the only message is the oracle post of the new rates *)
Theorem C10_resume_spec : forall va dv av s e i n l rw s' r,
  execute va dv av s e i (ResumeContract n l rw) = Ok (s', r) ->
  admin s = Some (sender i)
  /\ s' = set_st (set_cfg s (set_stopped (cfg s) false)) (set_totals (st s) n l rw (total_fees (st s)))
  /\ oracle_msgs s' e = Ok r.
Proof. exact resume_spec. Qed.
Print Assumptions C10_resume_spec.

Example C10_example :
  let halted := set_cfg ex_store (set_stopped (cfg ex_store) true) in
  let ex := fun s => execute (fun _ _ => true) (fun _ _ _ => None) (fun _ => true) s
                 {| now_ns := 20000000000; txi := None; self := "me" |}
                 {| sender := "osmo123456789012345678901234567890123456789"; funds := [{| c_denom := "ibc/x"; c_amount := 5 |}] |}
                 (LiquidStake None None None) in
  is_ok (ex ex_store) = true /\ is_ok (ex halted) = false /\ is_panic (ex halted) = false.
Proof. vm_compute. repeat split; reflexivity. Qed.
