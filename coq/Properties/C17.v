(* C17 — queries paginate completely and the per-user request index is consistent. *)
From MW Require Import Staking.
From MW.Proofs Require Import Tactics Maps Invariant Pagination Queries.
Open Scope N_scope.

(* one page = the first `limit` matches after the exclusive cursor, strictly ascending by key, each a real entry *)
Theorem C17_page_spec : forall (A : Type) (m : nmap A) sa lim f,
  sorted m ->
  page_kv m sa lim f = firstn (N.to_nat (opt_default u32_max lim)) (matches m sa f)
  /\ sorted (page_kv m sa lim f)
  /\ (forall k v, In (k, v) (page_kv m sa lim f) -> nfind k m = Some v /\ f v = true /\ forall k0, sa = Some k0 -> k0 < k).
Proof. intros A. exact (@page_spec A). Qed.
Print Assumptions C17_page_spec.

(* paging with any page size >= 1, from any start cursor, with any filter, "cursor := key of the last item
   returned, stop on an empty page", yields every matching entry exactly once, in ascending key order
   (= the filtered, strictly sorted map after the cursor); no bound on the number of entries or pages *)
Theorem C17_pages_cover_exactly_once : forall (A : Type) (m : nmap A) start lim f fuel,
  sorted m -> 1 <= lim -> (List.length (matches m start f) < fuel)%nat ->
  pages fuel m start lim f = matches m start f.
Proof. intros A. exact (@pages_cover_exactly_once A). Qed.
Print Assumptions C17_pages_cover_exactly_once.

(* the queries return exactly those pages (values of the key/value page), for Batches with a status filter
   and for the in-flight transfer queue; in reachable stores both maps are sorted and keyed by id / sequence *)
Theorem C17_batches_query : forall s sa lim st rs,
  query s (QBatches sa lim st) = Ok (RBatches rs) ->
  map_result batch_to_response (map snd (page_kv (batches s) sa lim (status_filter st))) = Ok rs.
Proof. exact query_batches_spec. Qed.
Print Assumptions C17_batches_query.

Theorem C17_ibc_queue_query : forall s sa lim ps,
  query s (QIbcQueue sa lim) = Ok (RIbcQueue ps) -> ps = map snd (page_kv (inflight s) sa lim (fun _ => true)).
Proof. exact query_ibc_queue_spec. Qed.
Print Assumptions C17_ibc_queue_query.

Theorem C17_response_fields : forall b rsp,
  batch_to_response b = Ok rsp ->
  br_id rsp = b_id b /\ br_total rsp = b_total b /\ br_status rsp = b_status b
  /\ br_expected rsp = opt_default 0 (b_expected b) /\ br_received rsp = opt_default 0 (b_received b).
Proof. exact batch_to_response_ok. Qed.
Print Assumptions C17_response_fields.

(* BatchesByIds: exactly the existing requested batches, in request order *)
Theorem C17_by_ids : forall s ids rs,
  query s (QBatchesByIds ids) = Ok (RBatches rs) -> map_result batch_to_response (existing s ids) = Ok rs.
Proof. exact query_by_ids_spec. Qed.
Print Assumptions C17_by_ids.
Theorem C17_existing : forall s ids b, In b (existing s ids) <-> exists k, In k ids /\ nfind k (batches s) = Some b.
Proof. exact existing_spec. Qed.
Print Assumptions C17_existing.

(* UnstakeRequests: exactly the user's open requests with their current amounts; in reachable stores one per
   batch and ascending by batch *)
Theorem C17_unstake_requests : forall s u rs,
  query s (QUnstakeRequests u) = Ok (RRequests rs) -> rs = filter (fun r => String.eqb (r_user r) u) (requests s).
Proof. exact query_requests_spec. Qed.
Print Assumptions C17_unstake_requests.
Theorem C17_user_requests_sorted : forall s u,
  I_requests s ->
  let rs := filter (fun r => String.eqb (r_user r) u) (requests s) in
  batch_sorted rs /\ NoDup (map r_batch rs) /\ (forall r, In r rs <-> In r (requests s) /\ r_user r = u).
Proof. exact user_requests_sorted. Qed.
Print Assumptions C17_user_requests_sorted.

Example C17_example :
  let m : nmap N := [(1, 10); (2, 20); (4, 40); (7, 70); (9, 90)] in
  pages 10 m (Some 1) 2 (fun v => negb (v =? 40)) = [(2, 20); (7, 70); (9, 90)].
Proof. vm_compute. reflexivity. Qed.

(* AllUnstakeRequests / AllUnstakeRequestsV2 walk the by-user index: the rows after the cursor key ("", start_after),
   at most `limit` of them; with no cursor and no limit every open request exactly once, in index-key order
   (length of user, user bytes, batch id) *)
From Coq Require Import Permutation Sorted.
Theorem C17_all_requests : forall s sa lim rs,
  (query s (QAllRequests sa lim) = Ok (RRequests rs) \/ query s (QAllRequestsV2 sa lim) = Ok (RRequests rs)) ->
  rs = all_requests (requests s) sa lim.
Proof. exact query_all_requests_spec. Qed.
Print Assumptions C17_all_requests.
Theorem C17_all_requests_complete : forall rs,
  N.of_nat (List.length rs) <= u32_max ->
  Permutation (all_requests rs None None) rs
  /\ Sorted (fun a b => req_index_le a b = true) (all_requests rs None None).
Proof. exact all_requests_complete. Qed.
Print Assumptions C17_all_requests_complete.
Example C17_all_requests_example :
  all_requests [ {| r_batch := 2; r_user := "osmo1zz"; r_amount := 5 |}; {| r_batch := 1; r_user := "osmo1zz"; r_amount := 7 |};
                 {| r_batch := 2; r_user := "osmo1a"; r_amount := 9 |}; {| r_batch := 1; r_user := "osmo1abcd"; r_amount := 1 |} ]
               (Some 1) (Some 3)
  = [ {| r_batch := 2; r_user := "osmo1a"; r_amount := 9 |}; {| r_batch := 1; r_user := "osmo1zz"; r_amount := 7 |};
      {| r_batch := 2; r_user := "osmo1zz"; r_amount := 5 |} ].
Proof. vm_compute. reflexivity. Qed.
